(* C18 - Message log: filters mean what they say and the view equals the filtered log.
   Property theorems only: each is closed by [exact] and followed by [Print Assumptions].
   Models: Log/Filter.v (filter nodes, MatchResult, leaf semantics of the three entry
   classes, total operator table) and Log/LogView.v (FilteringMessageLogger), tied to
   hippolyzer/lib/proxy/message_filter.py and message_logger.py by the correspondence
   check of harness/props/c18.py (printed ASTs compiled by the real compile_filter,
   evaluated on real entries; logger operation sequences).
   Log/FilterSyntax.v models the concrete syntax: the PEG grammar + visitor of
   message_filter.py as a recursive-descent parser on explicit fuel ([parse], [compile])
   and the printer of the harness ([print]); the parser is tied to arpeggio by
   correspondence on printed, mutated and hand-written texts. *)
From Coq Require Import NArith ZArith List Bool.
From HV Require Import Log.Filter Log.LogView Log.FilterProofs Log.LogViewProofs.
From HV Require Import Log.FilterSyntax Log.FilterSyntaxProofs.
From Coq Require Import Ascii.
Import ListNotations.
Local Open Scope char_scope.

(* ---- filters mean what they say ------------------------------------ *)

(* Whenever node.match(entry, short_circuit) can be given a truth value, it is the
   value of the boolean combination the expression denotes ([denote]: the boolean
   homomorphism over the truth of the leaves), for both short_circuit values. *)
Theorem C18_bool_semantics : forall sc f e b fl,
  eval sc f e = Ok b fl -> b = denote f e.
Proof. exact bool_semantics. Qed.
Print Assumptions C18_bool_semantics.

(* short-circuit and full evaluation agree (the matched-field lists may differ) *)
Theorem C18_sc_agree : forall f e b1 fl1 b2 fl2,
  eval true f e = Ok b1 fl1 -> eval false f e = Ok b2 fl2 -> b1 = b2.
Proof. exact sc_agree. Qed.
Print Assumptions C18_sc_agree.

(* ... and short-circuit evaluation answers whenever full evaluation does *)
Theorem C18_sc_of_full : forall f e b fl,
  eval false f e = Ok b fl -> exists fl', eval true f e = Ok b fl'.
Proof. exact sc_of_full. Qed.
Print Assumptions C18_sc_of_full.

(* the converse is false: full evaluation evaluates operands that short-circuit
   evaluation skips, and an ill-formed operand (unknown enum) raises *)
Theorem C18_full_of_sc_refuted :
  let f := Or (Leaf FOO [] None) w_filter_bogus in
  eval true f w_entry_bytes = Ok true [] /\ eval false f w_entry_bytes = Err XAttr.
Proof. exact full_of_sc_refuted. Qed.
Print Assumptions C18_full_of_sc_refuted.

(* "Fine since fields should be empty when result=False" *)
Theorem C18_false_no_fields : forall sc f e fl, eval sc f e = Ok false fl -> fl = [].
Proof. exact false_no_fields. Qed.
Print Assumptions C18_false_no_fields.

(* A field comparison Msg.Block.Var [op value] on an LLUDP entry is true iff the
   message name/type matches and some selected field satisfies it; every reported
   field is a selected field that satisfies it.  Same for Msg.Block.Var.Subfield. *)
Theorem C18_leaf_exists : forall sc e s0 bp vp ov b fl,
  e_kind e = KLLUDP -> seq_eqb s0 META = false ->
  leaf_match sc e s0 [bp; vp] ov = Ok b fl ->
  b = root_matches e s0 && existsb (fun kv => field_sat e None ov (snd kv)) (sel_fields e bp vp)
  /\ forall k, In k fl -> exists v, In (k, v) (sel_fields e bp vp) /\ field_sat e None ov v = true.
Proof. exact leaf_exists3. Qed.
Print Assumptions C18_leaf_exists.

Theorem C18_leaf_exists_subfield : forall sc e s0 bp vp kp ov b fl,
  e_kind e = KLLUDP -> seq_eqb s0 META = false ->
  leaf_match sc e s0 [bp; vp; kp] ov = Ok b fl ->
  b = root_matches e s0 && existsb (fun kv => field_sat e (Some kp) ov (snd kv)) (sel_fields e bp vp)
  /\ forall k, In k fl -> exists v, In (k, v) (sel_fields e bp vp) /\ field_sat e (Some kp) ov v = true.
Proof. exact leaf_exists4. Qed.
Print Assumptions C18_leaf_exists_subfield.

(* Never an error: for every well-formed filter ([safe]: every expected value is a
   literal, a single-level Meta reference or an enum reference that resolves),
   evaluation never raises, on any entry, whatever the types of the fields are - a
   comparison that cannot be applied is simply false. *)
Theorem C18_never_error : forall f, safe f = true ->
  forall sc e, exists b fl, eval sc f e = Ok b fl.
Proof. exact never_error. Qed.
Print Assumptions C18_never_error.

(* the operator table itself is total *)
Theorem C18_apply_op_total : forall o a b, exists r, apply_op o a b = OB r.
Proof. exact apply_op_total. Qed.
Print Assumptions C18_apply_op_total.

(* `!=` is the complement of `==` for every pair of values *)
Theorem C18_ne_complement : forall a b,
  apply_op OEq a b = OB (py_eq a b) /\ apply_op ONe a b = OB (negb (py_eq a b)).
Proof. exact ne_complement. Qed.
Print Assumptions C18_ne_complement.

(* outside the quantifier: an ill-formed expected value raises when it is resolved *)
Theorem C18_ill_formed_raises :
  safe w_filter_bogus = false /\
  eval true w_filter_bogus w_entry_bytes = Err XAttr /\ eval false w_filter_bogus w_entry_bytes = Err XAttr.
Proof. exact ill_formed_raises. Qed.
Print Assumptions C18_ill_formed_raises.

(* ---- the concrete syntax means the tree -------------------------------- *)

(* The grammar reads every printed filter back as the tree that was printed:
   [parse rs (print f) = Some f] for every well-formed f.  [wf rs f] =
   [wf_syntax f = true] (every selector part, Meta name and enum part matches the
   identifier rule [a-zA-Z*][a-zA-Z0-9_*-]*; a Meta reference has at least one name; an
   enum name does not begin with None / True / False - the grammar matches these
   keywords as plain prefixes - and is not Meta; an expected literal is None, True,
   False, a non-negative int, a float that repr writes in positional notation and that
   reads back as itself, a str or bytes over code points below 256, or a tuple of three
   or four such ints / floats) and [enums_by rs f] (what an enum reference resolves to
   is not in the text: the tree carries the resolution the resolver gives). *)
Theorem C18_parse_print : forall rs f, wf rs f -> parse rs (print f) = Some f.
Proof. exact parse_print. Qed.
Print Assumptions C18_parse_print.

(* ... and it is insensitive to layout: every rendering of f - the printed token
   sequence with arbitrary whitespace (space, tab, newline, return) before, after
   and between the tokens (around the dots of a selector and of a Meta / enum
   reference, around the operator, the connectives, the bang and the parentheses), and
   with any number of redundant parentheses around sub-expressions - parses to f. *)
Theorem C18_parse_rendering : forall rs f s, wf rs f -> renders f s -> parse rs s = Some f.
Proof. exact parse_rendering. Qed.
Print Assumptions C18_parse_rendering.

(* the printed text is one of the renderings *)
Theorem C18_print_renders : forall f, renders f (print f).
Proof. exact print_renders. Qed.
Print Assumptions C18_print_renders.

Theorem C18_parse_print_spaced : forall rs f w1 w2, wf rs f -> ws_only w1 -> ws_only w2 ->
  parse rs (w1 ++ print f ++ w2) = Some f.
Proof. exact parse_print_spaced. Qed.
Print Assumptions C18_parse_print_spaced.

(* compile_filter itself (strip, the empty filter is the star, a lone bang is bang star,
   then the grammar) reads the printed filter back as well *)
Theorem C18_compile_print : forall rs f, wf rs f -> compile rs (print f) = Some f.
Proof. exact compile_print. Qed.
Print Assumptions C18_compile_print.

(* so what a printed filter evaluates to after parsing is what the tree evaluates to *)
Theorem C18_eval_parse_print : forall rs f, wf rs f ->
  forall sc e, option_map (fun g => eval sc g e) (parse rs (print f)) = Some (eval sc f e).
Proof. exact eval_parse_print. Qed.
Print Assumptions C18_eval_parse_print.

(* the grammar as coded: the connectives nest to the right whatever they are (there is
   no precedence between && and ||), the two-character operators win over > < &, and
   the lone & operator is tried before && and backtracked *)
Theorem C18_grammar_facts :
  parse ex_rs txt_and_or = Some (And (leaf0 ["a"]) (Or (leaf0 ["b"]) (leaf0 ["c"]))) /\
  parse ex_rs txt_or_and = Some (Or (leaf0 ["a"]) (And (leaf0 ["b"]) (leaf0 ["c"]))) /\
  parse ex_rs txt_ge = Some (Leaf (id_ ["F"; "o"; "o"]) [] (Some (OGe, VLit (PNum (mkNum KI 1 1))))) /\
  parse ex_rs txt_amp = Some (And (leaf0 ["F"; "o"; "o"]) (leaf0 ["b"; "a"; "r"])).
Proof. exact ex_grammar_facts. Qed.
Print Assumptions C18_grammar_facts.

(* outside well-formedness the text does not mean the tree: an enum whose name begins
   with None has no parse, an enum called Meta is read as a Meta reference, a negative
   int and a str with a code point above 255 cannot be written as literals *)
Theorem C18_parse_print_wf_needed :
  wf_syntax bad_enum_none = false /\ parse ex_rs (print bad_enum_none) = None /\
  wf_syntax bad_enum_meta = false /\
  parse ex_rs (print bad_enum_meta) = Some (Leaf (id_ ["a"]) [] (Some (OEq, VMeta [id_ ["X"]]))) /\
  wf_syntax bad_negative = false /\ parse ex_rs (print bad_negative) <> Some bad_negative /\
  wf_syntax bad_wide = false /\ parse ex_rs (print bad_wide) <> Some bad_wide.
Proof. exact ex_wf_needed. Qed.
Print Assumptions C18_parse_print_wf_needed.

(* ---- the view equals the filtered log -------------------------------- *)

(* For EVERY operation sequence {log, set filter (compilable or not, raising or not),
   pause, resume, clear} of distinct entries and every window size: the view is
   exactly the retained entries matching the current filter, in arrival order, without
   duplicates.  "Retained" = the window (at most maxlen newest entries logged while
   not paused since the last clear) plus the aged entries: those that fell out of the
   window while visible and have matched every filter installed since (LogView.gstep).
   A set_filter whose filter raises on a retained entry changes nothing. *)
Theorem C18_view_invariant :
  forall (E F : Type) (eid : E -> N) (mt : F -> E -> option bool) (maxlen : nat) f0 ops,
  NoDup (map eid (logged E F ops)) ->
  let s := run E F eid mt maxlen f0 ops in
  let aged := snd (grun E F eid mt maxlen f0 ops) in
  view s = filter (mb E F mt (flt s)) (aged ++ raw s) /\
  forallb (mb E F mt (flt s)) aged = true /\
  NoDup (map eid (view s)) /\
  subseq (view s) (logged E F ops) /\
  subseq (aged ++ raw s) (logged E F ops) /\
  length (raw s) <= maxlen.
Proof. exact view_invariant. Qed.
Print Assumptions C18_view_invariant.

(* aged entries are no longer in the window *)
Theorem C18_aged_not_in_window :
  forall (E F : Type) (eid : E -> N) (mt : F -> E -> option bool) (maxlen : nat) f0 ops,
  NoDup (map eid (logged E F ops)) ->
  forall x, In x (snd (grun E F eid mt maxlen f0 ops)) ->
  in_raw E eid x (raw (run E F eid mt maxlen f0 ops)) = false.
Proof. exact aged_not_in_window. Qed.
Print Assumptions C18_aged_not_in_window.

(* maxlen 1: log e1, log e2 (e1 ages out while visible), set_filter with a filter that
   raises on e1: filter, view and window are unchanged *)
Theorem C18_set_filter_raise_keeps_state :
  let f0 := Leaf [42%N] [] None in
  let s := crun 1 f0 w_ops in
  flt s = f0 /\ map fst (view s) = [1%N; 2%N] /\ map fst (raw s) = [2%N].
Proof. exact set_filter_raise_keeps_state. Qed.
Print Assumptions C18_set_filter_raise_keeps_state.

(* ---- non-vacuity ------------------------------------------------------ *)

(* a safe filter with all three connectives that evaluates to true *)
Example C18_ex_safe_eval :
  let f := And (Leaf FOO [] None) (Or (Not (Leaf BAR [] None)) (Leaf FOO [BAR; BAZ] (Some (OLt, VLit (int_ 5))))) in
  safe f = true /\ eval false f w_entry_bytes = Ok true [] /\ denote f w_entry_bytes = true.
Proof. exact ex_safe_eval. Qed.

(* a comparison that cannot be applied to the field's type is simply false:
   bytes < int, bytes.startswith(str), int & bytes, 256 in bytes *)
Example C18_ex_inapplicable :
  apply_op OLt (PBytes None [97]%N) (int_ 5) = OB false /\
  apply_op OStarts (PBytes None [97]%N) (PStr [97]%N) = OB false /\
  apply_op OBand (int_ 5) (PBytes None [97]%N) = OB false /\
  apply_op OLt (int_ 1) (PNum (mkNum KF 3 2)) = OB true.
Proof. vm_compute. repeat split. Qed.

(* a field leaf with matched fields, short-circuit vs full *)
Example C18_ex_fields :
  let f := Leaf [42%N] [[42%N]; [42%N]] None in
  eval true f w_entry_two = Ok true [(BAR, 0%N, BAR)] /\
  eval false f w_entry_two = Ok true [(BAR, 0%N, BAR); (BAR, 0%N, BAZ)].
Proof. vm_compute. split; reflexivity. Qed.

(* an operation sequence with eviction, aging, re-filtering, pause and resume;
   window [3;5], view [1;2;3;5] *)
Example C18_ex_ops :
  NoDup (map (@fst N entry) (logged centry fexp ex_ops)) /\
  cobs (crun 2 (Leaf [42%N] [] None) ex_ops) = ([3%N; 5%N], [1%N; 2%N; 3%N; 5%N]).
Proof. exact ex_ops_ok. Qed.

(* the comparisons that used to raise are plain answers *)
Example C18_ex_former_errors :
  eval true w_filter_in w_entry_bytes = Ok false [] /\
  eval false w_filter_in w_entry_bytes = Ok false [] /\
  eval true w_filter_band w_entry_meta = Ok true [] /\
  eval false w_filter_band w_entry_meta = Ok true [].
Proof. exact former_errors. Qed.


(* a well-formed filter with every node kind (Leaf with and without comparison, Not on a
   bare selector and on a parenthesised expression, And, Or), every operator, and every
   kind of expected value (None, True, False, int, float, str with both quotes, a
   backslash, a newline and Latin-1 characters, bytes, 3- and 4-tuples, Meta, enum);
   its text is
   (Foo.Bar*.B-z_2 >= 0.1 && !Foo) || !(Meta.X & 255 && a == <str> || b != <bytes>) && * ~= (1, 2.5, 0)
   || c < (1, 2, 3, 0.25) || d ^= Meta.Sel || e $= Metadata.TORUS || f <= None || g > True || !(!(h == False)) *)
Example C18_ex_syntax :
  wf ex_rs ex_syntax_filter /\ parse ex_rs (print ex_syntax_filter) = Some ex_syntax_filter.
Proof. exact ex_syntax_ok. Qed.


(* ======================================================================
   export / import and freeze / thaw of log entries
   ====================================================================== *)
(* Models: Log/Export.v (Message.to_dict / from_dict, the Python-value -> LLSD dispatch of the
   notation formatter, AbstractMessageLogEntry.to_dict / apply_dict, LLUDP / EQ entry
   from_dict, export_log_entries / import_log_entries, LLUDPMessageLogEntry.freeze / message)
   over the LLSD tree, formatter and parser of property C12 (Llsd/*.v).  Tied to the code by
   the suites "message dict / notation", "entry export / import" and "freeze / thaw machine"
   of harness/props/c18.py.  Library oracles, explicit premises below: repr(float) / float(),
   the date strings (as in C12_not_roundtrip), repr / ast.literal_eval, gzip, pickle. *)
From HV Require Import Llsd.Llsd Llsd.LlsdNotation Llsd.LlsdNotationParse Log.Export Log.ExportProofs.
Local Open Scope N_scope.

(* Message.from_dict(m.to_dict(extended=True)) is m up to bytes(extra); through the LLSD
   tree (what format_notation can carry and parse_notation builds) it is the normal form
   of m: coordinates, tuples and bytearrays have become lists, stringy / raw bytes plain
   bytes, UUIDs uuid.UUID - block lists (the present-but-empty ones included), their
   order, variable order, packet id, meta, flags, direction, extra and acks are kept.
   The normal form exports to the same tree, is a fixed point, and stays well formed. *)
Theorem C18_dict_roundtrip : forall m,
  wf_msg m = true ->
  from_dict (to_dict true m) = Some (plain_extra m)
  /\ from_dict (norm (to_dict true m)) = Some (norm_msg m)
  /\ msg_tree (norm_msg m) = msg_tree m
  /\ norm_msg (norm_msg m) = norm_msg m
  /\ wf_msg (norm_msg m) = true.
Proof. exact dict_roundtrip. Qed.
Print Assumptions C18_dict_roundtrip.

(* the short dict form (templated messages on the event queue) keeps name and blocks *)
Theorem C18_dict_roundtrip_short : forall m,
  wf_msg m = true ->
  from_dict (to_dict false m) = Some (mkMsg (m_name m) (m_blocks m) None [] false true DOut 0%Z BPlain [] STuple []).
Proof. exact from_dict_to_dict_short. Qed.
Print Assumptions C18_dict_roundtrip_short.

(* nothing at all is lost on a message whose values are plain (None, bool, int, float, str,
   bytes, uuid.UUID, lists and dicts of those) *)
Theorem C18_dict_roundtrip_plain : forall m,
  wf_msg m = true -> plain_msg m = true -> from_dict (norm (to_dict true m)) = Some m.
Proof. exact dict_roundtrip_plain. Qed.
Print Assumptions C18_dict_roundtrip_plain.

(* a value comes back unchanged exactly when it is plain *)
Theorem C18_value_fixed_iff_plain : forall v, norm v = v <-> plain v = true.
Proof. exact norm_fixed_iff. Qed.
Print Assumptions C18_value_fixed_iff_plain.

(* FULL-STRENGTH CLAIM, FALSE OF THE CODE:  forall m, from_dict (norm (to_dict true m)) = Some m.
   The class of a Vector3, of JankStringyBytes, of a hippolyzer UUID, tuple vs list and a
   bytearray are lost by the dict / notation leg; for template-conformant messages the import
   restores them from the template (C18_import_exact, since fix 23066bc); for a hand-built
   message outside the template they stay lost, as here. *)
Theorem C18_dict_classes_lost_refuted :
  wf_msg lossy_msg = true
  /\ norm_msg lossy_msg =
     mkMsg [70] [([66], [[([86], YSeq SList [YFloat 0; YFloat 0; YFloat 0]); ([74], YBytes BPlain [97; 0]);
                          ([85], YUuid UStd [0;0;0;0;0;0;0;0;0;0;0;0;0;0;0;5]); ([84], YSeq SList [YInt 1]);
                          ([65], YSeq SList [YInt 120; YInt 121])]])]
           (Some 1%Z) [] false false DOut 0%Z BPlain [1] SList [YInt 2]
  /\ norm_msg lossy_msg <> lossy_msg.
Proof. exact classes_lost. Qed.
Print Assumptions C18_dict_classes_lost_refuted.

(* the notation leg: Message.from_dict(parse_notation(format_notation(m.to_dict(extended=True))))
   under exactly C12_not_roundtrip's hypotheses on the exported tree *)
Theorem C18_msg_notation_roundtrip : forall (rreal rdate : N -> list N) (preal pdate : list N -> option N),
  (forall b rest, stopb rest = true -> scan_real (rreal b ++ rest) = Some (rreal b, rest)) ->
  (forall b, forallb plain_byte (rdate b) = true) ->
  forall m, wf_msg m = true -> wfn (msg_tree m) = true -> oracles_ok rreal rdate preal pdate (msg_tree m) = true ->
  bind (of_notation preal pdate (notation rreal rdate (to_dict true m))) from_dict = Some (norm_msg m).
Proof. exact msg_notation_roundtrip. Qed.
Print Assumptions C18_msg_notation_roundtrip.

(* _restore_value_classes (since fix 23066bc): a message whose variables have the classes the
   deserializer gives them - per template kind [tk]: Vector3 / Vector4 / Quaternion of full
   arity for LLVector3(d) / LLVector4 / LLQuaternion variables, JankStringyBytes for Fixed /
   Variable variables that are not probably_binary and plain bytes for the others, hippolyzer
   UUIDs, plain values otherwise; plain meta and acks ([deser_classes]) - comes back from
   to_dict / notation / from_dict / restoration as ITSELF, up to extra being bytes and acks a
   list ([flat]), and compares equal under Message.__eq__ (same short dict form).
   The template facts [tk] are a parameter: the harness reads them off the live template for
   every case it runs (msgtypes / probably_binary), see TRUSTED. *)
Theorem C18_import_exact : forall (rreal rdate : N -> list N) (preal pdate : list N -> option N) (tk : tmpl),
  (forall b rest, stopb rest = true -> scan_real (rreal b ++ rest) = Some (rreal b, rest)) ->
  (forall b, forallb plain_byte (rdate b) = true) ->
  forall m, wf_msg m = true -> wfn (msg_tree m) = true -> oracles_ok rreal rdate preal pdate (msg_tree m) = true ->
  deser_classes tk m = true ->
  bind (bind (of_notation preal pdate (notation rreal rdate (to_dict true m))) from_dict) (restore_msg tk) = Some (flat m)
  /\ to_dict false (flat m) = to_dict false m.
Proof. exact msg_import_exact. Qed.
Print Assumptions C18_import_exact.

(* import_log_entries(export_log_entries([e1..en])) = [e1'..en'] in order, ei' the normal form
   of ei: the message normalised and its classes restored from the template (an event
   normalised), region name, agent id, summary (now cached) and meta kept (UUIDs through
   str() / UUID()).  LLUDP and EQ entries; hypotheses: per entry C12's well-formedness of the
   exported tree, the restoration does not raise (no array longer than its coordinate class),
   the three UUID-valued meta keys present and holding None or a 16-byte UUID; gzip and
   repr / literal_eval inverse on the one exported value. *)
Theorem C18_export_import : forall (rreal rdate : N -> list N) (preal pdate : list N -> option N)
    (summ : payload -> list N) (tk : tmpl) (pyrepr : yv -> list N) (pyeval : list N -> option yv)
    (gz : list N -> list N) (gunz : list N -> option (list N)),
  (forall b rest, stopb rest = true -> scan_real (rreal b ++ rest) = Some (rreal b, rest)) ->
  (forall b, forallb plain_byte (rdate b) = true) ->
  forall es, forallb (entry_ok rreal rdate preal pdate tk) es = true ->
  exists v es',
    export_payload rreal rdate summ es = Some v /\ mapM (norm_entry summ tk) es = Some es' /\ length es' = length es /\
    (gunz (gz (pyrepr v)) = Some (pyrepr v) -> pyeval (pyrepr v) = Some v ->
     export_log_entries rreal rdate summ pyrepr gz es = Some (gz (pyrepr v))
     /\ import_log_entries preal pdate tk pyeval gunz (gz (pyrepr v)) = Some es').
Proof. exact export_import. Qed.
Print Assumptions C18_export_import.

(* for an entry whose meta is what __init__ builds (the eight keys, hippolyzer UUIDs), the
   normal form keeps the meta exactly *)
Theorem C18_export_import_std : forall (summ : payload -> list N) (tk : tmpl) e,
  std_meta (le_payload e) (le_meta e) = true ->
  norm_entry summ tk e = match norm_payload tk (le_payload e) with
                         | Some p' => Some (mkLE (Some (region_name e)) (le_agent_id e) (Some (summary summ e)) (le_meta e) p')
                         | None => None
                         end.
Proof. exact norm_entry_std. Qed.
Print Assumptions C18_export_import_std.

(* HEADLINE: a standard entry around a message with the deserializer's classes - every entry
   the proxy logs from the wire - or around an event as the llsd parsers build it comes back
   EXACTLY: import(export e) = e with the summary cached, extra as bytes and acks as a list *)
Theorem C18_export_import_exact : forall (summ : payload -> list N) (tk : tmpl) e,
  std_meta (le_payload e) (le_meta e) = true -> exact_payload tk (le_payload e) = true ->
  norm_entry summ tk e = Some (mkLE (Some (region_name e)) (le_agent_id e) (Some (summary summ e)) (le_meta e)
                                    (flat_payload (le_payload e))).
Proof. exact export_import_exact. Qed.
Print Assumptions C18_export_import_exact.

(* ... such an entry, once imported, is standard, exact and well formed again and a fixed
   point: exporting and importing an imported log reproduces it *)
Theorem C18_export_import_stable : forall (rreal rdate : N -> list N) (preal pdate : list N -> option N)
    (summ : payload -> list N) (tk : tmpl) e e',
  entry_ok rreal rdate preal pdate tk e = true -> std_meta (le_payload e) (le_meta e) = true ->
  exact_payload tk (le_payload e) = true ->
  norm_entry summ tk e = Some e' ->
  entry_ok rreal rdate preal pdate tk e' = true /\ std_meta (le_payload e') (le_meta e') = true
  /\ exact_payload tk (le_payload e') = true /\ norm_entry summ tk e' = Some e'.
Proof. exact export_import_stable. Qed.
Print Assumptions C18_export_import_stable.

(* freeze then thaw gives the message as it was when frozen, for both variants of freeze();
   later changes of the live object are not seen: the frozen entry no longer references it *)
Theorem C18_freeze_thaw : forall (pk : option msg -> list N) (unpk : list N -> option (option msg)) rp h u r,
  u_message u = Some r -> pickles pk unpk (Some (h r)) ->
  exists u', u_freeze rp pk unpk h u = Some u' /\ u_message u' = None /\ forall h', u_msg unpk h' u' = Some (h r).
Proof. exact freeze_thaw. Qed.
Print Assumptions C18_freeze_thaw.

(* before the freeze the entry aliases the live message *)
Theorem C18_live_aliases : forall (unpk : list N -> option (option msg)) h r h',
  u_msg unpk h' (u_init h r) = Some (h' r) /\ u_get_name h' (u_init h r) = m_name (h' r)
  /\ u_get_seq h' (u_init h r) = m_packet_id (h' r).
Proof. exact live_aliases. Qed.
Print Assumptions C18_live_aliases.

(* name / method / seq read at freeze time are those of the frozen message ever after *)
Theorem C18_freeze_caches : forall (pk : option msg -> list N) (unpk : list N -> option (option msg)) rp h u r u',
  u_message u = Some r -> u_freeze rp pk unpk h (u_touch h u) = Some u' ->
  forall h', u_get_name h' u' = m_name (h r) /\ u_get_method h' u' = dir_name (m_direction (h r))
             /\ u_get_seq h' u' = m_packet_id (h r).
Proof. exact freeze_caches. Qed.
Print Assumptions C18_freeze_caches.

(* HISTORY (before fix e4edfe3, repickle = false): freeze() pickled self._message, which is
   None once frozen: after a second freeze() the message property raised and so did every
   further freeze().  Kept as the witness of the repaired defect; the code is repickle = true. *)
Theorem C18_hist_freeze_twice_refuted : forall (pk : option msg -> list N) (unpk : list N -> option (option msg)) h u r,
  u_message u = Some r -> pickles pk unpk (Some (h r)) -> pickles pk unpk None ->
  exists u2, u_freeze_n false pk unpk 2 h u = Some u2 /\ u_msg unpk h u2 = None /\ u_freeze false pk unpk h u2 = None.
Proof. exact freeze_twice_refuted. Qed.
Print Assumptions C18_hist_freeze_twice_refuted.

(* HEADLINE for freeze: the code as it stands (repickle = true: the resolved message is
   pickled) - any number of freezes leaves the entry thawing to the message of the first one *)
Theorem C18_freeze_idempotent : forall (pk : option msg -> list N) (unpk : list N -> option (option msg)) h u r n,
  u_message u = Some r -> pickles pk unpk (Some (h r)) ->
  exists u', u_freeze_n true pk unpk (S n) h u = Some u' /\ forall h', u_msg unpk h' u' = Some (h r).
Proof. exact freeze_idempotent. Qed.
Print Assumptions C18_freeze_idempotent.

(* exporting a frozen entry exports the snapshot *)
Theorem C18_frozen_export : forall (pk : option msg -> list N) (unpk : list N -> option (option msg))
    rp h u r u' rn aid sm meta,
  u_message u = Some r -> pickles pk unpk (Some (h r)) -> u_freeze rp pk unpk h u = Some u' ->
  forall h', resolve unpk h' u' rn aid sm meta = Some (mkLE rn aid sm meta (PUdp (h r))).
Proof. exact resolve_frozen. Qed.
Print Assumptions C18_frozen_export.

(* ---- non-vacuity ---- *)

(* a message with a Vector3, stringy bytes, a UUID, a str with quote and newline, a list
   holding None, a present-but-empty block list, bytearray extra, acks; an LLUDP and an EQ
   entry with standard meta: all hypotheses of C18_export_import hold *)
Example C18_ex_export_hyps :
  (forall b rest, stopb rest = true -> scan_real (ex_rreal b ++ rest) = Some (ex_rreal b, rest))
  /\ (forall b, forallb plain_byte (ex_rdate b) = true)
  /\ wf_msg ex_msg = true /\ plain_msg ex_msg = false /\ deser_classes ex_tk ex_msg = true
  /\ forallb (entry_ok ex_rreal ex_rdate ex_preal ex_pdate ex_tk) [ex_entry; ex_eq_entry] = true
  /\ std_meta (le_payload ex_entry) (le_meta ex_entry) = true
  /\ std_meta (le_payload ex_eq_entry) (le_meta ex_eq_entry) = true.
Proof. split; [exact ex_real_scan|]. split; [exact ex_date_plain|]. exact ex_entries_ok. Qed.

(* ... and its conclusion, with repr / literal_eval instantiated by a genuine serialisation:
   the LLUDP entry comes back with its Vector3, stringy bytes and UUID (same block lists), and
   would not without the template facts *)
Example C18_ex_export_import :
  let pyrepr := notation ex_rreal ex_rdate in
  let pyeval := of_notation ex_preal ex_pdate in
  let gz := fun x : list N => x in
  let gunz := fun x : list N => Some x in
  export_payload ex_rreal ex_rdate ex_summ [ex_entry; ex_eq_entry] = Some ex_payload
  /\ gunz (gz (pyrepr ex_payload)) = Some (pyrepr ex_payload) /\ pyeval (pyrepr ex_payload) = Some ex_payload
  /\ bind (export_log_entries ex_rreal ex_rdate ex_summ pyrepr gz [ex_entry; ex_eq_entry])
          (import_log_entries ex_preal ex_pdate ex_tk pyeval gunz)
     = Some [mkLE (Some [82]) (Some ex_uuid) (Some [115; 117; 109]) (ex_meta K_LLUDP K_IN) (PUdp (flat ex_msg));
             mkLE (Some []) None (Some [115]) (ex_meta K_EQ []) (le_payload ex_eq_entry)]
  /\ m_blocks (flat ex_msg) = m_blocks ex_msg
  /\ restore_msg (fun _ _ _ => None) (norm_msg ex_msg) <> Some (flat ex_msg).
Proof. exact ex_export_import. Qed.

Example C18_ex_freeze :
  pickles ex_pk ex_unpk (Some ex_msg) /\ pickles ex_pk ex_unpk None
  /\ u_message (u_init (fun _ => ex_msg) 3) = Some 3%nat
  /\ (exists u', u_freeze false ex_pk ex_unpk (fun _ => ex_msg) (u_init (fun _ => ex_msg) 3) = Some u'
                 /\ u_msg ex_unpk (fun _ => lossy_msg) u' = Some ex_msg).
Proof. exact ex_freeze. Qed.
