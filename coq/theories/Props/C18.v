(* C18 - Message log: filters mean what they say and the view equals the filtered log.
   Property theorems only: each is closed by [exact] and followed by [Print Assumptions].
   Models: Log/Filter.v (filter nodes, MatchResult, leaf semantics of the three entry
   classes, total operator table) and Log/LogView.v (FilteringMessageLogger), tied to
   hippolyzer/lib/proxy/message_filter.py and message_logger.py by the correspondence
   check of harness/props/c18.py (printed ASTs compiled by the real compile_filter,
   evaluated on real entries; logger operation sequences).
   Log/FilterSyntax.v models the concrete syntax: the PEG grammar + visitor of
   message_filter.py as a recursive-descent parser on explicit fuel ([parse], [compile])
   and the printer of the harness ([print]); the parser is tied to arpeggio by
   correspondence on printed, mutated and hand-written texts. *)
From Coq Require Import NArith ZArith List Bool.
From HV Require Import Log.Filter Log.LogView Log.FilterProofs Log.LogViewProofs.
From HV Require Import Log.FilterSyntax Log.FilterSyntaxProofs.
From Coq Require Import Ascii.
Import ListNotations.
Local Open Scope char_scope.

(* ---- filters mean what they say ------------------------------------ *)

(* Whenever node.match(entry, short_circuit) can be given a truth value, it is the
   value of the boolean combination the expression denotes ([denote]: the boolean
   homomorphism over the truth of the leaves), for both short_circuit values. *)
Theorem C18_bool_semantics : forall sc f e b fl,
  eval sc f e = Ok b fl -> b = denote f e.
Proof. exact bool_semantics. Qed.
Print Assumptions C18_bool_semantics.

(* short-circuit and full evaluation agree (the matched-field lists may differ) *)
Theorem C18_sc_agree : forall f e b1 fl1 b2 fl2,
  eval true f e = Ok b1 fl1 -> eval false f e = Ok b2 fl2 -> b1 = b2.
Proof. exact sc_agree. Qed.
Print Assumptions C18_sc_agree.

(* ... and short-circuit evaluation answers whenever full evaluation does *)
Theorem C18_sc_of_full : forall f e b fl,
  eval false f e = Ok b fl -> exists fl', eval true f e = Ok b fl'.
Proof. exact sc_of_full. Qed.
Print Assumptions C18_sc_of_full.

(* the converse is false: full evaluation evaluates operands that short-circuit
   evaluation skips, and an ill-formed operand (unknown enum) raises *)
Theorem C18_full_of_sc_refuted :
  let f := Or (Leaf FOO [] None) w_filter_bogus in
  eval true f w_entry_bytes = Ok true [] /\ eval false f w_entry_bytes = Err XAttr.
Proof. exact full_of_sc_refuted. Qed.
Print Assumptions C18_full_of_sc_refuted.

(* "Fine since fields should be empty when result=False" *)
Theorem C18_false_no_fields : forall sc f e fl, eval sc f e = Ok false fl -> fl = [].
Proof. exact false_no_fields. Qed.
Print Assumptions C18_false_no_fields.

(* A field comparison Msg.Block.Var [op value] on an LLUDP entry is true iff the
   message name/type matches and some selected field satisfies it; every reported
   field is a selected field that satisfies it.  Same for Msg.Block.Var.Subfield. *)
Theorem C18_leaf_exists : forall sc e s0 bp vp ov b fl,
  e_kind e = KLLUDP -> seq_eqb s0 META = false ->
  leaf_match sc e s0 [bp; vp] ov = Ok b fl ->
  b = root_matches e s0 && existsb (fun kv => field_sat e None ov (snd kv)) (sel_fields e bp vp)
  /\ forall k, In k fl -> exists v, In (k, v) (sel_fields e bp vp) /\ field_sat e None ov v = true.
Proof. exact leaf_exists3. Qed.
Print Assumptions C18_leaf_exists.

Theorem C18_leaf_exists_subfield : forall sc e s0 bp vp kp ov b fl,
  e_kind e = KLLUDP -> seq_eqb s0 META = false ->
  leaf_match sc e s0 [bp; vp; kp] ov = Ok b fl ->
  b = root_matches e s0 && existsb (fun kv => field_sat e (Some kp) ov (snd kv)) (sel_fields e bp vp)
  /\ forall k, In k fl -> exists v, In (k, v) (sel_fields e bp vp) /\ field_sat e (Some kp) ov v = true.
Proof. exact leaf_exists4. Qed.
Print Assumptions C18_leaf_exists_subfield.

(* Never an error: for every well-formed filter ([safe]: every expected value is a
   literal, a single-level Meta reference or an enum reference that resolves),
   evaluation never raises, on any entry, whatever the types of the fields are - a
   comparison that cannot be applied is simply false. *)
Theorem C18_never_error : forall f, safe f = true ->
  forall sc e, exists b fl, eval sc f e = Ok b fl.
Proof. exact never_error. Qed.
Print Assumptions C18_never_error.

(* the operator table itself is total *)
Theorem C18_apply_op_total : forall o a b, exists r, apply_op o a b = OB r.
Proof. exact apply_op_total. Qed.
Print Assumptions C18_apply_op_total.

(* `!=` is the complement of `==` for every pair of values *)
Theorem C18_ne_complement : forall a b,
  apply_op OEq a b = OB (py_eq a b) /\ apply_op ONe a b = OB (negb (py_eq a b)).
Proof. exact ne_complement. Qed.
Print Assumptions C18_ne_complement.

(* outside the quantifier: an ill-formed expected value raises when it is resolved *)
Theorem C18_ill_formed_raises :
  safe w_filter_bogus = false /\
  eval true w_filter_bogus w_entry_bytes = Err XAttr /\ eval false w_filter_bogus w_entry_bytes = Err XAttr.
Proof. exact ill_formed_raises. Qed.
Print Assumptions C18_ill_formed_raises.

(* ---- the concrete syntax means the tree -------------------------------- *)

(* The grammar reads every printed filter back as the tree that was printed:
   [parse rs (print f) = Some f] for every well-formed f.  [wf rs f] =
   [wf_syntax f = true] (every selector part, Meta name and enum part matches the
   identifier rule [a-zA-Z*][a-zA-Z0-9_*-]*; a Meta reference has at least one name; an
   enum name does not begin with None / True / False - the grammar matches these
   keywords as plain prefixes - and is not Meta; an expected literal is None, True,
   False, a non-negative int, a float that repr writes in positional notation and that
   reads back as itself, a str or bytes over code points below 256, or a tuple of three
   or four such ints / floats) and [enums_by rs f] (what an enum reference resolves to
   is not in the text: the tree carries the resolution the resolver gives). *)
Theorem C18_parse_print : forall rs f, wf rs f -> parse rs (print f) = Some f.
Proof. exact parse_print. Qed.
Print Assumptions C18_parse_print.

(* ... and it is insensitive to layout: every rendering of f - the printed token
   sequence with arbitrary whitespace (space, tab, newline, return) before, after
   and between the tokens (around the dots of a selector and of a Meta / enum
   reference, around the operator, the connectives, the bang and the parentheses), and
   with any number of redundant parentheses around sub-expressions - parses to f. *)
Theorem C18_parse_rendering : forall rs f s, wf rs f -> renders f s -> parse rs s = Some f.
Proof. exact parse_rendering. Qed.
Print Assumptions C18_parse_rendering.

(* the printed text is one of the renderings *)
Theorem C18_print_renders : forall f, renders f (print f).
Proof. exact print_renders. Qed.
Print Assumptions C18_print_renders.

Theorem C18_parse_print_spaced : forall rs f w1 w2, wf rs f -> ws_only w1 -> ws_only w2 ->
  parse rs (w1 ++ print f ++ w2) = Some f.
Proof. exact parse_print_spaced. Qed.
Print Assumptions C18_parse_print_spaced.

(* compile_filter itself (strip, the empty filter is the star, a lone bang is bang star,
   then the grammar) reads the printed filter back as well *)
Theorem C18_compile_print : forall rs f, wf rs f -> compile rs (print f) = Some f.
Proof. exact compile_print. Qed.
Print Assumptions C18_compile_print.

(* so what a printed filter evaluates to after parsing is what the tree evaluates to *)
Theorem C18_eval_parse_print : forall rs f, wf rs f ->
  forall sc e, option_map (fun g => eval sc g e) (parse rs (print f)) = Some (eval sc f e).
Proof. exact eval_parse_print. Qed.
Print Assumptions C18_eval_parse_print.

(* the grammar as coded: the connectives nest to the right whatever they are (there is
   no precedence between && and ||), the two-character operators win over > < &, and
   the lone & operator is tried before && and backtracked *)
Theorem C18_grammar_facts :
  parse ex_rs txt_and_or = Some (And (leaf0 ["a"]) (Or (leaf0 ["b"]) (leaf0 ["c"]))) /\
  parse ex_rs txt_or_and = Some (Or (leaf0 ["a"]) (And (leaf0 ["b"]) (leaf0 ["c"]))) /\
  parse ex_rs txt_ge = Some (Leaf (id_ ["F"; "o"; "o"]) [] (Some (OGe, VLit (PNum (mkNum KI 1 1))))) /\
  parse ex_rs txt_amp = Some (And (leaf0 ["F"; "o"; "o"]) (leaf0 ["b"; "a"; "r"])).
Proof. exact ex_grammar_facts. Qed.
Print Assumptions C18_grammar_facts.

(* outside well-formedness the text does not mean the tree: an enum whose name begins
   with None has no parse, an enum called Meta is read as a Meta reference, a negative
   int and a str with a code point above 255 cannot be written as literals *)
Theorem C18_parse_print_wf_needed :
  wf_syntax bad_enum_none = false /\ parse ex_rs (print bad_enum_none) = None /\
  wf_syntax bad_enum_meta = false /\
  parse ex_rs (print bad_enum_meta) = Some (Leaf (id_ ["a"]) [] (Some (OEq, VMeta [id_ ["X"]]))) /\
  wf_syntax bad_negative = false /\ parse ex_rs (print bad_negative) <> Some bad_negative /\
  wf_syntax bad_wide = false /\ parse ex_rs (print bad_wide) <> Some bad_wide.
Proof. exact ex_wf_needed. Qed.
Print Assumptions C18_parse_print_wf_needed.

(* ---- the view equals the filtered log -------------------------------- *)

(* For EVERY operation sequence {log, set filter (compilable or not, raising or not),
   pause, resume, clear} of distinct entries and every window size: the view is
   exactly the retained entries matching the current filter, in arrival order, without
   duplicates.  "Retained" = the window (at most maxlen newest entries logged while
   not paused since the last clear) plus the aged entries: those that fell out of the
   window while visible and have matched every filter installed since (LogView.gstep).
   A set_filter whose filter raises on a retained entry changes nothing. *)
Theorem C18_view_invariant :
  forall (E F : Type) (eid : E -> N) (mt : F -> E -> option bool) (maxlen : nat) f0 ops,
  NoDup (map eid (logged E F ops)) ->
  let s := run E F eid mt maxlen f0 ops in
  let aged := snd (grun E F eid mt maxlen f0 ops) in
  view s = filter (mb E F mt (flt s)) (aged ++ raw s) /\
  forallb (mb E F mt (flt s)) aged = true /\
  NoDup (map eid (view s)) /\
  subseq (view s) (logged E F ops) /\
  subseq (aged ++ raw s) (logged E F ops) /\
  length (raw s) <= maxlen.
Proof. exact view_invariant. Qed.
Print Assumptions C18_view_invariant.

(* aged entries are no longer in the window *)
Theorem C18_aged_not_in_window :
  forall (E F : Type) (eid : E -> N) (mt : F -> E -> option bool) (maxlen : nat) f0 ops,
  NoDup (map eid (logged E F ops)) ->
  forall x, In x (snd (grun E F eid mt maxlen f0 ops)) ->
  in_raw E eid x (raw (run E F eid mt maxlen f0 ops)) = false.
Proof. exact aged_not_in_window. Qed.
Print Assumptions C18_aged_not_in_window.

(* maxlen 1: log e1, log e2 (e1 ages out while visible), set_filter with a filter that
   raises on e1: filter, view and window are unchanged *)
Theorem C18_set_filter_raise_keeps_state :
  let f0 := Leaf [42%N] [] None in
  let s := crun 1 f0 w_ops in
  flt s = f0 /\ map fst (view s) = [1%N; 2%N] /\ map fst (raw s) = [2%N].
Proof. exact set_filter_raise_keeps_state. Qed.
Print Assumptions C18_set_filter_raise_keeps_state.

(* ---- non-vacuity ------------------------------------------------------ *)

(* a safe filter with all three connectives that evaluates to true *)
Example C18_ex_safe_eval :
  let f := And (Leaf FOO [] None) (Or (Not (Leaf BAR [] None)) (Leaf FOO [BAR; BAZ] (Some (OLt, VLit (int_ 5))))) in
  safe f = true /\ eval false f w_entry_bytes = Ok true [] /\ denote f w_entry_bytes = true.
Proof. exact ex_safe_eval. Qed.

(* a comparison that cannot be applied to the field's type is simply false:
   bytes < int, bytes.startswith(str), int & bytes, 256 in bytes *)
Example C18_ex_inapplicable :
  apply_op OLt (PBytes None [97]%N) (int_ 5) = OB false /\
  apply_op OStarts (PBytes None [97]%N) (PStr [97]%N) = OB false /\
  apply_op OBand (int_ 5) (PBytes None [97]%N) = OB false /\
  apply_op OLt (int_ 1) (PNum (mkNum KF 3 2)) = OB true.
Proof. vm_compute. repeat split. Qed.

(* a field leaf with matched fields, short-circuit vs full *)
Example C18_ex_fields :
  let f := Leaf [42%N] [[42%N]; [42%N]] None in
  eval true f w_entry_two = Ok true [(BAR, 0%N, BAR)] /\
  eval false f w_entry_two = Ok true [(BAR, 0%N, BAR); (BAR, 0%N, BAZ)].
Proof. vm_compute. split; reflexivity. Qed.

(* an operation sequence with eviction, aging, re-filtering, pause and resume;
   window [3;5], view [1;2;3;5] *)
Example C18_ex_ops :
  NoDup (map (@fst N entry) (logged centry fexp ex_ops)) /\
  cobs (crun 2 (Leaf [42%N] [] None) ex_ops) = ([3%N; 5%N], [1%N; 2%N; 3%N; 5%N]).
Proof. exact ex_ops_ok. Qed.

(* the comparisons that used to raise are plain answers *)
Example C18_ex_former_errors :
  eval true w_filter_in w_entry_bytes = Ok false [] /\
  eval false w_filter_in w_entry_bytes = Ok false [] /\
  eval true w_filter_band w_entry_meta = Ok true [] /\
  eval false w_filter_band w_entry_meta = Ok true [].
Proof. exact former_errors. Qed.


(* a well-formed filter with every node kind (Leaf with and without comparison, Not on a
   bare selector and on a parenthesised expression, And, Or), every operator, and every
   kind of expected value (None, True, False, int, float, str with both quotes, a
   backslash, a newline and Latin-1 characters, bytes, 3- and 4-tuples, Meta, enum);
   its text is
   (Foo.Bar*.B-z_2 >= 0.1 && !Foo) || !(Meta.X & 255 && a == <str> || b != <bytes>) && * ~= (1, 2.5, 0)
   || c < (1, 2, 3, 0.25) || d ^= Meta.Sel || e $= Metadata.TORUS || f <= None || g > True || !(!(h == False)) *)
Example C18_ex_syntax :
  wf ex_rs ex_syntax_filter /\ parse ex_rs (print ex_syntax_filter) = Some ex_syntax_filter.
Proof. exact ex_syntax_ok. Qed.
