(* C09 - Every registered subfield (pretty) serializer is lossless against the wire.
   Integer clause, proved for all integers / all classes.  Model:
   Subfield/IntAdapters.v (tied to serialization.py / datatypes.py / helpers.py /
   templates.py by the correspondence check of harness/props/c09.py; the per-key
   instances come from the live registry via gen/C09_gen.v:
   C09_registry_ok / C09_registry_lossless).
   Byte-payload serializers and the date / quantised-float adapters are NOT
   covered by these theorems (see TRUSTED in harness/props/c09.py). *)
From Coq Require Import ZArith List String Bool.
From HV Require Import Subfield.IntAdapters Subfield.IntAdaptersProofs Subfield.Literal Subfield.QuantField
  Subfield.DateModel Subfield.DatePrim Quant.QuantModel.
Import ListNotations.
Open Scope Z_scope.

(* Every integer the variable's wire type can hold survives decode-then-encode
   unchanged, in object form (pod = false) and plain-data form (pod = true), for
   every value of the sibling context field, for every serializer the model
   covers whose tables are well-formed: enum fields, flag fields, plain
   adapters, context-switched adapters, shifted bitfield dataclasses. *)
Theorem C09_int_lossless : forall s t,
  registered_ok s t = true ->
  forall ctx pod z, in_wire_range t z -> lossless_at s ctx pod z.
Proof. exact int_lossless. Qed.
Print Assumptions C09_int_lossless.

(* ... and for a whole registry at once (instantiated by gen/C09_gen.v) *)
Theorem C09_registry_lossless_generic : forall r,
  registry_ok r = true ->
  forall e, In e r ->
  forall ctx pod z, in_wire_range (e_ty e) z -> lossless_at (e_ser e) ctx pod z.
Proof. exact registry_lossless. Qed.
Print Assumptions C09_registry_lossless_generic.

(* IntEnum adapter, any integer at all (also outside the wire range), strict or not:
   whatever decode returns encodes back to the same integer.  Covers aliases
   (duplicate values), negative members, values without a member. *)
Theorem C09_enum_adapter : forall c strict pod z v,
  wf_enum c = true ->
  decode (AEnum strict c) pod z = Some v -> encode (AEnum strict c) v = Some z.
Proof. exact enum_lossless. Qed.
Print Assumptions C09_enum_adapter.

(* a strict enum accepts exactly the member values *)
Theorem C09_enum_strict_domain : forall c pod z,
  (exists v, decode (AEnum true c) pod z = Some v) <-> (exists n, In (n, z) (c_iter c)).
Proof. exact enum_strict_defined. Qed.
Print Assumptions C09_enum_strict_domain.

(* IntFlag adapter, any integer at all, negative ones included (signed fields):
   zero-valued members, leftover bits, unknown bits are all preserved. *)
Theorem C09_flag_adapter : forall c pod z v,
  wf_flag c = true ->
  decode (AFlag c) pod z = Some v -> encode (AFlag c) v = Some z.
Proof. exact flag_lossless. Qed.
Print Assumptions C09_flag_adapter.

(* shape of the plain-data form of flags: member names in iteration order, then
   one integer holding exactly the bits no member accounts for (absent when 0) *)
Theorem C09_flag_pod_shape : forall c z,
  flags_to_pod c z =
  set_names (c_iter c) z ++
  (if Z.land z (Z.lnot (all_bits (c_iter c))) =? 0 then []
   else [EInt (Z.land z (Z.lnot (all_bits (c_iter c))))]).
Proof. exact flags_pod_shape. Qed.
Print Assumptions C09_flag_pod_shape.

(* any adapter of the model inside any range it is well-formed for *)
Theorem C09_adapter_lossless : forall a lo hi pod z,
  adapter_total a = true -> wf_adapter a lo hi = true -> lo <= z <= hi ->
  exists v, decode a pod z = Some v /\ encode a v = Some z.
Proof. exact adapter_lossless. Qed.
Print Assumptions C09_adapter_lossless.

(* the plain-data form of any modelled serializer is built from ints, names (str), tuples of
   those, bools and dicts only - never enum / flag objects - so its repr() is a Python literal
   (that the literal evaluates back to an equal value is checked on the implementation) *)
Theorem C09_pod_is_plain : forall s ctx z v,
  s_deserialize s ctx true z = Some v -> plain_sval v = true.
Proof. exact pod_is_plain. Qed.
Print Assumptions C09_pod_is_plain.

(* ---- the literal clause: repr() of the plain-data form reads back (ast.literal_eval) equal.
   Printer / parser for the fragment the integer adapters produce (ints, bools, identifier-like
   names printed as 'NAME', flat tuples incl. "()" and the 1-tuple "('A',)"): Subfield/Literal.v,
   tied to CPython's repr / literal_eval by the correspondence on the generated values. *)
Theorem C09_literal_roundtrip : forall p, safe_plit p = true -> parse_plit (print_plit p) = Some p.
Proof. exact parse_print_plit. Qed.
Print Assumptions C09_literal_roundtrip.

(* every plain-data value an enum / flag field, a plain adapter or a context-switched adapter
   produces lies in that fragment (given identifier-like member names) and survives print -> parse *)
Theorem C09_pod_literal_roundtrip : forall s ctx z v,
  serializer_names_safe s = true ->
  s_deserialize s ctx true z = Some (SV v) -> v <> VUnser ->
  exists p, lit_of_value v = Some p /\ safe_plit p = true /\
            option_map value_of_lit (parse_plit (print_plit p)) = Some v.
Proof. exact pod_literal_roundtrip. Qed.
Print Assumptions C09_pod_literal_roundtrip.

(* ---- quantised-float integer variables (RegionData.TimeDilation): the integer clause over the
   finite wire domain, decided by evaluating C10's binary64 model on every raw value; the
   per-key instances and the agreement of that model with the implementation on all 65 536
   raws are generated (gen/C09_quant_gen.v: C09_quant_registry_lossless) *)
Theorem C09_quant_field_lossless : forall q t,
  quant_field_ok q t = true ->
  forall z, in_wire_range t z -> f2q q (q2f q z) = Some z.
Proof. exact quant_field_lossless. Qed.
Print Assumptions C09_quant_field_lossless.

Theorem C09_quant_step_refuted : f2q ex_bad_step (q2f ex_bad_step 40000) <> Some 40000%Z.
Proof. exact ex_bad_step_refuted. Qed.
Print Assumptions C09_quant_step_refuted.

(* ---- DateAdapter (CreationDate, ClaimDate, MeanCollision.Time), as coded.
   FULL statement (false of the code, three known findings): for every zone, multiplier and
   integer val of the wire type, date_roundtrip ops zone mult val = Some val.
   Proved part: process time zone UTC, val a whole number of seconds inside datetime's range
   (year 1..9999), GIVEN that the four float steps are exact on such values (exact_on_seconds,
   spelled out in Subfield/DateModel.v; true of binary64, assumed here, evaluated on samples for
   the primitive-float instance in C09_date_hypothesis_samples). *)
Theorem C09_date_utc_whole_seconds_partial : forall (o : fops) (mult s : Z),
  exact_on_seconds o mult ->
  in_datetime_range s = true ->
  exists str, date_decode o utc mult (s * mult) = Some str /\
              date_encode o utc mult str = Some (s * mult).
Proof. exact date_utc_whole_seconds. Qed.
Print Assumptions C09_date_utc_whole_seconds_partial.

(* its calendar and text ingredients hold unconditionally *)
Theorem C09_days_civil_roundtrip : forall z,
  let '(y, m, d) := civil_from_days z in days_from_civil y m d = z.
Proof. exact days_civil_roundtrip. Qed.
Print Assumptions C09_days_civil_roundtrip.

Theorem C09_iso_text_roundtrip : forall t, dt_fields_ok t -> parse_iso (print_iso t) = Some t.
Proof. exact parse_print_iso. Qed.
Print Assumptions C09_iso_text_roundtrip.

Theorem C09_date_hypothesis_samples :
  forallb (fun s => negb (in_datetime_range s) || (exact_on 1 s && exact_on 1000000 s)) second_samples = true.
Proof. exact exact_on_seconds_samples. Qed.
Print Assumptions C09_date_hypothesis_samples.

(* the three known defect classes, on the binary64 instance (witnesses of the known findings) *)
Theorem C09_date_subsecond_refuted :
  date_roundtrip pf_ops utc 1000000 1098554253192844 = Some 1098554253192843%Z.
Proof. exact date_subsecond_refuted. Qed.
Print Assumptions C09_date_subsecond_refuted.

Theorem C09_date_out_of_range_refuted :
  date_decode pf_ops utc 1000000 (2 ^ 63) = None /\ date_decode pf_ops utc 1000000 (253402300800 * 1000000) = None.
Proof. exact date_out_of_range_refuted. Qed.
Print Assumptions C09_date_out_of_range_refuted.

Theorem C09_date_dst_fold_refuted :
  date_roundtrip pf_ops new_york_2021 1 1636266600 = Some 1636263000%Z
  /\ date_roundtrip pf_ops new_york_2021 1000000 1636266600000000 = Some 1636263000000000%Z.
Proof. exact date_dst_fold_refuted. Qed.
Print Assumptions C09_date_dst_fold_refuted.

(* the well-formedness hypotheses are necessary: each is refuted when dropped *)
Theorem C09_multibit_member_refuted : ~ lossless_at (SFlagField bad_multibit) 0 true 1.
Proof. exact multibit_refuted. Qed.
Print Assumptions C09_multibit_member_refuted.

Theorem C09_bool_wide_refuted : ~ lossless_at (SAdapter ABool) 0 false 2.
Proof. exact bool_wide_refuted. Qed.
Print Assumptions C09_bool_wide_refuted.

Theorem C09_nibbles_wide_refuted : ~ lossless_at (SAdapter ANibbles) 0 false 4096.
Proof. exact nibbles_wide_refuted. Qed.
Print Assumptions C09_nibbles_wide_refuted.

Theorem C09_bitfield_signed_refuted : ~ lossless_at (SBitfield true bf_demo) 0 false (-1).
Proof. exact bitfield_signed_refuted. Qed.
Print Assumptions C09_bitfield_signed_refuted.

(* ---- non-vacuity: concrete classes meeting the hypotheses ---- *)
Local Open Scope string_scope.
(* aliases (B2 = B), a zero member, a multi-bit alias (AB) that iteration skips,
   as Python 3.11+ iterates flag classes *)
Definition ex_flags : cls :=
  {| c_iter := [(nm "A", 1%Z); (nm "B", 2%Z); (nm "H", 128%Z)];
     c_names := [(nm "NONE", 0%Z); (nm "A", 1%Z); (nm "B", 2%Z); (nm "B2", 2%Z); (nm "AB", 3%Z); (nm "H", 128%Z)] |}.
Definition ex_enum : cls :=
  {| c_iter := [(nm "OK", 0%Z); (nm "LANDING", 1%Z); (nm "ERR", (-1)%Z)];
     c_names := [(nm "OK", 0%Z); (nm "LANDING", 1%Z); (nm "NONE", 1%Z); (nm "ERR", (-1)%Z)] |}.

Example C09_ex_wf : wf_flag ex_flags = true /\ wf_enum ex_enum = true
  /\ registered_ok (SFlagField ex_flags) S32 = true
  /\ registered_ok (SContext [(47%Z, AFlag ex_flags); (9%Z, ANibbles)] (Some AIdentity)) U8 = true
  /\ registered_ok (SBitfield true bf_demo) U32 = true.
Proof. vm_compute. repeat split. Qed.

(* -1 on a signed flag field: every member set, leftover = the remaining bits (negative) *)
Example C09_ex_flag_negative :
  decode (AFlag ex_flags) true (-1) = Some (VTuple [EName (nm "A"); EName (nm "B"); EName (nm "H"); EInt (-132)%Z])
  /\ encode (AFlag ex_flags) (VTuple [EName (nm "A"); EName (nm "B"); EName (nm "H"); EInt (-132)%Z]) = Some (-1)%Z
  /\ decode (AFlag ex_flags) false (-1) = Some (VInt (-1)).
Proof. vm_compute. repeat split. Qed.

Example C09_ex_flag_leftover :
  decode (AFlag ex_flags) true 67 = Some (VTuple [EName (nm "A"); EName (nm "B"); EInt 64%Z])
  /\ encode (AFlag ex_flags) (VTuple [EName (nm "AB"); EInt 64%Z]) = Some 67%Z.
Proof. vm_compute. repeat split. Qed.

Example C09_ex_enum :
  s_deserialize (SEnumField ex_enum) 0 true 1 = Some (SV (VName (nm "LANDING")))
  /\ s_serialize (SEnumField ex_enum) 0 (SV (VName (nm "NONE"))) = Some 1%Z
  /\ s_deserialize (SEnumField ex_enum) 0 true 7 = Some (SV VUnser)
  /\ s_deserialize (SEnumField ex_enum) 0 false 7 = Some (SV (VInt 7))
  /\ s_deserialize (SEnumField ex_enum) 0 false (-1) = Some (SV (VMember (nm "ERR") (-1))).
Proof. vm_compute. repeat split. Qed.

Example C09_ex_bitfield :
  s_deserialize (SBitfield true bf_demo) 0 false 2147483653
    = Some (SDict [(nm "PacketID", VInt 5); (nm "IsEOF", VBool true)])
  /\ s_serialize (SBitfield true bf_demo) 0 (SDict [(nm "IsEOF", VBool true); (nm "PacketID", VInt 5)])
    = Some 2147483653%Z.
Proof. vm_compute. repeat split. Qed.

Example C09_ex_context :
  s_deserialize (SContext [(47%Z, AFlag ex_flags); (9%Z, ANibbles)] (Some AIdentity)) 9 false 18 = Some (SV (VInt 33))
  /\ s_deserialize (SContext [(47%Z, AFlag ex_flags); (9%Z, ANibbles)] (Some AIdentity)) 47 true 3
       = Some (SV (VTuple [EName (nm "A"); EName (nm "B")]))
  /\ s_deserialize (SContext [(47%Z, AFlag ex_flags); (9%Z, ANibbles)] (Some AIdentity)) 95 true 3 = Some (SV (VInt 3)).
Proof. vm_compute. repeat split. Qed.

(* unshifted bit fields (BitField(shift=False)), e.g. ParcelGridInfo: Type in the low 3 bits, Flags in place above *)
Definition ex_grid_flags : cls :=
  {| c_iter := [(nm "UNUSED", 8%Z); (nm "HIDDEN", 16%Z); (nm "SOUTH", 128%Z)];
     c_names := [(nm "UNUSED", 8%Z); (nm "HIDDEN", 16%Z); (nm "SOUTH", 128%Z)] |}.
Definition ex_unshifted : list bfield :=
  [ {| bf_name := nm "Type"; bf_bits := 3; bf_adapter := AEnum false ex_enum |};
    {| bf_name := nm "Flags"; bf_bits := 5; bf_adapter := AFlag ex_grid_flags |} ].
Example C09_ex_unshifted :
  registered_ok (SBitfield false ex_unshifted) U8 = true
  /\ s_deserialize (SBitfield false ex_unshifted) 0 true 153
       = Some (SDict [(nm "Type", VName (nm "LANDING")); (nm "Flags", VTuple [EName (nm "UNUSED"); EName (nm "HIDDEN"); EName (nm "SOUTH")])])
  /\ lossless_atb (SBitfield false ex_unshifted) 0 true 153 = true.
Proof. vm_compute. repeat split. Qed.

(* a Bool entry away from bit 0 of an unshifted field is rejected by the well-formedness check *)
Example C09_ex_unshifted_bool_refused :
  registered_ok (SBitfield false [ {| bf_name := nm "a"; bf_bits := 7; bf_adapter := AIdentity |};
                                   {| bf_name := nm "b"; bf_bits := 1; bf_adapter := ABool |} ]) U8 = false
  /\ lossless_atb (SBitfield false [ {| bf_name := nm "a"; bf_bits := 7; bf_adapter := AIdentity |};
                                     {| bf_name := nm "b"; bf_bits := 1; bf_adapter := ABool |} ]) 0 false 128 = false.
Proof. vm_compute. split; reflexivity. Qed.

Example C09_ex_literal :
  print_plit (PTup [AStr (nm "A")]) = nm "('A',)"
  /\ print_plit (PTup [AStr (nm "A"); AStr (nm "B"); AInt (-4)]) = nm "('A', 'B', -4)"
  /\ parse_plit (nm "(5)") = Some (PAtom (AInt 5))
  /\ parse_plit (nm "007") = None.
Proof. vm_compute. repeat split. Qed.

Example C09_ex_time_dilation : quant_field_ok ex_time_dilation U16 = true.
Proof. exact ex_time_dilation_ok. Qed.

Example C09_ex_date :
  date_decode pf_ops utc 1 1636266600 = Some (nm "2021-11-07T06:30:00")
  /\ date_roundtrip pf_ops utc 1 1636266600 = Some 1636266600%Z
  /\ in_datetime_range 1636266600 = true.
Proof. vm_compute. repeat split. Qed.

(* =====================================================================================================
   Byte-payload clauses (wave 3).  Model: the combinator embedding of C08 (Spec/Spec.v: ser / de / wf / domb),
   the fragments sound_frag / canon of Spec/SpecSound.v and the payload view of the subfield-serializer wrappers
   (pl_decode = BufferReader(...).read(template) + CHECK_TRAILING_BYTES; simple_* = EMPTY_IS_NONE).  The per-key
   instances are regenerated from the live registry on every run (gen/C09_payload_gen.v:
   C09_payload_registry_ok / _fixed_point / _own_output); keys whose tree is outside the fragment or is not
   translated are listed in the evidence and stay decided by the implementation-level oracle.
   From here on the names of Spec.Spec (value, SAdapter, AEnum, ...) shadow those of Subfield.IntAdapters. *)
From Coq Require Import NArith.
From HV Require Import Base.Bytes Spec.Spec Spec.SpecProofs Spec.SpecSound Spec.SpecSoundProofs.
Local Open Scope N_scope.
Local Open Scope list_scope.

(* clause "every byte payload the serializer can itself produce survives byte-for-byte":
   for every well-formed spec, every value of its domain, both endiannesses, both forms *)
Theorem C09_payload_own_output : forall e pod s c v b,
  wf s = true -> domb e pod s c v = true -> ser e s c v = Some b ->
  exists v', de e pod s c b = Some (v', []) /\ ser e s c v' = Some b.
Proof. exact payload_own_output. Qed.
Print Assumptions C09_payload_own_output.

(* the decoder is sound on the fragment: WHATEVER byte string is accepted (canonical or not, with or without
   trailing bytes for self-delimiting specs) decodes to a value of the domain that can be written again; on
   canonical specs the bytes written are exactly the bytes consumed *)
Theorem C09_decoder_sound : forall e pod s cd cs b v rest,
  wf s = true -> sound_frag s = true -> bytes_okb b = true -> agree (refs s) cd cs ->
  de e pod s cd b = Some (v, rest) -> (delimited s = true \/ rest = []) ->
  bytes_okb rest = true /\ domb e pod s cs v = true /\
  exists b', ser e s cs v = Some b' /\ (canon s = true -> b = b' ++ rest).
Proof. exact de_sound. Qed.
Print Assumptions C09_decoder_sound.

(* clause "any payload it accepts reaches, after one decode-encode pass, a fixed point that decodes to the same
   value": b' is what the pass writes; it decodes to v again, and everything it decodes to is written as b' *)
Theorem C09_payload_fixed_point : forall e pod s c b v,
  wf s = true -> sound_frag s = true -> bytes_okb b = true ->
  de e pod s c b = Some (v, []) ->
  exists b', ser e s c v = Some b' /\ de e pod s c b' = Some (v, []) /\
             (forall v2 r2, de e pod s c b' = Some (v2, r2) -> v2 = v /\ r2 = [] /\ ser e s c v2 = Some b') /\
             (canon s = true -> b' = b).
Proof. exact payload_fixed_point. Qed.
Print Assumptions C09_payload_fixed_point.

(* the same on the payload view of a subfield serializer: one pass is idempotent and value-preserving, and an
   accepted payload never fails to re-encode *)
Theorem C09_payload_pass_idempotent : forall e pod s b b',
  wf s = true -> sound_frag s = true -> bytes_okb b = true ->
  pl_pass e pod s b = Some b' ->
  pl_pass e pod s b' = Some b' /\ pl_decode e pod s b' = pl_decode e pod s b.
Proof. exact pl_pass_idempotent. Qed.
Print Assumptions C09_payload_pass_idempotent.

Theorem C09_payload_accepted_reencodes : forall e pod s b v,
  wf s = true -> sound_frag s = true -> bytes_okb b = true ->
  pl_decode e pod s b = Some v -> exists b', pl_pass e pod s b = Some b'.
Proof. exact pl_accepted_reencodes. Qed.
Print Assumptions C09_payload_accepted_reencodes.

(* SimpleSubfieldSerializer incl. EMPTY_IS_NONE *)
Theorem C09_payload_simple_fixed_point : forall e pod s en b v,
  wf s = true -> sound_frag s = true -> simple_ok s en = true -> bytes_okb b = true ->
  simple_decode e pod s en b = Some v ->
  exists b', simple_encode e s en v = Some b' /\ simple_decode e pod s en b' = Some v /\
             (forall v2, simple_decode e pod s en b' = Some v2 -> simple_encode e s en v2 = Some b').
Proof. exact simple_fixed_point. Qed.
Print Assumptions C09_payload_simple_fixed_point.

Theorem C09_payload_simple_own_output : forall e pod s en v b,
  wf s = true -> (en && is_none v = true \/ domb e pod s [] v = true) ->
  simple_encode e s en v = Some b ->
  exists v', simple_decode e pod s en b = Some v' /\ simple_encode e s en v' = Some b.
Proof. exact simple_own_output. Qed.
Print Assumptions C09_payload_simple_own_output.

(* ... and for a whole registry at once (instantiated by gen/C09_payload_gen.v at the live registry) *)
Theorem C09_payload_registry_generic : forall r,
  forallb frag_ok r = true ->
  forall s en, In (s, en) r ->
  forall e pod b v, bytes_okb b = true -> simple_decode e pod s en b = Some v ->
  exists b', simple_encode e s en v = Some b' /\ simple_decode e pod s en b' = Some v /\
             (forall v2, simple_decode e pod s en b' = Some v2 -> simple_encode e s en v2 = Some b').
Proof. exact payload_registry_fixed_point. Qed.
Print Assumptions C09_payload_registry_generic.

(* the fragment conditions are necessary.  FULL statement (false of the faithful model): C09_decoder_sound /
   C09_payload_fixed_point for EVERY well-formed spec.  Witnesses: *)
Theorem C09_str_null_term_refuted :
  wf str_nt_spec = true /\ bytes_okb str_nt_payload = true /\
  exists v, de true false str_nt_spec [] str_nt_payload = Some (v, []) /\
            domb true false str_nt_spec [] v = false /\ ser true str_nt_spec [] v = None.
Proof. exact str_null_term_refuted. Qed.
Print Assumptions C09_str_null_term_refuted.

Theorem C09_typed_fixed_noncanonical_refuted :
  wf fixed_frame_spec = true /\
  exists v, de true false fixed_frame_spec [] [65; 66] = Some (v, []) /\ ser true fixed_frame_spec [] v = None.
Proof. exact typed_fixed_noncanonical_refuted. Qed.
Print Assumptions C09_typed_fixed_noncanonical_refuted.

Theorem C09_lenswitch_default_noncanonical_refuted :
  wf lenswitch_default_spec = true /\
  exists v b' v', de true false lenswitch_default_spec [] [] = Some (v, []) /\
                  ser true lenswitch_default_spec [] v = Some b' /\
                  de true false lenswitch_default_spec [] b' = Some (v', []) /\ v' <> v.
Proof. exact lenswitch_default_noncanonical_refuted. Qed.
Print Assumptions C09_lenswitch_default_noncanonical_refuted.

(* BitField(shift=False) with a Bool entry away from bit 0 (excluded by sound_frag): accepted, not writable *)
Theorem C09_bitfield_bool_unshifted_refuted :
  wf bf_bool_spec = true /\ sound_frag bf_bool_spec = false /\
  exists v, de true false bf_bool_spec [] [128] = Some (v, []) /\ ser true bf_bool_spec [] v = None.
Proof. exact bf_bool_unshifted_refuted. Qed.
Print Assumptions C09_bitfield_bool_unshifted_refuted.

(* ---- non-vacuity: a registered-like tree (cf. ViewerEffect / BinaryBucket / particle-system payloads):
   a Template with an enum byte, a flag byte that switches an optional member on, a U8-prefixed Collection of
   (U16, C string) records and a prefixed optional *)
Definition ex_payload_flags : list (N * Z) := [(0, 1%Z); (1, 2%Z); (2, 128%Z)].
Definition ex_payload_spec : spec :=
  STemplate [(0, SPrim (PI (IP false W1)));
             (1, SAdapter (ASimple (AEnum [(0, 0%Z); (1, 1%Z); (2, 5%Z)] false)) (SPrim (PI (IP false W1))));
             (2, SAdapter (ASimple (AFlag ex_payload_flags)) (SPrim (PI (IP false W1))));
             (3, SOptFlagged 2 (Some ex_payload_flags) 2%Z (STuple [SPrim PF32; SPrim (PI (IP true W2))]));
             (4, SCollection (LPrefixed (IP false W1))
                   (STemplate [(0, SPrim (PI (IP false W2))); (1, SCStr [0] true true)] false false));
             (5, SOptPrefixed (SPrim (PI (IP false W1))))] false false.
(* enum 5, flags B|H (member 3 present), one record (0x0201, "hi"), optional present with the NON-canonical
   presence byte 2 *)
Definition ex_payload : bytes := [7; 5; 130; 0; 0; 128; 63; 255; 255; 1; 1; 2; 104; 105; 0; 2; 9].
Definition ex_payload_pass : bytes := [7; 5; 130; 0; 0; 128; 63; 255; 255; 1; 1; 2; 104; 105; 0; 1; 9].

Example C09_ex_payload_hypotheses :
  wf ex_payload_spec = true /\ sound_frag ex_payload_spec = true /\ canon ex_payload_spec = false /\
  bytes_okb ex_payload = true /\
  pl_decode true true ex_payload_spec ex_payload =
    Some (VDict [(0, VInt 7); (1, VName 2); (2, VList [VName 1; VName 2]);
                 (3, VList [VF 1065353216; VInt (-1)]);
                 (4, VList [VDict [(0, VInt 513); (1, VStr [104; 105])]]); (5, VInt 9)]).
Proof. vm_compute. repeat split. Qed.

Example C09_ex_payload_pass :
  pl_pass true true ex_payload_spec ex_payload = Some ex_payload_pass /\
  pl_pass true true ex_payload_spec ex_payload_pass = Some ex_payload_pass /\
  pl_decode true true ex_payload_spec ex_payload_pass = pl_decode true true ex_payload_spec ex_payload /\
  pl_pass true false ex_payload_spec ex_payload = Some ex_payload_pass.
Proof. vm_compute. repeat split. Qed.

(* a canonical tree (length-framed inner template, as in the particle-system block): every accepted payload is
   its own fixed point *)
Definition ex_canon_spec : spec :=
  SLengthSwitch [(Some 0, SNull); (Some 3, STuple [SPrim (PI (IP false W1)); SPrim (PI (IP false W2))]);
                 (None, STemplate [(0, STypedBytes (TBArray (IP true W4))
                                         (STemplate [(0, SPrim (PI (IP false W2))); (1, SUUID)] false false) false true);
                                   (1, SCollection LGreedy (SAdapter (ASimple (AOpaqueInt 7)) (SPrim (PI (IP false W1)))))]
                                  false false)].
Example C09_ex_canon :
  wf ex_canon_spec = true /\ sound_frag ex_canon_spec = true /\ canon ex_canon_spec = true /\
  pl_pass true false ex_canon_spec [1; 2; 3] = Some [1; 2; 3] /\
  pl_pass true false ex_canon_spec ([18; 0; 0; 0; 5; 6] ++ repeat 9 16 ++ [1; 2]) = Some ([18; 0; 0; 0; 5; 6] ++ repeat 9 16 ++ [1; 2]) /\
  pl_pass true false ex_canon_spec [] = Some [].
Proof. vm_compute. repeat split. Qed.

(* bit fields (ObjectExtraParams FLEXIBLE / LIGHT_IMAGE, ParcelOverlay): shifted and unshifted, enum / flag / Bool entries *)
Definition ex_bitfield_spec : spec :=
  STemplate [(0, SAdapter (ABitField [(0, 6, None); (1, 2, Some (AEnum [(0, 0%Z); (1, 1%Z); (2, 3%Z)] false))] true)
                          (SPrim (PI (IP false W1))));
             (1, SAdapter (ABitField [(0, 1, Some ABool); (1, 2, Some (AEnum [(0, 0%Z); (1, 2%Z); (2, 4%Z); (3, 6%Z)] false));
                                      (2, 5, Some (AFlag [(0, 8%Z); (1, 16%Z); (2, 128%Z)]))] false)
                          (SPrim (PI (IP false W1))))] false false.
Example C09_ex_payload_bitfield :
  wf ex_bitfield_spec = true /\ sound_frag ex_bitfield_spec = true /\ canon ex_bitfield_spec = false /\
  pl_decode true true ex_bitfield_spec [197; 157] =
    Some (VDict [(0, VDict [(0, VInt 5); (1, VName 2)]);
                 (1, VDict [(0, VInt 1); (1, VName 2); (2, VList [VName 0; VName 1; VName 2])])]) /\
  pl_pass true true ex_bitfield_spec [197; 157] = Some [197; 157] /\
  pl_pass true false ex_bitfield_spec [197; 157] = Some [197; 157].
Proof. vm_compute. repeat split. Qed.

Example C09_ex_simple_wrapper :
  simple_ok ex_canon_spec true = true /\ simple_ok ex_payload_spec true = true /\
  simple_decode true false ex_payload_spec true [] = Some VNone /\
  simple_encode true ex_payload_spec true VNone = Some [].
Proof. vm_compute. repeat split. Qed.

(* ---- B5: TextureEntry ---- *)
(* TextureEntry "exception field" codec (templates.TEFaceBitfield / TEExceptionField / TE_SERIALIZER and the two
   registered TextureEntry subfield serializers).  Model: Spec/TexEntry.v, proofs: Spec/TexEntryProofs.v; tied to the
   code by harness/translate/c09_te.py (extracted model vs the real classes; live layout + payload table regenerated
   into gen/C09_te_gen.v every run).  Element serializers are a parameter: a `codec A` with the laws listed in the
   hypotheses (codec_rt: dec (enc a ++ r) = Some (a, r) on the element domain; codec_sound: decoded elements are in
   that domain; elements are never empty); C08/C10 are about the element specs themselves.
   Names are used qualified (TE. / TEP.) so that nothing else in this file is shadowed. *)
From HV Require Spec.TexEntry Spec.TexEntryProofs.
Module TE := HV.Spec.TexEntry.
Module TEP := HV.Spec.TexEntryProofs.

(* Face bitfield.  There is NO coded maximum: Python ints are unbounded, the statement holds for every face number.
   canonical_faces = non-empty and strictly increasing (what the decoder itself produces). *)
Theorem C09_te_bitfield_roundtrip : forall faces rest,
  TE.canonical_faces faces = true ->
  TE.dec_bitfield (TE.enc_bitfield faces ++ rest) = Some (faces, rest).
Proof. exact TEP.bitfield_roundtrip. Qed.
Print Assumptions C09_te_bitfield_roundtrip.

(* any non-empty tuple (unsorted, repeated faces): the decoder returns its sorted set *)
Theorem C09_te_bitfield_general : forall faces rest,
  faces <> [] ->
  TE.dec_bitfield (TE.enc_bitfield faces ++ rest) = Some (TEP.norm_faces faces, rest)
  /\ TE.inc_from 0%N (TEP.norm_faces faces) = true
  /\ (forall i, In i (TEP.norm_faces faces) <-> In i faces).
Proof.
  exact (fun faces rest H => conj (TEP.bitfield_general faces rest H)
           (conj (TEP.faces_of_inc _) (TEP.norm_faces_spec faces))).
Qed.
Print Assumptions C09_te_bitfield_general.

(* prefix condition the field loop relies on: an encoded non-empty face set never starts with the terminator 00,
   and consists of bytes *)
Theorem C09_te_bitfield_head_nonzero : forall faces,
  faces <> [] -> exists b t, TE.enc_bitfield faces = b :: t /\ b <> 0%N.
Proof. exact TEP.bitfield_head_nonzero. Qed.
Print Assumptions C09_te_bitfield_head_nonzero.

Theorem C09_te_bitfield_bytes : forall faces, Forall (fun b => (b < 256)%N) (TE.enc_bitfield faces).
Proof. exact TEP.bitfield_bytes_ok. Qed.
Print Assumptions C09_te_bitfield_bytes.

(* refuted without the hypotheses: the empty tuple writes nothing at all; order / repetition is not preserved;
   the decoder also accepts encodings serialize never writes (80 00 as terminator, leading zero groups) *)
Theorem C09_te_bitfield_refuted :
  TE.enc_bitfield [] = []
  /\ TE.dec_bitfield (TE.enc_bitfield [2; 1]%N) = Some ([1; 2]%N, [])
  /\ TE.dec_bitfield (TE.enc_bitfield [3; 3]%N) = Some ([3]%N, [])
  /\ TE.dec_bitfield [128; 0]%N = Some ([], [])
  /\ TE.dec_bitfield [128; 1]%N = Some ([0]%N, []) /\ TE.enc_bitfield [0%N] = [1%N].
Proof.
  exact (conj TEP.bitfield_empty_writes_nothing
          (conj (proj1 TEP.bitfield_order_refuted) (conj (proj2 TEP.bitfield_order_refuted) TEP.bitfield_noncanonical_accepted))).
Qed.
Print Assumptions C09_te_bitfield_refuted.

(* One exception field: deserialize inverts the body serialize wrote (default, then (bitfield, value)* in dict order)
   when the body is followed by the end of the window or by a NUL, which it consumes (tail_ok; tl drops the NUL).
   The first byte of an element value is irrelevant (elements are read by their own codec); what matters is the byte
   FOLLOWING the field. excs_dom: keys canonical, pairwise distinct, values in the element domain. *)
Theorem C09_te_field_roundtrip : forall (A : Type) (c : TE.codec A) (P : A -> Prop) optional d e tail,
  TEP.codec_rt c P -> P d -> TEP.excs_dom P e -> (optional = true -> TE.enc c d <> []) -> TEP.tail_ok tail ->
  TE.dec_field c optional (TE.enc_body c (d, e) ++ tail) = Some (Some (d, e), tl tail).
Proof. exact TEP.field_rt. Qed.
Print Assumptions C09_te_field_roundtrip.

(* ... and with repeated bitfields on the wire the decoder folds them into the dict (last value, first position) *)
Theorem C09_te_field_merge : forall (A : Type) (c : TE.codec A) (P : A -> Prop) optional d (e : TE.excs A) tail,
  TEP.codec_rt c P -> P d -> Forall (fun fa => TE.canonical_faces (fst fa) = true /\ P (snd fa)) e ->
  (optional = true -> TE.enc c d <> []) -> TEP.tail_ok tail ->
  TE.dec_field c optional (TE.enc_body c (d, e) ++ tail) = Some (Some (d, TEP.merge e), tl tail).
Proof. exact @TEP.field_dec_merge. Qed.
Print Assumptions C09_te_field_merge.

Theorem C09_te_merge_nodup : forall (A : Type) (l : TE.excs A), NoDup (map fst l) -> TEP.merge l = l.
Proof. exact @TEP.merge_nodup. Qed.
Print Assumptions C09_te_merge_nodup.

(* refutations of the unqualified field statement (1-byte raw elements): a byte other than NUL after the field is
   parsed as one more exception; the empty tuple as a key; two tuples naming one set *)
Theorem C09_te_field_nonzero_rest_refuted :
  exists (d : TE.bytes) (e : TE.excs TE.bytes) rest,
    TE.dec_field TEP.c1 false (TE.enc_body TEP.c1 (d, e) ++ rest) <> Some (Some (d, e), rest)
    /\ TE.dec_field TEP.c1 false (TE.enc_body TEP.c1 (d, e) ++ rest) = Some (Some (d, e ++ [([0; 2]%N, [9%N])]), []).
Proof. exact TEP.field_rt_nonzero_rest_refuted. Qed.
Print Assumptions C09_te_field_nonzero_rest_refuted.

Theorem C09_te_field_empty_key_refuted :
  exists (d : TE.bytes) (e : TE.excs TE.bytes),
    TE.dec_field TEP.c1 false (TE.enc_body TEP.c1 (d, e)) <> Some (Some (d, e), []).
Proof. exact TEP.field_rt_empty_key_refuted. Qed.
Print Assumptions C09_te_field_empty_key_refuted.

Theorem C09_te_field_same_set_refuted :
  exists (d : TE.bytes) (e : TE.excs TE.bytes),
    NoDup (map fst e)
    /\ TE.dec_field TEP.c1 false (TE.enc_body TEP.c1 (d, e)) = Some (Some (d, [([1; 2]%N, [6%N]); ([4%N], [5%N])]), [])
    /\ e <> [([1; 2]%N, [6%N]); ([4%N], [5%N])].
Proof. exact TEP.field_rt_same_set_refuted. Qed.
Print Assumptions C09_te_field_same_set_refuted.

(* The whole entry.  layout_ok true: exactly the head field is `first`.  te_dom: every present field value is in
   the field domain, an absent value (None / {}) only where the field is optional and only as a suffix.
   codecs_ok: per field codec_rt and non-empty element encodings. *)
Theorem C09_te_roundtrip : forall (A : Type) (dom : TE.fspec A -> A -> Prop) fs vs,
  TE.layout_ok true fs = true -> TEP.codecs_ok dom fs -> TEP.te_dom dom fs vs ->
  exists b, TE.enc_te fs vs = Some b /\ TE.dec_te fs b = Some (vs, []).
Proof. exact TEP.te_rt. Qed.
Print Assumptions C09_te_roundtrip.

(* refutations: an absent field that is not at the end; a second `first` field; trailing bytes (the entry is not
   self-delimiting: its last field reads to the end of the window) *)
Theorem C09_te_roundtrip_refuted :
  (exists ls vs b, TE.layout_ok true (TE.raw_layout ls) = true
      /\ TE.enc_te (TE.raw_layout ls) vs = Some b /\ TE.dec_te (TE.raw_layout ls) b <> Some (vs, []))
  /\ (exists ls vs b, TE.raw_te_ok ls vs = true
      /\ TE.enc_te (TE.raw_layout ls) vs = Some b /\ TE.dec_te (TE.raw_layout ls) b <> Some (vs, []))
  /\ (exists ls vs b rest, TE.raw_layout_okb ls = true /\ TE.raw_te_ok ls vs = true
      /\ TE.enc_te (TE.raw_layout ls) vs = Some b /\ TE.dec_te (TE.raw_layout ls) (b ++ rest) <> Some (vs, rest)).
Proof. exact (conj TEP.te_rt_absent_middle_refuted (conj TEP.te_rt_first_flag_refuted TEP.te_rt_trailing_refuted)). Qed.
Print Assumptions C09_te_roundtrip_refuted.

(* C09's one-pass clause for EVERY accepted payload: what it decodes to re-encodes, and the re-encoded payload decodes
   to the same value (hence re-encodes to itself).  codecs_sound: decoded elements lie in the element domain and no
   element decodes from the empty string.  The decoder does normalise (next theorem), so byte identity is false. *)
Theorem C09_te_fixed_point : forall (A : Type) (dom : TE.fspec A -> A -> Prop) fs bs vs r,
  TE.layout_ok true fs = true -> TEP.codecs_ok dom fs -> TEP.codecs_sound dom fs ->
  TE.dec_te fs bs = Some (vs, r) ->
  exists b', TE.enc_te fs vs = Some b' /\ TE.dec_te fs b' = Some (vs, []).
Proof. exact TEP.te_fixed_point. Qed.
Print Assumptions C09_te_fixed_point.

Theorem C09_te_decode_normalises :
  exists ls b1 b2 vs,
    TE.raw_layout_okb ls = true /\ b1 <> b2
    /\ TE.dec_te (TE.raw_layout ls) b1 = Some (vs, []) /\ TE.dec_te (TE.raw_layout ls) b2 = Some (vs, [])
    /\ TE.enc_te (TE.raw_layout ls) vs = Some b2.
Proof. exact TEP.te_decode_normalises. Qed.
Print Assumptions C09_te_decode_normalises.

(* the instance the extracted driver runs (elements = their k wire bytes): no hypotheses beyond the two boolean checks *)
Theorem C09_te_raw_roundtrip : forall ls vs,
  TE.raw_layout_okb ls = true -> TE.raw_te_ok ls vs = true ->
  exists b, TE.enc_te (TE.raw_layout ls) vs = Some b /\ TE.dec_te (TE.raw_layout ls) b = Some (vs, []).
Proof. exact TEP.raw_te_rt. Qed.
Print Assumptions C09_te_raw_roundtrip.

Theorem C09_te_raw_fixed_point : forall ls bs vs r,
  TE.raw_layout_okb ls = true -> TE.dec_te (TE.raw_layout ls) bs = Some (vs, r) ->
  exists b', TE.enc_te (TE.raw_layout ls) vs = Some b' /\ TE.dec_te (TE.raw_layout ls) b' = Some (vs, []).
Proof. exact TEP.raw_te_fixed_point. Qed.
Print Assumptions C09_te_raw_fixed_point.

(* the registered wrappers: TypedBytesGreedy(empty_is_none) (ObjectUpdate / AvatarAppearance / AgentSetAppearance /
   ObjectImage .TextureEntry), TypedByteArray(U32, empty_is_none) (self-delimiting), and the subfield serializer around
   the latter (ImprovedTerseObjectUpdate.TextureEntry: None <-> b"", nothing may follow the blob) *)
Theorem C09_te_greedy_roundtrip : forall (A : Type) (dom : TE.fspec A -> A -> Prop) fs fv vs,
  TE.layout_ok true fs = true -> TEP.codecs_ok dom fs -> TEP.te_dom dom fs (Some fv :: vs) ->
  exists b, TE.enc_te_greedy fs (Some (Some fv :: vs)) = Some b
            /\ TE.dec_te_greedy fs b = Some (Some (Some fv :: vs)).
Proof. exact TEP.te_greedy_rt. Qed.
Print Assumptions C09_te_greedy_roundtrip.

Theorem C09_te_u32_roundtrip : forall (A : Type) (fs : list (TE.fspec A)) v b rest,
  TE.enc_te_u32 fs v = Some b ->
  (forall t, TE.enc_te_greedy fs v = Some t -> TE.dec_te_greedy fs t = Some v) ->
  TE.dec_te_u32 fs (b ++ rest) = Some (v, rest).
Proof. exact TEP.te_u32_rt. Qed.
Print Assumptions C09_te_u32_roundtrip.

Theorem C09_te_sub_u32_roundtrip : forall (A : Type) (fs : list (TE.fspec A)) v b,
  TE.sub_enc_u32 fs v = Some b ->
  (forall t, TE.enc_te_greedy fs v = Some t -> TE.dec_te_greedy fs t = Some v) ->
  TE.sub_dec_u32 fs b = Some v.
Proof. exact @TEP.te_sub_u32_rt. Qed.
Print Assumptions C09_te_sub_u32_roundtrip.

(* NOT preserved by the dict representation (acknowledged in the code's comment): the per-face meaning of a payload
   that repeats a bitfield - on the wire the later entry wins, the dict keeps the first position *)
Theorem C09_te_realize_merge_refuted :
  exists (d : TE.bytes) (l : TE.excs TE.bytes) face,
    TE.realize_face (d, TEP.merge l) face <> TE.realize_face (d, l) face.
Proof. exact TEP.realize_merge_refuted. Qed.
Print Assumptions C09_te_realize_merge_refuted.

(* non-vacuity: the live layout shape with a two-group bitfield, a value starting with 00, an absent optional tail *)
Definition ex_te_layout : list (bool * bool * nat) :=
  [(true, false, 2%nat); (false, false, 1%nat); (false, true, 2%nat)].
Definition ex_te_value : list (option (TE.fval TE.bytes)) :=
  [Some ([0; 7]%N, [([1; 8]%N, [0; 0]%N); ([3%N], [9; 9]%N)]); Some ([0%N], [([0; 1; 2; 3; 4; 5; 6; 7]%N, [255%N])]); None].
Example C09_ex_te :
  TE.raw_layout_okb ex_te_layout = true /\ TE.raw_te_ok ex_te_layout ex_te_value = true
  /\ TE.enc_te (TE.raw_layout ex_te_layout) ex_te_value
     = Some [0; 7; 130; 2; 0; 0; 8; 9; 9; 0; 0; 129; 127; 255]%N
  /\ TE.dec_te (TE.raw_layout ex_te_layout) [0; 7; 130; 2; 0; 0; 8; 9; 9; 0; 0; 129; 127; 255]%N = Some (ex_te_value, [])
  /\ TE.dec_te (TE.raw_layout ex_te_layout) [0; 7; 130; 2; 0; 0; 130; 2; 1; 1; 8; 9; 9; 0; 0; 129; 127; 255; 0]%N
     = Some ([Some ([0; 7]%N, [([1; 8]%N, [1; 1]%N); ([3%N], [9; 9]%N)]); Some ([0%N], [([0; 1; 2; 3; 4; 5; 6; 7]%N, [255%N])]); None], [])
  /\ TEP.codecs_ok TEP.raw_dom (TE.raw_layout ex_te_layout) /\ TEP.codecs_sound TEP.raw_dom (TE.raw_layout ex_te_layout)
  /\ TEP.te_dom TEP.raw_dom (TE.raw_layout ex_te_layout) ex_te_value
  /\ TE.canonical_faces [1; 8]%N = true /\ TEP.tail_ok [0%N] /\ TEP.tail_ok [].
Proof.
  split; [reflexivity|]. split; [reflexivity|]. split; [reflexivity|]. split; [reflexivity|]. split; [reflexivity|].
  split; [exact (TEP.raw_codecs_ok ex_te_layout eq_refl)|].
  split; [exact (TEP.raw_codecs_sound ex_te_layout eq_refl)|].
  split; [exact (TEP.raw_te_ok_dom ex_te_layout ex_te_value eq_refl eq_refl)|].
  split; [reflexivity|]. split; [right; eexists; reflexivity|left; reflexivity].
Qed.
(* ---- end B5 ---- *)

(* ---- B5 (continued): ExtraParams = se.DictAdapter(se.Collection(U8, entry)) (templates.EXTRA_PARAM_COLLECTION,
   ObjectUpdate.ObjectData.ExtraParams).  Model: Spec/ExtraParamsModel.v; proofs at the end of Spec/TexEntryProofs.v; tied by
   the ExtraParams suite of harness/translate/c09_te.py.  The entry serializer (EnumSwitch over TypedByteArray(U32, template))
   is a parameter `codec (K * V)`; keqb decides key equality (keqb_spec). dict_inv P d: every entry in the entry domain,
   keys pairwise distinct (any Python dict). *)
Module XP := HV.Spec.ExtraParamsModel.

(* wire order vs dict: ANY entry sequence on the wire (repeated keys included) decodes to dict(entries): first position, last value *)
Theorem C09_dictcoll_decode_general : forall (K V : Type) (keqb : K -> K -> bool) (c : TE.codec (K * V)) (P : K * V -> Prop) es rest,
  TEP.codec_rt c P -> Forall P es -> (List.length es <= 255)%nat ->
  XP.dec_dictcoll keqb c (N.of_nat (List.length es) :: flat_map (TE.enc c) es ++ rest) = Some (XP.to_dict keqb es, rest).
Proof. exact (fun K V keqb => TEP.dictcoll_dec_general K V keqb). Qed.
Print Assumptions C09_dictcoll_decode_general.

Theorem C09_dictcoll_to_dict_nodup : forall (K V : Type) (keqb : K -> K -> bool),
  (forall a b, keqb a b = true <-> a = b) ->
  forall es : list (K * V), NoDup (map fst es) -> XP.to_dict keqb es = es.
Proof. exact TEP.to_dict_nodup. Qed.
Print Assumptions C09_dictcoll_to_dict_nodup.

(* every dict of at most 255 entries round-trips, and the encoding is self-delimiting *)
Theorem C09_dictcoll_roundtrip : forall (K V : Type) (keqb : K -> K -> bool),
  (forall a b, keqb a b = true <-> a = b) ->
  forall (c : TE.codec (K * V)) (P : K * V -> Prop) d rest,
  TEP.codec_rt c P -> TEP.dict_inv K V P d -> (List.length d <= 255)%nat ->
  exists b, XP.enc_dictcoll c d = Some b /\ XP.dec_dictcoll keqb c (b ++ rest) = Some (d, rest).
Proof. exact TEP.dictcoll_rt. Qed.
Print Assumptions C09_dictcoll_roundtrip.

(* C09's one-pass clause through the registered wrapper (None <-> b"", nothing may follow), for every accepted payload *)
Theorem C09_dictcoll_fixed_point : forall (K V : Type) (keqb : K -> K -> bool),
  (forall a b, keqb a b = true <-> a = b) ->
  forall (c : TE.codec (K * V)) (P : K * V -> Prop) bs v,
  TEP.codec_rt c P -> TEP.codec_sound c P -> Forall (fun b => (b < 256)%N) bs ->
  XP.sub_dec_dictcoll keqb c bs = Some v ->
  exists b', XP.sub_enc_dictcoll c v = Some b' /\ XP.sub_dec_dictcoll keqb c b' = Some v.
Proof. exact TEP.sub_dictcoll_fixed_point. Qed.
Print Assumptions C09_dictcoll_fixed_point.

(* the raw instance the driver runs: entries = (U16 type, U32 length, blob) *)
Theorem C09_extraparams_raw_roundtrip : forall d rest, XP.raw_dict_ok d = true ->
  exists b, XP.enc_dictcoll XP.raw_entry_codec d = Some b
            /\ XP.dec_dictcoll N.eqb XP.raw_entry_codec (b ++ rest) = Some (d, rest).
Proof. exact TEP.raw_dictcoll_rt. Qed.
Print Assumptions C09_extraparams_raw_roundtrip.

Theorem C09_extraparams_raw_fixed_point : forall bs v, Forall (fun b => (b < 256)%N) bs ->
  XP.sub_dec_dictcoll N.eqb XP.raw_entry_codec bs = Some v ->
  exists b', XP.sub_enc_dictcoll XP.raw_entry_codec v = Some b' /\ XP.sub_dec_dictcoll N.eqb XP.raw_entry_codec b' = Some v.
Proof. exact TEP.raw_dictcoll_fixed_point. Qed.
Print Assumptions C09_extraparams_raw_fixed_point.

(* byte identity is refuted: a payload repeating a type is accepted and re-encoded one entry shorter *)
Theorem C09_extraparams_duplicate_refuted :
  exists b d b',
    XP.sub_dec_dictcoll N.eqb XP.raw_entry_codec b = Some (Some d)
    /\ XP.sub_enc_dictcoll XP.raw_entry_codec (Some d) = Some b' /\ b' <> b
    /\ d = [(16, [3]); (32, [2])]%N.
Proof. exact TEP.dictcoll_duplicate_refuted. Qed.
Print Assumptions C09_extraparams_duplicate_refuted.

Example C09_ex_extraparams :
  XP.raw_dict_ok [(48, [1; 2; 3]); (16, [])]%N = true
  /\ XP.sub_enc_dictcoll XP.raw_entry_codec (Some [(48, [1; 2; 3]); (16, [])]%N)
     = Some [2; 48; 0; 3; 0; 0; 0; 1; 2; 3; 16; 0; 0; 0; 0; 0]%N
  /\ XP.sub_dec_dictcoll N.eqb XP.raw_entry_codec [2; 48; 0; 3; 0; 0; 0; 1; 2; 3; 16; 0; 0; 0; 0; 0]%N
     = Some (Some [(48, [1; 2; 3]); (16, [])]%N)
  /\ XP.sub_dec_dictcoll N.eqb XP.raw_entry_codec [] = Some None
  /\ XP.sub_dec_dictcoll N.eqb XP.raw_entry_codec [1; 48; 0; 3; 0; 0; 0; 1; 2]%N = None
  /\ TEP.codec_rt XP.raw_entry_codec TEP.raw_entry_dom /\ TEP.codec_sound XP.raw_entry_codec TEP.raw_entry_dom.
Proof.
  split; [reflexivity|]. split; [reflexivity|]. split; [reflexivity|]. split; [reflexivity|]. split; [reflexivity|].
  split; [exact TEP.raw_entry_rt|exact TEP.raw_entry_sound].
Qed.
(* ---- end B5 (continued) ---- *)
