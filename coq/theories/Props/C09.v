(* C09 - Every registered subfield (pretty) serializer is lossless against the wire.
   Integer clause, proved for all integers / all classes.  Model:
   Subfield/IntAdapters.v (tied to serialization.py / datatypes.py / helpers.py /
   templates.py by the correspondence check of harness/props/c09.py; the per-key
   instances come from the live registry via gen/C09_gen.v:
   C09_registry_ok / C09_registry_lossless).
   Byte-payload serializers and the date / quantised-float adapters are NOT
   covered by these theorems (see TRUSTED in harness/props/c09.py). *)
From Coq Require Import ZArith List String Bool.
From HV Require Import Subfield.IntAdapters Subfield.IntAdaptersProofs Subfield.Literal Subfield.QuantField
  Subfield.DateModel Subfield.DatePrim Quant.QuantModel.
Import ListNotations.
Open Scope Z_scope.

(* Every integer the variable's wire type can hold survives decode-then-encode
   unchanged, in object form (pod = false) and plain-data form (pod = true), for
   every value of the sibling context field, for every serializer the model
   covers whose tables are well-formed: enum fields, flag fields, plain
   adapters, context-switched adapters, shifted bitfield dataclasses. *)
Theorem C09_int_lossless : forall s t,
  registered_ok s t = true ->
  forall ctx pod z, in_wire_range t z -> lossless_at s ctx pod z.
Proof. exact int_lossless. Qed.
Print Assumptions C09_int_lossless.

(* ... and for a whole registry at once (instantiated by gen/C09_gen.v) *)
Theorem C09_registry_lossless_generic : forall r,
  registry_ok r = true ->
  forall e, In e r ->
  forall ctx pod z, in_wire_range (e_ty e) z -> lossless_at (e_ser e) ctx pod z.
Proof. exact registry_lossless. Qed.
Print Assumptions C09_registry_lossless_generic.

(* IntEnum adapter, any integer at all (also outside the wire range), strict or not:
   whatever decode returns encodes back to the same integer.  Covers aliases
   (duplicate values), negative members, values without a member. *)
Theorem C09_enum_adapter : forall c strict pod z v,
  wf_enum c = true ->
  decode (AEnum strict c) pod z = Some v -> encode (AEnum strict c) v = Some z.
Proof. exact enum_lossless. Qed.
Print Assumptions C09_enum_adapter.

(* a strict enum accepts exactly the member values *)
Theorem C09_enum_strict_domain : forall c pod z,
  (exists v, decode (AEnum true c) pod z = Some v) <-> (exists n, In (n, z) (c_iter c)).
Proof. exact enum_strict_defined. Qed.
Print Assumptions C09_enum_strict_domain.

(* IntFlag adapter, any integer at all, negative ones included (signed fields):
   zero-valued members, leftover bits, unknown bits are all preserved. *)
Theorem C09_flag_adapter : forall c pod z v,
  wf_flag c = true ->
  decode (AFlag c) pod z = Some v -> encode (AFlag c) v = Some z.
Proof. exact flag_lossless. Qed.
Print Assumptions C09_flag_adapter.

(* shape of the plain-data form of flags: member names in iteration order, then
   one integer holding exactly the bits no member accounts for (absent when 0) *)
Theorem C09_flag_pod_shape : forall c z,
  flags_to_pod c z =
  set_names (c_iter c) z ++
  (if Z.land z (Z.lnot (all_bits (c_iter c))) =? 0 then []
   else [EInt (Z.land z (Z.lnot (all_bits (c_iter c))))]).
Proof. exact flags_pod_shape. Qed.
Print Assumptions C09_flag_pod_shape.

(* any adapter of the model inside any range it is well-formed for *)
Theorem C09_adapter_lossless : forall a lo hi pod z,
  adapter_total a = true -> wf_adapter a lo hi = true -> lo <= z <= hi ->
  exists v, decode a pod z = Some v /\ encode a v = Some z.
Proof. exact adapter_lossless. Qed.
Print Assumptions C09_adapter_lossless.

(* the plain-data form of any modelled serializer is built from ints, names (str), tuples of
   those, bools and dicts only - never enum / flag objects - so its repr() is a Python literal
   (that the literal evaluates back to an equal value is checked on the implementation) *)
Theorem C09_pod_is_plain : forall s ctx z v,
  s_deserialize s ctx true z = Some v -> plain_sval v = true.
Proof. exact pod_is_plain. Qed.
Print Assumptions C09_pod_is_plain.

(* ---- the literal clause: repr() of the plain-data form reads back (ast.literal_eval) equal.
   Printer / parser for the fragment the integer adapters produce (ints, bools, identifier-like
   names printed as 'NAME', flat tuples incl. "()" and the 1-tuple "('A',)"): Subfield/Literal.v,
   tied to CPython's repr / literal_eval by the correspondence on the generated values. *)
Theorem C09_literal_roundtrip : forall p, safe_plit p = true -> parse_plit (print_plit p) = Some p.
Proof. exact parse_print_plit. Qed.
Print Assumptions C09_literal_roundtrip.

(* every plain-data value an enum / flag field, a plain adapter or a context-switched adapter
   produces lies in that fragment (given identifier-like member names) and survives print -> parse *)
Theorem C09_pod_literal_roundtrip : forall s ctx z v,
  serializer_names_safe s = true ->
  s_deserialize s ctx true z = Some (SV v) -> v <> VUnser ->
  exists p, lit_of_value v = Some p /\ safe_plit p = true /\
            option_map value_of_lit (parse_plit (print_plit p)) = Some v.
Proof. exact pod_literal_roundtrip. Qed.
Print Assumptions C09_pod_literal_roundtrip.

(* ---- quantised-float integer variables (RegionData.TimeDilation): the integer clause over the
   finite wire domain, decided by evaluating C10's binary64 model on every raw value; the
   per-key instances and the agreement of that model with the implementation on all 65 536
   raws are generated (gen/C09_quant_gen.v: C09_quant_registry_lossless) *)
Theorem C09_quant_field_lossless : forall q t,
  quant_field_ok q t = true ->
  forall z, in_wire_range t z -> f2q q (q2f q z) = Some z.
Proof. exact quant_field_lossless. Qed.
Print Assumptions C09_quant_field_lossless.

Theorem C09_quant_step_refuted : f2q ex_bad_step (q2f ex_bad_step 40000) <> Some 40000%Z.
Proof. exact ex_bad_step_refuted. Qed.
Print Assumptions C09_quant_step_refuted.

(* ---- DateAdapter (CreationDate, ClaimDate, MeanCollision.Time), as coded.
   FULL statement (false of the code, three known findings): for every zone, multiplier and
   integer val of the wire type, date_roundtrip ops zone mult val = Some val.
   Proved part: process time zone UTC, val a whole number of seconds inside datetime's range
   (year 1..9999), GIVEN that the four float steps are exact on such values (exact_on_seconds,
   spelled out in Subfield/DateModel.v; true of binary64, assumed here, evaluated on samples for
   the primitive-float instance in C09_date_hypothesis_samples). *)
Theorem C09_date_utc_whole_seconds_partial : forall (o : fops) (mult s : Z),
  exact_on_seconds o mult ->
  in_datetime_range s = true ->
  exists str, date_decode o utc mult (s * mult) = Some str /\
              date_encode o utc mult str = Some (s * mult).
Proof. exact date_utc_whole_seconds. Qed.
Print Assumptions C09_date_utc_whole_seconds_partial.

(* its calendar and text ingredients hold unconditionally *)
Theorem C09_days_civil_roundtrip : forall z,
  let '(y, m, d) := civil_from_days z in days_from_civil y m d = z.
Proof. exact days_civil_roundtrip. Qed.
Print Assumptions C09_days_civil_roundtrip.

Theorem C09_iso_text_roundtrip : forall t, dt_fields_ok t -> parse_iso (print_iso t) = Some t.
Proof. exact parse_print_iso. Qed.
Print Assumptions C09_iso_text_roundtrip.

Theorem C09_date_hypothesis_samples :
  forallb (fun s => negb (in_datetime_range s) || (exact_on 1 s && exact_on 1000000 s)) second_samples = true.
Proof. exact exact_on_seconds_samples. Qed.
Print Assumptions C09_date_hypothesis_samples.

(* the three known defect classes, on the binary64 instance (witnesses of the known findings) *)
Theorem C09_date_subsecond_refuted :
  date_roundtrip pf_ops utc 1000000 1098554253192844 = Some 1098554253192843%Z.
Proof. exact date_subsecond_refuted. Qed.
Print Assumptions C09_date_subsecond_refuted.

Theorem C09_date_out_of_range_refuted :
  date_decode pf_ops utc 1000000 (2 ^ 63) = None /\ date_decode pf_ops utc 1000000 (253402300800 * 1000000) = None.
Proof. exact date_out_of_range_refuted. Qed.
Print Assumptions C09_date_out_of_range_refuted.

Theorem C09_date_dst_fold_refuted :
  date_roundtrip pf_ops new_york_2021 1 1636266600 = Some 1636263000%Z
  /\ date_roundtrip pf_ops new_york_2021 1000000 1636266600000000 = Some 1636263000000000%Z.
Proof. exact date_dst_fold_refuted. Qed.
Print Assumptions C09_date_dst_fold_refuted.

(* the well-formedness hypotheses are necessary: each is refuted when dropped *)
Theorem C09_multibit_member_refuted : ~ lossless_at (SFlagField bad_multibit) 0 true 1.
Proof. exact multibit_refuted. Qed.
Print Assumptions C09_multibit_member_refuted.

Theorem C09_bool_wide_refuted : ~ lossless_at (SAdapter ABool) 0 false 2.
Proof. exact bool_wide_refuted. Qed.
Print Assumptions C09_bool_wide_refuted.

Theorem C09_nibbles_wide_refuted : ~ lossless_at (SAdapter ANibbles) 0 false 4096.
Proof. exact nibbles_wide_refuted. Qed.
Print Assumptions C09_nibbles_wide_refuted.

Theorem C09_bitfield_signed_refuted : ~ lossless_at (SBitfield true bf_demo) 0 false (-1).
Proof. exact bitfield_signed_refuted. Qed.
Print Assumptions C09_bitfield_signed_refuted.

(* ---- non-vacuity: concrete classes meeting the hypotheses ---- *)
Local Open Scope string_scope.
(* aliases (B2 = B), a zero member, a multi-bit alias (AB) that iteration skips,
   as Python 3.11+ iterates flag classes *)
Definition ex_flags : cls :=
  {| c_iter := [(nm "A", 1%Z); (nm "B", 2%Z); (nm "H", 128%Z)];
     c_names := [(nm "NONE", 0%Z); (nm "A", 1%Z); (nm "B", 2%Z); (nm "B2", 2%Z); (nm "AB", 3%Z); (nm "H", 128%Z)] |}.
Definition ex_enum : cls :=
  {| c_iter := [(nm "OK", 0%Z); (nm "LANDING", 1%Z); (nm "ERR", (-1)%Z)];
     c_names := [(nm "OK", 0%Z); (nm "LANDING", 1%Z); (nm "NONE", 1%Z); (nm "ERR", (-1)%Z)] |}.

Example C09_ex_wf : wf_flag ex_flags = true /\ wf_enum ex_enum = true
  /\ registered_ok (SFlagField ex_flags) S32 = true
  /\ registered_ok (SContext [(47%Z, AFlag ex_flags); (9%Z, ANibbles)] (Some AIdentity)) U8 = true
  /\ registered_ok (SBitfield true bf_demo) U32 = true.
Proof. vm_compute. repeat split. Qed.

(* -1 on a signed flag field: every member set, leftover = the remaining bits (negative) *)
Example C09_ex_flag_negative :
  decode (AFlag ex_flags) true (-1) = Some (VTuple [EName (nm "A"); EName (nm "B"); EName (nm "H"); EInt (-132)%Z])
  /\ encode (AFlag ex_flags) (VTuple [EName (nm "A"); EName (nm "B"); EName (nm "H"); EInt (-132)%Z]) = Some (-1)%Z
  /\ decode (AFlag ex_flags) false (-1) = Some (VInt (-1)).
Proof. vm_compute. repeat split. Qed.

Example C09_ex_flag_leftover :
  decode (AFlag ex_flags) true 67 = Some (VTuple [EName (nm "A"); EName (nm "B"); EInt 64%Z])
  /\ encode (AFlag ex_flags) (VTuple [EName (nm "AB"); EInt 64%Z]) = Some 67%Z.
Proof. vm_compute. repeat split. Qed.

Example C09_ex_enum :
  s_deserialize (SEnumField ex_enum) 0 true 1 = Some (SV (VName (nm "LANDING")))
  /\ s_serialize (SEnumField ex_enum) 0 (SV (VName (nm "NONE"))) = Some 1%Z
  /\ s_deserialize (SEnumField ex_enum) 0 true 7 = Some (SV VUnser)
  /\ s_deserialize (SEnumField ex_enum) 0 false 7 = Some (SV (VInt 7))
  /\ s_deserialize (SEnumField ex_enum) 0 false (-1) = Some (SV (VMember (nm "ERR") (-1))).
Proof. vm_compute. repeat split. Qed.

Example C09_ex_bitfield :
  s_deserialize (SBitfield true bf_demo) 0 false 2147483653
    = Some (SDict [(nm "PacketID", VInt 5); (nm "IsEOF", VBool true)])
  /\ s_serialize (SBitfield true bf_demo) 0 (SDict [(nm "IsEOF", VBool true); (nm "PacketID", VInt 5)])
    = Some 2147483653%Z.
Proof. vm_compute. repeat split. Qed.

Example C09_ex_context :
  s_deserialize (SContext [(47%Z, AFlag ex_flags); (9%Z, ANibbles)] (Some AIdentity)) 9 false 18 = Some (SV (VInt 33))
  /\ s_deserialize (SContext [(47%Z, AFlag ex_flags); (9%Z, ANibbles)] (Some AIdentity)) 47 true 3
       = Some (SV (VTuple [EName (nm "A"); EName (nm "B")]))
  /\ s_deserialize (SContext [(47%Z, AFlag ex_flags); (9%Z, ANibbles)] (Some AIdentity)) 95 true 3 = Some (SV (VInt 3)).
Proof. vm_compute. repeat split. Qed.

(* unshifted bit fields (BitField(shift=False)), e.g. ParcelGridInfo: Type in the low 3 bits, Flags in place above *)
Definition ex_grid_flags : cls :=
  {| c_iter := [(nm "UNUSED", 8%Z); (nm "HIDDEN", 16%Z); (nm "SOUTH", 128%Z)];
     c_names := [(nm "UNUSED", 8%Z); (nm "HIDDEN", 16%Z); (nm "SOUTH", 128%Z)] |}.
Definition ex_unshifted : list bfield :=
  [ {| bf_name := nm "Type"; bf_bits := 3; bf_adapter := AEnum false ex_enum |};
    {| bf_name := nm "Flags"; bf_bits := 5; bf_adapter := AFlag ex_grid_flags |} ].
Example C09_ex_unshifted :
  registered_ok (SBitfield false ex_unshifted) U8 = true
  /\ s_deserialize (SBitfield false ex_unshifted) 0 true 153
       = Some (SDict [(nm "Type", VName (nm "LANDING")); (nm "Flags", VTuple [EName (nm "UNUSED"); EName (nm "HIDDEN"); EName (nm "SOUTH")])])
  /\ lossless_atb (SBitfield false ex_unshifted) 0 true 153 = true.
Proof. vm_compute. repeat split. Qed.

(* a Bool entry away from bit 0 of an unshifted field is rejected by the well-formedness check *)
Example C09_ex_unshifted_bool_refused :
  registered_ok (SBitfield false [ {| bf_name := nm "a"; bf_bits := 7; bf_adapter := AIdentity |};
                                   {| bf_name := nm "b"; bf_bits := 1; bf_adapter := ABool |} ]) U8 = false
  /\ lossless_atb (SBitfield false [ {| bf_name := nm "a"; bf_bits := 7; bf_adapter := AIdentity |};
                                     {| bf_name := nm "b"; bf_bits := 1; bf_adapter := ABool |} ]) 0 false 128 = false.
Proof. vm_compute. split; reflexivity. Qed.

Example C09_ex_literal :
  print_plit (PTup [AStr (nm "A")]) = nm "('A',)"
  /\ print_plit (PTup [AStr (nm "A"); AStr (nm "B"); AInt (-4)]) = nm "('A', 'B', -4)"
  /\ parse_plit (nm "(5)") = Some (PAtom (AInt 5))
  /\ parse_plit (nm "007") = None.
Proof. vm_compute. repeat split. Qed.

Example C09_ex_time_dilation : quant_field_ok ex_time_dilation U16 = true.
Proof. exact ex_time_dilation_ok. Qed.

Example C09_ex_date :
  date_decode pf_ops utc 1 1636266600 = Some (nm "2021-11-07T06:30:00")
  /\ date_roundtrip pf_ops utc 1 1636266600 = Some 1636266600%Z
  /\ in_datetime_range 1636266600 = true.
Proof. vm_compute. repeat split. Qed.
