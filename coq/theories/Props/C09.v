(* C09 - Every registered subfield (pretty) serializer is lossless against the wire.
   Integer clause, proved for all integers / all classes.  Model:
   Subfield/IntAdapters.v (tied to serialization.py / datatypes.py / helpers.py /
   templates.py by the correspondence check of harness/props/c09.py; the per-key
   instances come from the live registry via gen/C09_gen.v:
   C09_registry_ok / C09_registry_lossless).
   Byte-payload serializers and the date / quantised-float adapters are NOT
   covered by these theorems (see TRUSTED in harness/props/c09.py). *)
From Coq Require Import ZArith List String Bool.
From HV Require Import Subfield.IntAdapters Subfield.IntAdaptersProofs.
Import ListNotations.
Open Scope Z_scope.

(* Every integer the variable's wire type can hold survives decode-then-encode
   unchanged, in object form (pod = false) and plain-data form (pod = true), for
   every value of the sibling context field, for every serializer the model
   covers whose tables are well-formed: enum fields, flag fields, plain
   adapters, context-switched adapters, shifted bitfield dataclasses. *)
Theorem C09_int_lossless : forall s t,
  registered_ok s t = true ->
  forall ctx pod z, in_wire_range t z -> lossless_at s ctx pod z.
Proof. exact int_lossless. Qed.
Print Assumptions C09_int_lossless.

(* ... and for a whole registry at once (instantiated by gen/C09_gen.v) *)
Theorem C09_registry_lossless_generic : forall r,
  registry_ok r = true ->
  forall e, In e r ->
  forall ctx pod z, in_wire_range (e_ty e) z -> lossless_at (e_ser e) ctx pod z.
Proof. exact registry_lossless. Qed.
Print Assumptions C09_registry_lossless_generic.

(* IntEnum adapter, any integer at all (also outside the wire range), strict or not:
   whatever decode returns encodes back to the same integer.  Covers aliases
   (duplicate values), negative members, values without a member. *)
Theorem C09_enum_adapter : forall c strict pod z v,
  wf_enum c = true ->
  decode (AEnum strict c) pod z = Some v -> encode (AEnum strict c) v = Some z.
Proof. exact enum_lossless. Qed.
Print Assumptions C09_enum_adapter.

(* a strict enum accepts exactly the member values *)
Theorem C09_enum_strict_domain : forall c pod z,
  (exists v, decode (AEnum true c) pod z = Some v) <-> (exists n, In (n, z) (c_iter c)).
Proof. exact enum_strict_defined. Qed.
Print Assumptions C09_enum_strict_domain.

(* IntFlag adapter, any integer at all, negative ones included (signed fields):
   zero-valued members, leftover bits, unknown bits are all preserved. *)
Theorem C09_flag_adapter : forall c pod z v,
  wf_flag c = true ->
  decode (AFlag c) pod z = Some v -> encode (AFlag c) v = Some z.
Proof. exact flag_lossless. Qed.
Print Assumptions C09_flag_adapter.

(* shape of the plain-data form of flags: member names in iteration order, then
   one integer holding exactly the bits no member accounts for (absent when 0) *)
Theorem C09_flag_pod_shape : forall c z,
  flags_to_pod c z =
  set_names (c_iter c) z ++
  (if Z.land z (Z.lnot (all_bits (c_iter c))) =? 0 then []
   else [EInt (Z.land z (Z.lnot (all_bits (c_iter c))))]).
Proof. exact flags_pod_shape. Qed.
Print Assumptions C09_flag_pod_shape.

(* any adapter of the model inside any range it is well-formed for *)
Theorem C09_adapter_lossless : forall a lo hi pod z,
  adapter_total a = true -> wf_adapter a lo hi = true -> lo <= z <= hi ->
  exists v, decode a pod z = Some v /\ encode a v = Some z.
Proof. exact adapter_lossless. Qed.
Print Assumptions C09_adapter_lossless.

(* the plain-data form of any modelled serializer is built from ints, names (str), tuples of
   those, bools and dicts only - never enum / flag objects - so its repr() is a Python literal
   (that the literal evaluates back to an equal value is checked on the implementation) *)
Theorem C09_pod_is_plain : forall s ctx z v,
  s_deserialize s ctx true z = Some v -> plain_sval v = true.
Proof. exact pod_is_plain. Qed.
Print Assumptions C09_pod_is_plain.

(* the well-formedness hypotheses are necessary: each is refuted when dropped *)
Theorem C09_multibit_member_refuted : ~ lossless_at (SFlagField bad_multibit) 0 true 1.
Proof. exact multibit_refuted. Qed.
Print Assumptions C09_multibit_member_refuted.

Theorem C09_bool_wide_refuted : ~ lossless_at (SAdapter ABool) 0 false 2.
Proof. exact bool_wide_refuted. Qed.
Print Assumptions C09_bool_wide_refuted.

Theorem C09_nibbles_wide_refuted : ~ lossless_at (SAdapter ANibbles) 0 false 4096.
Proof. exact nibbles_wide_refuted. Qed.
Print Assumptions C09_nibbles_wide_refuted.

Theorem C09_bitfield_signed_refuted : ~ lossless_at (SBitfield true bf_demo) 0 false (-1).
Proof. exact bitfield_signed_refuted. Qed.
Print Assumptions C09_bitfield_signed_refuted.

(* ---- non-vacuity: concrete classes meeting the hypotheses ---- *)
Local Open Scope string_scope.
(* aliases (B2 = B), a zero member, a multi-bit alias (AB) that iteration skips,
   as Python 3.11+ iterates flag classes *)
Definition ex_flags : cls :=
  {| c_iter := [(nm "A", 1%Z); (nm "B", 2%Z); (nm "H", 128%Z)];
     c_names := [(nm "NONE", 0%Z); (nm "A", 1%Z); (nm "B", 2%Z); (nm "B2", 2%Z); (nm "AB", 3%Z); (nm "H", 128%Z)] |}.
Definition ex_enum : cls :=
  {| c_iter := [(nm "OK", 0%Z); (nm "LANDING", 1%Z); (nm "ERR", (-1)%Z)];
     c_names := [(nm "OK", 0%Z); (nm "LANDING", 1%Z); (nm "NONE", 1%Z); (nm "ERR", (-1)%Z)] |}.

Example C09_ex_wf : wf_flag ex_flags = true /\ wf_enum ex_enum = true
  /\ registered_ok (SFlagField ex_flags) S32 = true
  /\ registered_ok (SContext [(47%Z, AFlag ex_flags); (9%Z, ANibbles)] (Some AIdentity)) U8 = true
  /\ registered_ok (SBitfield true bf_demo) U32 = true.
Proof. vm_compute. repeat split. Qed.

(* -1 on a signed flag field: every member set, leftover = the remaining bits (negative) *)
Example C09_ex_flag_negative :
  decode (AFlag ex_flags) true (-1) = Some (VTuple [EName (nm "A"); EName (nm "B"); EName (nm "H"); EInt (-132)%Z])
  /\ encode (AFlag ex_flags) (VTuple [EName (nm "A"); EName (nm "B"); EName (nm "H"); EInt (-132)%Z]) = Some (-1)%Z
  /\ decode (AFlag ex_flags) false (-1) = Some (VInt (-1)).
Proof. vm_compute. repeat split. Qed.

Example C09_ex_flag_leftover :
  decode (AFlag ex_flags) true 67 = Some (VTuple [EName (nm "A"); EName (nm "B"); EInt 64%Z])
  /\ encode (AFlag ex_flags) (VTuple [EName (nm "AB"); EInt 64%Z]) = Some 67%Z.
Proof. vm_compute. repeat split. Qed.

Example C09_ex_enum :
  s_deserialize (SEnumField ex_enum) 0 true 1 = Some (SV (VName (nm "LANDING")))
  /\ s_serialize (SEnumField ex_enum) 0 (SV (VName (nm "NONE"))) = Some 1%Z
  /\ s_deserialize (SEnumField ex_enum) 0 true 7 = Some (SV VUnser)
  /\ s_deserialize (SEnumField ex_enum) 0 false 7 = Some (SV (VInt 7))
  /\ s_deserialize (SEnumField ex_enum) 0 false (-1) = Some (SV (VMember (nm "ERR") (-1))).
Proof. vm_compute. repeat split. Qed.

Example C09_ex_bitfield :
  s_deserialize (SBitfield true bf_demo) 0 false 2147483653
    = Some (SDict [(nm "PacketID", VInt 5); (nm "IsEOF", VBool true)])
  /\ s_serialize (SBitfield true bf_demo) 0 (SDict [(nm "IsEOF", VBool true); (nm "PacketID", VInt 5)])
    = Some 2147483653%Z.
Proof. vm_compute. repeat split. Qed.

Example C09_ex_context :
  s_deserialize (SContext [(47%Z, AFlag ex_flags); (9%Z, ANibbles)] (Some AIdentity)) 9 false 18 = Some (SV (VInt 33))
  /\ s_deserialize (SContext [(47%Z, AFlag ex_flags); (9%Z, ANibbles)] (Some AIdentity)) 47 true 3
       = Some (SV (VTuple [EName (nm "A"); EName (nm "B")]))
  /\ s_deserialize (SContext [(47%Z, AFlag ex_flags); (9%Z, ANibbles)] (Some AIdentity)) 95 true 3 = Some (SV (VInt 3)).
Proof. vm_compute. repeat split. Qed.
