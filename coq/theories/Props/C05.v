(* C05 - Proxied circuit: acknowledgements stay truthful under injection, drops, resends.
   Property theorems only (closed by [exact] of lemmas of Circuit/ProxCircuitProofs.v),
   each followed by [Print Assumptions].

   Model: Circuit/ProxCircuit.v (ProxiedCircuit + Circuit + the collect_acks / send /
   drop_message core of handle_proxied_packet), tied to the code on every run by
   harness/props/c05.py.

   Every theorem quantifies over EVERY event history [pre] from a fresh circuit with any
   tracker window [m] and resend interval [e] ([reach m e pre] is the state reached,
   by fold_left of the step function) and over every next event.  [ghost m d pre] is
   the C04 ghost state of the tracker of direction d (C04's invariant and theorems apply
   to it by C05_trackers_are_C04_runs).

   STATUS.  The model follows the repaired code (/repo 1939bda: _rewrite_packet_ack installs
   the filtered block list before the emptiness test).  Proved in full, for every packet:
   the trackers are C04 runs; provenance of every acknowledgement shown for forwarded and
   for dropped packets; inj_acks_hidden; exactly-once delivery; resend discipline (same ID,
   RESENT, cadence, never after completion, completion exactly on first ack / on exhausted
   budget, at most once, and the retry budget as a trace property: exactly 9
   retransmissions then one timeout); OldestUnacked rewriting.
   "Only IDs it sent itself" is proved under the hypothesis that the peer acknowledges a wire
   ID that really travelled towards it (C05_shown_ack_names_a_sent_packet); above-evicted
   hypotheses are inherited from C04.  Not modelled: real time (the clock is the event Tick). *)
From Coq Require Import ZArith List Bool.
From HV Require Import Inj.InjTracker Inj.InjTrackerProofs Circuit.ProxCircuit Circuit.ProxCircuitProofs.
Import ListNotations.
Open Scope Z_scope.

(* both ID trackers of a proxied circuit evolve exactly as C04 histories: every C04
   theorem applies to them *)
Theorem C05_trackers_are_C04_runs : forall m e pre d,
  fwd_tr (reach m e pre) d = tr (ghost m d pre) /\
  ghost m d pre = grun (ginit 0 m) (flat_map (ops_of d) pre) /\
  Inv (ghost m d pre).
Proof.
  intros m e pre d. split; [exact (reach_tracker m e pre d)|]. split; [reflexivity|exact (ghost_Inv m d pre)].
Qed.
Print Assumptions C05_trackers_are_C04_runs.

(* acks_truthful + inj_acks_hidden, forwarded packets.  Every acknowledgement [a]
   (appended or PacketAck block) in the datagram forwarded for a received packet [msg]
   stems from an acknowledgement [w] the sender of [msg] really put in it, where [w] is
   not an ID the proxy injected (not in the window; and, above the forgotten injections,
   not injected EVER), [a] is [w] translated back, and [a] translates forward to [w]:
   [w] is the wire ID under which the receiving endpoint's own packet [a] travelled. *)
Theorem C05_forwarded_acks_provenance : forall m e pre msg em a,
  let s := reach m e pre in
  let G := ghost m (inv_dir (r_dir msg)) pre in
  In em (snd (fst (step s (Recv msg)))) -> In a (shown_acks em) ->
  e_dir em = r_dir msg /\ e_syn em = false /\
  exists w, In w (all_acks msg) /\ source_ok G w a.
Proof. exact recv_sources. Qed.
Print Assumptions C05_forwarded_acks_provenance.

(* acks_truthful, "only for packet IDs it sent itself": if the acknowledged wire ID [w] is one
   that really travelled towards the acknowledging side ([seen] of the tracker's ghost: all
   forwarded and injected wire IDs of that direction) and lies above the forgotten injections,
   then the translated acknowledgement [a] shown to the endpoint names a packet that this
   endpoint sent itself (a [Recv] of the history, in that direction, with ID [a]) whose wire
   ID was [w] ([source_ok]: a translates to w) *)
Theorem C05_shown_ack_names_a_sent_packet : forall m pre d w a,
  let G := ghost m d pre in
  In w (seen G) -> source_ok G w a -> above_evicted G w ->
  exists msg, In (Recv msg) pre /\ r_dir msg = d /\ r_pid msg = a.
Proof. exact shown_ack_was_sent. Qed.
Print Assumptions C05_shown_ack_names_a_sent_packet.

(* inj_acks_hidden: for every received packet in every reachable state (after collect_acks):
   (1) whatever the forwarded datagram acknowledges stems from an ack of the sender for a wire
   ID that is NOT one the proxy injected; (2) the packet is withheld exactly when it is a
   PacketAck with no block and no appended ack surviving the filter; in particular (3) a
   PacketAck consisting only of acks for injected packets is not forwarded.
   (Before /repo 1939bda, (1) failed: corpus/C05/01-..., Example C05_ex_regression_1939bda.) *)
Theorem C05_inj_acks_hidden : forall m e pre msg,
  let s1 := fst (collect_acks (reach m e pre) msg) in
  let rev := rev_tr s1 (r_dir msg) in
  (forall em a, In em (snd (send_forward s1 msg)) -> In a (shown_acks em) ->
     exists w, In w (all_acks msg) /\ was_injected rev w = false /\ orig rev w = Some a) /\
  (snd (send_forward s1 msg) = [] <->
     exists ids, r_kind msg = PacketAck ids /\ rewrite_acks rev ids = [] /\ rewrite_acks rev (r_acks msg) = []) /\
  (forall ids, r_kind msg = PacketAck ids ->
     (forall w, In w (ids ++ r_acks msg) -> was_injected rev w = true) ->
     snd (send_forward s1 msg) = []).
Proof. intros m e pre msg. exact (inj_acks_hidden _ msg). Qed.
Print Assumptions C05_inj_acks_hidden.

(* acks_truthful, dropped packets: what the proxy emits when it drops [msg] is (1) towards
   the sender, only if [msg] was reliable, a PacketAck for exactly [msg]'s own ID, and (2)
   towards the other side a PacketAck whose every entry stems from an appended ack of [msg]
   for a non-injected wire ID, translated (no exception: holds for every packet) *)
Theorem C05_dropped_acks_provenance : forall m e pre msg em a,
  let s := reach m e pre in
  let G' := ghost m (inv_dir (r_dir msg)) (pre ++ [RecvDrop msg]) in
  In em (snd (fst (step s (RecvDrop msg)))) -> In a (shown_acks em) ->
  (e_dir em = inv_dir (r_dir msg) /\ r_rel msg = true /\ a = r_pid msg /\
   e_kind em = PacketAck [r_pid msg] /\ e_acks em = []) \/
  (e_dir em = r_dir msg /\ e_acks em = [] /\ exists w, In w (r_acks msg) /\ source_ok G' w a).
Proof. exact recv_drop_sources. Qed.
Print Assumptions C05_dropped_acks_provenance.

(* acks_delivered_once: the forwarded datagram carries precisely the translations of the
   non-injected acks, each once and in order (rewrite_acks = map of the translation over
   the filtered list), same for PacketAck blocks; nothing is sent only when the packet was a
   PacketAck with nothing left to say *)
Theorem C05_acks_delivered_once : forall m e pre msg,
  let s1 := fst (collect_acks (reach m e pre) msg) in
  let rev := rev_tr s1 (r_dir msg) in
  match snd (send_forward s1 msg) with
  | [] => exists ids, r_kind msg = PacketAck ids /\ rewrite_acks rev ids = [] /\ rewrite_acks rev (r_acks msg) = []
  | [em] => e_acks em = rewrite_acks rev (r_acks msg) /\
            kind_ids (e_kind em) = rewrite_acks rev (kind_ids (r_kind msg)) /\
            e_dir em = r_dir msg /\ e_id em = eff (fwd_tr s1 (r_dir msg)) (r_pid msg) /\
            e_rel em = r_rel msg /\ e_resent em = r_resent msg /\ e_syn em = false
  | _ => False
  end.
Proof. intros m e pre msg. exact (send_forward_exact _ msg). Qed.
Print Assumptions C05_acks_delivered_once.

Theorem C05_rewrite_is_filter_then_translate : forall rev l,
  rewrite_acks rev l = map (orig_d rev) (filter (fun w => negb (was_injected rev w)) l).
Proof. exact rewrite_acks_map. Qed.
Print Assumptions C05_rewrite_is_filter_then_translate.

(* resend_discipline 1: whatever a clock tick emits is a packet of the proxy's own, still
   unacknowledged, re-sent with the SAME direction and wire ID, RELIABLE and RESENT set,
   not before the resend interval has elapsed since it was last sent, and only while retry
   budget remains *)
Theorem C05_resend_same_id_at_cadence : forall m e pre dt em,
  let s := reach m e pre in
  In em (snd (fst (step s (Tick dt)))) ->
  In (e_dir em, e_id em) (keys (unacked s)) /\ e_resent em = true /\ e_rel em = true /\ e_syn em = true /\
  exists ri, In ((e_dir em, e_id em), ri) (unacked s) /\ em = resent_of (ri_msg ri) /\
             every s <= now s + dt - ri_last ri /\ 1 < ri_tries ri.
Proof. intros m e pre dt em. exact (tick_emissions _ dt em (reach_UInv m e pre)). Qed.
Print Assumptions C05_resend_same_id_at_cadence.

(* ... and it emits ALL of those, and times out exactly the due ones whose budget is spent *)
Theorem C05_resend_closed_form : forall nw ev snap,
  let '(u, es, ss) := resend nw ev snap in
  es = map (fun p => resent_of (ri_msg (snd p)))
           (filter (fun p => due nw ev (snd p) && negb (ri_tries (snd p) - 1 =? 0)) snap) /\
  ss = map (fun p => TimedOut (fst (fst p)) (snd (fst p)))
           (filter (fun p => due nw ev (snd p) && (ri_tries (snd p) - 1 =? 0)) snap) /\
  u = flat_map (fun p => if due nw ev (snd p)
                         then if ri_tries (snd p) - 1 =? 0 then []
                              else [(fst p, mkRI nw (ri_tries (snd p) - 1) (ri_msg (snd p)))]
                         else [p]) snap.
Proof. exact resend_spec. Qed.
Print Assumptions C05_resend_closed_form.

(* resend_discipline 2: once the completion signal of a packet has fired (acknowledged or
   timed out), in every continuation of the history it is never in the table again, never
   retransmitted again, and its signal never fires again *)
Theorem C05_never_after_completion : forall m e pre ev post s,
  In s (snd (step (reach m e pre) ev)) ->
  let k := match s with Completed d id => (d, id) | TimedOut d id => (d, id) end in
  let later := reach m e (pre ++ ev :: post) in
  ~ In k (keys (unacked later)) /\
  (forall dt em, In em (snd (fst (step later (Tick dt)))) -> (e_dir em, e_id em) <> k) /\
  (forall ev2 s2, In s2 (snd (step later ev2)) ->
     match s2 with Completed d id => (d, id) | TimedOut d id => (d, id) end <> k).
Proof. exact after_signal. Qed.
Print Assumptions C05_never_after_completion.

(* resend_discipline 3: a received packet (forwarded or dropped) completes exactly the
   queued packets of the opposite direction that it acknowledges (appended acks or
   PacketAck blocks), each at its first mention *)
Theorem C05_completed_iff_acked : forall m e pre msg d a,
  let s := reach m e pre in
  d = inv_dir (r_dir msg) ->
  (In (Completed d a) (snd (step s (Recv msg))) \/ In (Completed d a) (snd (step s (RecvDrop msg)))
   <-> In a (all_acks msg) /\ In (d, a) (keys (unacked s))).
Proof.
  intros m e pre msg d a s ->. rewrite step_recv_signals. split.
  - intros H. destruct (collect_signals _ _ _ _ (proj1 (reach_UInv m e pre)) H) as (b & E & Hb & Hk & _).
    injection E as <-. auto.
  - intros (Ha & Hk). exact (collect_complete _ _ _ _ Ha Hk).
Qed.
Print Assumptions C05_completed_iff_acked.

(* resend_discipline 4, the retry budget: the proxy injects a reliable packet in any reachable
   state; it goes out once with a fresh ID; then, over ANY continuation in which no received
   packet acknowledges it, it is retransmitted (10 - tries still left) times while it is
   queued, and once it has left the queue it has been retransmitted exactly 9 times and its
   completion signal has failed (TimedOut) exactly once.  [resends] counts the proxy's own
   datagrams with that direction and ID and RESENT set, [timeouts] the TimedOut signals. *)
Theorem C05_retry_budget : forall m e pre d k0 post,
  let s := reach m e pre in
  let id := snd (gen (fwd_tr s d)) in
  (forall ev, In ev post -> acks_key ev (d, id) = false) ->
  let '(st', tr) := run_trace (next s (Inj d true k0)) post in
  snd (fst (step s (Inj d true k0))) = [mkE d id true false [] k0 true] /\
  ((exists ri', In ((d, id), ri') (unacked st') /\ resends (d, id) tr = TRIES - ri_tries ri' /\
                1 <= ri_tries ri' /\ timeouts (d, id) tr = 0) \/
   (~ In (d, id) (keys (unacked st')) /\ resends (d, id) tr = TRIES - 1 /\ timeouts (d, id) tr = 1)).
Proof. exact inject_budget. Qed.
Print Assumptions C05_retry_budget.

(* the same for any queued packet with t tries left *)
Theorem C05_retry_budget_general : forall post st k ri,
  UInv st -> In (k, ri) (unacked st) -> (forall ev, In ev post -> acks_key ev k = false) ->
  let '(st', tr) := run_trace st post in
  (exists ri', In (k, ri') (unacked st') /\ resends k tr = ri_tries ri - ri_tries ri' /\ timeouts k tr = 0) \/
  (~ In k (keys (unacked st')) /\ resends k tr = ri_tries ri - 1 /\ timeouts k tr = 1).
Proof. exact budget_trace. Qed.
Print Assumptions C05_retry_budget_general.

(* the unacked table is well formed in every reachable state: one entry per key, each a
   reliable packet of the proxy's own with its own direction and ID, 1..10 tries left, an
   ID the tracker has already handed out *)
Theorem C05_unacked_table_invariant : forall m e pre, UInv (reach m e pre).
Proof. exact reach_UInv. Qed.
Print Assumptions C05_unacked_table_invariant.

(* ping_check: the forwarded StartPingCheck carries min(translated OldestUnacked, the
   proxy's own unacknowledged IDs in that direction): it is below all of them and is one
   of them *)
Theorem C05_ping_check : forall st msg o,
  r_kind msg = StartPing o ->
  exists em n, snd (send_forward st msg) = [em] /\ e_kind em = StartPing n /\
    n <= eff (fwd_tr st (r_dir msg)) o /\
    (forall id, In (r_dir msg, id) (keys (unacked st)) -> n <= id) /\
    (n = eff (fwd_tr st (r_dir msg)) o \/ In (r_dir msg, n) (keys (unacked st))).
Proof.
  intros st msg o K. destruct (send_forward_ping st msg o K) as (em & E1 & E2).
  exists em, (min_list (eff (fwd_tr st (r_dir msg)) o) (unacked_ids (unacked st) (r_dir msg))).
  destruct (min_list_spec (unacked_ids (unacked st) (r_dir msg)) (eff (fwd_tr st (r_dir msg)) o)) as (A & B & C).
  split; [exact E1|]. split; [exact E2|]. split; [exact A|]. split.
  - intros id Hid. apply B. apply unacked_ids_In. exact Hid.
  - destruct C as [C|C]; [left; exact C|right; apply unacked_ids_In; exact C].
Qed.
Print Assumptions C05_ping_check.

(* ------------------------------------------------------------------ *)
(* non-vacuity *)

Definition ex_pre : list event :=
  [ Recv (mkR OUT 1 true false [] Plain);        (* viewer 1 (reliable)         -> wire 1 *)
    Inj OUT true Plain;                          (* proxy injects               -> wire 2 *)
    Recv (mkR OUT 2 true false [] Plain);        (* viewer 2                    -> wire 3 *)
    Inj IN true Plain ].                         (* proxy injects towards viewer -> wire 1 (IN) *)

(* the sim acknowledges wire IDs 1,2,3: the viewer is shown 1 and 2 (its own IDs), the
   injected 2 is hidden and completes the proxy's packet *)
Example C05_ex_forward :
  step (reach 10 3000 ex_pre) (Recv (mkR IN 1 false false [1; 2; 3] Plain)) =
  (fst (fst (step (reach 10 3000 ex_pre) (Recv (mkR IN 1 false false [1; 2; 3] Plain)))),
   [mkE IN 2 false false [1; 2] Plain false], [Completed OUT 2]).
Proof. vm_compute. reflexivity. Qed.

(* regression (/repo 1939bda): viewer sends 1, proxy injects wire ID 2, the sim answers
   PacketAck{2} + appended ack 1: the viewer is shown the ack 1 and an EMPTY block list *)
Example C05_ex_regression_1939bda :
  snd (fst (step (reach 10 3000 [Recv (mkR OUT 1 true false [] Plain); Inj OUT true Plain])
                 (Recv (mkR IN 1 false false [1] (PacketAck [2]))))) =
  [mkE IN 1 false false [1] (PacketAck []) false].
Proof. vm_compute. reflexivity. Qed.

(* a PacketAck only for injected packets is withheld *)
Example C05_ex_injected_only_packetack :
  snd (fst (step (reach 10 3000 [Recv (mkR OUT 1 true false [] Plain); Inj OUT true Plain])
                 (Recv (mkR IN 1 false false [] (PacketAck [2]))))) = [].
Proof. vm_compute. reflexivity. Qed.

(* the budget theorem's hypothesis is satisfiable and both outcomes occur *)
Example C05_ex_budget :
  let post := Tick 3000 :: Recv (mkR IN 1 false false [] Plain) :: repeat (Tick 3000) 9 in
  forallb (fun ev => negb (acks_key ev (OUT, 1))) post = true /\
  resends (OUT, 1) (snd (run_trace (next (pc_init 10 3000) (Inj OUT true Plain)) post)) = 9 /\
  timeouts (OUT, 1) (snd (run_trace (next (pc_init 10 3000) (Inj OUT true Plain)) post)) = 1 /\
  resends (OUT, 1) (snd (run_trace (next (pc_init 10 3000) (Inj OUT true Plain)) (firstn 5 post))) = 4.
Proof. vm_compute. repeat split. Qed.

(* a reliable injection is resent with the same ID when due, 9 times, then times out *)
Example C05_ex_resend :
  map (fun o => (snd (fst o), snd o))
      (snd (run_trace (pc_init 10 3000) (Inj OUT true Plain :: Tick 2999 :: repeat (Tick 3000) 10))) =
  ([mkE OUT 1 true false [] Plain true], []) :: ([], []) ::
  repeat ([mkE OUT 1 true true [] Plain true], []) 9 ++ [([], [TimedOut OUT 1])].
Proof. vm_compute. reflexivity. Qed.

Example C05_ex_drop :
  snd (fst (step (reach 10 3000 ex_pre) (RecvDrop (mkR OUT 3 true false [1] Plain)))) =
  [mkE IN 2 false false [] (PacketAck [3]) true].   (* the ack 1 was for the proxy's own IN packet: hidden *)
Proof. vm_compute. reflexivity. Qed.

Example C05_ex_ping :
  snd (fst (step (reach 10 3000 ex_pre) (Recv (mkR OUT 3 false false [] (StartPing 3))))) =
  [mkE OUT 4 false false [] (StartPing 2) false].   (* translated 3 -> 4, but the proxy's own 2 is older *)
Proof. vm_compute. reflexivity. Qed.
