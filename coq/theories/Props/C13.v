(* C13 - the hand-optimised compressed-object decoder agrees with the
   declarative template.  Property theorems only: each is closed by [exact]
   and followed by [Print Assumptions].
   Model: Compressed/Model.v (fast_read: hand transcription of
   FastObjectUpdateCompressedDataDeserializer.read; decl_read/decl_write:
   interpreter of a declarative field list).  current_template / current_cfg
   are regenerated from the live objects of the repo under test on every run
   (gen/C13_gen.v), so every theorem below is about the CURRENT template and the
   CURRENT struct formats / flag constants of the fast decoder.
   X, sub, inner, utf8 are the embedded sub-templates (ExtraParams, particle
   blocks, TextureEntry, name-values, texture animation, utf8 decoding): the
   theorems hold for EVERY choice of them - the only thing assumed is that both
   decoders call the same function on the same bytes. *)
From Coq Require Import NArith ZArith List Bool.
From HV Require Import Base.Bytes Compressed.Model Compressed.Proofs Compressed.Agree Compressed.Reencode Compressed.Instance.
From HVgen Require Import C13_gen.
Import ListNotations.
Open Scope N_scope.

(* For every byte string - hence for all 2^11 section-flag combinations, every
   object kind and all section contents at once - the fast decoder computes
   exactly the template interpretation with the strict C-string reader. *)
Theorem C13_fast_eq_strict : forall X sub inner utf8 b,
  fast_read X sub inner utf8 current_cfg b
  = option_map fst (decl_fields X sub inner utf8 true current_template [] b).
Proof. exact fast_eq_strict. Qed.
Print Assumptions C13_fast_eq_strict.

(* fast_agrees: whatever the template accepts (consuming the whole payload, as
   ObjectUpdateCompressedDataSerializer.deserialize demands), the fast decoder
   accepts, with equal field values *)
Theorem C13_fast_agrees : forall X sub inner utf8,
  (forall id b x r, sub id b = Some (x, r) -> exists p, b = p ++ r) ->
  forall b v,
  decl_read X sub inner utf8 current_template b = Some (v, []) ->
  exists v', fast_read X sub inner utf8 current_cfg b = Some v' /\ fields_equal X v v'.
Proof. exact fast_agrees. Qed.
Print Assumptions C13_fast_agrees.

(* ... and the fast decoder accepts nothing the template (before its
   trailing-bytes check) rejects, and returns the template's dict *)
Theorem C13_fast_only_decl : forall X sub inner utf8 b v',
  fast_read X sub inner utf8 current_cfg b = Some v' ->
  exists r, decl_read X sub inner utf8 current_template b = Some (v', r).
Proof. exact fast_only_decl. Qed.
Print Assumptions C13_fast_only_decl.

(* generic: on any template whose C strings are followed by a field that needs
   a byte, a complete lenient (end-of-buffer terminates) parse is a strict one *)
Theorem C13_strict_of_lenient : forall X sub inner utf8,
  (forall id b x r, sub id b = Some (x, r) -> exists p, b = p ++ r) ->
  forall T, eof_safe T = true -> forall acc b v,
  decl_fields X sub inner utf8 false T acc b = Some (v, []) ->
  decl_fields X sub inner utf8 true T acc b = Some (v, []).
Proof. exact strict_of_lenient. Qed.
Print Assumptions C13_strict_of_lenient.

(* generic: struct.unpack_from of a whole format = the items read one by one *)
Theorem C13_read_struct_seq : forall X fmt b, read_struct X fmt b = read_seq X fmt b.
Proof. exact read_struct_seq. Qed.
Print Assumptions C13_read_struct_seq.

(* reencode: writing the decoded fields back in template order reproduces the
   payload, for the current template, given that the embedded sub-templates
   round-trip on what they accepted.  [writable] excludes exactly (a) a flagged
   NUL-terminated typed window that decoded to None while the template writes
   None as nothing at all (only if the generated template has such a field:
   skipnone = true - see C13_reencode_refuted), and (b) lazy windows
   (TextureEntry) whose deferred parse fails. *)
Theorem C13_reencode : forall X sub inner utf8 sub_w inner_w utf8_w,
  (forall id b x r, sub id b = Some (x, r) -> exists p, b = p ++ r /\ sub_w id x = Some p) ->
  (forall id w x, inner id w = Some x -> inner_w id x = Some w) ->
  (forall w x, utf8 w = Some x -> utf8_w x = Some w) ->
  forall b v,
  bytes_okb b = true ->
  decl_read X sub inner utf8 current_template b = Some (v, []) ->
  writable X inner current_template v = true ->
  decl_write X inner sub_w inner_w utf8_w current_template v = Some b.
Proof. exact reencode_current. Qed.
Print Assumptions C13_reencode.

(* the same for any template *)
Theorem C13_reencode_generic : forall X sub inner utf8 sub_w inner_w utf8_w,
  (forall id b x r, sub id b = Some (x, r) -> exists p, b = p ++ r /\ sub_w id x = Some p) ->
  (forall id w x, inner id w = Some x -> inner_w id x = Some w) ->
  (forall w x, utf8 w = Some x -> utf8_w x = Some w) ->
  forall T b v,
  names_ok [] T = true -> forallb (fun f => kind_ok (fkind f)) T = true -> eof_safe T = true ->
  bytes_okb b = true ->
  decl_read X sub inner utf8 T b = Some (v, []) ->
  writable X inner T v = true ->
  decl_write X inner sub_w inner_w utf8_w T v = Some b.
Proof. exact reencode. Qed.
Print Assumptions C13_reencode_generic.

(* The full-strength statement (without [writable]) is FALSE of the faithful
   model: flags 256, an empty NUL-terminated name-value window, one more byte
   decodes to NameValue = None and is written back without the terminator. *)
Theorem C13_reencode_refuted :
  exists b v, bytes_okb b = true
    /\ decl_read raw (c_sub (fun _ => ShRest)) c_inner c_utf8 refute_template b = Some (v, [])
    /\ decl_write raw c_inner c_w c_w c_utf8_w refute_template v <> Some b.
Proof. exact reencode_refuted. Qed.
Print Assumptions C13_reencode_refuted.


(* ---- non-vacuity ---- *)
Definition ex_payload : list N := [1; 2; 3; 4; 5; 6; 7; 8; 9; 10; 11; 12; 13; 14; 15; 16; 7; 0; 0; 0; 9; 47; 5; 0; 0; 0; 3; 0; 0; 0; 128; 63; 0; 0; 0; 64; 0; 0; 64; 64; 0; 0; 128; 64; 0; 0; 160; 64; 0; 0; 192; 64; 0; 0; 0; 0; 0; 0; 0; 0; 0; 0; 0; 0; 37; 1; 0; 0; 0; 0; 0; 0; 0; 0; 0; 0; 0; 0; 0; 0; 0; 0; 0; 0; 77; 0; 0; 0; 2; 0; 0; 0; 7; 8; 104; 105; 0; 1; 2; 3; 4; 1; 112; 0; 4; 0; 0; 0; 1; 0; 0; 0; 97; 32; 83; 84; 82; 73; 78; 71; 32; 82; 32; 83; 32; 118; 0; 1; 2; 3; 4; 5; 6; 7; 8; 9; 10; 11; 12; 13; 14; 15; 16; 17; 18; 19; 20; 21; 22; 23; 0; 0; 0; 0].
Definition ex_empty_nv : list N := [1; 2; 3; 4; 5; 6; 7; 8; 9; 10; 11; 12; 13; 14; 15; 16; 7; 0; 0; 0; 9; 0; 5; 0; 0; 0; 3; 0; 0; 0; 128; 63; 0; 0; 0; 64; 0; 0; 64; 64; 0; 0; 128; 64; 0; 0; 160; 64; 0; 0; 192; 64; 0; 0; 0; 0; 0; 0; 0; 0; 0; 0; 0; 0; 0; 1; 0; 0; 0; 0; 0; 0; 0; 0; 0; 0; 0; 0; 0; 0; 0; 0; 0; 0; 0; 0; 1; 2; 3; 4; 5; 6; 7; 8; 9; 10; 11; 12; 13; 14; 15; 16; 17; 18; 19; 20; 21; 22; 23; 0; 0; 0; 0].

(* the assumption on the sub-readers is satisfiable: the extracted instance has it *)
Example C13_ex_sub_suffix : forall id b x r, c_sub shapes id b = Some (x, r) -> exists p, b = p ++ r.
Proof. exact (c_sub_suffix shapes). Qed.

(* a payload with ScratchPad, Text, ParentID, NameValue sections and one extra
   param, object kind PRIMITIVE with a nibble-rotated State: the template reads
   it completely, the fast decoder returns the same dict, re-encoding gives the
   payload back *)
Definition ex_v : dict raw :=
  Eval vm_compute in match m_decl ex_payload with Some (v, _) => v | None => [] end.
Example C13_ex_agree : exists v,
  m_decl ex_payload = Some (v, []) /\ m_fast ex_payload = Some v /\ m_write v = Some ex_payload
  /\ lookup raw n_State v = Some (VInt 242%Z)
  /\ lookup raw n_ParentID v = Some (VInt 77%Z)
  /\ lookup raw n_TreeSpecies v = Some VNone
  /\ writable raw c_inner current_template v = true /\ bytes_okb ex_payload = true.
Proof. exists ex_v. vm_compute. repeat split; reflexivity. Qed.

(* the round-trip assumptions are satisfiable as well (windows written back verbatim) *)
Example C13_ex_inner_rt : forall id w x, c_inner id w = Some x -> c_w id x = Some w.
Proof. intros id w x H. injection H as <-. reflexivity. Qed.

(* the flagged-but-empty name-value section: both decoders agree on None (what
   re-encoding makes of it depends on the template, see C13_reencode) *)
Definition ex_v2 : dict raw :=
  Eval vm_compute in match m_decl ex_empty_nv with Some (v, _) => v | None => [] end.
Example C13_ex_empty_nv : exists v,
  m_decl ex_empty_nv = Some (v, []) /\ m_fast ex_empty_nv = Some v /\ lookup raw n_NameValue v = Some VNone.
Proof. exists ex_v2. vm_compute. repeat split; reflexivity. Qed.

(* a C string running into the end of the buffer: the template-level reader
   accepts the Text but then fails, the fast reader fails at once *)
Example C13_ex_text_eof :
  let b := firstn 80 ex_payload ++ [4; 0; 0; 0] ++ repeat 0 16 ++ [97; 98; 99] in
  m_decl b = None /\ m_fast b = None.
Proof. vm_compute. split; reflexivity. Qed.
