(* C08 - Serialization combinators: read(write(v)) == v, exact framing, composable.
   Property theorems only.  Model: Spec/Spec.v (deep embedding of the combinator grammar of
   hippolyzer/lib/base/serialization.py; tied to the real classes on every run by the
   correspondence check of harness/props/c08.py on random and exhaustive spec trees).

   e : endianness (true = "<"), pod : Reader.pod, cs / cd : the ParseContext on the writing /
   reading side (arbitrary), wf : the side conditions (greedy parts only in tail position,
   terminators present, zero-size entries excluded from greedy loops, ...; false for the
   combinators of proof stage 2), domb pod s v : v is in the derived domain of s in that mode,
   delimited s : s is self-delimiting (otherwise it consumes the rest of its window). *)
From Coq Require Import NArith ZArith List Bool Permutation.
From HV Require Import Base.Bytes Spec.Spec Spec.SpecLemmas Spec.SpecSize Spec.SpecProofs Spec.SpecReject Spec.SpecAdapters
     Spec.SpecOrder.
Import ListNotations.
Open Scope N_scope.

(* the generic statement: for every spec of the proved fragment, every domain value, both byte
   orders, both modes: what was written, followed by [rest], reads back as the value and leaves
   exactly [rest]; [rest] is arbitrary for self-delimiting specs and empty for window specs.
   The contexts on the two sides only have to agree on the sibling fields the spec itself refers to
   (OptionalFlagged); inside a Template that agreement is established by the proof. *)
Theorem C08_roundtrip : forall e pod s cs cd v b rest,
  wf s = true -> agree (refs s) cs cd -> domb e pod s cs v = true -> ser e s cs v = Some b ->
  (delimited s = true \/ rest = []) ->
  de e pod s cd (b ++ rest) = Some (v, rest).
Proof. exact roundtrip. Qed.
Print Assumptions C08_roundtrip.

(* specs without free context references: arbitrary, unrelated contexts *)
Theorem C08_roundtrip_closed : forall e pod s cs cd v b rest,
  wf s = true -> refs s = [] -> domb e pod s cs v = true -> ser e s cs v = Some b ->
  (delimited s = true \/ rest = []) ->
  de e pod s cd (b ++ rest) = Some (v, rest).
Proof. exact rt_closed. Qed.
Print Assumptions C08_roundtrip_closed.

Theorem C08_rt_delimited : forall e pod s cs cd v b,
  wf s = true -> agree (refs s) cs cd -> delimited s = true -> domb e pod s cs v = true ->
  ser e s cs v = Some b ->
  forall rest, de e pod s cd (b ++ rest) = Some (v, rest).
Proof. exact rt_delimited. Qed.
Print Assumptions C08_rt_delimited.

Theorem C08_rt_window : forall e pod s cs cd v b,
  wf s = true -> agree (refs s) cs cd -> domb e pod s cs v = true -> ser e s cs v = Some b ->
  de e pod s cd b = Some (v, []).
Proof. exact rt_window. Qed.
Print Assumptions C08_rt_window.

(* where a spec reports a size, every encoding (of any value, in or out of the domain, for any
   spec, wf or not) has exactly that size *)
Theorem C08_size_exact : forall e s c v b n,
  calc_size s = Some n -> ser e s c v = Some b -> N.of_nat (length b) = n.
Proof. exact size_exact. Qed.
Print Assumptions C08_size_exact.

(* a size query never fails: calc_size is a total function, and a Tuple answers "no fixed
   size" exactly when a member does (the repaired behaviour of defect #6) *)
Theorem C08_size_total : forall ss,
  calc_size (STuple ss) = None <-> exists s, In s ss /\ calc_size s = None.
Proof. exact calc_size_tuple_none. Qed.
Print Assumptions C08_size_total.

(* the same for the wider notion used by LengthSwitch's side condition *)
Theorem C08_exact_size : forall e s c v b n,
  exact_size s = Some n -> ser e s c v = Some b -> N.of_nat (length b) = n.
Proof. exact exact_size_ok. Qed.
Print Assumptions C08_exact_size.

Theorem C08_min_size : forall e s c v b,
  ser e s c v = Some b -> min_size s <= N.of_nat (length b).
Proof. exact min_size_bound. Qed.
Print Assumptions C08_min_size.

(* composition *)
Theorem C08_compose_seq : forall e pod s1 s2 c1 c2 d1 d2 v1 v2 b1 b2 rest,
  wf s1 = true -> agree (refs s1) c1 d1 -> delimited s1 = true -> domb e pod s1 c1 v1 = true ->
  ser e s1 c1 v1 = Some b1 ->
  wf s2 = true -> agree (refs s2) c2 d2 -> domb e pod s2 c2 v2 = true -> ser e s2 c2 v2 = Some b2 ->
  (delimited s2 = true \/ rest = []) ->
  de e pod s1 d1 (b1 ++ b2 ++ rest) = Some (v1, b2 ++ rest) /\
  de e pod s2 d2 (b2 ++ rest) = Some (v2, rest).
Proof. exact compose_seq. Qed.
Print Assumptions C08_compose_seq.

Theorem C08_compose_tuple : forall e pod s1 s2 c cd v1 v2 b1 b2 rest,
  wf s1 = true -> delimited s1 = true -> domb e pod s1 [] v1 = true -> ser e s1 [] v1 = Some b1 ->
  wf s2 = true -> domb e pod s2 [] v2 = true -> ser e s2 [] v2 = Some b2 ->
  (delimited s2 = true \/ rest = []) ->
  ser e (STuple [s1; s2]) c (VList [v1; v2]) = Some (b1 ++ b2) /\
  de e pod (STuple [s1; s2]) cd ((b1 ++ b2) ++ rest) = Some (VList [v1; v2], rest).
Proof. exact compose_tuple. Qed.
Print Assumptions C08_compose_tuple.

Theorem C08_compose_collection : forall e pod s cd vs b,
  wf s = true -> delimited s = true -> 0 < min_size s ->
  forallb (domb e pod s []) vs = true -> ser_all (ser e s []) vs = Some b ->
  de e pod (SCollection LGreedy s) cd b = Some (VList vs, []).
Proof. exact compose_collection. Qed.
Print Assumptions C08_compose_collection.

(* rejection instead of truncation: at the combinator owning the limit ... *)
Theorem C08_range_reject : forall e c,
  (forall ip z, (z < ip_min ip \/ ip_max ip < z)%Z -> ser e (SPrim (PI ip)) c (VInt z) = None) /\
  (forall ip b, (ip_max ip < Z.of_nat (length b))%Z -> ser e (SByteArray ip) c (VBytes b) = None) /\
  (forall n b, N.of_nat (length b) <> n -> ser e (SBytesFixed n) c (VBytes b) = None) /\
  (forall ip (nt : bool) (b : bytes),
      (ip_max ip < Z.of_nat (length b) + (if nt then 1 else 0))%Z -> ser e (SStr ip nt) c (VStr b) = None) /\
  (forall n b, n < N.of_nat (length b) -> ser e (SStrFixed n) c (VStr b) = None) /\
  (forall ip s vs, (ip_max ip < Z.of_nat (length vs))%Z ->
                   ser e (SCollection (LPrefixed ip) s) c (VList vs) = None) /\
  (forall m s vs, m <> 0 -> N.of_nat (length vs) <> m ->
                  ser e (SCollection (LFixed m) s) c (VList vs) = None) /\
  (forall ss vs, length vs <> length ss -> ser e (STuple ss) c (VList vs) = None) /\
  (forall k s en ct v buf, (en && is_none v) = false -> ser e s c v = Some buf ->
      match k with
      | TBArray ip => (ip_max ip < Z.of_nat (length buf))%Z
      | TBFixed n => N.of_nat (length buf) <> n
      | _ => False
      end -> ser e (STypedBytes k s en ct) c v = None).
Proof.
  intros e c. repeat split; intros.
  - now apply reject_prim.
  - now apply reject_bytearray.
  - now apply reject_bytesfixed.
  - now apply reject_str.
  - now apply reject_strfixed.
  - now apply reject_coll_prefixed.
  - now apply reject_coll_fixed.
  - now apply reject_tuple_arity.
  - eapply reject_typed_frame; eassumption.
Qed.
Print Assumptions C08_range_reject.

(* ... and at any depth: a rejected member makes every enclosing container reject *)
Theorem C08_reject_propagates : forall e c,
  (forall ss vs i s v, nth_error ss i = Some s -> nth_error vs i = Some v -> ser e s [] v = None ->
                       ser e (STuple ss) c (VList vs) = None) /\
  (forall k s vs v, In v vs -> ser e s [] v = None -> ser e (SCollection k s) c (VList vs) = None) /\
  (forall fs skip rc kvs f v, In f fs -> lookup (fst f) kvs = Some v -> ser e (snd f) kvs v = None ->
                           ser e (STemplate fs skip rc) c (VDict kvs) = None) /\
  (forall s v, v <> VNone -> ser e s c v = None -> ser e (SOptPrefixed s) c v = None) /\
  (forall a s v v', aenc a v = Some v' -> ser e s c v' = None -> ser e (SAdapter a s) c v = None) /\
  (forall k s en ct v, v <> VNone -> ser e s c v = None -> ser e (STypedBytes k s en ct) c v = None).
Proof.
  intros e c. repeat split; intros.
  - eapply reject_tuple_member; eassumption.
  - eapply reject_coll_member; eassumption.
  - eapply reject_template_member; eassumption.
  - now apply reject_opt_member.
  - eapply reject_adapter_member; eassumption.
  - now apply reject_typed_member.
Qed.
Print Assumptions C08_reject_propagates.

(* the adapter domains are as large as they can be: whatever IntEnum / IntFlag can decode from an int
   of the child's domain is a value of the domain (and re-encodes to that int) *)
Theorem C08_enum_domain_complete : forall tbl strict pod (D : value -> bool) z v,
  nodupN (map fst tbl) = true -> D (VInt z) = true ->
  adec_s (AEnum tbl strict) pod (VInt z) = Some v ->
  adomb_s (AEnum tbl strict) pod D v = true.
Proof. exact enum_domain_complete. Qed.
Print Assumptions C08_enum_domain_complete.

Theorem C08_flag_domain_complete : forall tbl (D : value -> bool) z,
  flags_ok tbl = true -> D (VInt z) = true ->
  aenc_s (AFlag tbl) (VList (flags_to_pod tbl z)) = Some (VInt z) /\
  adomb_s (AFlag tbl) true D (VList (flags_to_pod tbl z)) = true.
Proof. exact flag_domain_complete. Qed.
Print Assumptions C08_flag_domain_complete.

(* the binary-counter loop of the executable model is the plain [for _ in range(n)] loop *)
Theorem C08_de_count_spec : forall f n b, de_count f n b = de_n f (N.to_nat n) b.
Proof. exact de_count_spec. Qed.
Print Assumptions C08_de_count_spec.

(* ---------- the side conditions are needed (faithful model, full statement false) ---------- *)

(* a window spec followed by further bytes does not round-trip: [delimited] cannot be dropped *)
Theorem C08_rt_greedy_refuted : exists e pod s v b rest,
  wf s = true /\ domb e pod s [] v = true /\ ser e s [] v = Some b /\
  de e pod s [] (b ++ rest) <> Some (v, rest).
Proof.
  exists true, false, SBytesGreedy, (VBytes [1]), [1], [2]. vm_compute.
  repeat split; intros H; discriminate H.
Qed.
Print Assumptions C08_rt_greedy_refuted.

(* Str strips trailing NULs: a str ending in NUL is outside the domain and does not round-trip *)
Theorem C08_rt_str_trailing_nul_refuted : exists v b,
  ser true (SStr (IP false W1) true) [] v = Some b /\
  de true false (SStr (IP false W1) true) [] b <> Some (v, []).
Proof.
  exists (VStr [97; 0]), [3; 97; 0; 0]. vm_compute. split; [reflexivity|intros H; discriminate H].
Qed.
Print Assumptions C08_rt_str_trailing_nul_refuted.

(* a greedy member in the middle of a Tuple (wf = false) swallows its successors *)
Theorem C08_rt_not_wf_refuted : exists s v b,
  wf s = false /\ ser true s [] v = Some b /\ de true false s [] b <> Some (v, []).
Proof.
  exists (STuple [SBytesGreedy; SPrim (PI (IP false W1))]), (VList [VBytes [1]; VInt 2]), [1; 2].
  vm_compute. repeat split; intros H; discriminate H.
Qed.
Print Assumptions C08_rt_not_wf_refuted.

(* empty_is_none over an inner spec that can encode to nothing: b"" reads back as None *)
Theorem C08_rt_empty_is_none_refuted : exists s v b,
  wf s = false /\ ser true s [] v = Some b /\ de true false s [] b <> Some (v, []).
Proof.
  exists (STypedBytes TBGreedy SBytesGreedy true true), (VBytes []), []. vm_compute.
  repeat split; intros H; discriminate H.
Qed.
Print Assumptions C08_rt_empty_is_none_refuted.

(* ---------- non-vacuity ---------- *)

Definition ex_enum : list (N * Z) := [(0, 1%Z); (1, 2%Z); (2, 2%Z); (3, 7%Z)].
Definition ex_flags : list (N * Z) := [(0, 1%Z); (1, 4%Z); (2, 64%Z)].

Definition ex_spec : spec :=
  STemplate
    [ (0, SPrim (PI (IP true W2)));
      (1, SOptPrefixed (SStr (IP false W1) true));
      (2, SCollection (LPrefixed (IP true W4))
                      (STuple [SCStr [0] true true; SAdapter (ASimple (AEnum ex_enum false)) (SPrim (PI (IP false W1)))]));
      (3, STypedBytes (TBArray (IP false W2))
                      (STuple [SUUID; SCollection LGreedy (SByteArray (IP false W1))]) true true);
      (4, SAdapter (ASimple (AFlag ex_flags)) (SPrim (PI (IP false W4))));
      (5, SBytesGreedy) ] true false.

Definition ex_value_pod : value :=
  VDict
    [ (0, VInt (-2));
      (2, VList [VList [VStr [104; 105]; VName 1]; VList [VStr []; VInt 9]]);
      (3, VList [VUuidStr (repeat 7 16); VList [VBytes [1; 2]; VBytes []]]);
      (4, VList [VName 0; VName 2; VInt 256]);
      (5, VBytes [9; 9]) ].

Example C08_ex_hypotheses :
  wf ex_spec = true /\ delimited ex_spec = false /\ domb false true ex_spec [] ex_value_pod = true /\
  ser false ex_spec [] ex_value_pod =
  Some ([255; 254] ++ [0] ++ [0; 0; 0; 2; 104; 105; 0; 2; 0; 9]
        ++ [0; 20] ++ repeat 7 16 ++ [2; 1; 2; 0] ++ [0; 0; 1; 65] ++ [9; 9]) /\
  calc_size ex_spec = None /\ min_size ex_spec = 13.
Proof. vm_compute. repeat split. Qed.

Example C08_ex_roundtrip :
  forall b, ser false ex_spec [] ex_value_pod = Some b ->
            de false true ex_spec [] b = Some (ex_value_pod, []).
Proof.
  intros b H. apply (C08_rt_window false true ex_spec [] [] ex_value_pod b); [reflexivity|apply agree_nil|reflexivity|exact H].
Qed.

Example C08_ex_delimited :
  let s := STuple [SPrim (PI (IP true W8)); SStrFixed 4; SCollection (LFixed 2) (SPrim PF32)] in
  let v := VList [VInt (-9223372036854775808); VStr [206; 169]; VList [VF 1065353216; VF 2147483648]] in
  wf s = true /\ delimited s = true /\ domb true false s [] v = true /\ calc_size s = None /\
  exists b, ser true s [] v = Some b /\ length b = 20%nat /\
            forall rest, de true false s [] (b ++ rest) = Some (v, rest).
Proof.
  cbv zeta. repeat split; try reflexivity.
  eexists. split; [vm_compute; reflexivity|]. split; [reflexivity|].
  intros rest. apply (C08_rt_delimited true false _ [] []); try reflexivity. apply agree_nil.
Qed.

Example C08_ex_reject :
  ser true (SByteArray (IP false W1)) [] (VBytes (repeat 0 256)) = None /\
  ser true (SCollection (LFixed 2) (SPrim (PI (IP false W1)))) [] (VList [VInt 1]) = None /\
  ser true (SPrim (PI (IP true W1))) [] (VInt 128) = None /\
  ser true (STuple [SPrim (PI (IP false W1)); SStrFixed 1]) [] (VList [VInt 1; VStr [97; 98]]) = None /\
  ser true (SStr (IP true W1) true) [] (VStr (repeat 97 127)) = None.
Proof. vm_compute. repeat split. Qed.

Example C08_ex_size :
  let s := STemplate [(0, SPrim (PI (IP true W8))); (1, SBytesFixed 4); (2, SAdapter (ASimple ABool) (SPrim (PI (IP false W1)))); (3, SUUID)] false false in
  calc_size s = Some 29 /\
  forall e c v b, ser e s c v = Some b -> N.of_nat (length b) = 29.
Proof. split; [reflexivity|]. intros e c v b. now apply C08_size_exact. Qed.

(* stage 2: switches and IfPresent are inside the proved fragment *)
Definition ex_switches : spec :=
  STuple
    [ SEnumSwitch ex_enum true (IP false W2)
                  [(1%Z, SCStr [0] true true); (2%Z, SPrim (PI (IP true W4))); (7%Z, SNull)];
      STypedBytes (TBArray (IP false W1))
                  (SLengthSwitch [(Some 0, SNull);
                                  (Some 3, STuple [SPrim (PI (IP false W1)); SStrFixed 2]);
                                  (None, SPrim PF64)]) false true;
      SIfPresent (STuple [SPrim (PI (IP false W1));
                          SCollection LGreedy (SOptPrefixed (SPrim (PI (IP false W1))))]) ].

Definition ex_switches_value : value :=
  VList [ VList [VName 1; VInt (-5)];
          VList [VInt 3; VList [VInt 200; VStr [65]]];
          VList [VInt 9; VList [VNone; VInt 4]] ].

Example C08_ex_switches :
  wf ex_switches = true /\ domb true true ex_switches [] ex_switches_value = true /\
  ser true ex_switches [] ex_switches_value =
  Some ([2; 0; 251; 255; 255; 255] ++ [3; 200; 65; 0] ++ [9; 0; 1; 4]) /\
  forall b, ser true ex_switches [] ex_switches_value = Some b ->
            de true true ex_switches [] b = Some (ex_switches_value, []).
Proof.
  split; [reflexivity|]. split; [reflexivity|]. split; [vm_compute; reflexivity|].
  intros b H. apply (C08_rt_window true true ex_switches [] [] ex_switches_value b); [reflexivity|apply agree_nil|reflexivity|exact H].
Qed.

Example C08_ex_flags_ok : flags_ok ex_flags = true /\ flags_to_pod ex_flags (-2) = [VName 1; VName 2; VInt (-70)].
Proof. vm_compute. split; reflexivity. Qed.

(* wave 2: OptionalFlagged members keyed by an earlier sibling, BitField, an opaque (quantized) int adapter,
   TypedBytesTerminated, LengthSwitch with a variable-size catch-all branch *)
Definition ex_w2 : spec :=
  STemplate
    [ (0, SAdapter (ASimple (AFlag ex_flags)) (SPrim (PI (IP false W4))));
      (1, SOptFlagged 0 (Some ex_flags) 4 (STuple [SPrim PF32; SPrim PF32; SPrim PF32]));
      (2, SOptFlagged 0 (Some ex_flags) 64
                      (STypedBytes (TBTerm [0] false) (SCStr [10] false true) false true));
      (3, SAdapter (ABitField [(0, 2, None); (1, 5, Some (AEnum ex_enum false)); (2, 1, Some ABool)] true)
                   (SPrim (PI (IP false W1))));
      (4, SAdapter (ASimple (AOpaqueInt 7)) (SPrim (PI (IP false W2))));
      (5, STypedBytes (TBArray (IP true W4))
                      (SLengthSwitch [(Some 0, SNull); (None, SByteArray (IP false W1))]) false true) ] true false.

Definition ex_w2_value : value :=
  VDict
    [ (0, VList [VName 1; VInt 256]);
      (1, VList [VF 1065353216; VF 0; VF 3212836864]);
      (3, VDict [(0, VInt 3); (1, VName 3); (2, VInt 1)]);
      (4, VInt 513);
      (5, VList [VInt 3; VBytes [1; 2]]) ].

Example C08_ex_wave2 :
  wf ex_w2 = true /\ delimited ex_w2 = true /\ domb true true ex_w2 [] ex_w2_value = true /\
  ser true ex_w2 [] ex_w2_value =
  Some ([4; 1; 0; 0] ++ [0; 0; 128; 63; 0; 0; 0; 0; 0; 0; 128; 191] ++ [159] ++ [1; 2] ++ [3; 0; 0; 0; 2; 1; 2]) /\
  forall b rest, ser true ex_w2 [] ex_w2_value = Some b ->
                 de true true ex_w2 [] (b ++ rest) = Some (ex_w2_value, rest).
Proof.
  split; [reflexivity|]. split; [reflexivity|]. split; [vm_compute; reflexivity|].
  split; [vm_compute; reflexivity|].
  intros b rest H.
  apply (C08_rt_delimited true true ex_w2 [] [] ex_w2_value b); [reflexivity|apply agree_nil|reflexivity|vm_compute; reflexivity|exact H].
Qed.

(* with the flag set, the flagged member is present: name-value text in a NUL-terminated window *)
Example C08_ex_wave2_flagged :
  let v := VDict [ (0, VList [VName 2]); (2, VStr [97; 32; 98]);
                   (3, VDict [(0, VInt 0); (1, VInt 9); (2, VInt 0)]); (4, VInt 0);
                   (5, VList [VInt 0; VNone]) ] in
  domb false true ex_w2 [] v = true /\
  ser false ex_w2 [] v = Some ([0; 0; 0; 64] ++ [97; 32; 98; 0] ++ [36] ++ [0; 0] ++ [0; 0; 0; 0]).
Proof. cbv zeta. split; vm_compute; reflexivity. Qed.

(* ContextSwitch / ContextAdapter keyed by a sibling, FlagSwitch *)
Definition ex_ctx : spec :=
  STemplate
    [ (0, SAdapter (ASimple (AEnum ex_enum false)) (SPrim (PI (IP false W1))));
      (1, SCtxSwitch 0 [(Some 1%Z, SPrim (PI (IP true W2))); (None, SCStr [0] true true)]);
      (2, SCtxAdapter 0 [(Some 7%Z, Some (AFlag ex_flags)); (None, None)] (SPrim (PI (IP false W1))));
      (3, SFlagSwitch ex_flags (IP false W1)
                      [(0, 1%Z, SPrim (PI (IP false W2))); (2, 64%Z, SByteArray (IP false W1))]) ] false false.

Example C08_ex_ctx :
  let v1 := VDict [(0, VInt 1); (1, VInt (-2)); (2, VInt 200); (3, VDict [(2, VBytes [9])])] in
  (* in pod mode the key field holds a member NAME, which is no option key: both sides fall back to the default *)
  let v7 := VDict [(0, VName 3); (1, VStr [104; 105]); (2, VInt 6); (3, VDict [(0, VInt 513); (2, VBytes [])])] in
  wf ex_ctx = true /\ delimited ex_ctx = true /\
  domb true false ex_ctx [] v1 = true /\ ser true ex_ctx [] v1 = Some [1; 254; 255; 200; 64; 1; 9] /\
  domb true true ex_ctx [] v7 = true /\ ser true ex_ctx [] v7 = Some [7; 104; 105; 0; 6; 65; 1; 2; 0] /\
  forall pod v b rest, domb true pod ex_ctx [] v = true -> ser true ex_ctx [] v = Some b ->
                       de true pod ex_ctx [] (b ++ rest) = Some (v, rest).
Proof.
  cbv zeta. repeat split; try (vm_compute; reflexivity).
  intros pod v b rest Hd Hs.
  apply (C08_rt_delimited true pod ex_ctx [] [] v b); [reflexivity|apply agree_nil|reflexivity|exact Hd|exact Hs].
Qed.

Example C08_ex_calc_size_tuple_cstr :
  calc_size (STuple [SPrim (PI (IP false W1)); SCStr [0] true true]) = None.
Proof. reflexivity. Qed.

(* ---------- insertion order of dict-valued values ----------
   A Python dict is the same value whatever its insertion order.  The model writers only ever LOOK a dict UP (the
   enclosing dict as ParseContext included), so a duplicate-free association list and any permutation of it are
   written to the same bytes, and what is read back is the canonical (declaration-ordered) dict. *)

(* the context of any spec is only looked up *)
Theorem C08_order_ctx : forall e s c c' v, same_map c c' -> ser e s c v = ser e s c' v.
Proof. exact ser_ctx_ext. Qed.
Print Assumptions C08_order_ctx.

Theorem C08_order_template : forall e fs skip rc c kvs kvs',
  Permutation kvs kvs' -> NoDup (map fst kvs) ->
  ser e (STemplate fs skip rc) c (VDict kvs) = ser e (STemplate fs skip rc) c (VDict kvs').
Proof. exact ser_template_order. Qed.
Print Assumptions C08_order_template.

Theorem C08_order_flagswitch : forall e tbl ip cs c kvs kvs',
  Permutation kvs kvs' -> NoDup (map fst kvs) ->
  ser e (SFlagSwitch tbl ip cs) c (VDict kvs) = ser e (SFlagSwitch tbl ip cs) c (VDict kvs').
Proof. exact ser_flagswitch_order. Qed.
Print Assumptions C08_order_flagswitch.

Theorem C08_order_bitfield : forall e fs shift s c kvs kvs',
  Permutation kvs kvs' -> NoDup (map fst kvs) ->
  ser e (SAdapter (ABitField fs shift) s) c (VDict kvs) = ser e (SAdapter (ABitField fs shift) s) c (VDict kvs').
Proof. exact ser_bitfield_order. Qed.
Print Assumptions C08_order_bitfield.

(* whatever insertion order is written, the canonical dict is read back, with exact framing *)
Theorem C08_rt_flagswitch_any_order : forall e pod tbl ip cs c cd kvs kvs' b rest,
  wf (SFlagSwitch tbl ip cs) = true -> agree (refs (SFlagSwitch tbl ip cs)) c cd ->
  domb e pod (SFlagSwitch tbl ip cs) c (VDict kvs) = true ->
  Permutation kvs kvs' -> NoDup (map fst kvs) ->
  ser e (SFlagSwitch tbl ip cs) c (VDict kvs') = Some b ->
  (delimited (SFlagSwitch tbl ip cs) = true \/ rest = []) ->
  de e pod (SFlagSwitch tbl ip cs) cd (b ++ rest) = Some (VDict kvs, rest).
Proof. exact rt_flagswitch_any_order. Qed.
Print Assumptions C08_rt_flagswitch_any_order.

Theorem C08_rt_template_any_order : forall e pod fs skip rc c cd kvs kvs' b rest,
  wf (STemplate fs skip rc) = true -> agree (refs (STemplate fs skip rc)) c cd ->
  domb e pod (STemplate fs skip rc) c (VDict kvs) = true ->
  Permutation kvs kvs' -> NoDup (map fst kvs) ->
  ser e (STemplate fs skip rc) c (VDict kvs') = Some b ->
  (delimited (STemplate fs skip rc) = true \/ rest = []) ->
  de e pod (STemplate fs skip rc) cd (b ++ rest) = Some (VDict kvs, rest).
Proof. exact rt_template_any_order. Qed.
Print Assumptions C08_rt_template_any_order.

(* the seeded example: FlagSwitch {A: U8, B: U16, C: U32}, value written as {C: 0x44444444, A: 0x11} *)
Definition ex_fs : spec :=
  SFlagSwitch [(0, 1%Z); (1, 2%Z); (2, 4%Z)] (IP false W1)
              [(0, 1%Z, SPrim (PI (IP false W1))); (1, 2%Z, SPrim (PI (IP false W2))); (2, 4%Z, SPrim (PI (IP false W4)))].

Example C08_ex_order_flagswitch :
  let canon := [(0, VInt 17); (2, VInt 1145324612)] in
  let written := [(2, VInt 1145324612); (0, VInt 17)] in
  Permutation canon written /\ NoDup (map fst canon) /\
  wf ex_fs = true /\ domb true false ex_fs [] (VDict canon) = true /\
  ser true ex_fs [] (VDict written) = Some [5; 17; 68; 68; 68; 68] /\
  forall rest, de true false ex_fs [] ([5; 17; 68; 68; 68; 68] ++ rest) = Some (VDict canon, rest).
Proof.
  cbv zeta.
  assert (HP : Permutation [(0, VInt 17); (2, VInt 1145324612)] [(2, VInt 1145324612); (0, VInt 17)]) by apply perm_swap.
  assert (ND : NoDup (map fst [(0, VInt 17); (2, VInt 1145324612)])).
  { cbn [map fst]. constructor; [intros [H|[]]; discriminate H|]. constructor; [intros []|constructor]. }
  split; [exact HP|]. split; [exact ND|]. split; [reflexivity|]. split; [vm_compute; reflexivity|].
  split; [vm_compute; reflexivity|].
  intro rest.
  unfold ex_fs.
  apply (C08_rt_flagswitch_any_order true false _ _ _ [] [] _ [(2, VInt 1145324612); (0, VInt 17)]);
    [reflexivity|apply agree_nil|vm_compute; reflexivity|exact HP|exact ND|vm_compute; reflexivity|left; reflexivity].
Qed.
