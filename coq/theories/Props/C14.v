(* C14 - the tracked world stays self-consistent under any object update / kill history.
   Property theorems only.  Model: Obj/SceneGraph.v (tied to hippolyzer/lib/client/object_manager.py and
   hippolyzer/lib/proxy/object_manager.py by the correspondence check of harness/props/c14.py).

   The invariant of the design is  WF w := Idx w /\ Tree w /\ (no step returns None) /\ (futures clauses), with

     Idx w  : lookup by local id and by full id agree and hold the same objects          (SceneGraphProofs.v)
     Tree w : (C1/C2) c in children(p) <-> c tracked /\ parent_id c = lid p <> 0 /\ same region /\ p tracked,
              (C3) children duplicate-free,
              (O1/O2) c in orphans[p] <-> c tracked /\ parent_id c = p <> 0 /\ p untracked in that region,
              (O3) orphan lists duplicate-free,
              (P) obj.Parent names exactly the object whose children list holds obj      (SceneGraphTree.v)

   PROVED for all histories (Qed, closed):
   * Idx and Tree (incl. the Parent clause) are preserved by EVERY event kind (C14_step_idx_partial,
     C14_step_tree_partial): ObjectUpdate / ObjectUpdateCompressed of new and of known objects incl. re-parenting,
     local-id change and region move with orphan adoption, ImprovedTerseObjectUpdate, ObjectUpdateCached,
     ObjectProperties, KillObject with its full cascade (known object with descendants, unknown id with orphans,
     avatars surviving as orphans), region teardown, track region, the three request kinds; hence after every history
     (C14_history_tree_partial); adoption / orphan-holding corollaries.
   * the Parent back-link (C14_parent_link, C14_parent_children, C14_history_parent_link_partial): obj.Parent is the
     tracked object with local id obj.ParentID in obj's region, None when ParentID = 0 or no such object is tracked.
   * pending requests (SceneGraphFut.v): unconditionally, no request is ever dropped, re-keyed or reopened and a done
     request is never touched again (C14_requests_monotone, C14_request_done_stable); KillObject cancels (never
     resolves) and leaves no pending request for the killed id nor for the local id of any object the cascade removed
     (C14_kill_cancels); ObjectUpdate(Compressed) resolves every pending UPDATE request of its (region, local id) with
     that object (C14_update_resolves) and cancels those of the id the object moved away from (C14_moved_cancels);
     ObjectProperties / terse updates that change something resolve (C14_props_resolves, C14_terse_resolves); teardown
     cancels the region's requests (C14_clear_cancels); the history-level forms C14_history_kill_cancelled,
     C14_history_update_resolved.  [As in the code, a reply that changes no property runs no hooks and resolves
     nothing: not a clause of the statement, noted only.]
   * no handler raises (SceneGraphNoErr.v): C14_step_noerr_partial - under Idx, Tree, the input assumptions and acyclic
     parent links every step returns Some: none of the asserts of _parent_object / track_object / untrack_object fires,
     no KeyError / AttributeError-on-None, and the fuel of the kill cascade (tracked objects + 1) suffices
     (C14_kill_noerr); hence C14_history_noerr_partial: such a history runs to the end and Idx /\ Tree hold there.
     acyclic w := some ranking of (region, local id) keys puts every tracked object strictly below its ParentID key.
   * towards the reference set (SceneGraphRef.v): objects enter the lookup only by being announced into a tracked
     region, leave it only through a KillObject of their region or the teardown of their region, an announced object
     is tracked afterwards, KillObject removes the object it names, teardown removes exactly the region's objects,
     every tracked object was announced (C14_enter_only_announced_partial, C14_leave_only_killed_or_unloaded_partial,
     C14_announced_tracked, C14_kill_removes_target, C14_clear_unloads, C14_history_tracked_announced_partial).
   Hypotheses (input_tree_ok): an object update names a tracked region (see C14_untracked_region_refuted), does not
   give a local id owned by another live object, and does not (re)index the object under a local id equal to the
   parent id it carries at that moment - for new objects and region moves this is the statement's "no parent cycle"
   for a 1-cycle; for a local-id change inside a region it is the OLD parent id, which is an extra hypothesis beyond
   the statement (a proof gap, not a defect: the code passes through a state where the object is its own child, which
   the generalised invariant TreeG cannot express; the correspondence exercises it).  input_noerr_ok adds: a
   KillObject / teardown / track / request names a registered region (the message comes from a known circuit).
   NOT PROVED in Coq (correspondence + impl-level oracle only): the exact reference-set equality
   (abs (run h) = reference h), i.e. that KillObject removes exactly the named object and its descendants through
   non-avatar links and nothing else (proved: it only removes objects of its region, removes the named object, and
   every survivor keeps local id / full id / region, C14_kill_idx); the local-id-change gap above.
   The full statement is false of the (faithful) model outside the hypothesis "updates name a tracked region":
   see C14_untracked_region_refuted with its witness history (a recorded known finding). *)
From Coq Require Import NArith List Bool.
From HV Require Import Obj.SceneGraph Obj.SceneGraphProofs Obj.SceneGraphTree Obj.SceneGraphKill Obj.SceneGraphFut Obj.SceneGraphNoErr Obj.SceneGraphRef.
Import ListNotations.
Open Scope N_scope.

(* nothing is tracked initially *)
Theorem C14_init_idx : Idx init.
Proof. exact init_Idx. Qed.
Print Assumptions C14_init_idx.

(* every handler preserves the agreement of the two indices: every object found by full id is found under its
   (region, local id) in a tracked region and vice versa.  Hypotheses on the event (input_idx_ok): an object
   update names a tracked region (see C14_untracked_region_refuted) and does not give a local id that
   currently belongs to another live object (the statement's assumption).  No acyclicity needed. *)
Theorem C14_step_idx_partial : forall w e w',
  Idx w -> input_idx_ok w e -> step w e = Some w' -> Idx w'.
Proof. exact step_Idx. Qed.
Print Assumptions C14_step_idx_partial.

(* hence after every history (induction over the run) *)
Theorem C14_history_idx_partial : forall h w',
  hist_ok input_idx_ok init h -> run init h = Some w' -> Idx w'.
Proof. intros h w' H R. exact (run_Idx h init w' init_Idx H R). Qed.
Print Assumptions C14_history_idx_partial.

(* a killed object (and each killed descendant) leaves both indices, survivors keep (local id, full id, region) *)
Theorem C14_kill_idx : forall n w r l w',
  Idx w -> kill n w r l = Some w' -> Idx w' /\ shrinks w w'.
Proof. exact kill_Idx. Qed.
Print Assumptions C14_kill_idx.

(* ---- children / orphan clauses ---- *)
Theorem C14_init_tree : Tree init.
Proof. exact init_Tree. Qed.
Print Assumptions C14_init_tree.

(* every handler preserves the children and orphan clauses.  input_tree_ok w e: ObjectUpdate(Compressed) names a
   tracked region, does not give a local id owned by another live object, and does not (re)index the object under
   its own current parent id; every other event kind (incl. KillObject with its cascade): no condition. *)
Theorem C14_step_tree_partial : forall w e w',
  Idx w -> Tree w -> input_tree_ok w e -> step w e = Some w' -> Tree w'.
Proof. exact step_Tree. Qed.
Print Assumptions C14_step_tree_partial.

Theorem C14_history_tree_partial : forall h w',
  hist_ok input_tree_ok init h -> run init h = Some w' -> Idx w' /\ Tree w'.
Proof. intros h w' H R. exact (run_Inv h init w' (conj init_Idx init_Tree) H R). Qed.
Print Assumptions C14_history_tree_partial.

(* adoption, read off Tree: whenever a tracked object names a tracked parent, it is in that parent's children *)
Theorem C14_adopted : forall w r rs c cf co p pf po,
  Tree w -> get_rs w r = Some rs -> aget c (r_local rs) = Some cf -> get_obj w cf = Some co ->
  o_parent co = p -> p <> 0 -> aget p (r_local rs) = Some pf -> get_obj w pf = Some po ->
  In (c, cf) (o_children po).
Proof.
  intros w r rs c cf co p pf po T E1 E2 E3 Hp Hp0 E4 E5.
  eapply (tC2 _ _ _ T); eauto; [|intro Hk; discriminate]. split; [unfold epar, no_ovr; congruence|exact Hp0].
Qed.
Print Assumptions C14_adopted.

(* ... and is held as an orphan of that id while the parent is unknown *)
Theorem C14_orphaned : forall w r rs c cf co p,
  Tree w -> get_rs w r = Some rs -> aget c (r_local rs) = Some cf -> get_obj w cf = Some co ->
  o_parent co = p -> p <> 0 -> aget p (r_local rs) = None ->
  exists ls, aget p (r_orphans rs) = Some ls /\ In c ls.
Proof.
  intros w r rs c cf co p T E1 E2 E3 Hp Hp0 E4.
  eapply (tO2 _ _ _ T); eauto. split; [unfold epar, no_ovr; congruence|exact Hp0].
Qed.
Print Assumptions C14_orphaned.

(* region teardown cancels every pending request of the region *)
Theorem C14_clear_cancels : forall w r w',
  step w (EClear r) = Some w' ->
  forall x, In x (w_futs w') -> f_region x = r -> f_state x <> Pending.
Proof. exact clear_cancels. Qed.
Print Assumptions C14_clear_cancels.

(* ---- the Parent back-link (a clause of Tree, so preserved by every event kind like the children / orphan clauses) ---- *)
(* obj.Parent is the tracked object that has local id obj.ParentID in obj's region; it is None when ParentID is 0 or
   no such object is tracked (the object is then an orphan, C14_orphaned) *)
Theorem C14_parent_link : forall w f o, Idx w -> Tree w -> get_obj w f = Some o ->
  o_plink o = if o_parent o =? 0 then None
              else match get_rs w (o_region o) with Some rs => aget (o_parent o) (r_local rs) | None => None end.
Proof. exact Tree_parent_link. Qed.
Print Assumptions C14_parent_link.

(* both directions with the children lists: Parent names exactly the object whose ChildIDs / Children hold this object *)
Theorem C14_parent_children : forall w f o pf, Tree w -> get_obj w f = Some o ->
  (o_plink o = Some pf <-> exists po, get_obj w pf = Some po /\ In (o_lid o, f) (o_children po)).
Proof. exact Tree_parent_children. Qed.
Print Assumptions C14_parent_children.

(* hence after every history *)
Theorem C14_history_parent_link_partial : forall h w' f o,
  hist_ok input_tree_ok init h -> run init h = Some w' -> get_obj w' f = Some o ->
  o_plink o = if o_parent o =? 0 then None
              else match get_rs w' (o_region o) with Some rs => aget (o_parent o) (r_local rs) | None => None end.
Proof.
  intros h w' f o H R E. destruct (run_Inv h init w' (conj init_Idx init_Tree) H R) as [I T].
  exact (Tree_parent_link w' f o I T E).
Qed.
Print Assumptions C14_history_parent_link_partial.

(* ---- pending requests (futures): cancelled on kill / teardown, resolved on update, never reopened or lost ---- *)
(* (SceneGraphFut.v)  fcan x y: y = x or x was pending and y is x cancelled;  fadv x y: same key and a done x stays x;
   cans / advs: position-wise over the request log;  futs_ext fs fs': fs' = a ++ new with advs fs a;
   np fs r l: no request for (r, l) is pending;  npk: same for one kind;  gone_np r w w': every object of w that is
   gone in w' was in region r and no request for its local id is pending in w';  resolves w w' r l k f: no request
   of kind k for (r, l) is pending in w' and each one that was pending in w is now Resolved f (same position). *)

(* unconditionally (no invariant, no input assumption): along any history no request is dropped from the log, none
   changes its key, and a request that is done (resolved or cancelled) is never touched again *)
Theorem C14_requests_monotone : forall h w w', run w h = Some w' -> futs_ext (w_futs w) (w_futs w').
Proof. exact run_futs_ext. Qed.
Print Assumptions C14_requests_monotone.

Theorem C14_request_done_stable : forall h w w' i x, run w h = Some w' -> nth_error (w_futs w) i = Some x ->
  exists y, nth_error (w_futs w') i = Some y /\ fkey y = fkey x /\ (f_state x <> Pending -> y = x).
Proof. intros h w w' i x R E. exact (futs_ext_nth _ _ i x (run_futs_ext h w w' R) E). Qed.
Print Assumptions C14_request_done_stable.

(* KillObject (r, l): requests are only cancelled (never resolved) by it; afterwards no request for (r, l) is pending,
   and none for the local id of any object the cascade removed (descendants, orphans of an unknown id) *)
Theorem C14_kill_cancels : forall w r l w', Idx w -> step w (EKill r l) = Some w' ->
  cans (w_futs w) (w_futs w') /\ np (w_futs w') r l /\ gone_np r w w'.
Proof. exact step_kill_cancels. Qed.
Print Assumptions C14_kill_cancels.

(* ObjectUpdate / ObjectUpdateCompressed for local id l in tracked region r (new object, known object, local-id change,
   region move): every pending UPDATE request for (r, l) is resolved with that object *)
Theorem C14_update_resolves : forall w cmp r l f p av v w', Idx w -> input_idx_ok w (EFull cmp r l f p av v) ->
  step w (EFull cmp r l f p av v) = Some w' -> resolves w w' r l true f.
Proof. exact step_full_resolves. Qed.
Print Assumptions C14_update_resolves.

(* ... and the object leaves no pending request behind under the (region, local id) it moved away from *)
Theorem C14_moved_cancels : forall w cmp r l f p av v w' o, Idx w -> input_idx_ok w (EFull cmp r l f p av v) ->
  get_obj w f = Some o -> (o_region o <> r \/ o_lid o <> l) ->
  step w (EFull cmp r l f p av v) = Some w' -> np (w_futs w') (o_region o) (o_lid o).
Proof. exact step_full_moved_cancels. Qed.
Print Assumptions C14_moved_cancels.

(* ObjectProperties that changes a property resolves the pending PROPERTIES requests of the object;
   (as in the code, a reply that changes nothing runs no hooks and resolves nothing) *)
Theorem C14_props_resolves : forall w f v w' o, Idx w -> get_obj w f = Some o -> o_name o <> v ->
  step w (EProps f v) = Some w' -> resolves w w' (o_region o) (o_lid o) false f.
Proof. exact step_props_resolves. Qed.
Print Assumptions C14_props_resolves.

Theorem C14_terse_resolves : forall w r l v w' o, Idx w -> region_state w r <> None -> lookup_local w r l = Some o ->
  o_pos o <> v -> step w (ETerse r l v) = Some w' -> resolves w w' r l true (o_full o).
Proof. exact step_terse_resolves. Qed.
Print Assumptions C14_terse_resolves.

(* over histories: a request made before a KillObject of its (r, l) is done for good after it, whatever follows
   (cancelled if it was still pending); one pending when the object update arrives is resolved with that object for good *)
Theorem C14_history_kill_cancelled : forall h1 r l h2 w1 w2 w3,
  hist_ok input_idx_ok init h1 -> run init h1 = Some w1 -> step w1 (EKill r l) = Some w2 -> run w2 h2 = Some w3 ->
  forall i x, nth_error (w_futs w1) i = Some x -> f_region x = r -> f_lid x = l ->
  exists y, nth_error (w_futs w3) i = Some y /\ fkey y = fkey x /\ f_state y <> Pending /\
            (f_state x = Pending -> f_state y = Cancelled).
Proof. exact history_kill_cancelled. Qed.
Print Assumptions C14_history_kill_cancelled.

Theorem C14_history_update_resolved : forall h1 cmp r l f p av v h2 w1 w2 w3,
  hist_ok input_idx_ok init h1 -> run init h1 = Some w1 -> input_idx_ok w1 (EFull cmp r l f p av v) ->
  step w1 (EFull cmp r l f p av v) = Some w2 -> run w2 h2 = Some w3 ->
  forall i x, nth_error (w_futs w1) i = Some x -> f_region x = r -> f_lid x = l -> f_kind x = true -> f_state x = Pending ->
  nth_error (w_futs w3) i = Some (resolved x f).
Proof. exact history_update_resolved. Qed.
Print Assumptions C14_history_update_resolved.

(* non-vacuity: requests for a tracked object (5) and for an unknown id (7) are cancelled by the kills;
   requests pending when the object arrives are resolved with it, a later request stays pending *)
Example C14_ex_requests_cancelled :
  option_map (fun w => map f_state (w_futs w))
    (run init [ETrack 1; EFull false 1 5 9 0 false 1; EReqObj 1 5; EReqProps 1 5; EReqObj 1 7; EKill 1 5; EKill 1 7])
  = Some [Cancelled; Cancelled; Cancelled].
Proof. vm_compute. reflexivity. Qed.

Example C14_ex_requests_resolved :
  option_map (fun w => map f_state (w_futs w))
    (run init [ETrack 1; EReqObj 1 5; EReqProps 1 5; EFull false 1 5 9 0 false 1; EProps 9 3; EReqObj 1 5])
  = Some [Resolved 9; Resolved 9; Pending].
Proof. vm_compute. reflexivity. Qed.

(* the hypotheses of C14_history_kill_cancelled / C14_history_update_resolved are satisfiable, with a pending request *)
Example C14_ex_history_requests :
  (exists w1 w2 w3 x, hist_ok input_idx_ok init [ETrack 1; EFull false 1 5 9 0 false 1; EReqObj 1 5] /\
     run init [ETrack 1; EFull false 1 5 9 0 false 1; EReqObj 1 5] = Some w1 /\ step w1 (EKill 1 5) = Some w2 /\
     run w2 [EFull false 1 5 9 0 false 2] = Some w3 /\ nth_error (w_futs w1) 0 = Some x /\ f_region x = 1 /\ f_lid x = 5 /\
     f_state x = Pending) /\
  (exists w1 w2 w3 x, hist_ok input_idx_ok init [ETrack 1; EReqObj 1 5] /\
     run init [ETrack 1; EReqObj 1 5] = Some w1 /\ input_idx_ok w1 (EFull false 1 5 9 0 false 1) /\
     step w1 (EFull false 1 5 9 0 false 1) = Some w2 /\ run w2 [EKill 1 5] = Some w3 /\
     nth_error (w_futs w1) 0 = Some x /\ f_region x = 1 /\ f_lid x = 5 /\ f_kind x = true /\ f_state x = Pending).
Proof.
  split.
  - do 4 eexists. split; [apply hist_okb_ok; vm_compute; reflexivity|]. vm_compute. repeat split.
  - do 4 eexists. split; [apply hist_okb_ok; vm_compute; reflexivity|].
    split; [vm_compute; reflexivity|]. split; [apply input_idx_okb_ok; vm_compute; reflexivity|]. vm_compute. repeat split.
Qed.

(* ---- no handler raises ---- *)
(* acyclic w: there is a ranking of (region, local id) keys under which every tracked object ranks strictly below the
   key named by its ParentID ("parent links form no cycle").  input_noerr_ok w e: input_tree_ok w e, and a KillObject /
   teardown / track / request names a registered region (the message comes from a known circuit). *)
Theorem C14_step_noerr_partial : forall w e, Idx w -> Tree w -> acyclic w -> input_noerr_ok w e -> step w e <> None.
Proof. exact step_ok. Qed.
Print Assumptions C14_step_noerr_partial.

(* in particular the cascade of KillObject terminates within its fuel (number of tracked objects + 1), no assert of
   untrack_object fires and no KeyError is raised, for any tracked or unknown local id *)
Theorem C14_kill_noerr : forall w r l, Idx w -> Tree w -> acyclic w -> get_rs w r <> None -> step w (EKill r l) <> None.
Proof. exact step_kill_ok. Qed.
Print Assumptions C14_kill_noerr.

(* hence over histories: if every event arrives in a state with acyclic parent links and satisfies the input
   assumptions, no handler raises and the index / children / orphan clauses hold at the end.
   (_partial: input_tree_ok carries "updates name a tracked region" and the local-id-change gap, see the header) *)
Theorem C14_history_noerr_partial : forall h,
  hist_ok input_full_ok init h -> exists w', run init h = Some w' /\ Idx w' /\ Tree w'.
Proof. intros h H. exact (run_ok h init (conj init_Idx init_Tree) H). Qed.
Print Assumptions C14_history_noerr_partial.

(* ---- which objects are tracked (towards the reference-set clause; the exact set equality is NOT proved) ---- *)
(* an object enters the full-id lookup only by being announced: ObjectUpdate(Compressed) with its full id into a
   tracked region *)
Theorem C14_enter_only_announced_partial : forall w e w' g, Idx w -> step w e = Some w' ->
  get_obj w g = None -> get_obj w' g <> None ->
  exists cmp r l p av v, e = EFull cmp r l g p av v /\ region_state w r <> None.
Proof. exact step_enter. Qed.
Print Assumptions C14_enter_only_announced_partial.

(* ... and leaves it only through a KillObject sent for its region or the teardown of its region *)
Theorem C14_leave_only_killed_or_unloaded_partial : forall w e w' g o, Idx w -> step w e = Some w' ->
  get_obj w g = Some o -> get_obj w' g = None -> (exists l, e = EKill (o_region o) l) \/ e = EClear (o_region o).
Proof. exact step_leave. Qed.
Print Assumptions C14_leave_only_killed_or_unloaded_partial.

(* an announced object is tracked afterwards; KillObject removes the object it names; teardown of region r removes
   exactly the objects of region r *)
Theorem C14_announced_tracked : forall w cmp r l f p av v w', Idx w -> region_state w r <> None ->
  step w (EFull cmp r l f p av v) = Some w' -> get_obj w' f <> None.
Proof. intros w cmp r l f p av v w' (K & _). exact (step_announce w cmp r l f p av v w' K). Qed.
Print Assumptions C14_announced_tracked.

Theorem C14_kill_removes_target : forall w r l w' o, Idx w -> Tree w -> step w (EKill r l) = Some w' ->
  lookup_local w r l = Some o -> get_obj w' (o_full o) = None.
Proof. exact kill_target_removed. Qed.
Print Assumptions C14_kill_removes_target.

Theorem C14_clear_unloads : forall w r w', Idx w -> step w (EClear r) = Some w' ->
  forall g, get_obj w' g = match get_obj w g with Some o => if o_region o =? r then None else Some o | None => None end.
Proof. intros w r w' (K & _) H. exact (proj1 (clear_spec w r w' K H)). Qed.
Print Assumptions C14_clear_unloads.

(* over histories: every tracked object was announced *)
Theorem C14_history_tracked_announced_partial : forall h w g,
  hist_ok input_idx_ok init h -> run init h = Some w -> get_obj w g <> None ->
  exists cmp r l p av v, In (EFull cmp r l g p av v) h.
Proof.
  intros h w g H R Hs. destruct (run_tracked_announced h init w g init_Idx H R Hs) as [H0|H1]; [|exact H1].
  exfalso. apply H0. reflexivity.
Qed.
Print Assumptions C14_history_tracked_announced_partial.

(* ---- the full statement fails on the faithful model: witnesses (all replayed on the real code) ---- *)

(* repaired (7f5640d): KillObject for an untracked local id no longer drops avatar orphans from the orphanage:
   the former witness history now ends with the avatar adopted by the parent when it appears *)
Example C14_avatar_orphan_adopted :
  exists w o rs p3,
    run init [ETrack 1; EFull false 1 4 4 3 true 1; EKill 1 3; EFull false 1 3 3 0 false 1] = Some w
    /\ get_obj w 4 = Some o /\ o_parent o = 3 /\ get_rs w 1 = Some rs /\ r_orphans rs = []
    /\ get_obj w 3 = Some p3 /\ o_children p3 = [(4, 4)] /\ o_plink o = Some 3.
Proof. vm_compute. do 4 eexists. repeat split. Qed.

(* repaired (0de120a): a parent / local-id change of an object sitting in an unknown region no longer raises;
   the object just takes the new values and stays outside every local-id index *)
Example C14_regionless_update_ok :
  exists w1 w2 o1 o2,
    run init [ETrack 1; EFull false 1 1 1 0 false 1; EFull false 3 2 1 0 false 1; EFull false 3 2 1 4 false 1] = Some w1
    /\ run init [ETrack 1; EFull false 1 1 1 0 false 1; EFull false 3 2 1 0 false 1; EFull false 3 3 1 0 false 1] = Some w2
    /\ get_obj w1 1 = Some o1 /\ o_parent o1 = 4 /\ get_obj w2 1 = Some o2 /\ o_lid o2 = 3.
Proof. vm_compute. do 4 eexists. repeat split. Qed.

(* KNOWN finding (deliberate per the code comment): an object announced in a registered region before the region is
   tracked is never indexed by local id *)
Theorem C14_untracked_region_refuted :
  exists w, run init [ETrack 1; EFull false 1 1 1 0 false 1; EFull false 2 2 1 0 false 1; ETrack 2] = Some w /\ ~ Idx w.
Proof.
  eexists. split; [vm_compute; reflexivity|].
  intros (_ & _ & B). destruct (B 1 _ eq_refl) as (rs & E & _ & El).
  vm_compute in E. inversion E; subst rs. discriminate.
Qed.
Print Assumptions C14_untracked_region_refuted.

(* design clause (iv) "missing and tracked are disjoint" is not a property of the code (and not of the statement):
   a cached update with a stale CRC puts a tracked local id into missing_locals *)
Theorem C14_missing_disjoint_refuted :
  exists w rs, run init [ETrack 1; EFull true 1 2 3 0 true 2; ECached 1 2 1 1] = Some w
    /\ get_rs w 1 = Some rs /\ aget 2 (r_local rs) = Some 3 /\ In 2 (r_missing rs).
Proof. vm_compute. do 2 eexists. repeat split. left. reflexivity. Qed.
Print Assumptions C14_missing_disjoint_refuted.

(* ---- non-vacuity: a history inside the hypotheses, with orphan adoption, an avatar, a cascading kill,
        a cross-region move, a local-id change, local-id reuse and a region teardown ---- *)
Definition ex_hist : list event :=
  [ETrack 1; ETrack 2;
   EFull false 1 3 3 2 false 1; EFull false 1 4 4 2 true 1; EFull true 1 2 2 1 false 1; EFull false 1 1 1 0 false 1;
   EReqObj 1 2; EReqProps 1 2; ETerse 1 3 2; EProps 3 1; ECached 1 3 1 2;
   EFull false 2 2 1 0 false 2; EKill 1 2; EFull false 1 2 5 0 false 1; EFull false 1 3 5 4 false 1;
   EReqMissing 1; EClear 2; ETrack 2; EFull true 2 1 1 0 false 1].

Example C14_ex_history :
  hist_ok input_idx_ok init ex_hist /\
  exists w, run init ex_hist = Some w /\ length (w_full w) = 3%nat /\ Idx w.
Proof.
  assert (H : hist_ok input_idx_ok init ex_hist) by (apply hist_okb_ok; vm_compute; reflexivity).
  split; [exact H|].
  destruct (run init ex_hist) as [w|] eqn:R; [|vm_compute in R; discriminate].
  exists w. split; [reflexivity|]. split; [|exact (run_Idx _ _ _ init_Idx H R)].
  vm_compute in R. inversion R. reflexivity.
Qed.

Definition ex_hist_tree : list event :=
  [ETrack 1; ETrack 2;
   EFull false 1 3 3 2 false 1; EFull false 1 4 4 2 true 1; EFull true 1 2 2 1 false 1; EFull false 1 1 1 0 false 1;
   EReqObj 1 2; ETerse 1 3 2; EProps 3 1; ECached 1 3 1 2;
   EFull false 1 3 3 1 false 2;            (* re-parent 3 under 1 *)
   EFull false 2 2 5 0 false 1;
   EKill 1 3; EKill 1 7;                   (* a leaf; an unknown id without orphans *)
   EFull false 1 5 3 4 false 1;            (* full id 3 again, under the avatar *)
   EFull false 2 1 1 0 false 2;            (* 1 moves to region 2: its child 2 becomes an orphan *)
   EFull false 1 6 2 0 false 1;            (* local id of 2 changes: its children become orphans of 2 *)
   EFull true 1 2 5 0 false 1;             (* 5 comes back from region 2 as local id 2 and adopts them *)
   EReqMissing 1;
   EFull false 1 7 6 6 false 1;            (* an orphan of 6 (= local id of object 2) ... adopted at once *)
   EKill 1 9;                              (* unknown id, no orphans *)
   EKill 1 2;                              (* cascade: 5 at local id 2 dies with its non-avatar children, the avatar survives *)
   EKill 1 6;                              (* cascade through object 2 and its child 6 *)
   EClear 2; ETrack 2].

Example C14_ex_history_tree :
  hist_ok input_tree_ok init ex_hist_tree /\
  exists w, run init ex_hist_tree = Some w /\ Idx w /\ Tree w.
Proof.
  assert (H : hist_ok input_tree_ok init ex_hist_tree) by (apply hist_tree_okb_ok; vm_compute; reflexivity).
  split; [exact H|].
  destruct (run init ex_hist_tree) as [w|] eqn:R; [|vm_compute in R; discriminate].
  exists w. split; [reflexivity|]. exact (run_Inv _ _ _ (conj init_Idx init_Tree) H R).
Qed.

(* the state that history ends in: the kill cascades removed objects 5, 2 and 6; the avatar 4 survived the kill of its
   parent (local id 2) and is held as an orphan of 2; object 3 is still its child *)
Example C14_ex_history_tree_end :
  exists w o rs, run init ex_hist_tree = Some w /\ length (w_full w) = 2%nat /\ get_obj w 4 = Some o /\ o_av o = true /\
    o_parent o = 2 /\ o_children o = [(5, 3)] /\ get_rs w 1 = Some rs /\ aget 2 (r_orphans rs) = Some [4].
Proof. vm_compute. do 3 eexists. repeat split. Qed.

(* the same history satisfies the assumptions of C14_history_noerr_partial: a ranking witnessing acyclicity in every
   state it passes through (ex_ht), registered regions for every kill / teardown / request *)
Definition ex_ht (r l : N) : nat :=
  match l with 1 => 10%nat | 2 | 6 => 8%nat | 4 => 6%nat | 3 | 5 => 4%nat | _ => 2%nat end.

Example C14_ex_history_noerr :
  hist_ok input_full_ok init ex_hist_tree /\ exists w, run init ex_hist_tree = Some w /\ Idx w /\ Tree w.
Proof.
  assert (H : hist_ok input_full_ok init ex_hist_tree) by (apply (hist_full_okb_ok ex_ht); vm_compute; reflexivity).
  split; [exact H|]. exact (C14_history_noerr_partial _ H).
Qed.

(* a deep cascade: a chain 1 <- 2 <- 3 <- 4 <- 5 killed from the root, and an unknown id (9) whose orphan has a subtree *)
Example C14_ex_kill_chain :
  let h := [ETrack 1; EFull false 1 1 1 0 false 1; EFull false 1 2 2 1 false 1; EFull false 1 3 3 2 false 1;
            EFull false 1 4 4 3 false 1; EFull false 1 5 5 4 false 1; EFull false 1 6 6 9 false 1; EFull false 1 7 7 6 false 1;
            EKill 1 9; EKill 1 1] in
  hist_ok input_full_ok init h /\ exists w, run init h = Some w /\ w_full w = [].
Proof.
  cbv zeta. split.
  - apply (hist_full_okb_ok (fun r l => match l with 9 => 20%nat | _ => (20 - N.to_nat l)%nat end)). vm_compute. reflexivity.
  - eexists. split; vm_compute; reflexivity.
Qed.

(* the Parent references at the end of that history: object 3 points at the avatar (full id 4) it is a child of; the
   avatar, whose parent (local id 2) was killed, points nowhere *)
Example C14_ex_history_parent_links :
  exists w o3 o4, run init ex_hist_tree = Some w /\ get_obj w 3 = Some o3 /\ o_parent o3 = 4 /\ o_plink o3 = Some 4 /\
    get_obj w 4 = Some o4 /\ o_parent o4 = 2 /\ o_plink o4 = None.
Proof. vm_compute. do 3 eexists. repeat split. Qed.

(* ==================================================================================================================
   The reference-set clause (package B6; supersedes the "NOT PROVED ... exact reference-set equality" note in the header).

   ref_set h (Obj/SceneGraphRef.v) is the flat reference semantics of "announced and not since killed (directly or
   through a killed ancestor) or unloaded": a full id is live from its first ObjectUpdate(Compressed) into a tracked
   region; a later update moves / re-parents it; KillObject (r, l) in a tracked region removes every live object of r
   whose walk up the parent ids (doomed) reaches local id l through non-avatar objects (the object at l itself dies
   even if it is an avatar; avatars sitting on a dying object are spared, with everything sitting on them; parent id
   0 is no parent); region teardown removes the region's objects.  It mentions no local-id index, child list or orphan
   list.  harness/props/c14.py:Spec is its literal Python transcription, and the correspondence suite "reference"
   compares the extracted ref_step, Spec and the real managers after every step.

   Proof (Obj/SceneGraphRefProofs.v): a refinement relation Rrel w s (same full ids with the same region / local id /
   parent id / avatar flag, same tracked regions) is preserved by every step (step_Rrel).  For KillObject the cascade is
   shown to remove a set that is sound (whatever goes is the killed id or a non-avatar whose parent id is the killed id
   or names an object that goes) and complete (the killed id goes; a surviving non-avatar's parent id is not the killed
   id and names no object that goes) through the recursion with the generalised invariant of SceneGraphKill.v
   (kill_KX); under acyclic parent links any such set is the one decided by the walk-up test with fuel = number of live
   objects + 1 (doomed_exact). *)
Require Import HV.Obj.SceneGraphRefProofs.

(* after every history inside the statement's assumptions (input_full_ok: no local id given to two live objects, updates
   name a tracked region - see C14_untracked_region_refuted -, parent links acyclic, KillObject / teardown / track /
   requests name a registered region; plus the local-id-change gap of input_tree_ok described in the header), the
   full-id lookup equals the reference set as a finite map: full id |-> (region, local id, parent id, avatar?) *)
Theorem C14_reference_exact : forall h w, hist_ok input_full_ok init h -> run init h = Some w ->
  forall g, aget g (tracked w) = aget g (ref_set h).
Proof. exact reference_exact. Qed.
Print Assumptions C14_reference_exact.

(* the same as sets of (region, local id, full id, parent id) tuples, for BOTH lookups: a tuple is in the reference set
   iff the full-id lookup holds it, and then the local-id lookup of that region holds it too *)
Theorem C14_reference_exact_set : forall h w, hist_ok input_full_ok init h -> run init h = Some w ->
  forall r l f p, In (r, l, f, p) (tuples (ref_set h)) <->
    (exists o, get_obj w f = Some o /\ o_region o = r /\ o_lid o = l /\ o_parent o = p) /\
    (exists o, lookup_local w r l = Some o /\ o_full o = f /\ o_parent o = p).
Proof. exact reference_exact_set. Qed.
Print Assumptions C14_reference_exact_set.

(* lookup by local id is the reference's at(): the live object last announced under (region, local id), if any *)
Theorem C14_reference_local_lookup : forall h w, hist_ok input_full_ok init h -> run init h = Some w ->
  forall r l, option_map (fun o => (o_full o, rob_of o)) (lookup_local w r l) = ref_at (ref_set h) r l.
Proof. exact reference_local_lookup. Qed.
Print Assumptions C14_reference_local_lookup.

(* histories without KillObject need only the index assumption (no Tree, no acyclicity): in particular the local-id
   change with new local id = old parent id, which input_tree_ok excludes, is covered here *)
Theorem C14_reference_exact_nokill : forall h w, hist_ok input_idx_ok init h ->
  forallb (fun e => negb (is_kill e)) h = true -> run init h = Some w ->
  forall g, aget g (tracked w) = aget g (ref_set h).
Proof. exact reference_exact_nokill. Qed.
Print Assumptions C14_reference_exact_nokill.

(* the step forms.  Rrel w s: w and the reference state s hold the same full ids with the same (region, local id, parent
   id, avatar?) and the same tracked regions.  Every handler refines the reference step; KillObject needs Tree and
   acyclic parent links in the state it arrives in, the other kinds only Idx (not even the input assumptions) *)
Theorem C14_step_reference : forall w e w' s, Idx w ->
  (forall r l, e = EKill r l -> Tree w /\ acyclic w) ->
  Rrel w s -> step w e = Some w' -> Rrel w' (ref_step s e).
Proof. exact step_Rrel. Qed.
Print Assumptions C14_step_reference.

Theorem C14_kill_reference : forall w r l w' s, Idx w -> Tree w -> acyclic w -> Rrel w s ->
  step w (EKill r l) = Some w' -> Rrel w' (ref_kill s r l).
Proof. exact step_kill_Rrel. Qed.
Print Assumptions C14_kill_reference.

(* the two halves of the kill argument on their own: (1) the cascade, under the generalised invariant with any set D of
   detached objects, removes a sound and complete set (KX); (2) any such set is the one the walk-up test decides *)
Theorem C14_kill_closed : forall n r, KX (fun w c => kill n w r c) r.
Proof. exact kill_KX. Qed.
Print Assumptions C14_kill_closed.

Theorem C14_doomed_exact : forall live r l (gone : N -> Prop) ht,
  (forall g o, In (g, o) live -> x_parent o <> 0 -> (ht (x_region o) (x_lid o) < ht (x_region o) (x_parent o))%nat) ->
  (forall g o, In (g, o) live -> gone g ->
     x_region o = r /\ (x_lid o = l \/ (x_av o = false /\ x_parent o <> 0 /\
       (x_parent o = l \/ exists g' o', ref_at live r (x_parent o) = Some (g', o') /\ gone g')))) ->
  (forall g o, In (g, o) live -> x_region o = r -> x_lid o = l -> gone g) ->
  (forall g o, In (g, o) live -> x_region o = r -> x_av o = false -> x_parent o <> 0 -> x_parent o = l -> gone g) ->
  (forall g o g' o', In (g, o) live -> x_region o = r -> x_av o = false -> x_parent o <> 0 ->
     ref_at live r (x_parent o) = Some (g', o') -> gone g' -> gone g) ->
  forall g o, In (g, o) live -> (gone g <-> doomed (S (length live)) live r l o = true).
Proof. exact doomed_exact. Qed.
Print Assumptions C14_doomed_exact.

(* ---- non-vacuity ---- *)
(* ex_hist_tree satisfies the hypotheses of C14_reference_exact (C14_ex_history_noerr); its reference set is the avatar
   4 (spared by the kill of local id 2 it was sitting on, still naming 2 as parent) and object 3 sitting on the avatar:
   the kills of local ids 3, 2 and 6 removed full ids 3 (first incarnation), 5, 2 and 6 through the walk-up test *)
Example C14_ex_reference :
  hist_ok input_full_ok init ex_hist_tree /\
  ref_set ex_hist_tree = [(3, mkRob 1 5 4 false); (4, mkRob 1 4 2 true)] /\
  exists w, run init ex_hist_tree = Some w /\ forall g, aget g (tracked w) = aget g (ref_set ex_hist_tree).
Proof.
  destruct C14_ex_history_noerr as [H (w & R & _)]. split; [exact H|]. split; [vm_compute; reflexivity|].
  exists w. split; [exact R|]. exact (C14_reference_exact _ _ H R).
Qed.

(* the walk-up test at work: in the chain 1 <- 2 <- 3 <- 4 <- 5 plus the orphans 6 <- 7 of the unknown id 9, killing 9 dooms
   6 and 7 only, killing 1 dooms the whole chain; an avatar in the chain stops the cascade below it *)
Example C14_ex_doomed :
  let s := ref_run [ETrack 1; EFull false 1 1 1 0 false 1; EFull false 1 2 2 1 false 1; EFull false 1 3 3 2 true 1;
                    EFull false 1 4 4 3 false 1; EFull false 1 6 6 9 false 1; EFull false 1 7 7 6 false 1] in
  map fst (rf_live (ref_kill s 1 9)) = [4; 3; 2; 1] /\
  map fst (rf_live (ref_kill s 1 1)) = [7; 6; 4; 3] /\
  map fst (rf_live (ref_kill s 1 3)) = [7; 6; 2; 1] /\
  map fst (rf_live (ref_kill s 1 0)) = [7; 6; 4; 3; 2; 1] /\
  map fst (rf_live (ref_kill s 2 1)) = [7; 6; 4; 3; 2; 1].
Proof. vm_compute. repeat split. Qed.

(* a kill-free history inside input_idx_ok but outside input_tree_ok (object 2 takes local id 1 = its old parent id) *)
Example C14_ex_reference_nokill :
  let h := [ETrack 1; EFull false 1 2 2 1 false 1; EFull false 1 1 2 0 false 1; EFull false 1 3 3 1 true 1; EClear 1] in
  hist_ok input_idx_ok init h /\ forallb (fun e => negb (is_kill e)) h = true /\
  (exists w2, run init (firstn 2 h) = Some w2 /\ ~ input_tree_ok w2 (EFull false 1 1 2 0 false 1)) /\
  ref_set h = [] /\ ref_set (removelast h) = [(3, mkRob 1 3 1 true); (2, mkRob 1 1 0 false)].
Proof.
  cbv zeta. split; [apply hist_okb_ok; vm_compute; reflexivity|]. split; [reflexivity|]. split; [|split; vm_compute; reflexivity].
  eexists. split; [vm_compute; reflexivity|]. intros (_ & _ & H). vm_compute in H. destruct H as [_ H].
  apply H; [reflexivity|discriminate|reflexivity].
Qed.

(* on the witness of the known finding c14-untracked-region the full-id lookup still equals the reference set (what
   fails there is the local-id index, C14_untracked_region_refuted): the hypothesis "updates name a tracked region" of
   C14_reference_exact is inherited from the index / children invariants the kill argument needs, not from this clause *)
Example C14_untracked_region_reference :
  let h := [ETrack 1; EFull false 1 1 1 0 false 1; EFull false 2 2 1 0 false 1; ETrack 2] in
  exists w, run init h = Some w /\ forall g, aget g (tracked w) = aget g (ref_set h).
Proof.
  cbv zeta. eexists. split; [vm_compute; reflexivity|]. intros g. vm_compute.
  destruct g as [|[p|p|]]; reflexivity.
Qed.
