(* C14 - the tracked world stays self-consistent under any object update / kill history.
   Property theorems only.  Model: Obj/SceneGraph.v (tied to hippolyzer/lib/client/object_manager.py and
   hippolyzer/lib/proxy/object_manager.py by the correspondence check of harness/props/c14.py).

   What is proved here, for ALL histories: the index clause of the statement ("lookup by local ID and by
   full ID agree and contain the same objects", Idx), and the cancellation of pending requests on region
   teardown.  The full invariant of the design,

     WF w := Idx w
          /\ (c in children(p) <-> c tracked /\ parent_id c = lid p <> 0 /\ same region /\ p tracked; NoDup)
          /\ (c in orphans[p]  <-> c tracked /\ parent_id c = p <> 0 /\ p untracked in that region; NoDup)
          /\ step never returns None (no handler raises)
          /\ kill l / untrack leave no pending future for l,

   is NOT proved in Coq for the children / orphans / no-raise / kill-cancels clauses; those clauses are checked
   after every step on the real implementation and against this model by the correspondence harness only.
   The full statement is false of the (faithful) model outside the hypothesis "updates name a tracked region":
   see C14_untracked_region_refuted with its witness history (a recorded known finding). *)
From Coq Require Import NArith List Bool.
From HV Require Import Obj.SceneGraph Obj.SceneGraphProofs.
Import ListNotations.
Open Scope N_scope.

(* nothing is tracked initially *)
Theorem C14_init_idx : Idx init.
Proof. exact init_Idx. Qed.
Print Assumptions C14_init_idx.

(* every handler preserves the agreement of the two indices: every object found by full id is found under its
   (region, local id) in a tracked region and vice versa.  Hypotheses on the event (input_idx_ok): an object
   update names a tracked region (see C14_untracked_region_refuted) and does not give a local id that
   currently belongs to another live object (the statement's assumption).  No acyclicity needed. *)
Theorem C14_step_idx_partial : forall w e w',
  Idx w -> input_idx_ok w e -> step w e = Some w' -> Idx w'.
Proof. exact step_Idx. Qed.
Print Assumptions C14_step_idx_partial.

(* hence after every history (induction over the run) *)
Theorem C14_history_idx_partial : forall h w',
  hist_ok input_idx_ok init h -> run init h = Some w' -> Idx w'.
Proof. intros h w' H R. exact (run_Idx h init w' init_Idx H R). Qed.
Print Assumptions C14_history_idx_partial.

(* a killed object (and each killed descendant) leaves both indices, survivors keep (local id, full id, region) *)
Theorem C14_kill_idx : forall n w r l w',
  Idx w -> kill n w r l = Some w' -> Idx w' /\ shrinks w w'.
Proof. exact kill_Idx. Qed.
Print Assumptions C14_kill_idx.

(* region teardown cancels every pending request of the region *)
Theorem C14_clear_cancels : forall w r w',
  step w (EClear r) = Some w' ->
  forall x, In x (w_futs w') -> f_region x = r -> f_state x <> Pending.
Proof. exact clear_cancels. Qed.
Print Assumptions C14_clear_cancels.

(* ---- the full statement fails on the faithful model: witnesses (all replayed on the real code) ---- *)

(* repaired (7f5640d): KillObject for an untracked local id no longer drops avatar orphans from the orphanage:
   the former witness history now ends with the avatar adopted by the parent when it appears *)
Example C14_avatar_orphan_adopted :
  exists w o rs p3,
    run init [ETrack 1; EFull false 1 4 4 3 true 1; EKill 1 3; EFull false 1 3 3 0 false 1] = Some w
    /\ get_obj w 4 = Some o /\ o_parent o = 3 /\ get_rs w 1 = Some rs /\ r_orphans rs = []
    /\ get_obj w 3 = Some p3 /\ o_children p3 = [(4, 4)] /\ o_plink o = Some 3.
Proof. vm_compute. do 4 eexists. repeat split. Qed.

(* repaired (0de120a): a parent / local-id change of an object sitting in an unknown region no longer raises;
   the object just takes the new values and stays outside every local-id index *)
Example C14_regionless_update_ok :
  exists w1 w2 o1 o2,
    run init [ETrack 1; EFull false 1 1 1 0 false 1; EFull false 3 2 1 0 false 1; EFull false 3 2 1 4 false 1] = Some w1
    /\ run init [ETrack 1; EFull false 1 1 1 0 false 1; EFull false 3 2 1 0 false 1; EFull false 3 3 1 0 false 1] = Some w2
    /\ get_obj w1 1 = Some o1 /\ o_parent o1 = 4 /\ get_obj w2 1 = Some o2 /\ o_lid o2 = 3.
Proof. vm_compute. do 4 eexists. repeat split. Qed.

(* KNOWN finding (deliberate per the code comment): an object announced in a registered region before the region is
   tracked is never indexed by local id *)
Theorem C14_untracked_region_refuted :
  exists w, run init [ETrack 1; EFull false 1 1 1 0 false 1; EFull false 2 2 1 0 false 1; ETrack 2] = Some w /\ ~ Idx w.
Proof.
  eexists. split; [vm_compute; reflexivity|].
  intros (_ & _ & B). destruct (B 1 _ eq_refl) as (rs & E & _ & El).
  vm_compute in E. inversion E; subst rs. discriminate.
Qed.
Print Assumptions C14_untracked_region_refuted.

(* design clause (iv) "missing and tracked are disjoint" is not a property of the code (and not of the statement):
   a cached update with a stale CRC puts a tracked local id into missing_locals *)
Theorem C14_missing_disjoint_refuted :
  exists w rs, run init [ETrack 1; EFull true 1 2 3 0 true 2; ECached 1 2 1 1] = Some w
    /\ get_rs w 1 = Some rs /\ aget 2 (r_local rs) = Some 3 /\ In 2 (r_missing rs).
Proof. vm_compute. do 2 eexists. repeat split. left. reflexivity. Qed.
Print Assumptions C14_missing_disjoint_refuted.

(* ---- non-vacuity: a history inside the hypotheses, with orphan adoption, an avatar, a cascading kill,
        a cross-region move, a local-id change, local-id reuse and a region teardown ---- *)
Definition ex_hist : list event :=
  [ETrack 1; ETrack 2;
   EFull false 1 3 3 2 false 1; EFull false 1 4 4 2 true 1; EFull true 1 2 2 1 false 1; EFull false 1 1 1 0 false 1;
   EReqObj 1 2; EReqProps 1 2; ETerse 1 3 2; EProps 3 1; ECached 1 3 1 2;
   EFull false 2 2 1 0 false 2; EKill 1 2; EFull false 1 2 5 0 false 1; EFull false 1 3 5 4 false 1;
   EReqMissing 1; EClear 2; ETrack 2; EFull true 2 1 1 0 false 1].

Example C14_ex_history :
  hist_ok input_idx_ok init ex_hist /\
  exists w, run init ex_hist = Some w /\ length (w_full w) = 3%nat /\ Idx w.
Proof.
  assert (H : hist_ok input_idx_ok init ex_hist) by (apply hist_okb_ok; vm_compute; reflexivity).
  split; [exact H|].
  destruct (run init ex_hist) as [w|] eqn:R; [|vm_compute in R; discriminate].
  exists w. split; [reflexivity|]. split; [|exact (run_Idx _ _ _ init_Idx H R)].
  vm_compute in R. inversion R. reflexivity.
Qed.
