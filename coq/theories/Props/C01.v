(* C01 - LLUDP codec: every template-conformant message round-trips by value.
   Property theorems only.  Model: Tmpl/Template.v, Tmpl/Codec.v (tied to
   udpserializer.py / udpdeserializer.py / data_packer.py by the correspondence of
   harness/props/c01.py); dictionary: gen/Template_gen.v (regenerated from the live
   TemplateDictionary on every run, with the obligation current_dict_wf). *)
From Coq Require Import Arith NArith ZArith Ascii String List Bool.
From HV Require Import Base.Bytes ZC.ZeroCode Tmpl.Template Tmpl.TemplateProofs Tmpl.Codec
  Tmpl.CodecProofs Tmpl.NormProofs Tmpl.ViewProofs Tmpl.SameProofs.
From HVgen Require Import Template_gen.
Import ListNotations.
Open Scope N_scope.

(* The round trip, for every well-formed dictionary and every conformant message:
   any message type, any legal block counts (present blocks = a non-empty prefix of the
   template's, Single 1, Multiple n, Variable <= 255), any in-range value for every
   variable (floats: every bit pattern except single-precision signalling NaNs - wider than the
   property's "NaN-free", quiet NaNs round-trip bit-exactly), any flags < 256, packet id < 2^32, up to 255 acks (with the ACK flag) and
   up to 255 extra bytes; zero-coded (body up to the decoder's cap ZC_CAP = 0x3000) or
   not.  The decoded message is [normalize d m]: same name/flags/id/extra/acks, blocks
   and variables in template order, unset variables of fill_missing blocks as their
   default value. *)
Theorem C01_roundtrip : forall d m, wf_dict d = true -> conforms d m = true ->
  exists bs, serialize d m = Some bs /\ bytes_okb bs = true /\ deserialize d bs = Some (normalize d m).
Proof. exact roundtrip. Qed.
Print Assumptions C01_roundtrip.

(* ... in particular for the message template of the repo as it is now *)
Theorem C01_roundtrip_current : forall m, conforms current_dict m = true ->
  exists bs, serialize current_dict m = Some bs /\ bytes_okb bs = true
             /\ deserialize current_dict bs = Some (normalize current_dict m).
Proof. intros m. exact (roundtrip current_dict m current_dict_wf). Qed.
Print Assumptions C01_roundtrip_current.

(* "equal by value": read by name, [normalize] has exactly the template's variables,
   each with the value that was set or else the default ... *)
Theorem C01_normalize_keeps_values : forall tvs b tv,
  uniqb ident_eqb (map vname tvs) = true -> In tv tvs ->
  lookup (vname tv) (b_vars (norm_inst tvs b)) =
  Some (match lookup (vname tv) (b_vars b) with Some v => v | None => default_val tv end).
Proof. exact norm_inst_lookup. Qed.
Print Assumptions C01_normalize_keeps_values.

(* ... and exactly the blocks that were present, with as many instances *)
Theorem C01_normalize_keeps_blocks : forall tbs bd tb,
  uniqb ident_eqb (map bname tbs) = true -> In tb tbs ->
  lookup (bname tb) (norm_body tbs bd) =
  match lookup (bname tb) bd with
  | Some l => Some (map (norm_inst (bvars tb)) l)
  | None => None
  end.
Proof. exact norm_body_lookup. Qed.
Print Assumptions C01_normalize_keeps_blocks.

(* a block instance that is already in decoded form (template order, everything set) is unchanged *)
Theorem C01_fill_identity : forall tvs b, uniqb ident_eqb (map vname tvs) = true ->
  b_fill b = false /\ map fst (b_vars b) = map vname tvs -> norm_inst tvs b = b.
Proof. exact norm_inst_fix. Qed.
Print Assumptions C01_fill_identity.

(* Default filling: an unset variable is encoded as zeros of exactly the width the template
   prescribes (for Fixed: its declared size; for Variable: an empty payload, i.e. a zero
   length prefix), and that is the encoding of the default value it decodes to. *)
Theorem C01_default_width : forall tv, wf_var tv = true ->
  exists bs, ser_var tv None true = Some bs /\ bs = nzeros (length bs) /\ length bs = vsize tv.
Proof. exact default_width. Qed.
Print Assumptions C01_default_width.

Theorem C01_default_is_zero_value : forall tv, wf_var tv = true ->
  ser_var tv None true = pack_var tv (default_val tv) /\ val_ok tv (default_val tv) = true.
Proof. intros tv H. split; [now apply ser_var_default | now apply default_val_ok]. Qed.
Print Assumptions C01_default_is_zero_value.

(* the default-width clause as one equation: a message with unset variables under fill_missing (and
   any dict order) encodes to exactly the datagram of its normal form, in which every variable is
   set - the unset ones to the zero value at the width the template prescribes *)
Theorem C01_serialize_normalize : forall d m, wf_dict d = true -> conforms d m = true ->
  serialize d m = serialize d (normalize d m).
Proof. exact serialize_normalize. Qed.
Print Assumptions C01_serialize_normalize.

(* conformance implies acceptance by the serializer ... *)
Theorem C01_conforms_accepted : forall d m, wf_dict d = true -> conforms d m = true -> serialize d m <> None.
Proof. exact conforms_accepted. Qed.
Print Assumptions C01_conforms_accepted.

(* ... but not the other way round.  Full-strength "conforms d m = true <-> serialize d m <> None" is
   FALSE: the serializer also accepts messages that are not template-conformant and that do not round
   trip (no count check on Single blocks, acks silently dropped without the ACK flag, unknown variables
   skipped, packet_id None sent as 0, zero-coded bodies above the decoder's cap).  Witness: a PacketAck
   carrying acks but not the ACK flag is encoded, and decodes to a message without the acks. *)
Definition ex_acks_noflag : msg :=
  {| m_name := list_ascii_of_string "PacketAck"; m_flags := 0; m_pid := Some 1; m_extra := []; m_acks := [7]; m_raw := None;
     m_body := [ (list_ascii_of_string "Packets", [ {| b_fill := false; b_vars := [ (list_ascii_of_string "ID", WU 1) ] |} ]) ] |}.

Theorem C01_accepted_implies_conforms_refuted : exists m bs,
  serialize current_dict m = Some bs /\ conforms current_dict m = false
  /\ deserialize current_dict bs <> Some (normalize current_dict m).
Proof.
  exists ex_acks_noflag. eexists. split; [vm_compute; reflexivity|]. split; [vm_compute; reflexivity|].
  vm_compute. discriminate.
Qed.
Print Assumptions C01_accepted_implies_conforms_refuted.

(* every variable: decode (encode v ++ rest) = (v, rest), whatever follows *)
Theorem C01_var_roundtrip : forall tv v, wf_var tv = true -> val_ok tv v = true ->
  exists bs, pack_var tv v = Some bs /\ bs <> [] /\ bytes_okb bs = true /\
    forall r, parse_var true tv (bs ++ r) = Some (v, r).
Proof. exact parse_pack_var. Qed.
Print Assumptions C01_var_roundtrip.

(* message numbers are prefix-free: the frequency/number bytes are read back whatever follows *)
Theorem C01_header_unique : forall f n r, wf_num f n = true ->
  parse_msg_num (freq_num_bytes f n ++ r) = Some (f, n, r).
Proof. exact parse_msg_num_bytes. Qed.
Print Assumptions C01_header_unique.

(* the ack trailer is snipped off exactly *)
Theorem C01_acks_snip : forall body acks tail, body <> [] -> ser_acks acks = Some tail ->
  split_acks (body ++ tail) = Some (acks, body) /\ bytes_okb tail = true.
Proof. exact split_acks_ser. Qed.
Print Assumptions C01_acks_snip.

(* ---------- non-vacuity: concrete conformant messages of the current template ---------- *)

Definition I (s : string) : ident := list_ascii_of_string s.

(* zero-coded + acks + extra; SessionID left to default filling; Variable 2 text; S32 -1 *)
Definition ex_chat : msg :=
  {| m_name := I "ChatFromViewer"; m_flags := 144; m_pid := Some 7; m_extra := [1; 0];
     m_acks := [5; 4294967295]; m_raw := None;
     m_body := [ (I "ChatData", [ {| b_fill := false;
                                     b_vars := [ (I "Channel", WS (-1)); (I "Type", WU 1);
                                                 (I "Message", WB [104; 105; 0]) ] |} ]);
                 (I "AgentData", [ {| b_fill := true;
                                      b_vars := [ (I "AgentID", WB (repeat 7 16)) ] |} ]) ] |}.

Example C01_ex_chat : conforms current_dict ex_chat = true
  /\ exists bs, serialize current_dict ex_chat = Some bs
       /\ deserialize current_dict bs = Some (normalize current_dict ex_chat)
       /\ m_body (normalize current_dict ex_chat) =
          [ (I "AgentData", [ {| b_fill := false;
                                 b_vars := [ (I "AgentID", WB (repeat 7 16)); (I "SessionID", WB (repeat 0 16)) ] |} ]);
            (I "ChatData", [ {| b_fill := false;
                                b_vars := [ (I "Message", WB [104; 105; 0]); (I "Type", WU 1);
                                            (I "Channel", WS (-1)) ] |} ]) ].
Proof. split; [vm_compute; reflexivity|]. eexists. split; [vm_compute; reflexivity|]. split; vm_compute; reflexivity. Qed.

(* trailing block omitted (only AgentData present), not zero-coded *)
Definition ex_trailing : msg :=
  {| m_name := I "ChatFromViewer"; m_flags := 64; m_pid := Some 4294967295; m_extra := []; m_acks := []; m_raw := None;
     m_body := [ (I "AgentData", [ {| b_fill := false;
                    b_vars := [ (I "AgentID", WB (repeat 255 16)); (I "SessionID", WB (repeat 0 16)) ] |} ]) ] |}.

Example C01_ex_trailing : conforms current_dict ex_trailing = true
  /\ exists bs, serialize current_dict ex_trailing = Some bs /\ length bs = 42%nat
       /\ deserialize current_dict bs = Some ex_trailing.
Proof. split; [vm_compute; reflexivity|]. eexists. split; [vm_compute; reflexivity|]. split; vm_compute; reflexivity. Qed.

(* default filling of a Fixed variable: SystemMessage.MethodData.Digest is 32 zero bytes *)
Example C01_ex_fixed_default :
  ser_var {| vname := I "Digest"; vty := TFixed; vsize := 32; vbin := false; vtext := false |} None true
  = Some (repeat 0 32).
Proof. reflexivity. Qed.

(* a Variable block with 2 instances and a block-less message *)
Definition ex_acks : msg :=
  {| m_name := I "PacketAck"; m_flags := 0; m_pid := Some 0; m_extra := []; m_acks := []; m_raw := None;
     m_body := [ (I "Packets", [ {| b_fill := false; b_vars := [ (I "ID", WU 1) ] |};
                                 {| b_fill := false; b_vars := [ (I "ID", WU 4294967295) ] |} ]) ] |}.
Example C01_ex_acks : conforms current_dict ex_acks = true
  /\ serialize current_dict ex_acks = Some [0; 0; 0; 0; 0; 0; 255; 255; 255; 251; 2; 1; 0; 0; 0; 255; 255; 255; 255].
Proof. split; vm_compute; reflexivity. Qed.

(* the hypotheses matter: an out-of-range value is not conformant and is refused *)
Example C01_ex_refused :
  let m := {| m_name := I "PacketAck"; m_flags := 0; m_pid := Some 0; m_extra := []; m_acks := []; m_raw := None;
              m_body := [ (I "Packets", [ {| b_fill := false; b_vars := [ (I "ID", WU 4294967296) ] |} ]) ] |} in
  conforms current_dict m = false /\ serialize current_dict m = None.
Proof. split; vm_compute; reflexivity. Qed.
