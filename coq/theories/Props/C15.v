(* C15 - Intercepted HTTP flows are handed back exactly once, state intact.
   Property theorems only: each is closed by [exact] and followed by
   [Print Assumptions].  Models: Http/FlowOwner.v (pump_proxy_event, the two
   handlers, addon hook dispatch, take/resume/preempt, proxy-side callback
   pump) and Http/CapData.v (CapData.serialize/deserialize, get_state/from_state),
   tied to the code by the correspondence check of harness/props/c15.py. *)
From Coq Require Import NArith List Bool.
From HV Require Import Http.FlowOwner Http.FlowOwnerProofs Http.CapData Http.CapDataProofs.
Import ListNotations.
Open Scope N_scope.

(* handed_back_once: for every event kind, cap, injected fault point, data-dependent
   raise and every list of addon hooks / subscribers with arbitrary behaviour
   (unbounded), the number of callbacks put during the pump is 1 if the proxy
   owns the flow afterwards and 0 if an addon holds it.
   Hypothesis [cfg_gs_ok]: no resume() fails inside get_state() (see the
   _refuted lemma below for what happens otherwise). *)
Theorem C15_handed_back_once : forall c p d,
  cfg_gs_ok c = true ->
  let f := r_flow (pump c p (fresh d)) in
  callbacks f = (if held f then 0 else 1)%nat
  /\ held f = taken f
  /\ (held f = true -> resumed f = false)
  /\ (held f = false -> resumed f = true).
Proof. exact pump_handed_back_once. Qed.
Print Assumptions C15_handed_back_once.

(* never handed back twice - unconditionally (no hypothesis on get_state) *)
Theorem C15_at_most_once : forall c p d,
  let f := r_flow (pump c p (fresh d)) in
  (callbacks f <= 1)%nat /\ (held f = true -> callbacks f = 0%nat).
Proof. exact pump_at_most_once. Qed.
Print Assumptions C15_at_most_once.

(* a raising handler or hook does not prevent the hand-back *)
Theorem C15_exc_still_handed_back : forall c p d,
  cfg_gs_ok c = true ->
  let r := pump c p (fresh d) in
  r_exc r = true -> held (r_flow r) = false -> callbacks (r_flow r) = 1%nat.
Proof. exact pump_exc_still_handed_back. Qed.
Print Assumptions C15_exc_still_handed_back.

(* whole history: the pump followed by any sequence of later statements of
   the addon that may hold the flow: one callback iff resumed, never more *)
Theorem C15_history_once : forall c p d late,
  cfg_gs_ok c = true -> forallb act_gs_ok late = true ->
  let f := fst (run_late late (r_flow (pump c p (fresh d)))) in
  callbacks f = (if resumed f then 1 else 0)%nat /\ (held f = true -> resumed f = false)
  /\ held f = taken f.
Proof. exact history_handed_back_once. Qed.
Print Assumptions C15_history_once.

(* the addon's release succeeds and puts exactly one further callback,
   carrying the flow's data at that moment *)
Theorem C15_release_puts_one : forall f,
  Inv f -> held f = true ->
  exists f', do_act (AResume true) f = (f', true)
             /\ callbacks f' = 1%nat /\ held f' = false /\ taken f' = false /\ resumed f' = true
             /\ puts f' = puts f ++ [PCallback (dat f)].
Proof. exact release_puts_one. Qed.
Print Assumptions C15_release_puts_one.

Theorem C15_pump_establishes_Inv : forall c p d,
  cfg_gs_ok c = true -> Inv (r_flow (pump c p (fresh d))).
Proof. exact pump_Inv. Qed.
Print Assumptions C15_pump_establishes_Inv.

(* assertions: second resume, take after resume, second take, early preempt
   are rejected and change nothing (in particular put nothing) *)
Theorem C15_second_resume_rejected : forall ok f, resumed f = true -> do_act (AResume ok) f = (f, false).
Proof. exact second_resume_rejected. Qed.
Print Assumptions C15_second_resume_rejected.

Theorem C15_take_after_resume_rejected : forall f, resumed f = true -> do_act ATake f = (f, false).
Proof. exact take_after_resume_rejected. Qed.
Print Assumptions C15_take_after_resume_rejected.

Theorem C15_second_take_rejected : forall f, taken f = true -> do_act ATake f = (f, false).
Proof. exact second_take_rejected. Qed.
Print Assumptions C15_second_take_rejected.

Theorem C15_preempt_needs_resumed : forall f, resumed f = false -> do_act APreempt f = (f, false).
Proof. exact preempt_needs_resumed. Qed.
Print Assumptions C15_preempt_needs_resumed.

(* state intact, main-process side: the item put by the finally clause is the
   flow as handlers and hooks left it *)
Theorem C15_put_is_final_state : forall c p d,
  cfg_no_resume c = true -> g_fin_gs_ok c = true ->
  let f := r_flow (pump c p (fresh d)) in
  held f = false -> puts f = [PCallback (dat f)].
Proof. exact pump_put_is_final_state. Qed.
Print Assumptions C15_put_is_final_state.

Theorem C15_taken_nothing_put : forall c p d,
  cfg_no_resume c = true -> g_fin_gs_ok c = true ->
  let f := r_flow (pump c p (fresh d)) in
  held f = true -> puts f = [].
Proof. exact pump_no_resume_taken_or_put. Qed.
Print Assumptions C15_taken_nothing_put.

(* FULL statement without [cfg_gs_ok] is false of the code as written:
   resume() sets taken/resumed before get_state()/put(), so a get_state()
   failure leaves a flow that is marked resumed, was never put, and can never
   be resumed again. *)
Theorem C15_handed_back_once_without_gs_refuted :
  exists c p d, let f := r_flow (pump c p (fresh d)) in
                held f = false /\ taken f = false /\ callbacks f = 0%nat /\ resumed f = true
                /\ do_act (AResume true) f = (f, false).
Proof. exact handed_back_once_without_gs_refuted. Qed.
Print Assumptions C15_handed_back_once_without_gs_refuted.

(* proxy side: a callback/preempt for a flow that is still known resumes the
   original flow exactly once whether or not set_state raises *)
Theorem C15_proxy_resumes_once : forall e set_ok,
  (e = PECallback \/ e = PEPreempt) -> pr_resumes (proxy_pump e true set_ok) = 1%nat.
Proof. exact proxy_resumes_once. Qed.
Print Assumptions C15_proxy_resumes_once.

(* cap data (de)hydration *)
Theorem C15_capdata_roundtrip : forall sessions c,
  NoDup (map ss_id sessions) -> well_referenced sessions c ->
  deserialize (Some sessions) (serialize c) = c.
Proof. exact capdata_roundtrip. Qed.
Print Assumptions C15_capdata_roundtrip.

Theorem C15_capdata_plain_fields : forall mgr c,
  let c' := deserialize mgr (serialize c) in
  cd_name c' = cd_name c /\ cd_url c' = cd_url c /\ cd_type c' = cd_type c.
Proof. exact capdata_plain_fields. Qed.
Print Assumptions C15_capdata_plain_fields.

Theorem C15_capdata_dup_session_refuted :
  exists sessions c, In sA sessions /\ cd_session c = Some (Some sA)
     /\ deserialize (Some sessions) (serialize c) <> c.
Proof. exact capdata_roundtrip_dup_session_refuted. Qed.
Print Assumptions C15_capdata_dup_session_refuted.

Theorem C15_capdata_dup_addr_refuted :
  exists sessions c, NoDup (map ss_id sessions) /\ cd_session c = Some (Some sA)
     /\ cd_region c = Some (Some rA) /\ In rA (ss_regions sA)
     /\ deserialize (Some sessions) (serialize c) <> c.
Proof. exact capdata_roundtrip_dup_addr_refuted. Qed.
Print Assumptions C15_capdata_dup_addr_refuted.

(* get_state -> from_state; the premise about mitmproxy's own
   HTTPFlow.get_state/from_state is explicit (checked by the correspondence) *)
Theorem C15_flags_preserved : forall (O C S : Type)
    (mitm_get_state : C * meta O -> S) (mitm_from_state : S -> C * meta O),
  (forall x, mitm_from_state (mitm_get_state x) = x) ->
  forall mgr core m,
    let st := fst (get_state O C S mitm_get_state (core, m)) in
    let (core', m') := from_state O C S mitm_from_state mgr st in
    core' = core
    /\ m_can_stream m' = Some (default (m_can_stream m) true)
    /\ m_resp_inj m' = Some (default (m_resp_inj m) false)
    /\ m_req_inj m' = Some (default (m_req_inj m) false)
    /\ m_browser m' = Some (default (m_browser m) false)
    /\ m_other m' = m_other m
    /\ m_cap m' = Some (match m_cap m with
                        | Some (Some c) => Some (deserialize mgr (serialize c))
                        | _ => None end).
Proof. exact flags_preserved. Qed.
Print Assumptions C15_flags_preserved.

Theorem C15_state_intact : forall (O C S : Type)
    (mitm_get_state : C * meta O -> S) (mitm_from_state : S -> C * meta O),
  (forall x, mitm_from_state (mitm_get_state x) = x) ->
  forall sessions core m cs ri qi br c,
    m_can_stream m = Some cs -> m_resp_inj m = Some ri -> m_req_inj m = Some qi ->
    m_browser m = Some br -> m_cap m = Some (Some c) ->
    NoDup (map ss_id sessions) -> well_referenced sessions c ->
    let st := fst (get_state O C S mitm_get_state (core, m)) in
    let (core', m') := from_state O C S mitm_from_state (Some sessions) st in
    core' = core /\ m_can_stream m' = Some cs /\ m_resp_inj m' = Some ri
    /\ m_req_inj m' = Some qi /\ m_browser m' = Some br /\ m_other m' = m_other m
    /\ m_cap m' = Some (Some c).
Proof. exact state_intact. Qed.
Print Assumptions C15_state_intact.

(* ---- non-vacuity ---------------------------------------------------------- *)

(* an addon takes the flow and injects a response, then its hook raises
   (swallowed); a second addon's take() is rejected; nothing is put during the
   pump; the later resume puts exactly one callback carrying the injected
   response; a further resume / take is rejected *)
Example C15_ex_take_resume_later :
  cfg_gs_ok ex_take_resume_later = true
  /\ let r := pump ex_take_resume_later false (fresh d0) in
     held (r_flow r) = true /\ taken (r_flow r) = true /\ puts (r_flow r) = [] /\ r_exc r = false
     /\ let (f, oks) := run_late [AResume true; AResume true; ATake] (r_flow r) in
        oks = [true; false; false] /\ callbacks f = 1%nat
        /\ exists d, puts f = [PCallback d] /\ d_resp d = Some 200 /\ d_resp_inj d = true.
Proof. vm_compute. repeat split. eexists; repeat split. Qed.

(* wrapper cap whose wrapped cap is gone: the handler raises (KeyError) after
   the addon hook ran; the flow is still handed back once, with the hook's change *)
Example C15_ex_raise_after_hook :
  cfg_gs_ok ex_wrapper_fault = true /\ cfg_no_resume ex_wrapper_fault = true
  /\ let r := pump ex_wrapper_fault false (fresh d0) in
     r_exc r = true /\ held (r_flow r) = false /\ callbacks (r_flow r) = 1%nat
     /\ exists d, puts (r_flow r) = [PCallback d] /\ d_can_stream d = false.
Proof. vm_compute. repeat split. eexists; repeat split. Qed.

Example C15_ex_capdata :
  let sessions := [mkSession 1 100 [mkRegion 1 10; mkRegion 2 11]; mkSession 2 101 [mkRegion 3 10]] in
  let c := mkCapData (Some 7) (Some (Some (mkRegion 3 10))) (Some (Some (mkSession 2 101 [mkRegion 3 10])))
                     (Some 9) TWrapper in
  NoDup (map ss_id sessions) /\ well_referenced sessions c
  /\ deserialize (Some sessions) (serialize c) = c.
Proof.
  cbv zeta. split; [|split].
  - repeat constructor; cbn; intuition discriminate.
  - cbn. split; [right; left; reflexivity|]. split; [left; reflexivity|].
    repeat constructor; cbn; intuition.
  - vm_compute. reflexivity.
Qed.
