(* C17 - event queue: no event lost, duplicated or reordered; injections delivered once.
   Property theorems only.  Model: Http/EventQueue.v (one region's EventQueueManager and the EventQueueGet
   branches of _handle_request/_handle_response), tied to the code by harness/props/c17.py.
   [delivered ops outs] is what the viewer is offered in fresh responses; answers from the replay cache are
   not counted again (C17_cached_is_earlier_body shows they are verbatim copies of an earlier fresh body). *)
From Coq Require Import List Bool Arith NArith.
From HV Require Import Http.EventQueue Http.EventQueueProofs Http.Caps Http.CapsProofs.
Import ListNotations.

(* delivered_stream (1): over ANY history of injections, polls (any acks, any statuses, undef bodies) and
   teardowns, the simulator's events offered to the viewer are exactly the non-swallowed ones, in order, once *)
Theorem C17_delivered_sim : forall swallow ops q,
  Forall well_tagged_op ops -> Forall (fun e => is_inj e = true) (q_queued q) ->
  filter is_sim (delivered ops (eq_outs swallow ops q)) = sim_kept swallow ops.
Proof. exact delivered_sim. Qed.
Print Assumptions C17_delivered_sim.

(* delivered_stream (2): without a teardown every injected event is offered exactly once, in injection order,
   or is still queued (a teardown drops the queue: C17_dead_resets) *)
Theorem C17_delivered_inj : forall swallow ops q,
  Forall well_tagged_op ops -> no_dead ops -> Forall (fun e => is_inj e = true) (q_queued q) ->
  filter is_inj (delivered ops (eq_outs swallow ops q)) ++ q_queued (eq_run swallow ops q)
  = q_queued q ++ injected_all ops.
Proof. exact delivered_inj. Qed.
Print Assumptions C17_delivered_inj.

(* delivered_stream (3): a 200 response with a body carries ALL events queued so far, after the kept simulator
   events, and empties the queue - so an injected event is in the first such response after its injection *)
Theorem C17_response_takes_all : forall swallow q ack p,
  let r := poll_response swallow q ack 200 (Some p) in
  q_queued (fst r) = [] /\ q_last_ack (fst r) = ack /\ q_last_payload (fst r) = snd r /\
  (snd r = Some (mkPayload (p_id p) (keep swallow (p_events p) ++ q_queued q)) \/
   (snd r = None /\ keep swallow (p_events p) ++ q_queued q = [])).
Proof. exact response_takes_all. Qed.
Print Assumptions C17_response_takes_all.

(* undef_on_empty *)
Theorem C17_undef_on_empty : forall swallow q ack p,
  snd (poll_response swallow q ack 200 (Some p)) = None <->
  (p_events p <> [] /\ keep swallow (p_events p) = [] /\ q_queued q = []).
Proof. exact undef_iff. Qed.
Print Assumptions C17_undef_on_empty.

(* non-200 responses and undef bodies change nothing (queued injections stay queued, cache untouched) *)
Theorem C17_non200_untouched : forall swallow q ack status body,
  N.eqb status 200 = false -> poll_response swallow q ack status body = (q, body).
Proof. exact non200_untouched. Qed.
Print Assumptions C17_non200_untouched.

Theorem C17_undef_body_untouched : forall swallow q ack status,
  poll_response swallow q ack status None = (q, None).
Proof. exact undef_body_untouched. Qed.
Print Assumptions C17_undef_body_untouched.

(* replay: a request with the same ack as the request of the last processed response gets that response's
   body again (when it had one); a request never changes the state (nothing is re-processed, queued
   injections are not consumed); injections in between do not disturb the cache; a replay happens only for
   that ack *)
Theorem C17_replay : forall swallow q a p,
  poll_request (fst (poll_response swallow q a 200 (Some p))) a = snd (poll_response swallow q a 200 (Some p))
  /\ (forall a', fst (eq_step swallow q (EReq a')) = q)
  /\ (forall e a', poll_request (inject q e) a' = poll_request q a')
  /\ (forall a' p', poll_request q a' = Some p' -> q_last_ack q = a' /\ q_last_payload q = Some p').
Proof.
  intros. split; [apply replay_after_response|]. split; [intro; reflexivity|]. split; [reflexivity|].
  apply replay_only_same_ack.
Qed.
Print Assumptions C17_replay.

Theorem C17_cached_is_earlier_body : forall swallow ops p,
  In (XCached p) (eq_outs swallow ops eq_init) -> In (XBody (Some p)) (eq_outs swallow ops eq_init).
Proof.
  intros swallow ops p H. destruct (cached_is_earlier_body swallow ops eq_init p H) as [H1|H1]; [discriminate|exact H1].
Qed.
Print Assumptions C17_cached_is_earlier_body.

Theorem C17_dead_resets : forall swallow q, fst (eq_step swallow q EDead) = eq_init.
Proof. exact dead_resets. Qed.
Print Assumptions C17_dead_resets.

(* register_once: region-announcing events end in Session.register_region (model in Http/Caps.v): no second
   region is ever created for a circuit address, and an unknown address adds exactly one *)
Theorem C17_register_once : forall s addr seed handle i s',
  NoDup (map r_addr (s_regions s)) -> register_region s addr seed handle = Some (i, s') ->
  NoDup (map r_addr (s_regions s')) /\
  (map r_addr (s_regions s') = map r_addr (s_regions s) \/
   (~ In addr (map r_addr (s_regions s)) /\ map r_addr (s_regions s') = map r_addr (s_regions s) ++ [addr])).
Proof. exact register_once. Qed.
Print Assumptions C17_register_once.

(* Composition with the simulator and a lossy, re-polling viewer (environment model at the end of
   Http/EventQueue.v).  Assumption on the simulator, [sim_ok batches]: its batches have pairwise distinct ids
   and carry simulator events; and, structurally in [sys_step]: it sends every batch at most once, in order,
   and a batch is gone once sent, acknowledged or not; it is not asked again after a lost response because the
   proxy answers the repeated ack from its cache (C17_lost_response_replayed).
   The viewer polls with the id of the last response it received, may lose ANY response, re-polls with the same
   ack, and accepts a response id only once.  Then at every moment of every run the accepted stream plus the
   one body still in flight is: the non-swallowed simulator events of the batches sent, in order, and every
   injected event not still queued, exactly once, in injection order. *)
Theorem C17_viewer_stream : forall swallow batches, sim_ok batches -> forall ops,
  let y := sys_run swallow ops (sys_init batches) in
  filter is_sim (v_accepted (y_viewer y) ++ in_flight y) = keep swallow (flat_map p_events (y_served y)) /\
  filter is_inj (v_accepted (y_viewer y) ++ in_flight y) ++ q_queued (y_eq y) = y_injected y /\
  y_served y ++ y_sim y = batches.
Proof. exact viewer_stream. Qed.
Print Assumptions C17_viewer_stream.

(* ... and nothing is in flight once a response gets through: the accepted stream alone is complete *)
Theorem C17_viewer_caught_up : forall swallow batches, sim_ok batches -> forall ops reply,
  in_flight (sys_run swallow (ops ++ [YCycle reply false]) (sys_init batches)) = [].
Proof. exact viewer_caught_up. Qed.
Print Assumptions C17_viewer_caught_up.

Theorem C17_lost_response_replayed : forall swallow batches, sim_ok batches -> forall ops p,
  let y := sys_run swallow ops (sys_init batches) in
  q_last_payload (y_eq y) = Some p -> existsb (N.eqb (p_id p)) (v_seen (y_viewer y)) = false ->
  poll_request (y_eq y) (v_ack (y_viewer y)) = Some p.
Proof. exact lost_response_replayed. Qed.
Print Assumptions C17_lost_response_replayed.

(* ---- non-vacuity ---- *)
Definition ex_swallow (e : ev) : bool := match e with (FromSim, n) => N.odd n | _ => false end.
Definition ex_hist : list eq_op :=
  [EInject (Injected, 4%N); EReq None; EResp None 200 (Some (mkPayload 7 [(FromSim, 1%N); (FromSim, 2%N)]));
   EReq None; EInject (Injected, 6%N); EReq (Some 7%N); EResp (Some 7%N) 502 None; EReq (Some 7%N);
   EResp (Some 7%N) 200 (Some (mkPayload 8 [(FromSim, 3%N)]));
   EResp (Some 8%N) 200 (Some (mkPayload 9 [(FromSim, 5%N)]))].

Example C17_ex_hist :
  eq_outs ex_swallow ex_hist eq_init =
  [XNone; XForward; XBody (Some (mkPayload 7 [(FromSim, 2%N); (Injected, 4%N)]));
   XCached (mkPayload 7 [(FromSim, 2%N); (Injected, 4%N)]); XNone; XForward; XBody None; XForward;
   XBody (Some (mkPayload 8 [(Injected, 6%N)])); XBody None]
  /\ Forall well_tagged_op ex_hist /\ no_dead ex_hist.
Proof.
  split; [vm_compute; reflexivity|]. split.
  - repeat constructor.
  - repeat constructor; discriminate.
Qed.

(* the composition theorem is not vacuous: three batches (one completely swallowed), two injections, two lost
   responses, a timeout; the viewer ends with every kept simulator event and both injected events, once *)
Definition ex_batches : list payload :=
  [mkPayload 101 [(FromSim, 1%N); (FromSim, 2%N)]; mkPayload 102 [(FromSim, 3%N)]; mkPayload 103 [(FromSim, 4%N); (FromSim, 6%N)]].
Definition ex_sys_ops : list sys_op :=
  [YInject 20; YCycle SBatch true; YCycle SBatch true; YCycle SBatch false; YInject 22;
   YCycle (SStatus 502) false; YCycle SBatch false; YCycle SBatch true; YCycle SUndef false; YCycle SBatch false].

Example C17_ex_sim_ok : sim_ok ex_batches.
Proof.
  constructor.
  - cbn. repeat constructor; cbn; intuition discriminate.
  - repeat constructor.
Qed.

Example C17_ex_viewer :
  let y := sys_run ex_swallow ex_sys_ops (sys_init ex_batches) in
  v_accepted (y_viewer y) = [(FromSim, 2%N); (Injected, 20%N); (Injected, 22%N); (FromSim, 4%N); (FromSim, 6%N)]
  /\ in_flight y = [] /\ y_sim y = [] /\ q_queued (y_eq y) = [] /\ v_seen (y_viewer y) = [103%N; 102%N; 101%N].
Proof. vm_compute. repeat split. Qed.
