(* C19 - Client endpoint: always ack, dispatch once, reliable sends complete on ack only.

   Property theorems only: each is closed by [exact] and followed by [Print Assumptions].
   Model: Circuit/ClientCircuit.v (HippoClientProtocol.datagram_received + Circuit.send /
   send_reliable / collect_acks / resend_unacked / send_acks / track_reliable / disconnect,
   tied to /repo by the step-by-step correspondence of harness/props/c19.py).
   Proofs: Circuit/ClientProofs.v, ClientFutures.v, ClientInv.v, ClientTheorems.v.

   All statements quantify over every event history [evs] (arrivals with duplication and
   reordering of reliable/unreliable packets and of acks in either form, sends, clock ticks,
   resend calls, disconnects) and every configuration [cfg] (dedupe window, retry budget,
   resend interval); [real_config] = (1000, 10, 3000 ms) is the code's.  The statements on
   futures need [cfg_ok cfg], i.e. a retry budget of at least 1. *)
From Coq Require Import NArith List Bool.
From HV Require Import Circuit.ClientCircuit Circuit.ClientProofs Circuit.ClientFutures
  Circuit.ClientInv Circuit.ClientTheorems.
Import ListNotations.
Open Scope N_scope.

(* ---------------- always_ack ---------------- *)

(* The ids carried by the PacketAcks the endpoint emits are, in order, exactly the ids of the
   reliable packets it accepted: one ack per reception, duplicate or not, and no other acks. *)
Theorem C19_always_ack : forall cfg evs, acks_sent (trace cfg evs) = reliable_arrivals evs.
Proof. exact always_ack. Qed.
Print Assumptions C19_always_ack.

(* the same for one reception, from any state whatsoever *)
Theorem C19_always_ack_reception : forall cfg s p,
  acks_sent (snd (recv cfg s p)) = if accepted p && p_reliable p then [p_id p] else [].
Proof. exact always_ack_step. Qed.
Print Assumptions C19_always_ack_reception.

(* ---------------- dispatch_once ---------------- *)

(* session-level and region-level subscribers see exactly the same messages *)
Theorem C19_dispatch_levels_agree : forall cfg evs rel,
  dispatched Session rel (trace cfg evs) = dispatched Region rel (trace cfg evs).
Proof. exact dispatch_levels_agree. Qed.
Print Assumptions C19_dispatch_levels_agree.

(* unreliable packets are always delivered, once per arrival, in order, at both levels *)
Theorem C19_dispatch_unreliable_always : forall cfg evs l,
  dispatched l false (trace cfg evs) = unreliable_arrivals evs.
Proof. exact dispatch_unreliable_always. Qed.
Print Assumptions C19_dispatch_unreliable_always.

(* seen_reliable always holds exactly the last [window] delivered reliable ids *)
Theorem C19_seen_is_window : forall cfg evs,
  st_seen (final cfg evs) = lastn (cf_window cfg) (dispatched Session true (trace cfg evs)).
Proof. exact seen_is_window. Qed.
Print Assumptions C19_seen_is_window.

(* a reliable reception is delivered (at either level) iff its id is not among the last
   [window] delivered reliable ids *)
Theorem C19_dispatch_iff : forall cfg evs p l,
  accepted p = true -> p_reliable p = true ->
  (In (ODispatch l (p_id p) true) (snd (step cfg (final cfg evs) (ERecv p))) <->
   ~ In (p_id p) (lastn (cf_window cfg) (dispatched Session true (trace cfg evs)))).
Proof. exact dispatch_iff. Qed.
Print Assumptions C19_dispatch_iff.

(* within the window: two deliveries of the same reliable id are separated by at least
   [window] other deliveries *)
Theorem C19_dispatch_once_window : forall cfg evs D1 x mid D2,
  dispatched Session true (trace cfg evs) = D1 ++ x :: mid ++ x :: D2 -> (cf_window cfg <= length mid)%nat.
Proof. exact dispatch_once_window. Qed.
Print Assumptions C19_dispatch_once_window.

(* ... for the code's window *)
Theorem C19_dispatch_once_1000 : forall evs D1 x mid D2,
  dispatched Session true (trace real_config evs) = D1 ++ x :: mid ++ x :: D2 -> (1000 <= length mid)%nat.
Proof. exact (dispatch_once_window real_config). Qed.
Print Assumptions C19_dispatch_once_1000.

(* hence: if the peer uses at most [window] distinct reliable ids, every id that arrived is
   delivered exactly once, however often and in whatever order it is retransmitted *)
Theorem C19_dispatch_exactly_once : forall cfg evs ids,
  incl (reliable_arrivals evs) ids -> (length ids <= cf_window cfg)%nat ->
  NoDup (dispatched Session true (trace cfg evs)) /\
  forall x, In x (reliable_arrivals evs) <-> In x (dispatched Session true (trace cfg evs)).
Proof. exact dispatch_exactly_once. Qed.
Print Assumptions C19_dispatch_exactly_once.

(* every reliable id that arrived is delivered at least once, and nothing else is (any window) *)
Theorem C19_dispatch_delivered : forall cfg evs x,
  In x (dispatched Session true (trace cfg evs)) <-> In x (reliable_arrivals evs).
Proof. exact dispatched_arrivals. Qed.
Print Assumptions C19_dispatch_delivered.

(* the unbounded claim ("never twice, whatever the window") is false of the code's design:
   window 1, arrivals 1 2 1 deliver id 1 twice *)
Theorem C19_dispatch_once_unbounded_refuted :
  exists cfg evs, ~ NoDup (dispatched Session true (trace cfg evs)).
Proof. exact dispatch_once_unbounded_refuted. Qed.
Print Assumptions C19_dispatch_once_unbounded_refuted.

(* ---------------- completes_iff ---------------- *)

(* a completion future exists for exactly the reliable sends we originate; handles number
   them in creation order *)
Theorem C19_future_created : forall cfg evs e h id ep t, cfg_ok cfg ->
  (In (OTracked h id ep t) (snd (step cfg (final cfg evs) e)) <->
   (e = ESend true true \/ e = ESendReliable true) /\
   h = st_nfut (final cfg evs) /\ id = st_next (final cfg evs) /\ ep = count_disc evs /\ t = clock evs).
Proof. exact tracked_iff. Qed.
Print Assumptions C19_future_created.

(* Done <-> an accepted datagram carrying the send's packet id among its appended acks or its
   PacketAck blocks arrived while the send was pending (created in the current connection
   epoch and not yet completed) *)
Theorem C19_completes_done_iff : forall cfg evs h, cfg_ok cfg ->
  (In (ODone h) (trace cfg evs) <->
   exists evs1 p evs2 id,
     evs = evs1 ++ ERecv p :: evs2 /\ accepted p = true /\ In id (eff_acks p) /\
     pending_after cfg evs1 h id).
Proof. exact completes_done_iff. Qed.
Print Assumptions C19_completes_done_iff.

(* Failed <-> a resend call found the send still pending, due (>= resend interval since its
   last transmission) and with its budget spent (budget - 1 retransmissions already made) *)
Theorem C19_completes_failed_iff : forall cfg evs h, cfg_ok cfg ->
  (In (OFailed h) (trace cfg evs) <->
   exists evs1 evs2 id,
     evs = evs1 ++ EResend :: evs2 /\ pending_after cfg evs1 h id /\
     cf_every cfg <= clock evs1 - last_tx h (trace cfg evs1) 0 /\
     nresent h (trace cfg evs1) + 1 = cf_tries cfg).
Proof. exact completes_failed_iff. Qed.
Print Assumptions C19_completes_failed_iff.

(* retransmission (RESENT flag, same packet id) happens at exactly the due resend calls on a
   pending send that still has budget *)
Theorem C19_retransmit_iff : forall cfg evs e h id t, cfg_ok cfg ->
  (In (OResent h id t) (snd (step cfg (final cfg evs) e)) <->
   e = EResend /\ t = clock evs /\ pending_after cfg evs h id /\
   cf_every cfg <= clock evs - last_tx h (trace cfg evs) 0 /\
   nresent h (trace cfg evs) + 1 < cf_tries cfg).
Proof. exact retransmit_iff. Qed.
Print Assumptions C19_retransmit_iff.

(* set_result / set_exception is called at most once per future over the whole history ... *)
Theorem C19_complete_once : forall cfg evs h, cfg_ok cfg -> (ncompl h (trace cfg evs) <= 1)%nat.
Proof. exact complete_once. Qed.
Print Assumptions C19_complete_once.

(* ... in particular never both Done and Failed *)
Theorem C19_never_both : forall cfg evs h, cfg_ok cfg ->
  In (ODone h) (trace cfg evs) -> In (OFailed h) (trace cfg evs) -> False.
Proof. exact never_both. Qed.
Print Assumptions C19_never_both.

(* no retransmission at or after completion: whenever an event retransmits h, h is still
   uncompleted after that event *)
Theorem C19_no_resend_after : forall cfg evs e h id t, cfg_ok cfg ->
  In (OResent h id t) (snd (step cfg (final cfg evs) e)) ->
  ~ In (ODone h) (trace cfg (evs ++ [e])) /\ ~ In (OFailed h) (trace cfg (evs ++ [e])).
Proof. exact no_resend_after. Qed.
Print Assumptions C19_no_resend_after.

(* ---------------- ids_increase ---------------- *)

(* the ids of all freshly issued datagrams (data and PacketAck) count 0,1,2,... and restart
   at 0 exactly at a disconnect (see [ids_ok]) *)
Theorem C19_ids_increase : forall cfg evs, ids_ok 0 (trace cfg evs).
Proof. exact ids_increase. Qed.
Print Assumptions C19_ids_increase.

(* consecutive issues without a disconnect between them differ by exactly 1 *)
Theorem C19_ids_adjacent : forall cfg evs t1 o1 mid o2 t2 a b,
  trace cfg evs = t1 ++ o1 :: mid ++ o2 :: t2 ->
  issued o1 = Some a -> issued o2 = Some b -> Forall quiet mid -> b = a + 1.
Proof. exact ids_adjacent. Qed.
Print Assumptions C19_ids_adjacent.

(* any two issues between two disconnects are strictly increasing *)
Theorem C19_ids_strict : forall cfg evs t1 o1 mid o2 t2 a b,
  trace cfg evs = t1 ++ o1 :: mid ++ o2 :: t2 ->
  issued o1 = Some a -> issued o2 = Some b -> ~ In ODisc mid -> a < b.
Proof. exact ids_strict. Qed.
Print Assumptions C19_ids_strict.

(* ---------------- non-vacuity ---------------- *)

Definition ack_pkt (id : N) (acks pa : list N) : packet := mkPacket true false false id acks pa.

Example C19_ex_cfg_ok : cfg_ok real_config.
Proof. vm_compute. discriminate. Qed.

(* duplicates are acked every time, delivered once, at both levels; the unreliable one always *)
Example C19_ex_dedupe :
  let evs := [ERecv (rel_pkt 1); ERecv (rel_pkt 1); ERecv (ack_pkt 1 [] []); ERecv (rel_pkt 2); ERecv (rel_pkt 1)] in
  acks_sent (trace real_config evs) = [1; 1; 2; 1]
  /\ dispatched Session true (trace real_config evs) = [1; 2]
  /\ dispatched Region true (trace real_config evs) = [1; 2]
  /\ dispatched Region false (trace real_config evs) = [1].
Proof. vm_compute. repeat split. Qed.

(* hypotheses of dispatch_exactly_once are satisfiable *)
Example C19_ex_exactly_once_hyps :
  let evs := [ERecv (rel_pkt 1); ERecv (rel_pkt 1); ERecv (rel_pkt 2); ERecv (rel_pkt 1)] in
  incl (reliable_arrivals evs) [1; 2] /\ (length [1; 2] <= cf_window real_config)%nat.
Proof. split; [intros x H; vm_compute in H; vm_compute; tauto | vm_compute; repeat constructor]. Qed.

(* window eviction (window 2): 1 2 3 1 delivers 1 again, 3 apart *)
Example C19_ex_evict :
  dispatched Session true (trace (mkConfig 2 10 3000) [ERecv (rel_pkt 1); ERecv (rel_pkt 2); ERecv (rel_pkt 3); ERecv (rel_pkt 1); ERecv (rel_pkt 3)])
  = [1; 2; 3; 1].
Proof. vm_compute. reflexivity. Qed.

(* a send completes on an appended ack, another on a PacketAck block; the third stays pending *)
Example C19_ex_done :
  let evs := [ESendReliable true; ESendReliable true; ESend true true;
              ERecv (ack_pkt 7 [0] []); ERecv (ack_pkt 8 [] [1; 5])] in
  In (ODone 0%nat) (trace real_config evs) /\ In (ODone 1%nat) (trace real_config evs)
  /\ ncompl 2%nat (trace real_config evs) = 0%nat
  /\ map fst (st_unacked (final real_config evs)) = [2].
Proof. vm_compute. repeat split; tauto. Qed.

Example C19_ex_pending : pending_after real_config [ESendReliable true] 0%nat 0.
Proof.
  split; [exists 0; vm_compute; tauto|].
  split; vm_compute; intros H; repeat (destruct H as [H|H]; [discriminate|]); exact H.
Qed.

(* the real budget: 9 retransmissions 3 s apart, TimeoutError on the 10th due call, nothing after *)
Definition tick_resend (n : nat) : list event := concat (repeat [ETick 3000; EResend] n).
Example C19_ex_failed :
  let evs := ESendReliable true :: tick_resend 12 in
  In (OFailed 0%nat) (trace real_config evs) /\ nresent 0%nat (trace real_config evs) = 9
  /\ ncompl 0%nat (trace real_config (ESendReliable true :: tick_resend 9)) = 0%nat
  /\ st_unacked (final real_config evs) = [].
Proof. vm_compute. repeat split; tauto. Qed.

(* not due one millisecond early *)
Example C19_ex_cadence :
  nresent 0%nat (trace real_config [ESendReliable true; ETick 2999; EResend]) = 0
  /\ nresent 0%nat (trace real_config [ESendReliable true; ETick 2999; EResend; ETick 1; EResend]) = 1.
Proof. vm_compute. split; reflexivity. Qed.

(* ids: acks and sends share one counter; a disconnect restarts it *)
Example C19_ex_ids :
  trace real_config [ESend false true; ERecv (rel_pkt 9); EDisconnect; ESend false false]
  = [OSent 0 false; OAckSent 1 9; ODispatch Session 9 true; ODispatch Region 9 true; ODisc; OSent 0 false].
Proof. vm_compute. reflexivity. Qed.

(* rejected datagrams (unknown source, UDP-banned name) are neither acked nor dispatched nor
   do their acks count *)
Example C19_ex_rejected :
  trace real_config [ESendReliable true; ERecv (mkPacket false false true 4 [0] []); ERecv (mkPacket true true true 4 [0] [])]
  = [OTracked 0 0 0 0; OSent 0 true; ORaise].
Proof. vm_compute. reflexivity. Qed.
