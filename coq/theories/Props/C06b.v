(* C06b - composition of C01/C02 (template codec), C04/C05 (packet-ID translation, proxied circuit)
   and C06 (SOCKS framing + UDP routing): one datagram end to end through the addon-free proxy.

   C06's routing theorems hold for an arbitrary decoding oracle.  Here the oracle is the real codec
   model on the live template,
       decode_real current_dict touch : list N -> option msginfo        (Compose/Glue.v)
   = _parse_message_header, the block reads the router performs (UseCircuitCode session id, command
   chat), and what ProxiedCircuit.send + UDPMessageSerializer put on the wire when the proxy has
   injected nothing ([prepare_noinj]; C06b_circuit_bridge shows it is ProxCircuit.send_forward of C05
   in every injection-free circuit state).  [touch] says which message names have their body parsed by
   internal subscribers before the send; every theorem holds for every [touch].

   Property theorems only: each closed by [exact] of a lemma of Compose/{GlueProofs,Live,CircuitBridge}.v
   and followed by [Print Assumptions].  Nothing of the three developments is changed. *)
From Coq Require Import Arith NArith ZArith Ascii String List Bool.
From HV Require Import Base.Bytes Tmpl.Template Tmpl.Codec Tmpl.SameProofs
  Proxy.Socks Proxy.SocksProofs Proxy.UdpProxy Proxy.UdpProxyProofs
  Compose.Glue Compose.GlueProofs Compose.Live.
From HV Require Inj.InjTracker Circuit.ProxCircuit Circuit.ProxCircuitProofs Compose.CircuitBridge.
From HVgen Require Import Template_gen.
Import ListNotations.
Open Scope list_scope.
Open Scope N_scope.

(* ---------------- the oracle on a conformant sender's datagram ---------------- *)

(* what [decode_real] answers on the datagram of ANY template-conformant message (C01's quantifier):
   the header parser reads the message back, the body parses to [normalize m], and the router is told
   the template name, the UseCircuitCode session id, whether it is a command-channel chat, and the
   bytes the circuit emits for the lazy-parse state [view_of] *)
Theorem C06b_oracle_on_conformant : forall touch m bs,
  conforms current_dict m = true -> serialize current_dict m = Some bs ->
  exists raw, wire_body current_dict m = Some raw /\ bytes_okb bs = true /\
    parse_header current_dict bs = Some (rawform m raw) /\
    decode_real current_dict touch bs =
    let nm := name_of_ident (m_name m) in
    let is_ucc := name_eqb nm n_UseCircuitCode in
    let sid := if is_ucc then session_id (normalize current_dict m) else None in
    Some {| mi_name := nm;
            mi_body_ok := negb is_ucc || is_some sid;
            mi_sid := match sid with Some s => s | None => 0 end;
            mi_consumed := command_chat (normalize current_dict m);
            mi_out := match prepare_noinj (view_of current_dict touch m raw) with
                      | Some pm => serialize current_dict pm
                      | None => None
                      end |}.
Proof. exact (decode_conformant current_dict current_dict_wf). Qed.
Print Assumptions C06b_oracle_on_conformant.

(* the two block reads of the circuit never fail on a conformant message of the live template *)
Theorem C06b_circuit_reads_succeed : forall m, conforms current_dict m = true -> readable current_dict m.
Proof. exact readable_current. Qed.
Print Assumptions C06b_circuit_reads_succeed.

(* ---------------- E1: viewer -> simulator ---------------- *)

(* For every template-conformant message m (other than the handshake, a command-channel chat and the
   empty PacketAck), every session with a circuit to simulator S, nothing injected: the viewer's SOCKS
   datagram  wrap S (serialize m)  results in exactly one send, to S, of the encoding of m with its ACK
   flag made consistent with its ack list, and those bytes decode to exactly the normal form of that
   message ("content intact" in the sense of C01, by value) - whether or not anything parsed the body on
   the way ([touch] arbitrary).  Session state changes only as the message itself demands
   (after_forward: CloseCircuit / AgentMovementComplete); far_to_near learns S. *)
Theorem C06b_E1_viewer_to_sim : forall touch m bs ss p src S i s k r c,
  conforms current_dict m = true -> serialize current_dict m = Some bs ->
  empty_ack m = false -> command_chat (normalize current_dict m) = false -> is_msg "UseCircuitCode" m = false ->
  ipaddr_ok S -> f2n_get (p_f2n p) (ip_addr src) = None -> fst src = p_client p -> S <> src ->
  p_sess p = Some i -> nth_error ss i = Some s ->
  find_region (s_regions s) (ip_addr S) = Some (k, r, c) ->
  let res := recv (decode_real current_dict touch) ss p (wrap S bs) src in
  exists bs' mi,
    serialize current_dict (with_ack_flag m) = Some bs' /\
    deserialize current_dict bs' = Some (normalize current_dict (with_ack_flag m)) /\
    decode_real current_dict touch bs = Some mi /\ mi_name mi = name_of_ident (m_name m) /\
    rs_outcome res = OForward /\
    rs_sends res = [(bs', S)] /\
    rs_sessions res = upd_nth i (after_forward s mi k r) ss /\
    rs_proto res = set_f2n p (f2n_set (p_f2n p) (ip_addr S) src).
Proof. exact e1_current. Qed.
Print Assumptions C06b_E1_viewer_to_sim.

(* ... and when the ACK flag is set exactly when acks are appended (ack_consistent: what every real
   sender does) the simulator receives the very bytes the viewer sent: byte-identical in BOTH lazy-parse
   states (C02_raw_passthrough when unparsed, C01_serialize_normalize when parsed) *)
Theorem C06b_E1_byte_identical : forall touch m bs ss p src S i s k r c,
  conforms current_dict m = true -> serialize current_dict m = Some bs -> ack_consistent m = true ->
  empty_ack m = false -> command_chat (normalize current_dict m) = false -> is_msg "UseCircuitCode" m = false ->
  ipaddr_ok S -> f2n_get (p_f2n p) (ip_addr src) = None -> fst src = p_client p -> S <> src ->
  p_sess p = Some i -> nth_error ss i = Some s ->
  find_region (s_regions s) (ip_addr S) = Some (k, r, c) ->
  let res := recv (decode_real current_dict touch) ss p (wrap S bs) src in
  rs_outcome res = OForward /\ rs_sends res = [(bs, S)] /\
  deserialize current_dict bs = Some (normalize current_dict m).
Proof. exact e1_current_identical. Qed.
Print Assumptions C06b_E1_byte_identical.

(* the handshake: a conformant UseCircuitCode carries a readable session id; it claims the pending
   session with that id (or uses the claimed one), is forwarded to S exactly once with content intact,
   and leaves a circuit to S whose near end is the viewer *)
Theorem C06b_E1_handshake : forall touch m bs ss p src S,
  conforms current_dict m = true -> serialize current_dict m = Some bs -> is_msg "UseCircuitCode" m = true ->
  ipaddr_ok S -> f2n_get (p_f2n p) (ip_addr src) = None -> fst src = p_client p -> S <> src ->
  exists sid, session_id (normalize current_dict m) = Some sid /\
  forall i ss1 s,
  ((p_sess p = Some i /\ ss1 = ss) \/ (p_sess p = None /\ claim ss sid = Some (i, ss1))) ->
  nth_error ss1 i = Some s -> (exists r, In r (s_regions s) /\ r_addr r = S) ->
  let res := recv (decode_real current_dict touch) ss p (wrap S bs) src in
  exists bs',
    serialize current_dict (with_ack_flag m) = Some bs' /\
    deserialize current_dict bs' = Some (normalize current_dict (with_ack_flag m)) /\
    rs_outcome res = OForward /\
    rs_sends res = [(bs', S)] /\
    p_sess (rs_proto res) = Some i /\
    truthy (p_f2n (rs_proto res)) (ip_addr S) = true /\
    exists s' k r' c', nth_error (rs_sessions res) i = Some s' /\
      find_region (s_regions s') (ip_addr S) = Some (k, r', c') /\
      (find_region (s_regions s) (ip_addr S) = None -> c' = {| c_near := src; c_alive := true |}).
Proof. exact e1_handshake_current. Qed.
Print Assumptions C06b_E1_handshake.

(* the excluded case of E1 is exactly one message shape, and it is withheld without a trace: a PacketAck
   with no IDs and no appended acks (ProxiedCircuit refuses to emit an empty PacketAck) *)
Theorem C06b_E1_empty_ack_withheld : forall touch m bs ss p src S i s k r c,
  conforms current_dict m = true -> serialize current_dict m = Some bs -> empty_ack m = true ->
  ipaddr_ok S -> f2n_get (p_f2n p) (ip_addr src) = None -> fst src = p_client p -> S <> src ->
  p_sess p = Some i -> nth_error ss i = Some s ->
  find_region (s_regions s) (ip_addr S) = Some (k, r, c) ->
  let res := recv (decode_real current_dict touch) ss p (wrap S bs) src in
  rs_outcome res = OForward /\ rs_sends res = [] /\ rs_sessions res = ss.
Proof. exact e1_empty_ack_current. Qed.
Print Assumptions C06b_E1_empty_ack_withheld.

(* ---------------- E2: simulator -> viewer ---------------- *)

(* the symmetric statement: a conformant message from S (not on the UDP ban list) reaches exactly the
   viewer address that opened the circuit, exactly once, wrapped with S's address, content intact *)
Theorem C06b_E2_sim_to_viewer : forall touch m bs ss p S v i s k r c,
  conforms current_dict m = true -> serialize current_dict m = Some bs ->
  empty_ack m = false -> command_chat (normalize current_dict m) = false ->
  validate_udp_msg (name_of_ident (m_name m)) = Some true ->
  f2n_get (p_f2n p) (ip_addr S) = Some v ->
  p_sess p = Some i -> nth_error ss i = Some s ->
  find_region (s_regions s) (ip_addr S) = Some (k, r, c) ->
  let res := recv (decode_real current_dict touch) ss p bs S in
  exists bs' mi,
    serialize current_dict (with_ack_flag m) = Some bs' /\
    deserialize current_dict bs' = Some (normalize current_dict (with_ack_flag m)) /\
    decode_real current_dict touch bs = Some mi /\ mi_name mi = name_of_ident (m_name m) /\
    rs_outcome res = OForward /\
    rs_sends res = [(wrap S bs', c_near c)] /\
    rs_sessions res = upd_nth i (after_forward s mi k r) ss /\
    rs_proto res = p.
Proof. exact e2_current. Qed.
Print Assumptions C06b_E2_sim_to_viewer.

Theorem C06b_E2_byte_identical : forall touch m bs ss p S v i s k r c,
  conforms current_dict m = true -> serialize current_dict m = Some bs -> ack_consistent m = true ->
  empty_ack m = false -> command_chat (normalize current_dict m) = false ->
  validate_udp_msg (name_of_ident (m_name m)) = Some true ->
  f2n_get (p_f2n p) (ip_addr S) = Some v ->
  p_sess p = Some i -> nth_error ss i = Some s ->
  find_region (s_regions s) (ip_addr S) = Some (k, r, c) ->
  let res := recv (decode_real current_dict touch) ss p bs S in
  rs_outcome res = OForward /\ rs_sends res = [(wrap S bs, c_near c)] /\
  deserialize current_dict bs = Some (normalize current_dict m).
Proof. exact e2_current_identical. Qed.
Print Assumptions C06b_E2_byte_identical.

(* on every state reachable from a circuit-free start the far_to_near premise holds by construction
   (C06_invariant_initial / C06_invariant_step) *)
Theorem C06b_E2_reachable : forall touch m bs ss p S i s k r c,
  Inv ss p ->
  conforms current_dict m = true -> serialize current_dict m = Some bs -> ack_consistent m = true ->
  empty_ack m = false -> command_chat (normalize current_dict m) = false ->
  validate_udp_msg (name_of_ident (m_name m)) = Some true ->
  p_sess p = Some i -> nth_error ss i = Some s ->
  find_region (s_regions s) (ip_addr S) = Some (k, r, c) ->
  let res := recv (decode_real current_dict touch) ss p bs S in
  rs_outcome res = OForward /\ rs_sends res = [(wrap S bs, c_near c)] /\
  deserialize current_dict bs = Some (normalize current_dict m).
Proof. exact e2_current_reachable. Qed.
Print Assumptions C06b_E2_reachable.

(* ---------------- every decodable datagram, conformant sender or not ---------------- *)

(* C02 through the proxy.  ANY datagram b the header parser accepts (canonical zero-coding or not,
   trailing junk or not), with a consistent ACK flag, on an open circuit: exactly one send to S of bytes
   bs' such that  (1) bs' = b whenever the message reached the circuit unparsed (C02_raw_passthrough), and
   (2) whenever the body parses at all, bs' decodes to exactly the message b decodes to
   (C02_same_message; needs the re-encoded body under the zero-coding cap, the residual hypothesis of
   C02, and "not an empty PacketAck", only for the state that was actually parsed). *)
Theorem C06b_E1_any_datagram : forall touch b m0 mi ss p src S i s k r c,
  bytes_okb b = true -> parse_header current_dict b = Some m0 -> decode_real current_dict touch b = Some mi ->
  ack_consistent m0 = true -> body_fine mi -> mi_consumed mi = false ->
  is_msg "UseCircuitCode" m0 = false ->
  (forall mp, parse_body current_dict m0 = Some mp -> recode_within_cap current_dict mp = true /\ empty_ack mp = false) ->
  ipaddr_ok S -> f2n_get (p_f2n p) (ip_addr src) = None -> fst src = p_client p -> S <> src ->
  p_sess p = Some i -> nth_error ss i = Some s ->
  find_region (s_regions s) (ip_addr S) = Some (k, r, c) ->
  let res := recv (decode_real current_dict touch) ss p (wrap S b) src in
  exists bs',
    rs_outcome res = OForward /\ rs_sends res = [(bs', S)] /\
    (lazy_view current_dict touch m0 = m0 -> bs' = b) /\
    (forall mp, parse_body current_dict m0 = Some mp -> deserialize current_dict bs' = Some mp) /\
    rs_sessions res = upd_nth i (after_forward s mi k r) ss /\
    rs_proto res = set_f2n p (f2n_set (p_f2n p) (ip_addr S) src).
Proof. exact e1_any_current. Qed.
Print Assumptions C06b_E1_any_datagram.

Theorem C06b_E2_any_datagram : forall touch b m0 mi ss p S v i s k r c,
  bytes_okb b = true -> parse_header current_dict b = Some m0 -> decode_real current_dict touch b = Some mi ->
  ack_consistent m0 = true -> body_fine mi -> mi_consumed mi = false ->
  validate_udp_msg (name_of_ident (m_name m0)) = Some true ->
  (forall mp, parse_body current_dict m0 = Some mp -> recode_within_cap current_dict mp = true /\ empty_ack mp = false) ->
  f2n_get (p_f2n p) (ip_addr S) = Some v ->
  p_sess p = Some i -> nth_error ss i = Some s ->
  find_region (s_regions s) (ip_addr S) = Some (k, r, c) ->
  let res := recv (decode_real current_dict touch) ss p b S in
  exists bs',
    rs_outcome res = OForward /\ rs_sends res = [(wrap S bs', c_near c)] /\
    (lazy_view current_dict touch m0 = m0 -> bs' = b) /\
    (forall mp, parse_body current_dict m0 = Some mp -> deserialize current_dict bs' = Some mp) /\
    rs_sessions res = upd_nth i (after_forward s mi k r) ss /\
    rs_proto res = p.
Proof. exact e2_any_current. Qed.
Print Assumptions C06b_E2_any_datagram.

(* ---------------- E3: undecodable datagrams ---------------- *)

(* parse_header = None (too short, unknown message number, bad ack trailer, bad zero-coding of the
   header window): discarded, no send, session list and association untouched ... *)
Theorem C06b_E3_from_sim : forall touch ss p data S v,
  f2n_get (p_f2n p) (ip_addr S) = Some v -> parse_header current_dict data = None ->
  recv (decode_real current_dict touch) ss p data S = stop ss p OExcDecode.
Proof. exact (e3_from_sim current_dict). Qed.
Print Assumptions C06b_E3_from_sim.

(* ... from the viewer's side the only trace is the far_to_near entry for the SOCKS destination *)
Theorem C06b_E3_from_viewer : forall touch ss p data src far pl,
  f2n_get (p_f2n p) (ip_addr src) = None -> fst src = p_client p ->
  parse_socks data = POk far pl -> far <> ip_addr src -> parse_header current_dict pl = None ->
  recv (decode_real current_dict touch) ss p data src =
  stop ss (set_f2n p (f2n_set (p_f2n p) far src)) OExcDecode.
Proof. exact (e3_from_viewer current_dict). Qed.
Print Assumptions C06b_E3_from_viewer.

Theorem C06b_E3_undecodable : forall touch ss p data src pl,
  lludp_payload p data src = Some pl -> parse_header current_dict pl = None ->
  let res := recv (decode_real current_dict touch) ss p data src in
  rs_outcome res = OExcDecode /\ is_discard (rs_outcome res) = true /\
  rs_sends res = [] /\ rs_sessions res = ss /\ p_sess (rs_proto res) = p_sess p.
Proof. exact (e3_undecodable current_dict). Qed.
Print Assumptions C06b_E3_undecodable.

(* ... and inside any history of one association: deleting the undecodable datagram changes no other
   delivery and not the final session state (C06_discard_isolated instantiated with the real decoder) *)
Theorem C06b_E3_isolated : forall touch ss p h1 data src h2 pl,
  Inv ss p ->
  let '(ss1, p1, out1) := run (decode_real current_dict touch) ss p h1 in
  lludp_payload p1 data src = Some pl -> parse_header current_dict pl = None ->
  one_viewer_address (p_client p) ((data, src) :: h2) ->
  let '(ssA, pA, outA) := run (decode_real current_dict touch) ss p (h1 ++ (data, src) :: h2) in
  let '(ssB, pB, outB) := run (decode_real current_dict touch) ss p (h1 ++ h2) in
  exists tail, outA = out1 ++ [] :: tail /\ outB = out1 ++ tail /\ ssA = ssB /\ p_sess pA = p_sess pB.
Proof. exact e3_isolated. Qed.
Print Assumptions C06b_E3_isolated.

(* ---------------- the circuit: "nothing injected" is the identity (C04/C05) ---------------- *)

Import InjTracker ProxCircuit ProxCircuitProofs CircuitBridge.
Open Scope N_scope.

(* every circuit state reached by forwarding received packets and clock ticks alone is injection-free *)
Theorem C06b_no_injection_reachable : forall mx e pre,
  forallb quiet_ev pre = true -> Quiet (reach mx e pre).
Proof. exact reach_quiet. Qed.
Print Assumptions C06b_no_injection_reachable.

(* there, both trackers translate every ID to itself in both directions and hide nothing
   (eff = E [] by C04's closed form; orig (eff o) = Some o by C04_orig_eff on the C05 ghost) *)
Theorem C06b_no_injection_identity : forall mx e pre d o,
  forallb quiet_ev pre = true ->
  eff (fwd_tr (reach mx e pre) d) o = o /\ orig (fwd_tr (reach mx e pre) d) o = Some o /\
  was_injected (fwd_tr (reach mx e pre) d) o = false.
Proof. exact reach_quiet_translation. Qed.
Print Assumptions C06b_no_injection_identity.

(* one received packet through an injection-free circuit (collect_acks, then send): emitted unchanged
   - same ID, flags, all acks, same PacketAck IDs / OldestUnacked - no future completes, and the state
   stays injection-free; only the empty PacketAck is withheld *)
Theorem C06b_no_injection_step : forall st m, Quiet st ->
  ProxCircuit.step st (Recv m) = (fst (send_forward st m), noinj_emits m, []) /\ Quiet (next st (Recv m)).
Proof. exact step_recv_quiet. Qed.
Print Assumptions C06b_no_injection_step.

(* THE BRIDGE between the abstract circuit of C05 and the codec message: what send_forward emits, written
   back into the received message (apply_emit: packet_id, acks, ACK flag, block rewrites in place), is the
   closed form the oracle uses - in every injection-free state, either direction *)
Theorem C06b_circuit_bridge : forall st dr mv k, Quiet st -> kind_of mv = Some k -> m_pid mv <> None ->
  map (apply_emit mv) (snd (send_forward st (to_rmsg dr mv k))) = opt_list (prepare_noinj mv)
  /\ Quiet (fst (send_forward st (to_rmsg dr mv k))).
Proof. exact bridge_quiet. Qed.
Print Assumptions C06b_circuit_bridge.

(* hence the oracle's [mi_out] is, for every datagram and every injection-free circuit state, what the
   C05 circuit model followed by the C01 serializer puts on the wire *)
Theorem C06b_oracle_out_is_circuit : forall d touch b mi st dr, bytes_okb b = true ->
  decode_real d touch b = Some mi -> Quiet st ->
  exists m0, parse_header d b = Some m0 /\ mi_out mi = circuit_out d st dr (lazy_view d touch m0).
Proof. exact decode_real_out_is_circuit. Qed.
Print Assumptions C06b_oracle_out_is_circuit.

(* ---------------- non-vacuity: concrete messages of the live template ---------------- *)

Definition ex_ucc : msg :=       (* the handshake, session id 7 *)
  {| m_name := I "UseCircuitCode"; m_flags := 64; m_pid := Some 1; m_extra := []; m_acks := []; m_raw := None;
     m_body := [ (I "CircuitCode", [ {| b_fill := false;
                   b_vars := [ (I "Code", WU 1234); (I "SessionID", WB (repeat 0 15 ++ [7]));
                               (I "ID", WB (repeat 9 16)) ] |} ]) ] |}.

(* C01's ex_chat: zero-coded + acks + extra; SessionID left to default filling; dict order shuffled *)
Definition ex_chat : msg :=
  {| m_name := I "ChatFromViewer"; m_flags := 144; m_pid := Some 7; m_extra := [1; 0];
     m_acks := [5; 4294967295]; m_raw := None;
     m_body := [ (I "ChatData", [ {| b_fill := false;
                                     b_vars := [ (I "Channel", WS (-1)); (I "Type", WU 1);
                                                 (I "Message", WB [104; 105; 0]) ] |} ]);
                 (I "AgentData", [ {| b_fill := true;
                                      b_vars := [ (I "AgentID", WB (repeat 7 16)) ] |} ]) ] |}.

Definition ex_acks : msg :=      (* PacketAck for IDs 1 and 7, from the simulator *)
  {| m_name := I "PacketAck"; m_flags := 0; m_pid := Some 3; m_extra := []; m_acks := []; m_raw := None;
     m_body := [ (I "Packets", [ {| b_fill := false; b_vars := [ (I "ID", WU 1) ] |};
                                 {| b_fill := false; b_vars := [ (I "ID", WU 7) ] |} ]) ] |}.

Definition ex_ping : msg :=
  {| m_name := I "StartPingCheck"; m_flags := 0; m_pid := Some 4; m_extra := []; m_acks := []; m_raw := None;
     m_body := [ (I "PingID", [ {| b_fill := false; b_vars := [ (I "PingID", WU 9); (I "OldestUnacked", WU 2) ] |} ]) ] |}.

(* ACK flag set, no acks appended: conformant, but not ack_consistent *)
Definition ex_flagonly : msg :=
  {| m_name := I "CompletePingCheck"; m_flags := 16; m_pid := Some 5; m_extra := []; m_acks := []; m_raw := None;
     m_body := [ (I "PingID", [ {| b_fill := false; b_vars := [ (I "PingID", WU 9) ] |} ]) ] |}.

Definition ex_empty_ack : msg :=
  {| m_name := I "PacketAck"; m_flags := 0; m_pid := Some 6; m_extra := []; m_acks := []; m_raw := None;
     m_body := [ (I "Packets", []) ] |}.

Definition ex_command : msg :=   (* chat on the proxy's command channel 524 *)
  {| m_name := I "ChatFromViewer"; m_flags := 0; m_pid := Some 8; m_extra := []; m_acks := []; m_raw := None;
     m_body := [ (I "AgentData", [ {| b_fill := true; b_vars := [] |} ]);
                 (I "ChatData", [ {| b_fill := false;
                                     b_vars := [ (I "Message", WB [104; 0]); (I "Type", WU 1); (I "Channel", WS 524) ] |} ]) ] |}.

Definition bytes_of (m : msg) : list N :=
  match serialize current_dict m with Some b => b | None => [] end.

Definition ucc_bytes : list N := Eval vm_compute in bytes_of ex_ucc.
Definition chat_bytes : list N := Eval vm_compute in bytes_of ex_chat.
Definition acks_bytes : list N := Eval vm_compute in bytes_of ex_acks.
Definition ping_bytes : list N := Eval vm_compute in bytes_of ex_ping.
Definition flagonly_bytes : list N := Eval vm_compute in bytes_of ex_flagonly.

Example C06b_ex_conformant :
  forallb (conforms current_dict) [ex_ucc; ex_chat; ex_acks; ex_ping; ex_flagonly; ex_empty_ack; ex_command] = true /\
  serialize current_dict ex_chat = Some chat_bytes /\ length chat_bytes = 53%nat /\
  map ack_consistent [ex_ucc; ex_chat; ex_acks; ex_ping; ex_flagonly] = [true; true; true; true; false] /\
  map empty_ack [ex_chat; ex_acks; ex_empty_ack] = [false; false; true] /\
  map (fun m => command_chat (normalize current_dict m)) [ex_chat; ex_command] = [false; true].
Proof. vm_compute. repeat split. Qed.

(* the state after the handshake meets every hypothesis of C06b_E1_viewer_to_sim / C06b_E2_sim_to_viewer for
   ex_chat (viewer side) and ex_acks (simulator side); toy_* are the session / association of Props/C06.v *)
Example C06b_ex_hypotheses :
  let r := recv (decode_real current_dict touch_none) toy_sessions toy_proto (wrap toy_S ucc_bytes) toy_V in
  let ss := rs_sessions r in let p := rs_proto r in
  rs_sends r = [(ucc_bytes, toy_S)] /\
  exists s k rg c,
    conforms current_dict ex_chat = true /\ serialize current_dict ex_chat = Some chat_bytes /\
    ack_consistent ex_chat = true /\ empty_ack ex_chat = false /\
    command_chat (normalize current_dict ex_chat) = false /\ is_msg "UseCircuitCode" ex_chat = false /\
    f2n_get (p_f2n p) (ip_addr toy_V) = None /\ fst toy_V = p_client p /\
    p_sess p = Some 0%nat /\ nth_error ss 0 = Some s /\
    find_region (s_regions s) (ip_addr toy_S) = Some (k, rg, c) /\ c_near c = toy_V /\
    f2n_get (p_f2n p) (ip_addr toy_S) = Some toy_V /\
    validate_udp_msg (name_of_ident (m_name ex_acks)) = Some true /\ toy_S <> toy_V.
Proof.
  vm_compute. split; [reflexivity|]. do 4 eexists. repeat split; try reflexivity. discriminate.
Qed.

(* a whole conversation through the composed model: handshake, zero-coded chat with acks (byte-identical),
   PacketAck and StartPingCheck from the simulator (parsed, rewritten to themselves, re-encoded
   byte-identically, SOCKS-wrapped with the simulator's address), garbage (discarded), a message with
   ACK flag but no acks (flag and trailer byte removed), an empty PacketAck (withheld), a command-channel
   chat (consumed by the proxy) - for both extreme [touch]es *)
Definition ex_history : list (list N * ipaddr) :=
  [(wrap toy_S ucc_bytes, toy_V); (wrap toy_S chat_bytes, toy_V); (acks_bytes, toy_S); (ping_bytes, toy_S);
   (wrap toy_S [255; 255; 255; 255; 255; 255; 255], toy_V); (wrap toy_S flagonly_bytes, toy_V);
   (wrap toy_S (bytes_of ex_empty_ack), toy_V); (wrap toy_S (bytes_of ex_command), toy_V)].

Definition ex_expected : list (list send) :=
  [[(ucc_bytes, toy_S)]; [(chat_bytes, toy_S)]; [(wrap toy_S acks_bytes, toy_V)]; [(wrap toy_S ping_bytes, toy_V)];
   []; [([0; 0; 0; 0; 5; 0; 2; 9], toy_S)]; []; []].

Example C06b_ex_traffic :
  snd (UdpProxy.run (decode_real current_dict touch_none) toy_sessions toy_proto ex_history) = ex_expected /\
  snd (UdpProxy.run (decode_real current_dict touch_all) toy_sessions toy_proto ex_history) = ex_expected /\
  flagonly_bytes = [16; 0; 0; 0; 5; 0; 2; 9; 0] /\
  deserialize current_dict [0; 0; 0; 0; 5; 0; 2; 9] = Some (normalize current_dict (with_ack_flag ex_flagonly)).
Proof. vm_compute. repeat split. Qed.

(* E3's hypotheses on the garbage datagram of the history *)
Example C06b_ex_undecodable :
  let r := recv (decode_real current_dict touch_none) toy_sessions toy_proto (wrap toy_S ucc_bytes) toy_V in
  lludp_payload (rs_proto r) (wrap toy_S [255; 255; 255; 255; 255; 255; 255]) toy_V = Some [255; 255; 255; 255; 255; 255; 255] /\
  parse_header current_dict [255; 255; 255; 255; 255; 255; 255] = None /\
  lludp_payload (rs_proto r) [1; 2; 3] toy_S = Some [1; 2; 3] /\ parse_header current_dict [1; 2; 3] = None.
Proof. vm_compute. repeat split. Qed.

(* C06b_E1_any_datagram on a datagram no conformant sender produces: C02's non-canonically zero-coded
   chat (00 10 00 10 for 32 zeros).  Unparsed it is forwarded as is; parsed (touch_all) it is re-encoded
   canonically - different bytes, same message *)
Definition chat_noncanon : list N :=
  [128;0;0;0;7;0; 255;255;0;1;80; 0;16;0;16; 3;0;1; 104;105;0;1; 1; 0;4].
Definition chat_canon : list N :=
  [128;0;0;0;7;0; 255;255;0;1;80; 0;32; 3;0;1; 104;105;0;1; 1; 0;4].

Example C06b_ex_noncanonical : exists m0 mp mi_n mi_a,
  bytes_okb chat_noncanon = true /\ parse_header current_dict chat_noncanon = Some m0 /\
  parse_body current_dict m0 = Some mp /\ recode_within_cap current_dict mp = true /\ empty_ack mp = false /\
  ack_consistent m0 = true /\
  decode_real current_dict touch_none chat_noncanon = Some mi_n /\ decode_real current_dict touch_all chat_noncanon = Some mi_a /\
  mi_consumed mi_n = false /\ mi_body_ok mi_n = true /\
  mi_out mi_n = Some chat_canon /\ mi_out mi_a = Some chat_canon /\
  deserialize current_dict chat_canon = Some mp /\ deserialize current_dict chat_noncanon = Some mp.
Proof.
  do 4 eexists. split; [vm_compute; reflexivity|]. split; [vm_compute; reflexivity|].
  split; [vm_compute; reflexivity|]. split; [vm_compute; reflexivity|]. split; [vm_compute; reflexivity|].
  split; [vm_compute; reflexivity|]. split; [vm_compute; reflexivity|]. split; [vm_compute; reflexivity|].
  repeat split; vm_compute; reflexivity.
Qed.

(* ... and on a message name nobody parses (not a needs_body name, touch_none) the datagram is forwarded
   byte-identically even though it is not canonical: a CompletePingCheck with two trailing junk bytes,
   which a parse (touch_all) drops *)
Definition cping_junk : list N := [0;0;0;0;5;0; 2; 9; 170; 187].
Example C06b_ex_raw_passthrough : exists mi_n mi_a,
  decode_real current_dict touch_none cping_junk = Some mi_n /\ mi_out mi_n = Some cping_junk /\
  decode_real current_dict touch_all cping_junk = Some mi_a /\ mi_out mi_a = Some [0;0;0;0;5;0; 2; 9].
Proof. do 2 eexists. repeat split; vm_compute; reflexivity. Qed.

(* the bridge is not vacuous and [Quiet] is needed: on a fresh circuit and after forwarding alone the C05
   circuit model emits the oracle's bytes for the parsed PacketAck; after one injection towards the viewer
   (Inj IN) the same packet leaves with ID 4 instead of 3 *)
Example C06b_ex_bridge :
  let mv := normalize current_dict ex_acks in
  let quiet_pre := [Recv (mkR OUT 1%Z true false [] Plain); Tick 5000%Z; Recv (mkR IN 1%Z false false [1%Z] Plain)] in
  forallb quiet_ev quiet_pre = true /\
  kind_of mv = Some (PacketAck [1%Z; 7%Z]) /\
  circuit_out current_dict (pc_init 10 3000%Z) IN mv = Some acks_bytes /\
  circuit_out current_dict (reach 10 3000%Z quiet_pre) IN mv = Some acks_bytes /\
  circuit_out current_dict (reach 10 3000%Z (quiet_pre ++ [Inj IN false Plain; Inj IN false Plain; Inj IN false Plain])) IN mv
    = Some [0; 0; 0; 0; 6; 0; 255; 255; 255; 251; 2; 1; 0; 0; 0; 7; 0; 0; 0] /\
  (* acks for the proxy's own packets are hidden from the viewer: ID 1 towards the simulator was injected *)
  circuit_out current_dict (reach 10 3000%Z [Inj OUT false Plain]) IN mv
    = Some [0; 0; 0; 0; 3; 0; 255; 255; 255; 251; 1; 6; 0; 0; 0].
Proof. vm_compute. repeat split. Qed.
