(* C07 - Addons cannot duplicate, lose or wedge traffic: at-most-once, fault-isolated.
   Property theorems only: each is closed by [exact] and followed by [Print Assumptions].
   Model: Proxy/Ownership.v (message flags, circuit guards), Proxy/Hooks.v (AddonManager hook
   dispatch, Event.notify / MessageHandler.handle, handle_lludp_message, the tail of
   handle_proxied_packet), tied to /repo by the correspondence check of harness/props/c07.py
   (complete ordered traces of the real proxy vs the extracted model).

   Quantification: [w] = any subscriptions (4 handler lists of any length), [c] = any number of
   addon modules with any number of sub-addons, every hook and subscriber with an arbitrary
   behaviour program (ops take/drop/send/send-copy/mutate/failing-take, errors caught or not, then return
   falsy/truthy or raise), any predicate outcomes, message kind plain / command channel / RLV with
   any number of commands, reliable or not, with or without acks. *)
From Coq Require Import List Bool Arith.
From HV Require Import Proxy.Ownership Proxy.OwnershipProofs Proxy.Hooks Proxy.HooksProofs.
Import ListNotations.

(* ---- at most once: the original datagram reaches the wire at most once, whatever anybody does *)
Theorem C07_at_most_once : forall w c, count is_orig (hp_trace w c) <= 1.
Proof. exact at_most_once. Qed.
Print Assumptions C07_at_most_once.

(* ... and "sent" and "successfully dropped by an addon" together happen at most once *)
Theorem C07_sent_or_dropped_once : forall w c,
  count is_orig (hp_trace w c) + count is_drop_ok (hp_trace w c) <= 1.
Proof. exact sent_or_dropped_once. Qed.
Print Assumptions C07_sent_or_dropped_once.

(* on the wire exactly when it ends up finalized and not dropped *)
Theorem C07_sent_iff_flags : forall w c,
  count is_orig (hp_trace w c) = 1 <-> (finalized (hp_final w c) = true /\ dropped (hp_final w c) = false).
Proof. exact sent_iff_flags. Qed.
Print Assumptions C07_sent_iff_flags.

(* ---- exactly once unless claimed (claimed = truthy return of a packet/lludp/rlv hook, take,
   drop, or the command channel).  Full strength since /repo 40d86e5: an RLV owner-say with an
   empty command list is an ordinary message ([kind_unclaimed (KRlv n) = true] for every n). *)
Theorem C07_exactly_once : forall w c, cfg_unclaimed c = true -> count is_orig (hp_trace w c) = 1.
Proof. exact exactly_once. Qed.
Print Assumptions C07_exactly_once.

(* semantic form: whenever the proxy reaches its final forwarding step and the message was not
   dropped, it is on the wire exactly once - this one holds for every kind of message *)
Theorem C07_exactly_once_forwarded : forall w c,
  hp_status w c = StForward -> dropped (hp_final w c) = false -> count is_orig (hp_trace w c) = 1.
Proof. exact exactly_once_sem. Qed.
Print Assumptions C07_exactly_once_forwarded.

Theorem C07_unclaimed_forwarded : forall w c, cfg_unclaimed c = true ->
  hp_status w c = StForward /\ dropped (hp_final w c) = false.
Proof. exact unclaimed_forwarded. Qed.
Print Assumptions C07_unclaimed_forwarded.

(* ---- isolation: replacing every `raise` of every hook and subscriber by a falsy return, and removing
   every take() that fails in its copy step, changes
   neither the subscriptions left, nor the final flags/status, nor the trace (which hooks run in
   which order, what reaches the wire, the logger call) except for the exception-log entries *)
Theorem C07_isolation : forall w c w' es r,
  handle_packet w c = (w', es, r) ->
  exists es2, handle_packet w (calm_cfg c) = (w', es2, r) /\ strip_exc es2 = strip_exc es.
Proof. exact handle_packet_calm. Qed.
Print Assumptions C07_isolation.

Theorem C07_isolation_history : forall cs w,
  fst (run_history w (map calm_cfg cs)) = fst (run_history w cs) /\
  map (fun r => (strip_exc (fst r), snd r)) (snd (run_history w (map calm_cfg cs))) =
  map (fun r => (strip_exc (fst r), snd r)) (snd (run_history w cs)).
Proof. exact history_calm. Qed.
Print Assumptions C07_isolation_history.

(* in particular a take() that raises in its copy step (message that cannot be deep-copied) behaves
   like the same hook without that take attempt ([calm] removes failing takes: where the failure is
   caught the hook goes on, where it is not the hook ends with a falsy return) - see C07_ex_failed_takes *)

(* ... but not to subscriber predicates (Event.notify calls them outside its try/except) *)
Theorem C07_isolation_predicate_refuted :
  In (ESub HSessNamed 2) (hp_trace w_two_subs (cfg_pred PFalse)) /\
  ~ In (ESub HSessNamed 2) (hp_trace w_two_subs (cfg_pred PRaises)) /\
  count is_orig (hp_trace w_two_subs (cfg_pred PRaises)) = 1.
Proof. exact isolation_predicate_refuted. Qed.
Print Assumptions C07_isolation_predicate_refuted.

(* ---- no resurrection: once finalized (sent or dropped), for EVERY further sequence of
   operations each send/drop of the original raises, nothing of it reaches the wire, and the
   flags stay *)
Theorem C07_no_resurrection : forall ops m, finalized m = true ->
  let '(m', ws, oks) := apply_ops ops m in
  ws = [] /\ finalized m' = true /\ dropped m' = dropped m /\
  (forall i o, nth_error ops i = Some o -> (o = SendOrig \/ o = Drop) -> nth_error oks i = Some false).
Proof. exact apply_ops_dead. Qed.
Print Assumptions C07_no_resurrection.

(* a take() whose copy step fails claims nothing: flags untouched, nothing emitted, no copy *)
Theorem C07_failed_take_claims_nothing : forall ops m,
  apply_ops (TakeFail :: ops) m = (let '(m', ws, oks) := apply_ops ops m in (m', ws, false :: oks)).
Proof. exact failed_take_noop. Qed.
Print Assumptions C07_failed_take_claims_nothing.

(* any operation sequence on a message from the wire: at most once, exactly when finalized and not dropped *)
Theorem C07_ops_at_most_once : forall ops r a,
  let '(m', ws, _) := apply_ops ops (wire_msg r a) in
  count_msgs ws <= 1 /\ (count_msgs ws = 1 <-> (finalized m' = true /\ dropped m' = false)).
Proof. exact ops_at_most_once. Qed.
Print Assumptions C07_ops_at_most_once.

(* a copy made by take() is always sendable (exactly once, then the first theorem applies to it) *)
Theorem C07_copy_sendable : forall m,
  exists m', send (snd (take m)) = Some (m', [WMsg (muts m)]) /\ finalized m' = true.
Proof. exact copy_sendable. Qed.
Print Assumptions C07_copy_sendable.

(* ---- the proxy never trips its own guard / never wedges: for EVERY message (command-channel
   chat included since /repo d9b7ff1; the tail of handle_proxied_packet since 03e3597) no exception
   leaves handle_proxied_packet, and the message logger runs exactly once unless a packet hook
   claimed the datagram before it was parsed. *)
Theorem C07_proxy_never_trips_own_guard : forall w c,
  hp_status w c <> StEscaped /\ count is_escape (hp_trace w c) = 0.
Proof. exact never_escapes. Qed.
Print Assumptions C07_proxy_never_trips_own_guard.

Theorem C07_logger_runs : forall w c, hp_status w c <> StPktClaimed -> count is_log (hp_trace w c) = 1.
Proof. exact logger_runs. Qed.
Print Assumptions C07_logger_runs.

(* NOTE, not repaired and not a violation of the clauses above: inside the RLV loop the proxy does still call
   drop_message twice when two commands of one chat are handled; its own try/except swallows the
   RuntimeError, the chat then counts as "not all handled" and lludp hooks run on the dropped message *)
Theorem C07_rlv_double_drop_trips_guard :
  In EExcRlv (hp_trace w_empty cfg_rlv_two_handled) /\
  In (EHook PtLludp 0 None) (hp_trace w_empty cfg_rlv_two_handled) /\
  count is_orig (hp_trace w_empty cfg_rlv_two_handled) = 0 /\
  dropped (hp_final w_empty cfg_rlv_two_handled) = true.
Proof. exact rlv_double_drop_trips_guard. Qed.
Print Assumptions C07_rlv_double_drop_trips_guard.

(* ---- histories of datagrams on one circuit (subscriptions persist between them) *)
Theorem C07_history_at_most_once : forall cs w,
  Forall (fun r => count is_orig (fst r) + count is_drop_ok (fst r) <= 1) (snd (run_history w cs)).
Proof. exact history_at_most_once. Qed.
Print Assumptions C07_history_at_most_once.

Theorem C07_history_never_wedged : forall cs w,
  Forall (fun r => snd (snd r) <> StEscaped /\ count is_escape (fst r) = 0 /\
                   (snd (snd r) <> StPktClaimed -> count is_log (fst r) = 1))
         (snd (run_history w cs)).
Proof. exact history_no_escape. Qed.
Print Assumptions C07_history_never_wedged.

Theorem C07_history_every_datagram_processed : forall cs w, length (snd (run_history w cs)) = length cs.
Proof. exact history_length. Qed.
Print Assumptions C07_history_every_datagram_processed.

(* ---- non-vacuity: concrete instances meeting the hypotheses *)
Example C07_ex_unclaimed : cfg_unclaimed cfg_noisy = true /\
  count is_orig (hp_trace w_one_sub cfg_noisy) = 1 /\
  count is_exc (hp_trace w_one_sub cfg_noisy) = 7 /\
  In (EOp SendOrig false) (hp_trace w_one_sub cfg_noisy).
Proof. vm_compute. repeat split; auto 30. Qed.

Example C07_ex_isolation :
  strip_exc (hp_trace w_one_sub (calm_cfg cfg_noisy)) = strip_exc (hp_trace w_one_sub cfg_noisy) /\
  hp_trace w_one_sub (calm_cfg cfg_noisy) <> hp_trace w_one_sub cfg_noisy.
Proof. vm_compute. split; [reflexivity|discriminate]. Qed.

Example C07_ex_taken : hp_trace w_empty cfg_taken =
  [EHook PtLludp 0 None; EOp Take true; EAck; EAck; ELog true true true 0]
  /\ hp_status w_empty cfg_taken = StHandled.
Proof. exact ex_taken. Qed.

Example C07_ex_take_then_drop : hp_trace w_one_sub cfg_take_then_drop =
  [ESub HSessNamed 1; EOp Take true; EHook PtLludp 0 None; EAck; EOp Drop true; ELog true true true 0]
  /\ hp_status w_one_sub cfg_take_then_drop = StForward.
Proof. exact ex_take_then_drop. Qed.

(* failed takes by a subscriber (uncaught) and an addon (caught): unclaimed, forwarded exactly once,
   and indistinguishable (up to exception log / failed-take records) from the hooks without the take *)
Example C07_ex_failed_takes : cfg_unclaimed cfg_failed_takes = true /\
  hp_trace w_one_sub cfg_failed_takes =
  [ESub HSessNamed 1; EOp TakeFail false; EExcSub;
   EHook PtLludp 0 None; EOp TakeFail false; EOp Mutate true; ELog false false false 1; EOrig 1]
  /\ hp_status w_one_sub cfg_failed_takes = StForward
  /\ hp_world w_one_sub cfg_failed_takes = w_one_sub.
Proof. exact ex_failed_takes. Qed.

Example C07_ex_failed_takes_isolation :
  calm_cfg cfg_failed_takes =
  mk_msgcfg KPlain true true [(1, (PTrue, Ret false))]
            [mk_modcfg [] (mk_hookset None (Some (Act false Mutate (Ret false))) None)]
  /\ strip_exc (hp_trace w_one_sub (calm_cfg cfg_failed_takes)) = strip_exc (hp_trace w_one_sub cfg_failed_takes)
  /\ hp_trace w_one_sub (calm_cfg cfg_failed_takes) <> hp_trace w_one_sub cfg_failed_takes.
Proof. exact ex_failed_takes_calm. Qed.

(* regression instances of the two repaired defects *)
Example C07_ex_cmd_sub_drops : hp_trace w_one_sub cfg_cmd_sub_drops =
  [ESub HSessNamed 1; EOp Drop true; ECmd; ELog true true false 0]
  /\ hp_status w_one_sub cfg_cmd_sub_drops = StHandled.
Proof. exact ex_cmd_sub_drops. Qed.

Example C07_ex_rlv_empty : cfg_unclaimed cfg_rlv_empty = true /\
  hp_trace w_empty cfg_rlv_empty = [ELog false false false 0; EOrig 0]
  /\ hp_status w_empty cfg_rlv_empty = StForward.
Proof. exact ex_rlv_empty. Qed.

Example C07_ex_no_resurrection :
  apply_ops [SendOrig; Drop; SendOrig; Take; SendCopy; Drop] (wire_msg true true)
  = (mk_mst true false false true false true true 0, [WMsg 0], [true; false; false; true; true; false]).
Proof. vm_compute. reflexivity. Qed.
