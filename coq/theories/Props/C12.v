(* C12 - LLSD forms are faithful.  Property theorems only: each is closed by
   [exact] and followed by [Print Assumptions].  Models: Llsd/Llsd.v,
   Llsd/LlsdBinary.v, Llsd/LlsdString.v, Llsd/LlsdNotation.v (tied to
   hippolyzer/lib/base/llsd.py and the llsd package by harness/props/c12.py).

   [ut] is the one place where the model follows a probe of the live code:
   ut = false is the code as it stands (a URI is written with the string tag),
   ut = true the repaired branch order.  Every theorem below that mentions
   [ut] holds for both.

   Not proved here (covered by correspondence / impl-level oracle only, see
   TRUSTED in harness/props/c12.py): notation parsing of non-string values
   (not_roundtrip for whole trees), XML, zlib, message<->LLSD packing. *)
From Coq Require Import NArith ZArith List Bool.
From HV Require Import Llsd.Llsd Llsd.LlsdString Llsd.LlsdBinary Llsd.LlsdNotation Llsd.LlsdMsg
  Llsd.LlsdStringProofs Llsd.LlsdBinaryProofs Llsd.LlsdNotationProofs Llsd.LlsdMsgProofs.
Import ListNotations.
Open Scope N_scope.

(* ---------- binary ---------- *)

(* bin_roundtrip: llsd.parse_binary (llsd.format_binary v, with or without
   header) returns canon v for every well-formed v (ints in S32, lengths below
   2^31, strings UTF-8, distinct keys, 16-byte UUIDs, 64-bit reals/dates) *)
Theorem C12_bin_roundtrip : forall ut hdr v,
  wf v = true -> parse_binary (format_binary ut hdr v) = Some (canon ut v).
Proof. exact parse_binary_format. Qed.
Print Assumptions C12_bin_roundtrip.

(* exact consumption: the parser stops at the end of the value, whatever follows *)
Theorem C12_bin_exact_consumption : forall ut v rest,
  wf v = true -> parse_bin_rest (fmt_bin ut v ++ rest) = Some (canon ut v, rest).
Proof. exact parse_bin_rest_fmt. Qed.
Print Assumptions C12_bin_exact_consumption.

(* the statement of the property for the code as it stands: unchanged (same
   value, same type, same date bits) for every well-formed value without URIs *)
Theorem C12_bin_roundtrip_unchanged : forall hdr v,
  wf v = true -> no_uri v = true -> parse_binary (format_binary false hdr v) = Some v.
Proof. exact bin_roundtrip_exact. Qed.
Print Assumptions C12_bin_roundtrip_unchanged.

(* full-strength statement "forall v, wf v -> parse_binary (format_binary false hdr v) = Some v"
   is false of the code as it stands: *)
Theorem C12_bin_roundtrip_refuted :
  exists v, wf v = true /\ parse_binary (format_binary false false v) = Some (Str [97]) /\ v = Uri [97].
Proof. exact bin_uri_refuted. Qed.
Print Assumptions C12_bin_roundtrip_refuted.

(* ... and true at full strength once URIs are written with their own tag *)
Theorem C12_bin_roundtrip_tagged : forall hdr v,
  wf v = true -> parse_binary (format_binary true hdr v) = Some v.
Proof. exact bin_roundtrip_tagged. Qed.
Print Assumptions C12_bin_roundtrip_tagged.

(* type_preserved: the LLSD type that comes back is the one that went in,
   except URI -> string when ut = false *)
Theorem C12_bin_type_preserved : forall ut v,
  tag (canon ut v) = if negb ut && (tag v =? 7) then 4 else tag v.
Proof. exact tag_canon. Qed.
Print Assumptions C12_bin_type_preserved.

(* zipped form: zlib is a third-party oracle, assumed lossless *)
Theorem C12_zip_roundtrip : forall (zc zd : list N -> list N),
  (forall x, zd (zc x) = x) ->
  forall ut v, wf v = true -> parse_binary (zd (zc (format_binary ut false v))) = Some (canon ut v).
Proof. exact zip_roundtrip. Qed.
Print Assumptions C12_zip_roundtrip.

(* ---------- message <-> LLSD packing table (dict form) ---------- *)

(* every value a template variable of type t can hold packs to LLSD and unpacks to itself *)
Theorem C12_msg_var_roundtrip : forall t v,
  conforms t v = true -> exists x, to_llsd_var t v = Some x /\ of_llsd_var t x = Some v.
Proof. exact var_roundtrip. Qed.
Print Assumptions C12_msg_var_roundtrip.

(* msg_llsd_rt for a message body = blocks of (template type, value) in template order *)
Theorem C12_msg_llsd_rt : forall m,
  forallb block_conforms m = true -> exists d, to_llsd_msg m = Some d /\ of_llsd_msg d = Some m.
Proof. exact msg_roundtrip. Qed.
Print Assumptions C12_msg_llsd_rt.

(* ---------- notation ---------- *)

(* the three chained replace() calls and the escape machine: any byte string
   at all comes back, the parser consuming exactly the formatted bytes *)
Theorem C12_not_string_machine : forall s rest,
  match fmt_not_string s ++ rest with
  | q :: body => q = 39 /\ parse_delim q body = Some (s, rest)
  | [] => False
  end.
Proof. exact not_string_machine_roundtrip. Qed.
Print Assumptions C12_not_string_machine.

(* notation strings: any str comes back as the same str *)
Theorem C12_not_string_roundtrip : forall s rest,
  utf8_valid s = true -> parse_not_string (fmt_not_string s ++ rest) = Some (s, rest).
Proof. exact not_string_roundtrip. Qed.
Print Assumptions C12_not_string_roundtrip.

(* no string value ever puts a raw newline into notation output *)
Theorem C12_not_string_no_newline : forall s, ~ In 10 (fmt_not_string s).
Proof. exact fmt_not_string_no_nl. Qed.
Print Assumptions C12_not_string_no_newline.

(* ... compositionally: for every value whose map keys and URIs are
   newline-free - whatever its strings, binaries, numbers contain - the
   notation output has no 0x0A.  repr(float) and the date string are library
   renderings, assumed newline-free (checked on every case by the harness). *)
Theorem C12_not_no_newline : forall (rreal rdate : N -> list N),
  (forall b, ~ In 10 (rreal b)) -> (forall b, ~ In 10 (rdate b)) ->
  forall v, keys_uris_nl_free v = true -> ~ In 10 (fmt_not rreal rdate v).
Proof. exact fmt_not_no_nl. Qed.
Print Assumptions C12_not_no_newline.

(* keys and URIs are outside the statement and do leak *)
Theorem C12_not_key_uri_leak : forall rreal rdate,
  In 10 (fmt_not rreal rdate (Map [([97; 10; 98], Undef)])) /\ In 10 (fmt_not rreal rdate (Uri [104; 10])).
Proof. intros rreal rdate. split; [exact (key_leaks_nl rreal rdate) | exact (uri_leaks_nl rreal rdate)]. Qed.
Print Assumptions C12_not_key_uri_leak.

(* ---------- non-vacuity ---------- *)

Definition ex_tree : llsd :=
  Map [([97], Arr [Int (-5); Real 4609434218613702656; Str [195; 169; 10]; Undef; Bool true]);
       ([], Map [([107; 10], Uuid [0;1;2;3;4;5;6;7;8;9;10;11;12;13;14;15]); ([98], Bin [255; 0])]);
       ([100], Date 4743174593368195072);
       ([117], Arr [Uri [104; 116; 116; 112]; Arr []])].

Example C12_ex_wf : wf ex_tree = true /\ no_uri ex_tree = false /\ keys_uris_nl_free ex_tree = false.
Proof. vm_compute. repeat split. Qed.

Example C12_ex_roundtrip :
  parse_binary (format_binary false true ex_tree) = Some (canon false ex_tree)
  /\ parse_binary (format_binary true false ex_tree) = Some ex_tree
  /\ canon false ex_tree <> ex_tree.
Proof. vm_compute. repeat split. discriminate. Qed.

Example C12_ex_bytes :
  format_binary false false (Map [([97], Arr [Int (-5); Date 0])])
  = [123; 0; 0; 0; 1; 107; 0; 0; 0; 1; 97; 91; 0; 0; 0; 2; 105; 255; 255; 255; 251;
     100; 0; 0; 0; 0; 0; 0; 0; 0; 93; 125].
Proof. vm_compute. reflexivity. Qed.

Example C12_ex_string :
  fmt_not_string [97; 10; 92; 39; 110] = [39; 97; 92; 110; 92; 92; 92; 39; 110; 39]
  /\ parse_not_string (fmt_not_string [97; 10; 92; 39; 110] ++ [44]) = Some ([97; 10; 92; 39; 110], [44])
  /\ parse_not_string [39; 92; 120; 52; 49; 92; 116; 39] = Some ([65; 9], []).
Proof. vm_compute. repeat split. Qed.

Example C12_ex_notation :
  fmt_not (fun _ => [49; 46; 53]) (fun _ => [49; 57; 55; 48])
    (Map [([97], Arr [Int (-12); Real 0; Str [10]; Bin [1; 2]; Bool false])])
  = [123; 39; 97; 39; 58; 91; 105; 45; 49; 50; 44; 114; 49; 46; 53; 44; 39; 92; 110; 39; 44;
     98; 54; 52; 34; 65; 81; 73; 61; 34; 44; 102; 97; 108; 115; 101; 93; 125].
Proof. vm_compute. reflexivity. Qed.

Example C12_ex_msg :
  let m := [[(MVT_U64, VInt 200); (MVT_IP_ADDR, VIp [127; 0; 0; 1]); (MVT_IP_PORT, VInt 201)];
            [(MVT_S64, VInt (-2)); (MVT_LLQuaternion, VQuat 1 2 3); (MVT_LLVector3, VVec [4; 5; 6]);
             (MVT_VARIABLE, VText [104; 105]); (MVT_U32, VInt 4294967295)]] in
  forallb block_conforms m = true
  /\ to_llsd_msg m = Some [[(MVT_U64, Bin [0; 0; 0; 0; 0; 0; 0; 200]); (MVT_IP_ADDR, Bin [127; 0; 0; 1]); (MVT_IP_PORT, Int 201)];
                           [(MVT_S64, Bin [255; 255; 255; 255; 255; 255; 255; 254]); (MVT_LLQuaternion, Arr [Real 1; Real 2; Real 3]);
                            (MVT_LLVector3, Arr [Real 4; Real 5; Real 6]); (MVT_VARIABLE, Str [104; 105]);
                            (MVT_U32, Bin [255; 255; 255; 255])]].
Proof. vm_compute. split; reflexivity. Qed.
