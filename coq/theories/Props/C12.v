(* C12 - LLSD forms are faithful.  Property theorems only: each is closed by
   [exact] and followed by [Print Assumptions].  Models: Llsd/Llsd.v,
   Llsd/LlsdBinary.v, Llsd/LlsdString.v, Llsd/LlsdNotation.v,
   Llsd/LlsdNotationParse.v, Llsd/LlsdMsg.v (tied to hippolyzer/lib/base/llsd.py,
   message/data_packer.py and the llsd package by harness/props/c12.py).

   The binary model carries one flag, [ut] = "a URI is written with its own
   tag".  The code as it stands (since fix 22af88d) is ut = true; the harness
   probes the live formatter and drives the extracted model with the value it
   finds.  ut = false is the code before the fix and is kept as history.

   Not proved here (correspondence / impl-level oracle only, see TRUSTED in
   harness/props/c12.py): XML, zlib, float()/repr() and the date string
   functions (abstract oracles below), the message template lookup. *)
From Coq Require Import NArith ZArith List Bool.
From HV Require Import Llsd.Llsd Llsd.LlsdString Llsd.LlsdBinary Llsd.LlsdNotation Llsd.LlsdNotationParse Llsd.LlsdMsg
  Llsd.LlsdStringProofs Llsd.LlsdBinaryProofs Llsd.LlsdNotationProofs Llsd.LlsdNotationParseProofs Llsd.LlsdMsgProofs.
Import ListNotations.
Open Scope N_scope.

(* ---------- binary: the code as it stands ---------- *)

(* bin_roundtrip, full strength: llsd.parse_binary (llsd.format_binary v, with
   or without header) returns v itself - same value, same LLSD type, same date
   bits - for every well-formed v (ints in S32, lengths below 2^31, strings
   UTF-8, distinct keys, 16-byte UUIDs, 64-bit reals/dates) *)
Theorem C12_bin_roundtrip : forall hdr v,
  wf v = true -> parse_binary (format_binary true hdr v) = Some v.
Proof. exact bin_roundtrip_tagged. Qed.
Print Assumptions C12_bin_roundtrip.

(* exact consumption: the parser stops at the end of the value, whatever follows *)
Theorem C12_bin_exact_consumption : forall v rest,
  wf v = true -> parse_bin_rest (fmt_bin true v ++ rest) = Some (v, rest).
Proof. exact parse_bin_rest_tagged. Qed.
Print Assumptions C12_bin_exact_consumption.

(* zipped form: zlib is a third-party oracle, assumed lossless *)
Theorem C12_zip_roundtrip : forall (zc zd : list N -> list N),
  (forall x, zd (zc x) = x) ->
  forall v, wf v = true -> parse_binary (zd (zc (format_binary true false v))) = Some v.
Proof. exact zip_roundtrip_tagged. Qed.
Print Assumptions C12_zip_roundtrip.

(* ---------- binary: history (before fix 22af88d, ut = false) ---------- *)

(* both branch orders at once; canon false turns a URI into a string *)
Theorem C12_hist_bin_roundtrip_any : forall ut hdr v,
  wf v = true -> parse_binary (format_binary ut hdr v) = Some (canon ut v).
Proof. exact parse_binary_format. Qed.
Print Assumptions C12_hist_bin_roundtrip_any.

(* the defect that was repaired: with the old order the statement was false *)
Theorem C12_hist_bin_untagged_refuted :
  exists v, wf v = true /\ parse_binary (format_binary false false v) = Some (Str [97]) /\ v = Uri [97].
Proof. exact bin_uri_refuted. Qed.
Print Assumptions C12_hist_bin_untagged_refuted.

(* the LLSD type that comes back: changed for URIs only, and only when ut = false *)
Theorem C12_hist_bin_type : forall ut v,
  tag (canon ut v) = if negb ut && (tag v =? 7) then 4 else tag v.
Proof. exact tag_canon. Qed.
Print Assumptions C12_hist_bin_type.

(* ---------- message <-> LLSD packing table (dict form) ---------- *)

(* every value a template variable of type t can hold packs to LLSD and unpacks to itself *)
Theorem C12_msg_var_roundtrip : forall t v,
  conforms t v = true -> exists x, to_llsd_var t v = Some x /\ of_llsd_var t x = Some v.
Proof. exact var_roundtrip. Qed.
Print Assumptions C12_msg_var_roundtrip.

(* msg_llsd_rt for a message body = blocks of (template type, value) in template order *)
Theorem C12_msg_llsd_rt : forall m,
  forallb block_conforms m = true -> exists d, to_llsd_msg m = Some d /\ of_llsd_msg d = Some m.
Proof. exact msg_roundtrip. Qed.
Print Assumptions C12_msg_llsd_rt.

(* ---------- notation ---------- *)

(* the three chained replace() calls and the escape machine: any byte string
   at all comes back, the parser consuming exactly the formatted bytes *)
Theorem C12_not_string_machine : forall s rest,
  match fmt_not_string s ++ rest with
  | q :: body => q = 39 /\ parse_delim q body = Some (s, rest)
  | [] => False
  end.
Proof. exact not_string_machine_roundtrip. Qed.
Print Assumptions C12_not_string_machine.

(* notation strings: any str comes back as the same str *)
Theorem C12_not_string_roundtrip : forall s rest,
  utf8_valid s = true -> parse_not_string (fmt_not_string s ++ rest) = Some (s, rest).
Proof. exact not_string_roundtrip. Qed.
Print Assumptions C12_not_string_roundtrip.

(* no string value ever puts a raw newline into notation output *)
Theorem C12_not_string_no_newline : forall s, ~ In 10 (fmt_not_string s).
Proof. exact fmt_not_string_no_nl. Qed.
Print Assumptions C12_not_string_no_newline.

(* ... compositionally: for every value whose map keys and URIs are
   newline-free - whatever its strings, binaries, numbers contain - the
   notation output has no 0x0A.  repr(float) and the date string are library
   renderings, assumed newline-free (checked on every case by the harness). *)
Theorem C12_not_no_newline : forall (rreal rdate : N -> list N),
  (forall b, ~ In 10 (rreal b)) -> (forall b, ~ In 10 (rdate b)) ->
  forall v, keys_uris_nl_free v = true -> ~ In 10 (fmt_not rreal rdate v).
Proof. exact fmt_not_no_nl. Qed.
Print Assumptions C12_not_no_newline.

(* keys and URIs are outside the statement and do leak *)
Theorem C12_not_key_uri_leak : forall rreal rdate,
  In 10 (fmt_not rreal rdate (Map [([97; 10; 98], Undef)])) /\ In 10 (fmt_not rreal rdate (Uri [104; 10])).
Proof. intros rreal rdate. split; [exact (key_leaks_nl rreal rdate) | exact (uri_leaks_nl rreal rdate)]. Qed.
Print Assumptions C12_not_key_uri_leak.

(* not_roundtrip, whole values: llsd.parse_notation (llsd.format_notation v)
   returns v itself for every well-formed v (strings, URIs and keys UTF-8,
   distinct keys, 16-byte UUIDs; integers unbounded).
   repr(float)/float() and _format_datestr()/_parse_datestr() are library
   functions, abstracted as rreal/preal and rdate/pdate with
     - two lexical hypotheses: _real_regex matches exactly repr(x) in front of
       a separator, and the date string is plain ASCII without quote/backslash
       (both checked by the harness on every rendering it meets);
     - per value, oracles_ok v: float(repr(x)) = x for its reals (excludes NaN
       payloads) and _parse_datestr(_format_datestr(d)) = d for its dates.
       The latter is FALSE of the llsd package for ~3% of microsecond values
       (known finding date-microseconds-truncated-notation): such dates are
       excluded by this hypothesis, not covered by the theorem.
   The sized forms s(size)/b(size) are never emitted by the formatter and are
   not in the model. *)
Theorem C12_not_roundtrip : forall (rreal rdate : N -> list N) (preal pdate : list N -> option N),
  (forall b rest, stopb rest = true -> scan_real (rreal b ++ rest) = Some (rreal b, rest)) ->
  (forall b, forallb plain_byte (rdate b) = true) ->
  forall v, wfn v = true -> oracles_ok rreal rdate preal pdate v = true ->
  parse_not preal pdate (fmt_not rreal rdate v) = Some v.
Proof. exact parse_not_fmt. Qed.
Print Assumptions C12_not_roundtrip.

(* exact consumption: in front of nothing, a comma or a closing bracket the
   parser stops exactly at the end of the value *)
Theorem C12_not_exact_consumption : forall (rreal rdate : N -> list N) (preal pdate : list N -> option N),
  (forall b rest, stopb rest = true -> scan_real (rreal b ++ rest) = Some (rreal b, rest)) ->
  (forall b, forallb plain_byte (rdate b) = true) ->
  forall v rest, wfn v = true -> oracles_ok rreal rdate preal pdate v = true -> stopb rest = true ->
  parse_not_rest preal pdate (fmt_not rreal rdate v ++ rest) = Some (v, rest).
Proof. exact parse_not_rest_fmt. Qed.
Print Assumptions C12_not_exact_consumption.

(* ---------- non-vacuity ---------- *)

Definition ex_tree : llsd :=
  Map [([97], Arr [Int (-5); Real 4609434218613702656; Str [195; 169; 10]; Undef; Bool true]);
       ([], Map [([107; 10], Uuid [0;1;2;3;4;5;6;7;8;9;10;11;12;13;14;15]); ([98], Bin [255; 0])]);
       ([100], Date 4743174593368195072);
       ([117], Arr [Uri [104; 116; 116; 112]; Arr []])].

Example C12_ex_wf : wf ex_tree = true /\ no_uri ex_tree = false /\ keys_uris_nl_free ex_tree = false.
Proof. vm_compute. repeat split. Qed.

Example C12_ex_roundtrip :
  parse_binary (format_binary true true ex_tree) = Some ex_tree
  /\ parse_binary (format_binary true false ex_tree) = Some ex_tree
  /\ parse_binary (format_binary false true ex_tree) = Some (canon false ex_tree)
  /\ canon false ex_tree <> ex_tree.
Proof. vm_compute. repeat split. discriminate. Qed.

Example C12_ex_bytes :
  format_binary true false (Map [([97], Arr [Int (-5); Date 0])])
  = [123; 0; 0; 0; 1; 107; 0; 0; 0; 1; 97; 91; 0; 0; 0; 2; 105; 255; 255; 255; 251;
     100; 0; 0; 0; 0; 0; 0; 0; 0; 93; 125].
Proof. vm_compute. reflexivity. Qed.

Example C12_ex_string :
  fmt_not_string [97; 10; 92; 39; 110] = [39; 97; 92; 110; 92; 92; 92; 39; 110; 39]
  /\ parse_not_string (fmt_not_string [97; 10; 92; 39; 110] ++ [44]) = Some ([97; 10; 92; 39; 110], [44])
  /\ parse_not_string [39; 92; 120; 52; 49; 92; 116; 39] = Some ([65; 9], []).
Proof. vm_compute. repeat split. Qed.

Example C12_ex_notation :
  fmt_not (fun _ => [49; 46; 53]) (fun _ => [49; 57; 55; 48])
    (Map [([97], Arr [Int (-12); Real 0; Str [10]; Bin [1; 2]; Bool false])])
  = [123; 39; 97; 39; 58; 91; 105; 45; 49; 50; 44; 114; 49; 46; 53; 44; 39; 92; 110; 39; 44;
     98; 54; 52; 34; 65; 81; 73; 61; 34; 44; 102; 97; 108; 115; 101; 93; 125].
Proof. vm_compute. reflexivity. Qed.

Example C12_ex_msg :
  let m := [[(MVT_U64, VInt 200); (MVT_IP_ADDR, VIp [127; 0; 0; 1]); (MVT_IP_PORT, VInt 201)];
            [(MVT_S64, VInt (-2)); (MVT_LLQuaternion, VQuat 1 2 3); (MVT_LLVector3, VVec [4; 5; 6]);
             (MVT_VARIABLE, VText [104; 105]); (MVT_U32, VInt 4294967295)]] in
  forallb block_conforms m = true
  /\ to_llsd_msg m = Some [[(MVT_U64, Bin [0; 0; 0; 0; 0; 0; 0; 200]); (MVT_IP_ADDR, Bin [127; 0; 0; 1]); (MVT_IP_PORT, Int 201)];
                           [(MVT_S64, Bin [255; 255; 255; 255; 255; 255; 255; 254]); (MVT_LLQuaternion, Arr [Real 1; Real 2; Real 3]);
                            (MVT_LLVector3, Arr [Real 4; Real 5; Real 6]); (MVT_VARIABLE, Str [104; 105]);
                            (MVT_U32, Bin [255; 255; 255; 255])]].
Proof. vm_compute. split; reflexivity. Qed.

(* the hypotheses of C12_not_roundtrip are satisfiable, and the theorem's
   conclusion on a concrete tree with every constructor *)
Definition ex_rreal (b : N) : list N := if b =? 4609434218613702656 then [49; 46; 53] else [45; 49; 101; 45; 51; 48].
Definition ex_preal (t : list N) : option N :=
  match t with [49; 46; 53] => Some 4609434218613702656 | _ => Some 13165911115232485376 end.
Definition ex_rdate (b : N) : list N := [50; 48; 50; 48; 45; 48; 49; 45; 48; 50; 84; 48; 51; 58; 48; 52; 58; 48; 53; 90].
Definition ex_pdate (t : list N) : option N := Some 4743174593368195072.

Example C12_ex_not_hyps :
  (forall b rest, stopb rest = true -> scan_real (ex_rreal b ++ rest) = Some (ex_rreal b, rest))
  /\ (forall b, forallb plain_byte (ex_rdate b) = true)
  /\ wfn ex_tree = true /\ oracles_ok ex_rreal ex_rdate ex_preal ex_pdate ex_tree = true.
Proof.
  split; [|repeat split].
  intros b [|c r] H; unfold ex_rreal; destruct (b =? 4609434218613702656); try reflexivity;
    cbn [stopb] in H; apply orb_prop in H as [H|H]; [apply orb_prop in H as [H|H]| | apply orb_prop in H as [H|H]|];
    apply N.eqb_eq in H; subst c; reflexivity.
Qed.

Example C12_ex_not_roundtrip :
  parse_not ex_preal ex_pdate (fmt_not ex_rreal ex_rdate ex_tree) = Some ex_tree
  /\ parse_not_rest ex_preal ex_pdate (fmt_not ex_rreal ex_rdate ex_tree ++ [44; 105; 53]) = Some (ex_tree, [44; 105; 53])
  /\ parse_not ex_preal ex_pdate [123; 39; 97; 39; 58; 105; 43; 48; 55; 44; 32; 34; 97; 34; 58; 91; 116; 44; 70; 32; 93; 125]
     = Some (Map [([97], Arr [Bool true; Bool false])]).
Proof. vm_compute. repeat split. Qed.
