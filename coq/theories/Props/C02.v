(* C02 - Pass-through fidelity: unmodified datagrams re-encode byte-identically.
   Property theorems only.  Model: Tmpl/Codec.v (codec + the lazy-parse state of Message +
   the str/bytes presentation of text fields), proofs Tmpl/PassProofs.v, Tmpl/ViewProofs.v. *)
From Coq Require Import Arith NArith ZArith Ascii String List Bool.
From HV Require Import Base.Bytes ZC.ZeroCode Tmpl.Template Tmpl.TemplateProofs Tmpl.Codec
  Tmpl.CodecProofs Tmpl.PassProofs Tmpl.ViewProofs Tmpl.SameProofs.
From HVgen Require Import Template_gen.
Import ListNotations.
Open Scope list_scope.
Open Scope N_scope.

(* never parsed: EVERY datagram the header parser accepts - canonical zero-coding or not,
   parseable body or not, any dictionary - re-encodes to exactly the bytes received *)
Theorem C02_raw_passthrough : forall d b m, bytes_okb b = true ->
  parse_header d b = Some m -> serialize d m = Some b.
Proof. exact raw_passthrough. Qed.
Print Assumptions C02_raw_passthrough.

(* parsed (lazily or eagerly): byte-identical when the zero-coding is the canonical one, the
   body was consumed exactly, and no single-precision field held a signalling NaN.

   Full-strength statement of the design (without [no_snan]) is FALSE of the code, see
   C02_parsed_passthrough_refuted below:
     forall d b m m', wf_dict d = true -> bytes_okb b = true -> parse_header d b = Some m ->
       parse_body_rest d m = Some (m', []) -> raw_canonical m = true -> serialize d m' = Some b. *)
Theorem C02_parsed_passthrough : forall d b m m', wf_dict d = true -> bytes_okb b = true ->
  parse_header d b = Some m ->
  parse_body_rest d m = Some (m', []) ->
  raw_canonical m = true ->
  no_snan d m ->
  serialize d m' = Some b.
Proof. exact parsed_passthrough. Qed.
Print Assumptions C02_parsed_passthrough.

Definition I (s : string) : ident := list_ascii_of_string s.

(* witness: a 26 byte SimulatorLoad datagram of the current template whose F32 field TimeDilation holds
   the signalling NaN 7FA00000; parsing and re-encoding turns it into 7FE00000 *)
Definition snan_datagram : list N :=
  [0;0;0;0;2;0; 255;255;0;12; 0;0;160;127; 0;0;0;0;0;1;0;0;0;0;0;0].

Theorem C02_parsed_passthrough_refuted : exists b m m',
  bytes_okb b = true /\ parse_header current_dict b = Some m /\
  parse_body_rest current_dict m = Some (m', []) /\ raw_canonical m = true /\
  serialize current_dict m' <> Some b.
Proof.
  exists snan_datagram.
  destruct (parse_header current_dict snan_datagram) as [m|] eqn:Eh; [|vm_compute in Eh; discriminate].
  destruct (parse_body_rest current_dict m) as [[m' r]|] eqn:Eb.
  2: { vm_compute in Eh. injection Eh as <-. vm_compute in Eb. discriminate. }
  exists m, m'. vm_compute in Eh. injection Eh as <-. vm_compute in Eb. injection Eb as <- <-.
  repeat split. vm_compute. discriminate.
Qed.
Print Assumptions C02_parsed_passthrough_refuted.

(* ... and [no_snan] is exactly what excludes it *)
Example C02_ex_snan_excluded : exists m, parse_header current_dict snan_datagram = Some m /\ ~ no_snan current_dict m.
Proof. eexists. split; [vm_compute; reflexivity|]. unfold no_snan. vm_compute. discriminate. Qed.

(* a body parse that fails leaves the message as it was: still forwardable byte-identically *)
Theorem C02_failed_parse_keeps_raw : forall d b m, bytes_okb b = true ->
  parse_header d b = Some m -> parse_body d m = None ->
  ensure_parsed d m = m /\ serialize d (ensure_parsed d m) = Some b.
Proof. exact failed_parse_keeps_raw. Qed.
Print Assumptions C02_failed_parse_keeps_raw.

(* any order and number of {read header fields, touch .blocks} before re-encoding ends in one of
   the two states above: the message as received, or the message parsed once *)
Theorem C02_order_independent : forall d m ops,
  lrun d m ops = (if touches_body ops then ensure_parsed d m else m).
Proof. exact lrun_two_states. Qed.
Print Assumptions C02_order_independent.

Theorem C02_any_order : forall d b m ops, bytes_okb b = true -> parse_header d b = Some m ->
  lrun d m ops = m \/ (exists m', parse_body d m = Some m' /\ lrun d m ops = m').
Proof. exact any_order. Qed.
Print Assumptions C02_any_order.

(* the text/binary guess for Fixed and Variable payloads never changes what is re-encoded,
   whatever bytes.decode accepts *)
Theorem C02_text_view_reencodes : forall valid tv l, pack_view (present valid tv l) = l.
Proof. exact pack_view_present. Qed.
Print Assumptions C02_text_view_reencodes.

(* every layer of the decoder is inverted by the encoder on what it consumed (used above; stated
   for the block list: all of the 481 templates, any input) *)
Theorem C02_blocks_reencode : forall tbs buf bd rest,
  uniqb ident_eqb (map bname tbs) = true -> forallb wf_block tbs = true -> bytes_okb buf = true ->
  parse_blocks false tbs buf = Some (bd, rest) ->
  exists bs, ser_blocks tbs bd false = Some bs /\ buf = bs ++ rest /\ no_unknown_blocks tbs bd = true.
Proof. exact pack_parse_blocks. Qed.
Print Assumptions C02_blocks_reencode.

(* "In every case the re-encoding decodes to the same message": for every datagram the header parser
   accepts and whose body parses - canonical zero-coding or not, unread trailing bytes or not, NaNs or
   not (equality is on wire values: the parsed message already holds the quieted floats) - the parsed
   message can be re-encoded and the result decodes to exactly that message, PROVIDED the re-encoded
   body is within the decoder's cap ([recode_within_cap]: for zero-coded messages the plain body is at
   most ZC_CAP = 0x3000 bytes; vacuous otherwise).  The parsed message is in fact template-conformant
   and in normal form (C02_parsed_is_conformant), so this is C01 applied to it. *)
Theorem C02_same_message : forall d b m m', wf_dict d = true -> bytes_okb b = true ->
  parse_header d b = Some m -> parse_body d m = Some m' ->
  recode_within_cap d m' = true ->
  exists b', serialize d m' = Some b' /\ bytes_okb b' = true /\ deserialize d b' = Some m'.
Proof. exact same_message. Qed.
Print Assumptions C02_same_message.

Theorem C02_parsed_is_conformant : forall d b m m', wf_dict d = true -> bytes_okb b = true ->
  parse_header d b = Some m -> parse_body d m = Some m' ->
  recode_within_cap d m' = true ->
  conforms d m' = true /\ normalize d m' = m'.
Proof. exact parsed_conforms. Qed.
Print Assumptions C02_parsed_is_conformant.

(* Without [recode_within_cap] the statement
     forall d b m m', parse_header d b = Some m -> parse_body d m = Some m' ->
       exists b', serialize d m' = Some b' /\ deserialize d b' = Some m'
   is FALSE of the code (known finding reencoded-above-zerocode-cap).  Witness: a zero-coded ChatFromViewer whose body is 12038 bytes followed by the
   wrap form 00 00 at the very end (= 257 zeros, 12295 > ZC_CAP = 12288 in the last chunk only): it is
   accepted and parsed, its canonical re-encoding (.. 00 ff 00 02) is refused by the decoder's cap. *)
Definition cap_datagram : list N :=
  [128;0;0;0;1;0; 255;255;0;1;80] ++ repeat 17 32 ++ [220;47] ++ repeat 65 (N.to_nat 12000) ++ [0;0].

Definition reencode (d : dict) (b : list N) : option (list N) :=
  match parse_header d b with
  | Some m => match parse_body d m with Some m' => serialize d m' | None => None end
  | None => None
  end.

Theorem C02_same_message_refuted : exists b b',
  (exists m, deserialize current_dict b = Some m) /\
  reencode current_dict b = Some b' /\ deserialize current_dict b' = None.
Proof.
  exists cap_datagram. eexists. split; [eexists; vm_compute; reflexivity|].
  split; [vm_compute; reflexivity|]. vm_compute; reflexivity.
Qed.
Print Assumptions C02_same_message_refuted.

(* ... and the witness is exactly the excluded class *)
Example C02_ex_cap_window_excluded : exists m m',
  parse_header current_dict cap_datagram = Some m /\ parse_body current_dict m = Some m' /\
  recode_within_cap current_dict m' = false.
Proof.
  eexists. eexists. split; [vm_compute; reflexivity|]. split; [vm_compute; reflexivity|]. vm_compute; reflexivity.
Qed.

(* ---------- non-vacuity / necessity of the hypotheses ---------- *)

(* a zero-coded ChatFromViewer with text "hi\0", canonical coding: parsed pass-through applies *)
Definition chat_zc : list N :=
  [128;0;0;0;7;0; 255;255;0;1;80; 0;32; 3;0;1; 104;105;0;1; 1; 0;4].

Example C02_ex_parsed : exists m m',
  parse_header current_dict chat_zc = Some m /\ parse_body_rest current_dict m = Some (m', []) /\
  raw_canonical m = true /\ no_snan current_dict m /\ m_body m' <> [] /\
  serialize current_dict m' = Some chat_zc.
Proof.
  eexists. eexists. split; [vm_compute; reflexivity|]. split; [vm_compute; reflexivity|].
  split; [vm_compute; reflexivity|]. split; [unfold no_snan; vm_compute; reflexivity|].
  split; [vm_compute; discriminate | vm_compute; reflexivity].
Qed.

(* the same message with the zero run coded as 00 10 00 10: accepted, raw pass-through is
   byte-identical, parsed pass-through re-encodes canonically (so [raw_canonical] is needed) *)
Definition chat_noncanon : list N :=
  [128;0;0;0;7;0; 255;255;0;1;80; 0;16;0;16; 3;0;1; 104;105;0;1; 1; 0;4].

Example C02_ex_noncanonical : exists m m',
  parse_header current_dict chat_noncanon = Some m /\ serialize current_dict m = Some chat_noncanon /\
  raw_canonical m = false /\
  parse_body_rest current_dict m = Some (m', []) /\ serialize current_dict m' = Some chat_zc.
Proof.
  eexists. eexists. split; [vm_compute; reflexivity|]. split; [vm_compute; reflexivity|].
  split; [vm_compute; reflexivity|]. split; [vm_compute; reflexivity|]. vm_compute; reflexivity.
Qed.

(* same-message applies to the non-canonical datagram above and to one with trailing junk below *)
Example C02_ex_same_message_hyp : exists m m',
  parse_header current_dict chat_noncanon = Some m /\ parse_body current_dict m = Some m' /\
  recode_within_cap current_dict m' = true.
Proof.
  eexists. eexists. split; [vm_compute; reflexivity|]. split; [vm_compute; reflexivity|]. vm_compute; reflexivity.
Qed.

(* unknown trailing bytes are dropped by a parse (so "consumed exactly" is needed), kept otherwise *)
Definition acks_junk : list N := [0;0;0;0;1;0; 255;255;255;251; 1; 9;0;0;0; 170;187].

Example C02_ex_trailing_junk : exists m m',
  parse_header current_dict acks_junk = Some m /\ serialize current_dict m = Some acks_junk /\
  parse_body_rest current_dict m = Some (m', [170; 187]) /\
  serialize current_dict m' = Some [0;0;0;0;1;0; 255;255;255;251; 1; 9;0;0;0].
Proof.
  eexists. eexists. split; [vm_compute; reflexivity|]. split; [vm_compute; reflexivity|].
  split; [vm_compute; reflexivity|]. vm_compute; reflexivity.
Qed.

(* a truncated body: the parse fails, the message stays forwardable *)
Example C02_ex_failed : exists m,
  parse_header current_dict [0;0;0;0;1;0; 255;255;255;251; 2; 9;0;0;0] = Some m /\
  parse_body current_dict m = None /\ ensure_parsed current_dict m = m /\
  serialize current_dict m = Some [0;0;0;0;1;0; 255;255;255;251; 2; 9;0;0;0].
Proof.
  eexists. split; [vm_compute; reflexivity|]. split; [vm_compute; reflexivity|].
  split; vm_compute; reflexivity.
Qed.

(* text guessing on the defect-#4 payloads *)
Example C02_ex_views :
  let tv := {| vname := I "Message"; vty := TVarlen; vsize := 2; vbin := false; vtext := true |} in
  present utf8_valid tv [97; 98; 99; 0] = PStr [97; 98; 99]
  /\ present utf8_valid tv [97; 98; 99; 0; 0] = PJank [97; 98; 99; 0; 0]
  /\ present utf8_valid tv [255; 0] = PJank [255; 0]
  /\ present utf8_valid tv [97; 98; 99] = PJank [97; 98; 99].
Proof. repeat split. Qed.
