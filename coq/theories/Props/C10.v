(* C10 - Quantised floats / fixed-point fields are bit-exact inverses on the
   wire domain.

   Property theorems only: each is closed by [exact] and followed by
   [Print Assumptions].  Model: Quant/QuantModel.v (PrimFloat).  The list
   [C10_instances] and the facts [C10_all_*] come from gen/C10_gen.v, which the
   translator harness/translate/c10_quant.py regenerates from the live objects
   of the repo on every run: one [quant] record per distinct quantiser instance
   reachable from the message templates, llanim and mesh, the per-instance
   checks evaluated by vm_compute over ALL raws of the instance's 8/16-bit wire
   type (finite domain; the bound [raw_ok] is in every statement), and the
   comparison of the model with the implementation's own decode/encode results.

   PrimFloat/Uint63 are deliberately not imported here so that
   [Print Assumptions] prints the kernel primitives with qualified names. *)
From Coq Require Import ZArith List Bool.
From HV Require Import Quant.QuantModel Quant.QuantProofs.
From HVgen Require Import C10_gen.
Import ListNotations.

(* ---- round trip: decode then encode gives back the raw -------------------
   Full-strength statement (no exclusion):
     forall q, In q C10_instances -> forall r, raw_ok q r -> f2q q (q2f q r) = Some r
   It is FALSE of the code as it is: see C10_roundtrip_refuted below.  Proved
   under exactly the hypothesis excluding the counterexample class,
     rt_excluded q r = is_terot q && (r =? raw_min q)
   i.e. PackedTERotation's raw -32768. *)
Theorem C10_roundtrip : forall q, In q C10_instances ->
  forall r, raw_ok q r -> rt_excluded q r = false -> f2q q (q2f q r) = Some r.
Proof. exact (all_roundtrip C10_instances C10_all_rt). Qed.
Print Assumptions C10_roundtrip.

(* every instance other than PackedTERotation: no exclusion at all *)
Theorem C10_roundtrip_plain : forall q, In q C10_instances -> is_terot q = false ->
  forall r, raw_ok q r -> f2q q (q2f q r) = Some r.
Proof.
  exact (fun q Hin Ht r Hr =>
           all_roundtrip C10_instances C10_all_rt q Hin r Hr (rt_excluded_plain q r Ht)).
Qed.
Print Assumptions C10_roundtrip_plain.

(* hence decoding is injective: distinct raws never decode to the same float
   (bit pattern; the two zero twins differ in sign) *)
Theorem C10_decode_injective : forall q, In q C10_instances ->
  forall r1 r2, raw_ok q r1 -> raw_ok q r2 ->
  rt_excluded q r1 = false -> rt_excluded q r2 = false ->
  q2f q r1 = q2f q r2 -> r1 = r2.
Proof. exact (all_injective C10_instances C10_all_rt). Qed.
Print Assumptions C10_decode_injective.

(* ---- decoding is monotonic in the raw value: IEEE <=, and strictly < except
   for the -0.0 / +0.0 twin of a zero_median range ------------------------- *)
Theorem C10_monotone : forall q, In q C10_instances ->
  forall r, raw_ok q r -> raw_ok q (r + 1) ->
  fle (q2f q r) (q2f q (r + 1)) = true /\
  (flt (q2f q r) (q2f q (r + 1)) = true \/
   (zero_median q = true /\ is_zero (q2f q r) = true /\ is_zero (q2f q (r + 1)) = true)).
Proof. exact (all_monotone C10_instances C10_all_mono). Qed.
Print Assumptions C10_monotone.

(* ---- the ends of the declared range decode exactly (bit pattern) and encode
   back to rmin / rmax.
   Full-strength statement: forall q, In q C10_instances -> endpoints_spec q.
   FALSE for PackedTERotation (C10_terot_upper_refuted); proved for every other
   instance, and the lower end decodes exactly for all of them. *)
Theorem C10_endpoints : forall q, In q C10_instances -> ends_excluded q = false ->
  q2f q (raw_min q) = declared_lower q /\
  q2f q (raw_max q) = declared_upper q /\
  f2q q (declared_lower q) = Some (raw_min q) /\
  f2q q (declared_upper q) = Some (raw_max q).
Proof. exact (all_endpoints C10_instances C10_all_ends). Qed.
Print Assumptions C10_endpoints.

Theorem C10_lower_end : forall q, In q C10_instances ->
  q2f q (raw_min q) = declared_lower q.
Proof. exact (all_lower_end C10_instances C10_all_ends). Qed.
Print Assumptions C10_lower_end.

(* ---- zero of a range centred on zero (lower = -upper): some raw r0 decodes
   to exactly +0.0 and 0.0 encodes to r0; with zero_median the raw below is
   -0.0 and -0.0 encodes back to it.
   Full-strength statement without [zero_excluded] is FALSE for the centred
   QuantizedNumPyArray (C10_numpy_zero_refuted). *)
Theorem C10_zero : forall q, In q C10_instances -> centred q = true -> zero_excluded q = false ->
  exists r0, raw_ok q r0 /\
    q2f q r0 = PrimFloat.zero /\ f2q q PrimFloat.zero = Some r0 /\
    (if zero_median q
     then q2f q (r0 - 1) = PrimFloat.neg_zero /\ f2q q PrimFloat.neg_zero = Some (r0 - 1)%Z
     else f2q q PrimFloat.neg_zero = Some r0).
Proof. exact (all_zero C10_instances C10_all_zero). Qed.
Print Assumptions C10_zero.

(* signed fixed-point fields: the code's range [-2^i, 2^i] is centred *)
Theorem C10_zero_fixed : forall q, In q C10_instances -> centred_fixed q = true ->
  exists r0, zero_spec q r0.
Proof. exact (all_zero_fixed C10_instances C10_all_zero_fixed). Qed.
Print Assumptions C10_zero_fixed.

(* ---- QuantizedTime: range [0, duration], duration taken from the animation
   header at run time.
   Unbounded statement (NOT proved):
     forall d : F32 value, 0 < d < infinity -> qtime_facts (qtime C10_qtime_step d) d
   Proved: exhaustively over all 65536 raws for every duration in the declared
   list [C10_durations] (powers of two, multiples of 1/30 s, the fixture
   animations' durations, extremes of the F32 range, seeded random F32s). *)
Theorem C10_quanttime_roundtrip_partial : forall d, In d C10_durations ->
  (forall r, (0 <= r <= 65535)%Z ->
     f2q (qtime C10_qtime_step d) (q2f (qtime C10_qtime_step d) r) = Some r) /\
  (forall r, (0 <= r < 65535)%Z ->
     fle (q2f (qtime C10_qtime_step d) r) (q2f (qtime C10_qtime_step d) (r + 1)) = true /\
     flt (q2f (qtime C10_qtime_step d) r) (q2f (qtime C10_qtime_step d) (r + 1)) = true) /\
  feq_bits (q2f (qtime C10_qtime_step d) 0) PrimFloat.zero = true /\
  feq_bits (q2f (qtime C10_qtime_step d) 65535) d = true /\
  f2q (qtime C10_qtime_step d) PrimFloat.zero = Some 0%Z /\
  f2q (qtime C10_qtime_step d) d = Some 65535%Z.
Proof. exact (qtime_lift C10_qtime_step C10_durations C10_qtime_all). Qed.
Print Assumptions C10_quanttime_roundtrip_partial.

(* the end-point clauses alone, on the much larger declared list
   [C10_end_durations] (quarter-second grid up to 60 s, 30 fps frame times,
   powers of two across the F32 range, seeded random positive finite F32s) *)
Theorem C10_quanttime_endpoints_partial : forall d, In d C10_end_durations ->
  feq_bits (q2f (qtime C10_qtime_step d) 0) PrimFloat.zero = true /\
  feq_bits (q2f (qtime C10_qtime_step d) 65535) d = true /\
  f2q (qtime C10_qtime_step d) PrimFloat.zero = Some 0%Z /\
  f2q (qtime C10_qtime_step d) d = Some 65535%Z.
Proof. exact (qtime_ends_lift C10_qtime_step C10_end_durations C10_qtime_ends_all). Qed.
Print Assumptions C10_quanttime_endpoints_partial.

(* ---- refutations: the full-strength statements fail on the model of the
   code as it is, with computed witnesses (known findings) ------------------ *)

(* PackedTERotation: raw rmin = -32768 decodes to -2pi, math.fmod folds it to
   -0.0, which re-encodes to 0; the declared upper end 2pi is not the decode of
   rmax, and both declared ends encode to 0 *)
Theorem C10_roundtrip_refuted : forall q, In q C10_terot_instances ->
  In q C10_instances /\ raw_ok q (raw_min q) /\
  f2q q (q2f q (raw_min q)) <> Some (raw_min q) /\
  q2f q (raw_max q) <> declared_upper q /\
  f2q q (declared_lower q) <> Some (raw_min q) /\
  f2q q (declared_upper q) <> Some (raw_max q).
Proof. exact (Forall_In _ _ _ C10_terot_refuted). Qed.
Print Assumptions C10_roundtrip_refuted.

Theorem C10_terot_upper_refuted : forall q, In q C10_terot_any_instances ->
  In q C10_instances /\ q2f q (raw_max q) <> declared_upper q /\
  f2q q (declared_upper q) <> Some (raw_max q).
Proof. exact (Forall_In _ _ _ C10_terot_upper_refuted). Qed.
Print Assumptions C10_terot_upper_refuted.

(* QuantizedNumPyArray(-1, 1) (mesh normals): no raw decodes to zero *)
Theorem C10_numpy_zero_refuted : forall q, In q C10_numpy_centred_instances ->
  In q C10_instances /\ centred q = true /\
  forall r, raw_ok q r -> is_zero (q2f q r) = false.
Proof. exact (Forall_In _ _ _ C10_numpy_zero_refuted). Qed.
Print Assumptions C10_numpy_zero_refuted.

(* observation outside the clauses of C10: FixedPoint.serialize clamps to
   max_val = 1 << int_bits, which does not fit the wire type (struct.error) *)
Theorem C10_fixed_clamp_refuted : forall q, In q C10_fixed_clamp_instances ->
  In q C10_instances /\ match q with QX x => f2q q (clamp_bound x) = None | _ => False end.
Proof. exact (Forall_In _ _ _ C10_fixed_clamp_refuted). Qed.
Print Assumptions C10_fixed_clamp_refuted.

(* ---- non-vacuity: the hypotheses of the theorems above are satisfiable by
   instances actually present in the generated list (concrete numeric examples
   of the model are in Quant/QuantExamples.v) ------------------------------- *)
Example C10_ex_instances : C10_instances <> [] /\ C10_durations <> [] /\ C10_end_durations <> [].
Proof. repeat split; discriminate. Qed.

(* some instance satisfies the hypotheses of C10_zero, with the signed-zero twin *)
Example C10_ex_centred : exists q,
  find (fun q => zero_median q && centred q && negb (zero_excluded q) && negb (ends_excluded q))
       C10_instances = Some q.
Proof. eexists. vm_compute. reflexivity. Qed.

(* some instance is not centred (end points only), some is a fixed-point field *)
Example C10_ex_offcentre : exists q,
  find (fun q => negb (centred q) && negb (ends_excluded q) && negb (centred_fixed q)) C10_instances = Some q.
Proof. eexists. vm_compute. reflexivity. Qed.
Example C10_ex_fixed : exists q, find centred_fixed C10_instances = Some q.
Proof. eexists. vm_compute. reflexivity. Qed.

(* the exceptions are about instances that exist: PackedTERotation and the
   centred QuantizedNumPyArray are in the list *)
Example C10_ex_exceptions : C10_terot_any_instances <> [] /\ C10_numpy_centred_instances <> [].
Proof. split; discriminate. Qed.

(* every raw range is non-empty and the excluded raw is a single one *)
Example C10_ex_raws : forall q, In q C10_instances ->
  raw_ok q (raw_min q) /\ raw_ok q (raw_max q) /\ rt_excluded q (raw_max q) = false.
Proof.
  intros q Hin. unfold C10_instances in Hin. cbn [In] in Hin.
  repeat (destruct Hin as [<- | Hin]; [vm_compute; repeat split; discriminate|]).
  contradiction.
Qed.

(* ---- QuantizedTime, duration-generic: the unbounded statement kept as a
   comment above C10_quanttime_roundtrip_partial, all six clauses.  For EVERY
   binary64 duration d with 2^-1000 <= d <= 2^1000 (IEEE comparisons, so d is
   finite and not nan; QuantTimeGeneric.qtime_dmin = 0x1p-1000, qtime_dmax =
   0x1p1000; the range contains every positive finite F32 value, 2^-149 ..
   (2-2^-23)*2^127, that an animation header can hold) and every raw of the U16
   wire type: decode then encode gives back the raw, decode is strictly
   increasing, raw 0 / 65535 decode to exactly +0.0 / d, and 0.0 / d encode to
   0 / 65535.  Not a sweep: real-number error analysis of the model's
   operations (each correctly rounded, relative error <= 2^-53, no under- or
   overflow in the range; Quant/QuantTime*.v) through Flocq's IEEE754.PrimFloat.
   Unlike the theorems above this one is NOT closed under the global context:
   it rests on the standard library's specification of the primitive float and
   int operations (FloatAxioms, Uint63) and on its real-number axioms; Print
   Assumptions lists them and harness/props/c10.py TRUSTED names them. *)
From HV Require Quant.QuantTimeFacts.
Theorem C10_quanttime_roundtrip_generic : forall d : PrimFloat.float,
  PrimFloat.leb QuantTimeGeneric.qtime_dmin d = true ->
  PrimFloat.leb d QuantTimeGeneric.qtime_dmax = true ->
  (forall r, (0 <= r <= 65535)%Z ->
     f2q (qtime C10_qtime_step d) (q2f (qtime C10_qtime_step d) r) = Some r) /\
  (forall r, (0 <= r < 65535)%Z ->
     fle (q2f (qtime C10_qtime_step d) r) (q2f (qtime C10_qtime_step d) (r + 1)) = true /\
     flt (q2f (qtime C10_qtime_step d) r) (q2f (qtime C10_qtime_step d) (r + 1)) = true) /\
  feq_bits (q2f (qtime C10_qtime_step d) 0) PrimFloat.zero = true /\
  feq_bits (q2f (qtime C10_qtime_step d) 65535) d = true /\
  f2q (qtime C10_qtime_step d) PrimFloat.zero = Some 0%Z /\
  f2q (qtime C10_qtime_step d) d = Some 65535%Z.
Proof. exact QuantTimeFacts.qtime_facts_generic. Qed.
Print Assumptions C10_quanttime_roundtrip_generic.

(* non-vacuity: a duration of the declared list lies in the range *)
Example C10_ex_generic_range : exists d, In d C10_durations /\
  PrimFloat.leb QuantTimeGeneric.qtime_dmin d = true /\
  PrimFloat.leb d QuantTimeGeneric.qtime_dmax = true.
Proof. eexists. split; [left; reflexivity | vm_compute; split; reflexivity]. Qed.
