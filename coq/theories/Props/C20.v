(* C20 - Inventory, asset and transfer codecs round-trip.

   This file holds the machine-checked part (A): chunked file transfer
   (Xfer sender chunking, XferManager._handle_send_xfer_packet,
   TransferManager._handle_transfer_packet, reassemble_chunks), model in
   Asset/Xfer.v, and part (B): the legacy line-oriented schema framing
   (Asset/Schema.v).  The inventory/LLSD/animation/mesh round-trips on the
   real code are an implementation-level oracle (harness/props/c20.py), not
   theorems; see TRUSTED there.

   [m] is MAX_CHUNK_SIZE (read from the code on every run, gen/C20_gen.v
   instantiates the theorems at the live value); the only requirement is
   4 <= m (the 4-byte length hint must fit in packet 0).
   [drawn_from ps l]: every arrival in l is one of the sender's packets ps -
   any order, any duplication, any subset.  Since the sender never numbers a
   packet beyond the end-marked one, this is the assumption "ids beyond the
   EOF id never arrive"; C20_beyond_eof_refuted shows it is needed, and
   C20_recv_done_general needs nothing else (arbitrary data). *)
From Coq Require Import NArith ZArith List Bool Arith.
From HV Require Import Base.Bytes Asset.Xfer Asset.XferProofs Asset.Schema Asset.SchemaProofs Asset.Digits Asset.Record Asset.RecordProofs Asset.Llsd Asset.LlsdProofs Asset.Anim Asset.AnimProofs Asset.MeshLayout Asset.MeshLayoutProofs.
Import ListNotations.
Local Open Scope nat_scope.

(* ---------- sender: chunking ---------- *)

Theorem C20_chunk_concat : forall m d, 0 < m -> concat (chunk m d) = d.
Proof. exact chunk_concat. Qed.
Print Assumptions C20_chunk_concat.

Theorem C20_chunk_sizes : forall m d, 0 < m -> Forall (fun c => 0 < length c <= m) (chunk m d).
Proof. exact chunk_sizes. Qed.
Print Assumptions C20_chunk_sizes.

(* every chunk but the last is exactly m bytes *)
Theorem C20_chunk_full : forall m d pre c post, 0 < m ->
  chunk m d = pre ++ c :: post -> post <> [] -> length c = m.
Proof. exact chunk_full. Qed.
Print Assumptions C20_chunk_full.

(* the sender's packets are numbered 0..n-1 and exactly the last carries EOF *)
Theorem C20_sender_numbering : forall cs,
  map pid (number 0 cs) = seq 0 (length cs) /\ map pdata (number 0 cs) = cs /\
  Forall (fun p => peof p = (S (pid p) =? length cs)) (number 0 cs).
Proof. intros cs. split; [apply number_pid | split; [apply number_pdata | apply (number_eof 0 cs)]]. Qed.
Print Assumptions C20_sender_numbering.

(* ---------- Xfer receiver ---------- *)

(* arrivals drawn from the sender never make the handler raise *)
Theorem C20_xfer_never_raises : forall turbo m payload l, 4 <= m ->
  drawn_from (xfer_packets m payload) l -> exists st, xfer_run turbo l xinit = Some st.
Proof. intros turbo m payload l Hm Hl. destruct (xfer_runs turbo m payload l Hm Hl) as (st & H & _). eauto. Qed.
Print Assumptions C20_xfer_never_raises.

(* done <-> the set of received ids is exactly {0..eof} *)
Theorem C20_xfer_done_iff : forall turbo m payload l st, 4 <= m ->
  drawn_from (xfer_packets m payload) l -> xfer_run turbo l xinit = Some st ->
  (is_done (xcore st) = true <-> forall k, In k (map pid l) <-> k < length (xfer_chunks m payload)).
Proof. exact xfer_done_iff. Qed.
Print Assumptions C20_xfer_done_iff.

(* once done, the reassembled bytes are exactly the payload *)
Theorem C20_xfer_reassemble : forall turbo m payload l st, 4 <= m ->
  drawn_from (xfer_packets m payload) l -> xfer_run turbo l xinit = Some st ->
  is_done (xcore st) = true -> reassemble (xcore st) = payload.
Proof. exact xfer_reassemble. Qed.
Print Assumptions C20_xfer_reassemble.

(* never done while any chunk is missing (l may be any prefix of the arrivals) *)
Theorem C20_xfer_not_done_early : forall turbo m payload l st k, 4 <= m ->
  drawn_from (xfer_packets m payload) l -> xfer_run turbo l xinit = Some st ->
  k < length (xfer_chunks m payload) -> ~ In k (map pid l) -> is_done (xcore st) = false.
Proof. exact xfer_not_done_early. Qed.
Print Assumptions C20_xfer_not_done_early.

(* done is stable and the payload stays intact under any further (re)deliveries *)
Theorem C20_xfer_done_stable : forall turbo m payload l l' st, 4 <= m ->
  drawn_from (xfer_packets m payload) l -> drawn_from (xfer_packets m payload) l' ->
  xfer_run turbo l xinit = Some st -> is_done (xcore st) = true ->
  exists st', xfer_run turbo (l ++ l') xinit = Some st' /\ is_done (xcore st') = true /\
              reassemble (xcore st') = payload.
Proof. exact xfer_done_stable. Qed.
Print Assumptions C20_xfer_done_stable.

(* chunks, expected_chunks and done depend only on the SET of ids received: order and
   duplication (and turbo acking) are irrelevant *)
Theorem C20_xfer_order_dup_irrelevant : forall turbo turbo' m payload l l' st st', 4 <= m ->
  drawn_from (xfer_packets m payload) l -> drawn_from (xfer_packets m payload) l' ->
  (forall k, In k (map pid l) <-> In k (map pid l')) ->
  xfer_run turbo l xinit = Some st -> xfer_run turbo' l' xinit = Some st' -> xcore st = xcore st'.
Proof. exact xfer_order_dup_irrelevant. Qed.
Print Assumptions C20_xfer_order_dup_irrelevant.

(* the S32 size hint decoded from packet 0 *)
Theorem C20_xfer_expected_size : forall turbo m payload l st, 4 <= m ->
  (Z.of_nat (length payload) < 2 ^ 31)%Z ->
  drawn_from (xfer_packets m payload) l -> xfer_run turbo l xinit = Some st -> In 0 (map pid l) ->
  expected_size st = Some (Z.of_nat (length payload)).
Proof. exact xfer_expected_size. Qed.
Print Assumptions C20_xfer_expected_size.

(* ---------- Transfer receiver (the peer chooses the chunking cs) ---------- *)

Theorem C20_transfer_done_iff : forall cs l, cs <> [] -> drawn_from (number 0 cs) l ->
  (is_done (transfer_run l core_init) = true <-> forall k, In k (map pid l) <-> k < length cs).
Proof. exact transfer_done_iff. Qed.
Print Assumptions C20_transfer_done_iff.

Theorem C20_transfer_reassemble : forall cs l, cs <> [] -> drawn_from (number 0 cs) l ->
  is_done (transfer_run l core_init) = true -> reassemble (transfer_run l core_init) = concat cs.
Proof. exact transfer_reassemble. Qed.
Print Assumptions C20_transfer_reassemble.

Theorem C20_transfer_done_stable : forall cs l l', cs <> [] ->
  drawn_from (number 0 cs) l -> drawn_from (number 0 cs) l' ->
  is_done (transfer_run l core_init) = true ->
  is_done (transfer_run (l ++ l') core_init) = true /\
  reassemble (transfer_run (l ++ l') core_init) = concat cs.
Proof. exact transfer_done_stable. Qed.
Print Assumptions C20_transfer_done_stable.

Theorem C20_transfer_order_dup_irrelevant : forall cs l l', cs <> [] ->
  drawn_from (number 0 cs) l -> drawn_from (number 0 cs) l' ->
  (forall k, In k (map pid l) <-> In k (map pid l')) -> transfer_run l core_init = transfer_run l' core_init.
Proof. exact transfer_order_dup_irrelevant. Qed.
Print Assumptions C20_transfer_order_dup_irrelevant.

(* ---------- arbitrary arrivals ---------- *)

(* done can be claimed for any later (re)delivery whatsoever: the flag never resets *)
Theorem C20_done_sticky : forall l c, is_done c = true -> is_done (crun l c) = true.
Proof. exact crun_done_sticky. Qed.
Print Assumptions C20_done_sticky.

(* pigeonhole: when every received id is below e, the dict has e entries iff every id below e arrived *)
Theorem C20_recv_pigeonhole : forall l e, (forall k, In k (ids l) -> k < e) ->
  (length (chunks (crun l core_init)) = e <-> forall k, k < e -> In k (ids l)).
Proof. exact crun_pigeonhole. Qed.
Print Assumptions C20_recv_pigeonhole.

(* arrivals with ARBITRARY data and duplication (not necessarily the sender's bytes), both receivers
   (view = xview or tview): if no id beyond the end-marked id e-1 arrives and only that id is flagged,
   done <-> the end mark arrived and every id 0..e-1 arrived *)
Theorem C20_recv_done_general : forall (view : packet -> nat * bool * list N) l e,
  (forall p, tid (view p) = pid p) -> (forall p, teof (view p) = peof p) ->
  (forall p, In p l -> pid p < e /\ (peof p = true -> S (pid p) = e)) ->
  (is_done (crun (map view l) core_init) = true <->
     existsb peof l = true /\ forall k, k < e -> In k (map pid l)).
Proof. exact recv_done_general. Qed.
Print Assumptions C20_recv_done_general.

(* the assumption is needed: with an id beyond the end mark the receiver (current code, both
   managers) declares done although chunk 1 never arrived.
   Full-strength statement that is therefore FALSE for unrestricted arrivals:
     forall l, is_done (transfer_run l core_init) = true -> forall k, k < e -> In k (map pid l) *)
Theorem C20_beyond_eof_refuted :
  exists l, is_done (transfer_run l core_init) = true /\
            expected_chunks (transfer_run l core_init) = Some 3 /\ ~ In 1 (map pid l).
Proof.
  exists [mkPacket 0 false [1%N]; mkPacket 2 true [3%N]; mkPacket 7 false [9%N]].
  vm_compute. repeat split; try reflexivity. intuition discriminate.
Qed.
Print Assumptions C20_beyond_eof_refuted.

(* ---------- non-vacuity ---------- *)

(* 7-byte payload, m = 5: prefix 07 00 00 00 + payload = 11 bytes -> chunks of 5,5,1; arrival order
   2,0,0,2,1 with duplicates: not done before packet 1, done after, payload intact *)
Example C20_ex_xfer :
  let payload := [10; 11; 12; 13; 14; 15; 16]%N in
  let ps := xfer_packets 5 payload in
  let nth_p i := nth i ps (mkPacket 0 false []) in
  let l := [nth_p 2; nth_p 0; nth_p 0; nth_p 2] in
  map pdata ps = [[7; 0; 0; 0; 10]; [11; 12; 13; 14; 15]; [16]]%N /\
  map peof ps = [false; false; true] /\
  drawn_from ps (l ++ [nth_p 1]) /\
  option_map (fun st => is_done (xcore st)) (xfer_run false l xinit) = Some false /\
  option_map (fun st => (is_done (xcore st), reassemble (xcore st), expected_size st, acks st))
             (xfer_run false (l ++ [nth_p 1]) xinit)
    = Some (true, payload, Some 7%Z, [2; 0; 0; 2; 1]).
Proof.
  cbv zeta. split; [vm_compute; reflexivity|]. split; [vm_compute; reflexivity|].
  split; [|split; vm_compute; reflexivity].
  vm_compute. repeat (apply Forall_cons; [cbn; tauto|]). apply Forall_nil.
Qed.

Example C20_ex_short_packet0 : xfer_run false [mkPacket 0 true [1; 2; 3]%N] xinit = None.
Proof. reflexivity. Qed.

Example C20_ex_transfer :
  let cs := [[1; 2]; [3]; [4; 5; 6]]%N in
  let ps := number 0 cs in
  let nth_p i := nth i ps (mkPacket 0 false []) in
  is_done (transfer_run [nth_p 2; nth_p 1; nth_p 2] core_init) = false /\
  is_done (transfer_run [nth_p 2; nth_p 1; nth_p 2; nth_p 0] core_init) = true /\
  reassemble (transfer_run [nth_p 2; nth_p 1; nth_p 2; nth_p 0] core_init) = [1; 2; 3; 4; 5; 6]%N.
Proof. vm_compute. repeat split; reflexivity. Qed.

(* ====================================================================================== *)
(* (B) legacy line-oriented schema: the line framing (Asset/Schema.v).
   PROVED here: field lines, blocks and multi-line strings survive to_writer -> _yield_schema_tokens
   under the stated domains (key_ok / val_ok / mstr_ok say exactly what the token regex and strip()
   force).  Typed fields and whole records: see the second half of this part (Asset/Record.v). *)

(* one field line: strip + token regex give back exactly (key, value) *)
Theorem C20_schema_field_line : forall k v, key_ok k = true -> val_ok v = true ->
  parse_stripped (strip (render_field (k, v))) = Some (k, Some v).
Proof. intros k v Hk Hv. rewrite (strip_render_field k v Hk Hv). exact (parse_field k v Hk Hv). Qed.
Print Assumptions C20_schema_field_line.

(* a block written by to_writer is read back as its fields, in order, and the reader is left right
   behind the closing brace: nested and consecutive blocks compose through [rest] *)
Theorem C20_schema_block : forall fields rest,
  Forall (fun kv => key_ok (fst kv) = true /\ val_ok (snd kv) = true) fields ->
  read_block (render_block fields ++ rest) = (map (fun kv => (fst kv, Some (snd kv))) fields, rest).
Proof. exact read_render_block. Qed.
Print Assumptions C20_schema_block.

Theorem C20_schema_blank_lines : forall l rest, strip l = [] -> read_block (l :: rest) = read_block rest.
Proof. exact read_block_blank. Qed.
Print Assumptions C20_schema_blank_lines.

(* SchemaMultilineStr: serialize appends the terminator, deserialize cuts at the first one *)
Theorem C20_schema_multiline_str : forall s, mstr_ok s = true ->
  val_ok (mstr_serialize s) = true /\ mstr_deserialize (mstr_serialize s) = s.
Proof.
  intros s H. split; [now apply mstr_val_ok|]. apply mstr_roundtrip.
  unfold mstr_ok in H. apply andb_prop in H as [H _]. apply andb_prop in H as [_ H]. now apply negb_true_iff.
Qed.
Print Assumptions C20_schema_multiline_str.

(* the domains are needed: a leading space in a value, or a '|' in a multi-line string, is lost *)
Theorem C20_schema_dom_refuted :
  parse_stripped (strip (render_field ([110%N], [32%N; 97%N]))) = Some ([110%N], Some [97%N]) /\
  mstr_deserialize (mstr_serialize [97; 124; 98]%N) = [97]%N.
Proof. vm_compute. split; reflexivity. Qed.
Print Assumptions C20_schema_dom_refuted.

Example C20_ex_schema :
  (* "name" / "New Script |"  and  "sale_price" / "10" *)
  let f1 := ([110; 97; 109; 101], mstr_serialize [78; 101; 119; 32; 83; 99; 114; 105; 112; 116; 32])%N in
  let f2 := ([115; 97; 108; 101; 95; 112; 114; 105; 99; 101], [49; 48])%N in
  key_ok (fst f1) = true /\ val_ok (snd f1) = true /\ key_ok (fst f2) = true /\ val_ok (snd f2) = true /\
  read_block (render_block [f1; f2] ++ [[9; 9; 120; 9; 121]%N])
    = ([(fst f1, Some (snd f1)); (fst f2, Some (snd f2))], [[9; 9; 120; 9; 121]%N]).
Proof. vm_compute. repeat split; reflexivity. Qed.

(* ====================================================================================== *)
(* (B, continued) typed fields and records (Asset/Digits.v, Asset/Record.v).
   PROVED: the digit conversions behind str(int) / int(), "%08x" / int(.,16), str(UUID) / UUID(); every
   field kind's deserialize(serialize v) = v inside its domain; the generic record round-trip through
   to_writer -> from_reader for ANY well-formed schema of these kinds (primitive fields and one level of
   nested blocks, optional fields omitted when None, include_none LLSD, llsd_only fields), instantiated at
   the live dataclass schemas by gen/C20_records.v (wf_schema = true by vm_compute on every run).
   ORACLE (not proved): llsd.format_xml/parse_xml for embedded LLSD (the model carries its XML text),
   calendar.timegm/utcfromtimestamp for dates (the model carries POSIX seconds), uuid.UUID/int() accepting
   more spellings than the canonical ones written. *)

Theorem C20_int_text : forall z, int_of_text (int_to_text z) = Some z /\ val_ok (int_to_text z) = true.
Proof. intros z. split; [apply int_roundtrip | apply int_text_ok]. Qed.
Print Assumptions C20_int_text.

Theorem C20_hex_text : forall n, hex_of_text (hex8_to_text n) = Some n /\ val_ok (hex8_to_text n) = true.
Proof. intros n. split; [apply hex8_roundtrip | apply hex8_text_ok]. Qed.
Print Assumptions C20_hex_text.

Theorem C20_uuid_text : forall u, (u < 2 ^ 128)%N ->
  uuid_of_text (uuid_to_text u) = Some u /\ length (uuid_to_text u) = 36 /\ val_ok (uuid_to_text u) = true.
Proof. intros u H. split; [now apply uuid_roundtrip | split; [apply uuid_text_length | apply uuid_text_ok]]. Qed.
Print Assumptions C20_uuid_text.

(* every field kind: the text written is an acceptable schema value and reads back as the value *)
Theorem C20_field_kind : forall k v, dom_prim k v = true ->
  val_ok (ser k v) = true /\ deser k (Some (ser k v)) = Some (Some v).
Proof. intros k v H. split; [now apply ser_ok | now apply deser_ser]. Qed.
Print Assumptions C20_field_kind.

(* the record round-trip, for every well-formed schema and every record in its domain; [tail] = whatever
   follows in the reader (the next node, an enclosing block) - it is left untouched *)
Theorem C20_record_roundtrip : forall name S r tail, wf_schema S = true -> dom S r = true ->
  from_lines S (skipn 1 (to_lines name S r) ++ tail) = Some (r, tail).
Proof. exact record_roundtrip. Qed.
Print Assumptions C20_record_roundtrip.

(* ... and the first line written is the token (SCHEMA_NAME, "0") the enclosing reader dispatches on *)
Theorem C20_record_header_token : forall name, key_ok name = true ->
  exists l rest, header name = l :: rest /\
    exists c s, strip l = c :: s /\ parse_stripped (c :: s) = Some (name, Some [ZERO]).
Proof. exact header_token. Qed.
Print Assumptions C20_record_header_token.

(* lookup-name enums: what the generated vm_compute obligation on the live tables means *)
Theorem C20_enum_tables : forall members exc to_tbl from_tbl, enum_rt_all members exc to_tbl from_tbl = true ->
  (forall e, In e members -> ~ In e exc -> exists s, assoc_z to_tbl e = Some s /\ assoc_s from_tbl s = Some e) /\
  (forall e, In e exc -> ~ exists s, assoc_z to_tbl e = Some s /\ assoc_s from_tbl s = Some e).
Proof. exact enum_rt_all_spec. Qed.
Print Assumptions C20_enum_tables.

(* non-vacuity: a schema with every kind, a nested block, an omitted optional field, an include_none LLSD
   field that is None and an llsd_only field; and the domain is needed (a name with a leading blank changes) *)
Definition ex_undef : str := [60; 117; 47; 62]%N.
Definition ex_enum_to : list (Z * str) := [(0%Z, [110; 111; 116]); (1%Z, [111; 114; 105; 103])]%N.
Definition ex_enum_from : list (str * Z) := [([110; 111; 116], 0%Z); ([111; 114; 105; 103], 1%Z)]%N.
Definition ex_schema : schema := [
  mkF [105; 100]%N (FP KUUID) None false false;
  mkF [112]%N (FB [112]%N [mkPF [109]%N KHex None false false; mkPF [103]%N KInt (Some None) false true]) None false false;
  mkF [116]%N (FP (KEnum ex_enum_to ex_enum_from)) (Some None) false false;
  mkF [110]%N (FP KMStr) (Some None) false false;
  mkF [100]%N (FP KDate) (Some None) false false;
  mkF [120]%N (FP (KLLSD ex_undef)) (Some None) true false;
  mkF [118]%N (FP KInt) (Some (Some (P (VZ (-1))))) false true ].
Definition ex_record : record := [
  Some (P (VN 255)); Some (R [Some (VN 581632); None]); Some (P (VZ 1)); Some (P (VS [78; 32; 120; 32]%N)); None; None;
  Some (P (VZ (-1))) ].

Example C20_ex_record :
  wf_schema ex_schema = true /\ dom ex_schema ex_record = true /\
  length (to_lines [105]%N ex_schema ex_record) = 12 /\
  from_lines ex_schema (skipn 1 (to_lines [105]%N ex_schema ex_record) ++ [[9; 120]%N]) = Some (ex_record, [[9; 120]%N]).
Proof. vm_compute. repeat split; reflexivity. Qed.

Theorem C20_record_dom_refuted :
  let r := [Some (P (VN 255)); Some (R [Some (VN 1); None]); None; Some (P (VS [32; 120]%N)); None; None; Some (P (VZ (-1)))] in
  dom ex_schema r = false /\
  option_map fst (from_lines ex_schema (skipn 1 (to_lines [105]%N ex_schema r))) <> Some r.
Proof. vm_compute. split; [reflexivity | discriminate]. Qed.
Print Assumptions C20_record_dom_refuted.

(* ====================================================================================== *)
(* (3) the LLSD flavours of the schema records (Asset/Llsd.v): SchemaBase.to_llsd / from_llsd with the key
   renaming of the flavour (generated key tables, gen/C20_llsd.v) and the per-kind value conversions
   (flags as 4 big-endian bytes in the legacy flavour, enums by lookup name in legacy / by value in AIS).
   The AIS overrides of InventoryCategory / InventoryItem (type dropped, agent_id, links) are NOT modelled. *)

Theorem C20_llsd_value : forall fl k v, dom_l fl k v = true -> back fl k (conv fl k v) = Some v.
Proof. exact back_conv. Qed.
Print Assumptions C20_llsd_value.

(* per-node dict round-trip, both flavours, any key table with distinct keys; [extra] = entries under keys the
   class does not know (ignored by the reader) *)
Theorem C20_llsd_roundtrip : forall fl S r extra, wf_keys S = true -> dom_llsd fl S r = true ->
  Forall (fun kv => find_field S (fst kv) = None) extra ->
  from_llsd fl S (to_llsd fl S r ++ extra) = Some r.
Proof. exact llsd_roundtrip. Qed.
Print Assumptions C20_llsd_roundtrip.

Example C20_ex_llsd :
  let S := [ mkF [105; 100]%N (FP KUUID) None false false;
             mkF [102]%N (FP KFlag) (Some None) false false;
             mkF [116]%N (FP (KEnum ex_enum_to ex_enum_from)) (Some None) false false;
             mkF [112]%N (FB [112]%N [mkPF [109]%N KHex None false false]) (Some None) false false ] in
  let r := [Some (P (VN 7)); Some (P (VN 2147483648)); Some (P (VZ 1)); Some (R [Some (VN 9)])] in
  wf_keys S = true /\ dom_llsd Legacy S r = true /\ dom_llsd Ais S r = true /\
  to_llsd Legacy S r = [([105; 100]%N, LP (LU 7)); ([102]%N, LP (LB [128; 0; 0; 0]%N));
                        ([116]%N, LP (LS [111; 114; 105; 103]%N)); ([112]%N, LM [([109]%N, LI 9)])] /\
  to_llsd Ais S r = [([105; 100]%N, LP (LU 7)); ([102]%N, LP (LI 2147483648));
                     ([116]%N, LP (LI 1)); ([112]%N, LM [([109]%N, LI 9)])] /\
  from_llsd Ais S (to_llsd Ais S r ++ [([122]%N, LP (LI 5))]) = Some r.
Proof. vm_compute. repeat split; reflexivity. Qed.


Local Open Scope N_scope.

(* ====================================================================================== *)
(* (4) animation assets (Asset/Anim.v): llanim.Animation.to_bytes / from_bytes at the raw level - floats are their
   32-bit patterns, quantised keyframe numbers their wire integers (the float/quantiser layer is C10), strings their
   UTF-8 bytes.  [wf_anim] is decidable (a bool) and says: integers in the range of their wire type, raw floats below
   2^32, names valid UTF-8 without NUL, fixed strings valid UTF-8 of at most 16 bytes not ending in NUL, at most
   2^32-1 joints / 2^31-1 keyframes and constraints, keyframes only under a known version (0.1 or 1.0) with numbers
   of that version's width.  Tied to the real code by the "animation" correspondence suite. *)

(* serialise-then-parse gives the same animation, for both versions, any number of joints/keys/constraints,
   consuming exactly the bytes written (whatever follows them in the buffer is left) *)
Theorem C20_anim_roundtrip : forall a, wf_anim a = true ->
  exists bs, write_anim a = Some bs /\ parse_anim bs = Some (a, []) /\
             forall rest, parse_anim (bs ++ rest) = Some (a, rest).
Proof. exact anim_rt. Qed.
Print Assumptions C20_anim_roundtrip.

(* the byte-count test in the model of `for _ in range(count)` only anticipates the ValueError of the first short
   read: the literal loop fails as well, because every entry reader consumes at least one byte *)
Theorem C20_anim_count_guard :
  (forall ow, ow_pos ow -> consumes (rd_key ow)) /\ (forall ow, ow_pos ow -> consumes (rd_joint ow)) /\ consumes rd_constr /\
  (forall (A : Type) (p : Anim.bytes -> option (A * Anim.bytes)) count bs, consumes p ->
     (Z.of_nat (length bs) < count)%Z -> rd_rep p (Z.to_nat count) bs = None).
Proof.
  destruct anim_guards_faithful as (H1 & H2 & H3). repeat split; try assumption.
  intros A p count bs. apply rd_counted_guard.
Qed.
Print Assumptions C20_anim_count_guard.

Definition ex_key16 : Anim.key := mkKey 0 32767 65535 1.
Definition ex_key32 : Anim.key := mkKey 1056964608 0 2147483648 1065353216.
Definition ex_constr : constr :=
  mkConstr 3 1 [109; 80; 101; 108; 118; 105; 115] (0, 1065353216, 3212836864)
           [195; 169; 120; 120; 120; 120; 120; 120; 120; 120; 120; 120; 120; 120; 120; 120] (0, 0, 0) (1, 2, 3) 0 1 2 3.
Definition ex_anim10 : anim :=
  mkAnim 1 0 4 1070141403 [228; 184; 173] 0 1065353216 1 1056964608 1056964608 1
         [mkJoint [109; 78; 101; 99; 107] (-1) [ex_key16; ex_key16] []; mkJoint [109; 78; 101; 99; 107] 2147483647 [] [ex_key16]]
         [ex_constr].
Definition ex_anim01 : anim :=
  mkAnim 0 1 (-2147483648) 1070141403 [] 0 1065353216 0 0 0 4294967295
         [mkJoint [] 0 [ex_key32] [ex_key32; ex_key32]] [].
(* an unknown version is fine as long as no keyframe has to be written *)
Definition ex_anim25 : anim := mkAnim 2 5 0 0 [] 0 0 0 0 0 0 [mkJoint [97] 0 [] []] [ex_constr].

Example C20_ex_anim :
  wf_anim ex_anim10 = true /\ wf_anim ex_anim01 = true /\ wf_anim ex_anim25 = true /\
  option_map (@length N) (write_anim ex_anim10) = Some 194%nat /\
  match write_anim ex_anim10 with Some bs => parse_anim (bs ++ [1; 2; 3]%N) | None => None end = Some (ex_anim10, [1; 2; 3]%N) /\
  (* parsing is not injective: a negative count reads as the empty list, a missing final NUL at EOF is accepted *)
  parse_anim [1; 0; 0; 0; 0; 0; 0; 0; 0; 0; 0; 0; 0; 0; 0; 0; 0; 0; 0; 0; 0; 0; 0; 0; 0; 0; 0; 0; 0; 0; 0; 0; 0;
              0; 0; 0; 0; 0; 0; 0; 0; 255; 255; 255; 255; 9]%N
    = Some (mkAnim 1 0 0 0 [] 0 0 0 0 0 0 [] [], [9]%N).
Proof.
  vm_compute. repeat split; reflexivity.
Qed.

(* every clause of wf_anim is needed: dropping it makes the round trip fail on the value shown *)
Definition with_emote (e : Anim.bytes) : anim := mkAnim 1 0 0 0 e 0 0 0 0 0 0 [] [].
Definition with_vol (v : Anim.bytes) : anim :=
  mkAnim 1 0 0 0 [] 0 0 0 0 0 0 [] [mkConstr 0 0 v (0, 0, 0) [] (0, 0, 0) (0, 0, 0) 0 0 0 0].
Definition rt_fails (a : anim) : Prop :=
  match write_anim a with
  | None => True
  | Some bs => parse_anim bs <> Some (a, [])
  end.

Theorem C20_anim_wf_refuted :
  (* a NUL inside a name ends it early *)
  rt_fails (with_emote [97; 0; 98]%N) /\
  (* bytes that are not UTF-8 are written but not read back (no Python str encodes to them) *)
  rt_fails (with_emote [195]%N) /\ rt_fails (with_emote [237; 160; 128]%N) /\
  (* fixed-width strings: a trailing NUL is stripped as padding; 17 bytes do not fit *)
  rt_fails (with_vol [97; 0]%N) /\ rt_fails (with_vol (repeat 97 17%nat)) /\
  (* integers outside their wire type *)
  rt_fails (mkAnim 1 0 2147483648 0 [] 0 0 0 0 0 0 [] []) /\ rt_fails (mkAnim 65536 0 0 0 [] 0 0 0 0 0 0 [] []) /\
  rt_fails (mkAnim 1 0 0 4294967296 [] 0 0 0 0 0 0 [] []) /\
  (* a keyframe number wider than the version's format; a keyframe under an unknown version *)
  rt_fails (mkAnim 1 0 0 0 [] 0 0 0 0 0 0 [mkJoint [] 0 [mkKey 65536 0 0 0] []] []) /\
  rt_fails (mkAnim 2 0 0 0 [] 0 0 0 0 0 0 [mkJoint [] 0 [] [mkKey 0 0 0 0]] []) /\
  (* a number that is not a byte inside a string is written as it is: the output is not a byte string *)
  option_map bytes_okb (write_anim (with_emote [256]%N)) = Some false /\
  (* and each of these values is outside wf_anim *)
  forallb (fun a => negb (wf_anim a))
    [with_emote [97; 0; 98]%N; with_emote [195]%N; with_emote [237; 160; 128]%N; with_vol [97; 0]%N; with_vol (repeat 97 17%nat);
     mkAnim 1 0 2147483648 0 [] 0 0 0 0 0 0 [] []; mkAnim 65536 0 0 0 [] 0 0 0 0 0 0 [] [];
     mkAnim 1 0 0 4294967296 [] 0 0 0 0 0 0 [] []; mkAnim 1 0 0 0 [] 0 0 0 0 0 0 [mkJoint [] 0 [mkKey 65536 0 0 0] []] [];
     mkAnim 2 0 0 0 [] 0 0 0 0 0 0 [mkJoint [] 0 [] [mkKey 0 0 0 0]] []; with_emote [256]%N] = true.
Proof.
  unfold rt_fails. vm_compute. repeat split; try reflexivity; try exact I; discriminate.
Qed.
Print Assumptions C20_anim_wf_refuted.

(* the remaining clause (collection sizes) cannot be shown by a computed witness of 2^31 elements; it is the
   writer's own check `max_len < len(entries)` *)
Theorem C20_anim_too_long_refused : forall (A : Type) signed (w : A -> option Anim.bytes) l,
  len_ok signed l = false -> wr_coll signed w l = None.
Proof. exact @wr_coll_too_long. Qed.
Print Assumptions C20_anim_too_long_refused.

(* every value Animation.from_bytes can return lies in wf_anim: the domain of the round-trip theorem is exactly the
   image of the parser (on byte strings shorter than 2^31), so no clause of wf_anim excludes a parseable animation *)
Theorem C20_anim_parse_wf : forall bs a r, bytes_okb bs = true -> short bs -> parse_anim bs = Some (a, r) ->
  wf_anim a = true /\ bytes_okb r = true /\ (length r <= length bs)%nat.
Proof. exact parse_anim_wf. Qed.
Print Assumptions C20_anim_parse_wf.

(* parse, serialise, parse again: the same animation (the from-bytes form of the property; parsing itself is not
   injective - negative counts, a missing last NUL, NUL padding - so the bytes may differ, the value does not) *)
Theorem C20_anim_reparse : forall bs a r, bytes_okb bs = true -> short bs -> parse_anim bs = Some (a, r) ->
  exists bs', write_anim a = Some bs' /\ parse_anim (bs' ++ r) = Some (a, r).
Proof. exact anim_reparse. Qed.
Print Assumptions C20_anim_reparse.

(* ====================================================================================== *)
(* (5) the mesh asset container (Asset/MeshLayout.v): LLMeshSerializer.serialize / deserialize.  Oracles (premises of
   the theorems, exercised by the "mesh container" correspondence suite through the real functions): the header
   codec (binary LLSD: [dec_hdr (enc_hdr h ++ rest) = Some (h, rest)], proved for the LLSD model in C12), zip_llsd /
   unzip_llsd with the per-segment templates ([inflate k (deflate k s) = IOk s]).  Keys of a dict are distinct
   ([NoDup (hkeys ...)]).  [allow] = allow_invalid_segments. *)

(* the order in which segments are written: a permutation of the header keys, ordered by KNOWN_SEGMENTS rank,
   keys of equal rank (all unknown names) in header order *)
Theorem C20_mesh_order : forall rk l,
  Permutation.Permutation (sort_keys rk l) l /\ sorted_by rk (sort_keys rk l) /\
  forall r, filter (fun x => N.eqb (rk x) r) (sort_keys rk l) = filter (fun x => N.eqb (rk x) r) l.
Proof. intros rk l. split; [apply sort_keys_perm | split; [apply sort_keys_sorted | intros r; apply sort_keys_stable]]. Qed.
Print Assumptions C20_mesh_order.

(* the written table: the body is the concatenation of the blobs in that order; every written blob's header entry
   carries offset = total size of the blobs before it and size = its length (running sums: no gap, no overlap, the
   last one ends at the end of the body), keeps its other entries; non-segment entries and the key order are
   untouched; cutting [front ++ body] at (|front| + offset, size) returns exactly the blob *)
Theorem C20_mesh_slices : forall (X S : Type) rk (deflate : MeshLayout.key -> S -> MeshLayout.bytes) allow (m : mesh X S) h' body,
  NoDup (hkeys X (m_header m)) ->
  write_layout rk deflate allow m = Some (h', body) ->
  exists bl,
    blobs_of X S deflate allow m (m_header m) (sort_keys rk (hkeys X (m_header m))) = Some bl /\
    body = concat (map snd bl) /\
    hkeys X h' = hkeys X (m_header m) /\
    (forall k, segk X (m_header m) k = false -> lookup k h' = lookup k (m_header m)) /\
    (forall pre k b post, bl = pre ++ (k, b) :: post ->
       (exists v, seg_value m k = Some v /\ b = blob_of deflate k v) /\
       (exists o s e, lookup k (m_header m) = Some (HSeg o s e) /\
                      lookup k h' = Some (HSeg (Z.of_nat (total pre)) (Z.of_nat (length b)) e)) /\
       (forall front, slice (front ++ body) (Z.of_nat (length front) + Z.of_nat (total pre)) (Z.of_nat (length b)) = b)).
Proof. exact mesh_slices. Qed.
Print Assumptions C20_mesh_slices.

(* parse (serialize m) with the default flags, any header (unknown keys, extra entries, any order), segments given as
   trees or bytes or through raw_segments: the rewritten header (equal to the old one up to offset/size) and every
   written blob inflated, in header order; the parse fails exactly when a blob does not inflate *)
Theorem C20_mesh_roundtrip_general : forall (X S : Type) rk deflate inflate enc_hdr dec_hdr,
  (forall (h : mheader X) rest, dec_hdr (enc_hdr h ++ rest) = Some (h, rest)) ->
  forall (m : mesh X S) incl bs, NoDup (hkeys X (m_header m)) ->
  write_mesh rk deflate enc_hdr false m = Some bs ->
  exists h' body bl,
    write_layout rk deflate false m = Some (h', body) /\ bs = enc_hdr h' ++ body /\
    blobs_of X S deflate false m (m_header m) (sort_keys rk (hkeys X (m_header m))) = Some bl /\
    strip_layout h' = strip_layout (m_header m) /\
    parse_mesh inflate dec_hdr false incl bs =
    match inflate_all S inflate (seg_entries X (m_header m)) bl with
    | None => None
    | Some (sg, rw) => Some (mkParsed h' sg (if incl then rw else []))
    end.
Proof. exact mesh_rt. Qed.
Print Assumptions C20_mesh_roundtrip_general.

(* an asset whose segments are decoded trees (no raw_segments) comes back with the same header up to the layout fields
   and the same segment under every segment-header key *)
Theorem C20_mesh_roundtrip : forall (X S : Type) rk deflate inflate enc_hdr dec_hdr,
  (forall (h : mheader X) rest, dec_hdr (enc_hdr h ++ rest) = Some (h, rest)) ->
  (forall k (s : S), inflate k (deflate k s) = IOk s) ->
  forall (m : mesh X S) incl bs, NoDup (hkeys X (m_header m)) -> decoded X S m ->
  write_mesh rk deflate enc_hdr false m = Some bs ->
  exists p,
    parse_mesh inflate dec_hdr false incl bs = Some p /\
    strip_layout (p_header p) = strip_layout (m_header m) /\
    hkeys X (p_header p) = hkeys X (m_header m) /\
    map fst (p_segments p) = seg_entries X (m_header m) /\
    (forall k s, segk X (m_header m) k = true -> lookup k (m_segments m) = Some (SParsed s) -> lookup k (p_segments p) = Some s) /\
    (if incl then map fst (p_raw p) = seg_entries X (m_header m) else p_raw p = []).
Proof. exact mesh_rt_decoded. Qed.
Print Assumptions C20_mesh_roundtrip.

(* second generation: serialising the asset a parse gave back yields the same bytes again (header included) *)
Theorem C20_mesh_fixed_point : forall (X S : Type) rk deflate inflate enc_hdr dec_hdr,
  (forall (h : mheader X) rest, dec_hdr (enc_hdr h ++ rest) = Some (h, rest)) ->
  (forall k (s : S), inflate k (deflate k s) = IOk s) ->
  forall (m : mesh X S) incl bs, NoDup (hkeys X (m_header m)) -> decoded X S m ->
  write_mesh rk deflate enc_hdr false m = Some bs ->
  exists p, parse_mesh inflate dec_hdr false incl bs = Some p /\
            write_mesh rk deflate enc_hdr false (mesh_of_parsed p) = Some bs.
Proof. exact mesh_fixed_point. Qed.
Print Assumptions C20_mesh_fixed_point.

(* the hypotheses are satisfiable: a concrete header codec and blob codec satisfy both laws, and a mesh with known
   segments out of order, an unknown segment, stale offsets, an extra entry inside a segment header and non-segment
   entries goes through write and parse *)
Definition ex_mesh : mesh N MeshLayout.bytes :=
  mkMesh [ ([118]%N, HOther 1%N);
           ([115; 107; 105; 110]%N, HSeg 77 5 9%N);                         (* skin, stale offset/size, extra 9 *)
           ([122]%N, HSeg 0 0 0%N);                                         (* unknown segment "z" *)
           ([104; 105; 103; 104; 95; 108; 111; 100]%N, HSeg (-3) 0 0%N);    (* high_lod *)
           ([99]%N, HOther 2%N) ]
         [ ([122]%N, SParsed [1; 2; 3]%N); ([115; 107; 105; 110]%N, SParsed []%N);
           ([104; 105; 103; 104; 95; 108; 111; 100]%N, SParsed [7; 7]%N) ]
         [].

Example C20_ex_mesh :
  (forall h rest, toy_dec (toy_enc h ++ rest) = Some (h, rest)) /\
  (forall k s, toy_inflate k (toy_deflate k s) = IOk s) /\
  NoDup (hkeys N (m_header ex_mesh)) /\ decoded N MeshLayout.bytes ex_mesh /\
  write_layout (rank known_segments) toy_deflate false ex_mesh =
    Some ([ ([118]%N, HOther 1%N); ([115; 107; 105; 110]%N, HSeg 3 1 9%N); ([122]%N, HSeg 4 4 0%N);
            ([104; 105; 103; 104; 95; 108; 111; 100]%N, HSeg 0 3 0%N); ([99]%N, HOther 2%N) ],
          [120; 7; 7; 120; 120; 1; 2; 3]%N) /\
  (match write_mesh (rank known_segments) toy_deflate toy_enc false ex_mesh with
   | Some bs => option_map (fun p => (p_segments p, p_raw p)) (parse_mesh toy_inflate toy_dec false true bs)
   | None => None
   end =
     Some ([ ([115; 107; 105; 110]%N, []%N); ([122]%N, [1; 2; 3]%N); ([104; 105; 103; 104; 95; 108; 111; 100]%N, [7; 7]%N) ],
           [ ([115; 107; 105; 110]%N, [120]%N); ([122]%N, [120; 1; 2; 3]%N);
             ([104; 105; 103; 104; 95; 108; 111; 100]%N, [120; 7; 7]%N) ])).
Proof.
  split; [exact toy_dec_enc|]. split; [exact toy_inflate_deflate|]. split.
  { cbn. repeat constructor; cbn; intuition discriminate. }
  split.
  { split; [reflexivity|]. cbn. repeat constructor; eexists; reflexivity. }
  split; vm_compute; reflexivity.
Qed.

(* what the container does NOT give back: a segment whose header entry is not a segment header is silently left out
   by the writer (no error), so it is missing after the round trip; and with allow_invalid_segments the header of a
   missing segment keeps its stale offset *)
Theorem C20_mesh_non_header_segment_refuted :
  let m := mkMesh [([115]%N, HOther 5%N)] [([115]%N, SParsed [1]%N)] [] in
  write_layout (rank known_segments) toy_deflate false m = Some ([([115]%N, HOther 5%N)], []) /\
  write_layout (rank known_segments) toy_deflate true (mkMesh [([115]%N, HSeg 42 7 0%N)] ([] : list (MeshLayout.key * segval MeshLayout.bytes)) [])
    = Some ([([115]%N, HSeg 42 7 0%N)], []) /\
  write_layout (rank known_segments) toy_deflate false (mkMesh [([115]%N, HSeg 42 7 0%N)] ([] : list (MeshLayout.key * segval MeshLayout.bytes)) []) = None.
Proof. vm_compute. repeat split; reflexivity. Qed.
Print Assumptions C20_mesh_non_header_segment_refuted.

(* ====================================================================================== *)
(* (B8) whole inventory models (Asset/InvModel.v): InventoryModel's node store, add(), to_writer/from_reader,
   to_llsd/from_llsd for both flavours (a flat list of per-node dicts; the AIS overrides of InventoryCategory and
   InventoryItem included) and __eq__ (the SET of nodes).  A node is (class index in INVENTORY_TYPES order, field values
   in dataclasses.fields order); [T] is the class table (gen/C20_invmodel.v instantiates everything at the live one,
   wf_table = true by vm_compute).  Hypotheses, all decidable:
     wf_table_*      of the table: per-class schemas well-formed, header tokens / id keys distinct, field orders are
                     permutations, the override's keys distinct from each other and from the id key;
     node_ok_*       per node: the per-record domain of the flavour (Record.dom / Llsd.dom_llsd); for AIS additionally
                     a category is of type CATEGORY and a link item has a target and exactly the permissions / sale_info
                     that from_llsd re-creates for links (the AIS dict of a link has no slot for them);
     ids_distinct    node ids pairwise distinct - automatic for a model built with add() alone (C20_model_built_by_add).
   Each is shown necessary below (`_refuted`) and the witnesses are replayed on the real code on every run ("explicit"
   cases of the 'whole InventoryModels' suite).
   The code has NO nested categories/items/links AIS document inside InventoryModel (that reader, with `_embedded`, lives in
   client/inventory_manager.py and has no writer), so there is nothing of that kind to round-trip. *)

From HV Require Import Asset.InvModel Asset.InvModelProofs.

(* serialise-then-parse through the legacy text: the model read back holds the same nodes, containers first (each
   group in the original dict order), keyed by their ids, root = the last container under UUID.ZERO; it is equal to
   the original as InventoryModel.__eq__ sees it *)
Theorem C20_model_text_roundtrip : forall T m, wf_table_text T = true ->
  forallb (node_ok_text T) (svalues m) = true -> ids_distinct T (svalues m) = true ->
  exists m', from_reader T (to_writer T m) = Some m' /\
    svalues m' = ordered T (svalues m) /\ skeys m' = map (node_key T) (ordered T (svalues m)) /\
    s_root m' = root_of T (ordered T (svalues m)) /\ model_eq m' m.
Proof. exact model_text_roundtrip. Qed.
Print Assumptions C20_model_text_roundtrip.

(* two nodes with one id (possible only by overwriting an id attribute after add()): the reader raises KeyError *)
Theorem C20_model_text_dup_ids : forall T m, wf_table_text T = true ->
  forallb (node_ok_text T) (svalues m) = true -> ids_distinct T (svalues m) = false ->
  from_reader T (to_writer T m) = None.
Proof. exact model_text_dup_ids. Qed.
Print Assumptions C20_model_text_dup_ids.

(* from_reader of ANY sequence of well-formed blocks, in any order, with skippable lines (blank, unparsable, "{",
   unknown keys) before each block and at the end = add() of the nodes in text order (None iff an id repeats) *)
Theorem C20_model_text_blocks : forall T jns tail, wf_table_text T = true ->
  Forall (fun jn => forallb (skip_line T) (fst jn) = true /\ node_ok_text T (snd jn) = true) jns ->
  forallb (skip_line T) tail = true ->
  from_reader T (block_seq T jns ++ tail) = add_all T empty_store (map snd jns).
Proof. exact from_reader_blocks. Qed.
Print Assumptions C20_model_text_blocks.

(* a "}" at block level ends the outer token loop: whatever follows is never read (e.g. everything after a block of an
   unknown kind, whose own closing brace is such a line) *)
Theorem C20_model_text_stop : forall T jns junk l ignored, wf_table_text T = true ->
  Forall (fun jn => forallb (skip_line T) (fst jn) = true /\ node_ok_text T (snd jn) = true) jns ->
  forallb (skip_line T) junk = true -> stop_line l = true ->
  from_reader T (block_seq T jns ++ junk ++ l :: ignored) = add_all T empty_store (map snd jns).
Proof. exact from_reader_stop. Qed.
Print Assumptions C20_model_text_stop.

(* the fuel of the reader model is an artefact: any amount above the number of lines gives the same result *)
Theorem C20_model_reader_fuel : forall T f1 f2 lines m, (length lines < f1)%nat -> (length lines < f2)%nat ->
  read_top T f1 lines m = read_top T f2 lines m.
Proof. exact read_top_fuel. Qed.
Print Assumptions C20_model_reader_fuel.

(* legacy LLSD flavour: InventoryModel.from_llsd(m.to_llsd()) *)
Theorem C20_model_llsd_roundtrip : forall T m, wf_table_llsd Legacy T = true ->
  forallb (node_ok_llsd Legacy T) (svalues m) = true -> ids_distinct T (svalues m) = true ->
  exists ds m', model_to_llsd Legacy T m = Some ds /\ model_from_llsd Legacy T ds = Some m' /\
    svalues m' = ordered T (svalues m) /\ skeys m' = map (node_key T) (ordered T (svalues m)) /\
    s_root m' = root_of T (ordered T (svalues m)) /\ model_eq m' m.
Proof. exact (model_llsd_roundtrip Legacy). Qed.
Print Assumptions C20_model_llsd_roundtrip.

(* AIS flavour, with the overrides *)
Theorem C20_model_ais_roundtrip : forall T m, wf_table_llsd Ais T = true ->
  forallb (node_ok_llsd Ais T) (svalues m) = true -> ids_distinct T (svalues m) = true ->
  exists ds m', model_to_llsd Ais T m = Some ds /\ model_from_llsd Ais T ds = Some m' /\
    svalues m' = ordered T (svalues m) /\ skeys m' = map (node_key T) (ordered T (svalues m)) /\
    s_root m' = root_of T (ordered T (svalues m)) /\ model_eq m' m.
Proof. exact (model_llsd_roundtrip Ais). Qed.
Print Assumptions C20_model_ais_roundtrip.

Theorem C20_model_llsd_dup_ids : forall fl T m, wf_table_llsd fl T = true ->
  forallb (node_ok_llsd fl T) (svalues m) = true -> ids_distinct T (svalues m) = false ->
  exists ds, model_to_llsd fl T m = Some ds /\ model_from_llsd fl T ds = None.
Proof. exact model_llsd_dup_ids. Qed.
Print Assumptions C20_model_llsd_dup_ids.

(* one node through Cls.to_llsd / Cls.from_llsd of a flavour, overrides included (the way client/inventory_manager.py
   uses the AIS flavour); the dict carries the class's id key and only keys the class may write *)
Theorem C20_node_llsd_roundtrip : forall fl c r, wf_class_llsd fl c = true -> length r = c_arity c ->
  dom_llsd fl (c_llsd fl c) (permute None (c_perm fl c) r) = true ->
  match fl with Legacy => true | Ais => ov_ok (c_ov c) (to_llsd fl (c_llsd fl c) (permute None (c_perm fl c) r)) end = true ->
  exists d, class_to_llsd fl c r = Some d /\ class_from_llsd fl c d = Some r /\ dmem d (c_id fl c) = true /\
            (forall k, In k (map fst d) -> In k (allowed_keys fl c)).
Proof. exact class_llsd_roundtrip. Qed.
Print Assumptions C20_node_llsd_roundtrip.

(* SchemaBase.from_llsd reads a dict as a finite map: entry order and entries under unknown keys are irrelevant *)
Theorem C20_llsd_dict_order_irrelevant : forall fl S r d, wf_keys S = true -> dom_llsd fl S r = true -> NoDup (map fst d) ->
  (forall k, In k (map f_name S) -> assoc_s d k = assoc_s (to_llsd fl S r) k) -> from_llsd fl S d = Some r.
Proof. exact from_llsd_ext. Qed.
Print Assumptions C20_llsd_dict_order_irrelevant.

(* model equality (InventoryModel.__eq__) is an equivalence, decided by model_eqb, blind to node order, keys and root *)
Theorem C20_model_eq_equiv :
  (forall m, model_eq m m) /\ (forall m1 m2, model_eq m1 m2 -> model_eq m2 m1) /\
  (forall m1 m2 m3, model_eq m1 m2 -> model_eq m2 m3 -> model_eq m1 m3) /\
  (forall m1 m2, model_eqb m1 m2 = true <-> model_eq m1 m2).
Proof. split; [exact model_eq_refl | split; [exact model_eq_sym | split; [exact model_eq_trans | exact model_eqb_spec]]]. Qed.
Print Assumptions C20_model_eq_equiv.

(* a model built from the empty one with add() alone: nodes in insertion order under their own, distinct ids *)
Theorem C20_model_built_by_add : forall T ns m, add_all T empty_store ns = Some m ->
  svalues m = ns /\ consistent T m = true /\ ids_distinct T (svalues m) = true.
Proof. exact built_by_add. Qed.
Print Assumptions C20_model_built_by_add.

(* non-vacuity: a small class table shaped like the live one (category / object / item; nested permissions and sale_info; the
   three field orders differ), a model with a category tree, an object, an item with sale info and a link *)
Definition exm_asset_to : list (Z * str) := [(0%Z, [116; 101; 120; 116; 117; 114; 101]%N); (6%Z, [111; 98; 106; 101; 99; 116]%N); (8%Z, [99; 97; 116; 101; 103; 111; 114; 121]%N); (24%Z, [108; 105; 110; 107]%N)].
Definition exm_asset_from : list (str * Z) := [([116; 101; 120; 116; 117; 114; 101]%N, 0%Z); ([111; 98; 106; 101; 99; 116]%N, 6%Z); ([99; 97; 116; 101; 103; 111; 114; 121]%N, 8%Z); ([108; 105; 110; 107]%N, 24%Z)].
Definition exm_sale_to : list (Z * str) := [(0%Z, [110; 111; 116]%N); (2%Z, [99; 111; 112; 121]%N)].
Definition exm_sale_from : list (str * Z) := [([110; 111; 116]%N, 0%Z); ([99; 111; 112; 121]%N, 2%Z)].
Definition exm_asset := KEnum exm_asset_to exm_asset_from.
Definition exm_sale := KEnum exm_sale_to exm_sale_from.
Definition exm_cat_text : schema := [mkF [99; 97; 116; 95; 105; 100]%N (FP KUUID) None false false; mkF [112; 97; 114; 101; 110; 116; 95; 105; 100]%N (FP KUUID) None false false; mkF [116; 121; 112; 101]%N (FP exm_asset) None false false; mkF [110; 97; 109; 101]%N (FP KMStr) None false false].
Definition exm_cat_legacy : schema := [mkF [112; 97; 114; 101; 110; 116; 95; 105; 100]%N (FP KUUID) None false false; mkF [116; 121; 112; 101]%N (FP exm_asset) None false false; mkF [99; 97; 116; 95; 105; 100]%N (FP KUUID) None false false; mkF [110; 97; 109; 101]%N (FP KMStr) None false false].
Definition exm_cat_ais : schema := [mkF [112; 97; 114; 101; 110; 116; 95; 105; 100]%N (FP KUUID) None false false; mkF [116; 121; 112; 101]%N (FP exm_asset) None false false; mkF [110; 97; 109; 101]%N (FP KMStr) None false false; mkF [99; 97; 116; 101; 103; 111; 114; 121; 95; 105; 100]%N (FP KUUID) None false false].
Definition exm_obj_text : schema := [mkF [111; 98; 106; 95; 105; 100]%N (FP KUUID) None false false; mkF [112; 97; 114; 101; 110; 116; 95; 105; 100]%N (FP KUUID) None false false; mkF [116; 121; 112; 101]%N (FP exm_asset) None false false; mkF [110; 97; 109; 101]%N (FP KMStr) None false false].
Definition exm_obj_llsd : schema := [mkF [112; 97; 114; 101; 110; 116; 95; 105; 100]%N (FP KUUID) None false false; mkF [116; 121; 112; 101]%N (FP exm_asset) None false false; mkF [111; 98; 106; 95; 105; 100]%N (FP KUUID) None false false; mkF [110; 97; 109; 101]%N (FP KMStr) None false false].
Definition exm_item_text : schema := [mkF [105; 116; 101; 109; 95; 105; 100]%N (FP KUUID) None false false;
  mkF [112; 97; 114; 101; 110; 116; 95; 105; 100]%N (FP KUUID) None false false;
  mkF [112; 101; 114; 109; 105; 115; 115; 105; 111; 110; 115]%N (FB [112; 101; 114; 109; 105; 115; 115; 105; 111; 110; 115]%N [mkPF [111; 119; 110; 101; 114; 95; 109; 97; 115; 107]%N KHex None false false; mkPF [111; 119; 110; 101; 114; 95; 105; 100]%N KUUID None false false]) None false false;
  mkF [97; 115; 115; 101; 116; 95; 105; 100]%N (FP KUUID) (Some None) false false;
  mkF [116; 121; 112; 101]%N (FP exm_asset) (Some None) false false;
  mkF [115; 97; 108; 101; 95; 105; 110; 102; 111]%N (FB [115; 97; 108; 101; 95; 105; 110; 102; 111]%N [mkPF [115; 97; 108; 101; 95; 116; 121; 112; 101]%N exm_sale None false false; mkPF [115; 97; 108; 101; 95; 112; 114; 105; 99; 101]%N KInt None false false]) (Some None) false false;
  mkF [110; 97; 109; 101]%N (FP KMStr) (Some None) false false].
Definition exm_item_llsd : schema := [mkF [112; 97; 114; 101; 110; 116; 95; 105; 100]%N (FP KUUID) None false false;
  mkF [105; 116; 101; 109; 95; 105; 100]%N (FP KUUID) None false false;
  mkF [112; 101; 114; 109; 105; 115; 115; 105; 111; 110; 115]%N (FB [112; 101; 114; 109; 105; 115; 115; 105; 111; 110; 115]%N [mkPF [111; 119; 110; 101; 114; 95; 109; 97; 115; 107]%N KHex None false false; mkPF [111; 119; 110; 101; 114; 95; 105; 100]%N KUUID None false false]) None false false;
  mkF [97; 115; 115; 101; 116; 95; 105; 100]%N (FP KUUID) (Some None) false false;
  mkF [116; 121; 112; 101]%N (FP exm_asset) (Some None) false false;
  mkF [115; 97; 108; 101; 95; 105; 110; 102; 111]%N (FB [115; 97; 108; 101; 95; 105; 110; 102; 111]%N [mkPF [115; 97; 108; 101; 95; 116; 121; 112; 101]%N exm_sale None false false; mkPF [115; 97; 108; 101; 95; 112; 114; 105; 99; 101]%N KInt None false false]) (Some None) false false;
  mkF [110; 97; 109; 101]%N (FP KMStr) (Some None) false false].
Definition exm_dflt_perms : lval := LM [([111; 119; 110; 101; 114; 95; 109; 97; 115; 107]%N, LI 4294967295%Z); ([111; 119; 110; 101; 114; 95; 105; 100]%N, LU 0)].
Definition exm_dflt_sale : lval := LM [([115; 97; 108; 101; 95; 116; 121; 112; 101]%N, LI 0%Z); ([115; 97; 108; 101; 95; 112; 114; 105; 99; 101]%N, LI 0%Z)].
Definition exm_table : ctable := [
  mkCls [105; 110; 118; 95; 99; 97; 116; 101; 103; 111; 114; 121]%N true 4%nat 2%nat 0%nat exm_cat_text [2; 0; 1; 3]%nat exm_cat_legacy [0; 1; 2; 3]%nat [99; 97; 116; 95; 105; 100]%N exm_cat_ais [0; 1; 3; 2]%nat [99; 97; 116; 101; 103; 111; 114; 121; 95; 105; 100]%N (OvCat [116; 121; 112; 101]%N 8%Z);
  mkCls [105; 110; 118; 95; 111; 98; 106; 101; 99; 116]%N true 4%nat 2%nat 0%nat exm_obj_text [2; 0; 1; 3]%nat exm_obj_llsd [0; 1; 2; 3]%nat [111; 98; 106; 95; 105; 100]%N exm_obj_llsd [0; 1; 2; 3]%nat [111; 98; 106; 95; 105; 100]%N OvNone;
  mkCls [105; 110; 118; 95; 105; 116; 101; 109]%N false 7%nat 1%nat 0%nat exm_item_text [1; 0; 2; 3; 4; 5; 6]%nat exm_item_llsd [0; 1; 2; 3; 4; 5; 6]%nat [105; 116; 101; 109; 95; 105; 100]%N exm_item_llsd [0; 1; 2; 3; 4; 5; 6]%nat [105; 116; 101; 109; 95; 105; 100]%N
    (OvItem [97; 103; 101; 110; 116; 95; 105; 100]%N [112; 101; 114; 109; 105; 115; 115; 105; 111; 110; 115]%N [111; 119; 110; 101; 114; 95; 105; 100]%N [116; 121; 112; 101]%N [108; 105; 110; 107; 101; 100; 95; 105; 100]%N [97; 115; 115; 101; 116; 95; 105; 100]%N [115; 97; 108; 101; 95; 105; 110; 102; 111]%N 24%Z exm_dflt_perms exm_dflt_sale) ].

(* dataclass order: category/object = parent_id type id name ; item = parent_id item_id permissions asset_id type sale_info name *)
Definition exm_root : node := (0%nat, [Some (P (VN 0)); Some (P (VZ 8)); Some (P (VN 16)); Some (P (VS [77; 121; 32; 73; 110; 118; 101; 110; 116; 111; 114; 121]%N))]).
Definition exm_sub : node := (0%nat, [Some (P (VN 16)); Some (P (VZ 8)); Some (P (VN 17)); Some (P (VS [67; 108; 111; 116; 104; 105; 110; 103]%N))]).
Definition exm_box : node := (1%nat, [Some (P (VN 17)); Some (P (VZ 6)); Some (P (VN 48)); Some (P (VS [98; 111; 120]%N))]).
Definition exm_shirt : node := (2%nat, [Some (P (VN 17)); Some (P (VN 32)); Some (R [Some (VN 581632); Some (VN 2)]); Some (P (VN 153));
                                   Some (P (VZ 0)); Some (R [Some (VZ 2); Some (VZ 10)]); Some (P (VS [115; 104; 105; 114; 116]%N))]).
Definition exm_link : node := (2%nat, [Some (P (VN 16)); Some (P (VN 33)); Some (R [Some (VN 4294967295); Some (VN 0)]); Some (P (VN 32));
                                  Some (P (VZ 24)); Some (R [Some (VZ 0); Some (VZ 0)]); None]).
Definition exm_store (ns : list node) : store := mkStore (map (fun n => (node_key exm_table n, n)) ns) None.
Definition exm_model : store := exm_store [exm_shirt; exm_root; exm_box; exm_sub; exm_link].

Example C20_ex_model :
  wf_table exm_table = true /\
  forallb (node_ok_text exm_table) (svalues exm_model) = true /\
  forallb (node_ok_llsd Legacy exm_table) (svalues exm_model) = true /\
  forallb (node_ok_llsd Ais exm_table) (svalues exm_model) = true /\
  ids_distinct exm_table (svalues exm_model) = true /\
  add_all exm_table empty_store (svalues exm_model) = Some (mkStore (s_nodes exm_model) (Some exm_root)) /\
  length (to_writer exm_table exm_model) = 56%nat /\
  from_reader exm_table (to_writer exm_table exm_model) =
    Some (mkStore (s_nodes (exm_store [exm_root; exm_box; exm_sub; exm_shirt; exm_link])) (Some exm_root)) /\
  option_map (map (map fst)) (model_to_llsd Ais exm_table exm_model) =
    Some [[[112; 97; 114; 101; 110; 116; 95; 105; 100]%N; [110; 97; 109; 101]%N; [99; 97; 116; 101; 103; 111; 114; 121; 95; 105; 100]%N]; [[112; 97; 114; 101; 110; 116; 95; 105; 100]%N; [116; 121; 112; 101]%N; [111; 98; 106; 95; 105; 100]%N; [110; 97; 109; 101]%N]; [[112; 97; 114; 101; 110; 116; 95; 105; 100]%N; [110; 97; 109; 101]%N; [99; 97; 116; 101; 103; 111; 114; 121; 95; 105; 100]%N];
          [[112; 97; 114; 101; 110; 116; 95; 105; 100]%N; [105; 116; 101; 109; 95; 105; 100]%N; [112; 101; 114; 109; 105; 115; 115; 105; 111; 110; 115]%N; [97; 115; 115; 101; 116; 95; 105; 100]%N; [116; 121; 112; 101]%N; [115; 97; 108; 101; 95; 105; 110; 102; 111]%N; [110; 97; 109; 101]%N; [97; 103; 101; 110; 116; 95; 105; 100]%N]; [[112; 97; 114; 101; 110; 116; 95; 105; 100]%N; [105; 116; 101; 109; 95; 105; 100]%N; [116; 121; 112; 101]%N; [97; 103; 101; 110; 116; 95; 105; 100]%N; [108; 105; 110; 107; 101; 100; 95; 105; 100]%N]] /\
  (forall fl, match model_to_llsd fl exm_table exm_model with
              | Some ds => match model_from_llsd fl exm_table ds with
                           | Some m' => model_eqb m' exm_model && match s_root m' with Some r => node_eqb r exm_root | None => false end
                           | None => false
                           end
              | None => false
              end = true).
Proof. do 9 (split; [vm_compute; reflexivity|]). intros []; vm_compute; reflexivity. Qed.

(* blocks in any order with junk in between; an unknown block kind swallows everything after it *)
Example C20_ex_model_blocks :
  let junk := [[]; [32; 32]%N; [9; 105; 110; 118; 95; 119; 105; 100; 103; 101; 116; 9; 48]%N] in
  let unknown := [[9; 105; 110; 118; 95; 119; 105; 100; 103; 101; 116; 9; 48]%N; [9; 123]%N; [9; 9; 119; 105; 100; 103; 101; 116; 95; 105; 100; 9; 49]%N; [9; 125]%N] in
  from_reader exm_table (junk ++ node_lines exm_table exm_shirt ++ junk ++ node_lines exm_table exm_root ++ [[110; 111; 32; 118; 97; 108; 117; 101]%N]) =
    add_all exm_table empty_store [exm_shirt; exm_root] /\
  from_reader exm_table (node_lines exm_table exm_sub ++ unknown ++ to_writer exm_table exm_model) =
    add_all exm_table empty_store [exm_sub].
Proof. vm_compute. split; reflexivity. Qed.

(* every model-level hypothesis is needed *)
Theorem C20_model_dup_ids_refuted :
  let m := exm_store [exm_shirt; exm_root; (2%nat, [Some (P (VN 16)); Some (P (VN 32)); Some (R [Some (VN 1); Some (VN 2)]); None; None; None; None])] in
  forallb (node_ok_text exm_table) (svalues m) = true /\ forallb (node_ok_llsd Legacy exm_table) (svalues m) = true /\
  ids_distinct exm_table (svalues m) = false /\
  from_reader exm_table (to_writer exm_table m) = None /\
  (exists ds, model_to_llsd Legacy exm_table m = Some ds /\ model_from_llsd Legacy exm_table ds = None).
Proof. vm_compute. repeat split; try reflexivity. eexists. split; reflexivity. Qed.
Print Assumptions C20_model_dup_ids_refuted.

(* AIS: a category whose type is not CATEGORY comes back as CATEGORY *)
Theorem C20_model_ais_category_refuted :
  let c := (0%nat, [Some (P (VN 0)); Some (P (VZ 6)); Some (P (VN 16)); Some (P (VS [120]%N))]) in
  let m := exm_store [c] in
  node_ok_llsd Legacy exm_table c = true /\ node_ok_llsd Ais exm_table c = false /\
  match model_to_llsd Ais exm_table m with
  | Some ds => match model_from_llsd Ais exm_table ds with Some m' => model_eqb m' m | None => true end
  | None => true
  end = false.
Proof. vm_compute. repeat split; reflexivity. Qed.
Print Assumptions C20_model_ais_category_refuted.

(* AIS: a link without a target cannot be written (KeyError); a link without sale_info, or with permissions of its own,
   comes back with the ones from_llsd re-creates *)
Theorem C20_model_ais_link_refuted :
  let no_target := (2%nat, [Some (P (VN 16)); Some (P (VN 33)); Some (R [Some (VN 4294967295); Some (VN 0)]); None;
                        Some (P (VZ 24)); Some (R [Some (VZ 0); Some (VZ 0)]); None]) in
  let no_sale := (2%nat, [Some (P (VN 16)); Some (P (VN 33)); Some (R [Some (VN 4294967295); Some (VN 0)]); Some (P (VN 32));
                      Some (P (VZ 24)); None; None]) in
  let own_perms := (2%nat, [Some (P (VN 16)); Some (P (VN 33)); Some (R [Some (VN 1); Some (VN 2)]); Some (P (VN 32));
                        Some (P (VZ 24)); Some (R [Some (VZ 0); Some (VZ 0)]); None]) in
  let differs n := match model_to_llsd Ais exm_table (exm_store [n]) with
                   | Some ds => match model_from_llsd Ais exm_table ds with Some m' => negb (model_eqb m' (exm_store [n])) | None => false end
                   | None => false
                   end in
  forallb (node_ok_llsd Legacy exm_table) [no_target; no_sale; own_perms] = true /\
  forallb (fun n => negb (node_ok_llsd Ais exm_table n)) [no_target; no_sale; own_perms] = true /\
  model_to_llsd Ais exm_table (exm_store [no_target]) = None /\
  differs no_sale = true /\ differs own_perms = true.
Proof. vm_compute. repeat split; reflexivity. Qed.
Print Assumptions C20_model_ais_link_refuted.

