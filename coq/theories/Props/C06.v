(* C06 - UDP proxying is transparent: right peer, exactly once, content intact; discarded
   datagrams are isolated.  Property theorems only: each is closed by [exact] and followed by
   [Print Assumptions].  Models: Proxy/Socks.v (SOCKS5 UDP framing) and Proxy/UdpProxy.v (routing
   state machine of UDPProxyProtocol.datagram_received + InterceptingLLUDPProxyProtocol.
   handle_proxied_packet with no addon), tied to /repo by harness/props/c06.py on every run.
   [decode] is an arbitrary decoding oracle: every theorem holds for whatever the codec does. *)
From Coq Require Import NArith List Bool.
From HV Require Import Base.Bytes Proxy.Socks Proxy.SocksProofs Proxy.UdpProxy Proxy.UdpProxyProofs.
Import ListNotations.
Open Scope N_scope.

(* ---------------- SOCKS5 UDP framing: what one side adds is exactly what the other strips ------------ *)

Theorem C06_socks_inverse : forall a d, ipaddr_ok a -> parse_socks (wrap a d) = POk (ip_addr a) d.
Proof. exact socks_inverse. Qed.
Print Assumptions C06_socks_inverse.

(* ... and nothing else parses to that address and payload *)
Theorem C06_socks_parse_unique : forall data ip port body,
  bytes_okb data = true -> parse_socks data = POk (HIp ip, port) body ->
  data = wrap (ip, port) body /\ ipaddr_ok (ip, port).
Proof. exact socks_parse_unique. Qed.
Print Assumptions C06_socks_parse_unique.

Theorem C06_socks_reject_frag : forall r1 r2 frag atyp rest,
  frag <> 0 -> parse_socks (r1 :: r2 :: frag :: atyp :: rest) = PNone.
Proof. exact socks_reject_frag. Qed.
Print Assumptions C06_socks_reject_frag.

Theorem C06_socks_reject_rsv : forall r1 r2 frag atyp rest,
  r1 < 256 -> r2 < 256 -> (r1 <> 0 \/ r2 <> 0) -> parse_socks (r1 :: r2 :: frag :: atyp :: rest) = PNone.
Proof. exact socks_reject_rsv. Qed.
Print Assumptions C06_socks_reject_rsv.

Theorem C06_socks_short : forall data, (length data < 4)%nat -> parse_socks data = PExc.
Proof. exact socks_short_header. Qed.
Print Assumptions C06_socks_short.

Theorem C06_socks_short_ipv4 : forall rest, (length rest < 6)%nat -> parse_socks (0 :: 0 :: 0 :: 1 :: rest) = PExc.
Proof. exact socks_short_ipv4. Qed.
Print Assumptions C06_socks_short_ipv4.

Theorem C06_socks_payload_suffix : forall data a body,
  parse_socks data = POk a body -> exists pre, data = pre ++ body.
Proof. exact socks_payload_suffix. Qed.
Print Assumptions C06_socks_payload_suffix.

(* the domain form as coded: parsed, but its host is a bytes object that equals no region address *)
Theorem C06_socks_domain_form : forall dom p1 p2 body,
  (length dom < 256)%nat ->
  parse_socks ([0; 0; 0; 3; N.of_nat (length dom)] ++ dom ++ [p1; p2] ++ body) = POk (HDom dom, of_be [p1; p2]) body.
Proof. exact socks_domain_form. Qed.
Print Assumptions C06_socks_domain_form.

Theorem C06_domain_never_a_region : forall d p a, addr_eqb (ip_addr a) (HDom d, p) = false.
Proof. exact dom_never_ip. Qed.
Print Assumptions C06_domain_never_a_region.

(* ---------------- transparency of one datagram ---------------- *)

(* viewer -> simulator: exactly one send, to exactly the addressed simulator, of exactly the bytes the
   (injection-free) circuit emits for the decoded message; only far_to_near_map and what the message
   itself means (CloseCircuit / AgentMovementComplete) change *)
Theorem C06_viewer_to_sim : forall decode ss p data src S payload m i s k r c,
  f2n_get (p_f2n p) (ip_addr src) = None -> fst src = p_client p -> S <> src ->
  parse_socks data = POk (ip_addr S) payload ->
  decode payload = Some m -> p_sess p = Some i -> nth_error ss i = Some s ->
  name_eqb (mi_name m) n_UseCircuitCode = false ->
  find_region (s_regions s) (ip_addr S) = Some (k, r, c) ->
  body_fine m -> mi_consumed m = false ->
  let res := recv decode ss p data src in
  rs_outcome res = OForward /\
  rs_sends res = match mi_out m with Some b => [(b, S)] | None => [] end /\
  rs_sessions res = upd_nth i (after_forward s m k r) ss /\
  rs_proto res = set_f2n p (f2n_set (p_f2n p) (ip_addr S) src).
Proof. exact viewer_to_sim. Qed.
Print Assumptions C06_viewer_to_sim.

(* simulator -> viewer: exactly one send, wrapped with the simulator's address, to exactly the viewer
   address that opened the circuit *)
Theorem C06_sim_to_viewer : forall decode ss p data S v m i s k r c,
  f2n_get (p_f2n p) (ip_addr S) = Some v ->
  decode data = Some m -> validate_udp_msg (mi_name m) = Some true ->
  p_sess p = Some i -> nth_error ss i = Some s ->
  find_region (s_regions s) (ip_addr S) = Some (k, r, c) ->
  body_fine m -> mi_consumed m = false ->
  let res := recv decode ss p data S in
  rs_outcome res = OForward /\
  rs_sends res = match mi_out m with Some b => [(wrap S b, c_near c)] | None => [] end /\
  rs_sessions res = upd_nth i (after_forward s m k r) ss /\
  rs_proto res = p.
Proof. exact sim_to_viewer. Qed.
Print Assumptions C06_sim_to_viewer.

(* on every state reachable from a circuit-free start the far_to_near premise holds by construction *)
Theorem C06_sim_to_viewer_reachable : forall decode ss p data S m i s k r c,
  Inv ss p ->
  decode data = Some m -> validate_udp_msg (mi_name m) = Some true ->
  p_sess p = Some i -> nth_error ss i = Some s ->
  find_region (s_regions s) (ip_addr S) = Some (k, r, c) ->
  body_fine m -> mi_consumed m = false ->
  rs_outcome (recv decode ss p data S) = OForward /\
  rs_sends (recv decode ss p data S) = match mi_out m with Some b => [(wrap S b, c_near c)] | None => [] end.
Proof. exact sim_to_viewer_reachable. Qed.
Print Assumptions C06_sim_to_viewer_reachable.

Theorem C06_invariant_initial : forall ss p,
  (forall s r, In s ss -> In r (s_regions s) -> r_circ r = None) -> Inv ss p.
Proof. exact Inv_no_circuits. Qed.
Print Assumptions C06_invariant_initial.

Theorem C06_invariant_step : forall decode ss p data src,
  Inv ss p -> Inv (rs_sessions (recv decode ss p data src)) (rs_proto (recv decode ss p data src)).
Proof. exact Inv_step. Qed.
Print Assumptions C06_invariant_step.

(* the UseCircuitCode handshake claims the pending session (or uses the claimed one), is forwarded to
   the simulator exactly once, and leaves a state in which both directions above are enabled *)
Theorem C06_circuit_handshake : forall decode ss p data src S payload m i ss1 s,
  f2n_get (p_f2n p) (ip_addr src) = None -> fst src = p_client p -> S <> src ->
  parse_socks data = POk (ip_addr S) payload ->
  decode payload = Some m -> name_eqb (mi_name m) n_UseCircuitCode = true ->
  session_ready ss p m i ss1 -> nth_error ss1 i = Some s ->
  (exists r, In r (s_regions s) /\ r_addr r = S) ->
  mi_consumed m = false ->
  let res := recv decode ss p data src in
  rs_outcome res = OForward /\
  rs_sends res = match mi_out m with Some b => [(b, S)] | None => [] end /\
  p_sess (rs_proto res) = Some i /\
  truthy (p_f2n (rs_proto res)) (ip_addr S) = true /\
  exists s' k r' c', nth_error (rs_sessions res) i = Some s' /\
    find_region (s_regions s') (ip_addr S) = Some (k, r', c') /\
    (find_region (s_regions s) (ip_addr S) = None -> c' = {| c_near := src; c_alive := true |}).
Proof. exact circuit_handshake. Qed.
Print Assumptions C06_circuit_handshake.

(* never more than one send per datagram, whatever the datagram and the state *)
Theorem C06_at_most_once : forall decode ss p data src, (length (rs_sends (recv decode ss p data src)) <= 1)%nat.
Proof. exact at_most_once. Qed.
Print Assumptions C06_at_most_once.

(* ---------------- two regions ---------------- *)

Theorem C06_two_regions_out : forall decode ss p data src payload m i s k r c,
  NoDup (map r_addr (s_regions s)) ->
  nth_error (s_regions s) k = Some r -> r_circ r = Some c ->
  f2n_get (p_f2n p) (ip_addr src) = None -> fst src = p_client p -> r_addr r <> src ->
  parse_socks data = POk (ip_addr (r_addr r)) payload ->
  decode payload = Some m -> p_sess p = Some i -> nth_error ss i = Some s ->
  name_eqb (mi_name m) n_UseCircuitCode = false -> body_fine m -> mi_consumed m = false ->
  rs_sends (recv decode ss p data src) = match mi_out m with Some b => [(b, r_addr r)] | None => [] end.
Proof. exact two_regions_out. Qed.
Print Assumptions C06_two_regions_out.

Theorem C06_two_regions_in : forall decode ss p data v m i s k r c,
  NoDup (map r_addr (s_regions s)) ->
  nth_error (s_regions s) k = Some r -> r_circ r = Some c ->
  f2n_get (p_f2n p) (ip_addr (r_addr r)) = Some v ->
  decode data = Some m -> validate_udp_msg (mi_name m) = Some true ->
  p_sess p = Some i -> nth_error ss i = Some s -> body_fine m -> mi_consumed m = false ->
  rs_sends (recv decode ss p data (r_addr r)) =
    match mi_out m with Some b => [(wrap (r_addr r) b, c_near c)] | None => [] end.
Proof. exact two_regions_in. Qed.
Print Assumptions C06_two_regions_in.

(* ---------------- two sessions / two associations ---------------- *)

Theorem C06_other_sessions_untouched : forall decode ss p data src j,
  p_sess (rs_proto (recv decode ss p data src)) <> Some j ->
  nth_error (rs_sessions (recv decode ss p data src)) j = nth_error ss j.
Proof. exact other_sessions_untouched. Qed.
Print Assumptions C06_other_sessions_untouched.

(* any datagram - valid or garbage - handled by association b leaves association a and its claimed
   session untouched, and a's next delivery is what it would have been without it *)
Theorem C06_two_sessions : forall decode w a b data src pa i s,
  a <> b -> nth_error (w_protos w) a = Some pa -> p_sess pa = Some i ->
  nth_error (w_sessions w) i = Some s -> s_pending s = false ->
  (forall pb, nth_error (w_protos w) b = Some pb -> p_sess pb <> Some i) ->
  let w' := fst (fst (wstep decode w b data src)) in
  nth_error (w_protos w') a = Some pa /\
  nth_error (w_sessions w') i = Some s /\
  forall d' src', snd (fst (wstep decode w' a d' src')) = snd (fst (wstep decode w a d' src')).
Proof. exact two_sessions. Qed.
Print Assumptions C06_two_sessions.

(* ---------------- discarded datagrams ---------------- *)

(* bad framing, addressed to its own sender, unknown host, pre-session, unclaimable session, no circuit,
   undecodable, banned, unreadable body: no send, no session changes, the association keeps its session
   reference; the only trace is a far_to_near entry for the parsed SOCKS destination of a well-framed
   client datagram, and that destination is never the sender itself (/repo dc82116) *)
Theorem C06_discard_step : forall decode ss p data src,
  let res := recv decode ss p data src in
  is_discard (rs_outcome res) = true ->
  rs_sends res = [] /\ rs_sessions res = ss /\
  p_sess (rs_proto res) = p_sess p /\ p_client (rs_proto res) = p_client p /\
  (p_f2n (rs_proto res) = p_f2n p \/
   exists far d, parse_socks data = POk far d /\ f2n_get (p_f2n p) (ip_addr src) = None /\
                 far <> ip_addr src /\ fst src = p_client p /\
                 p_f2n (rs_proto res) = f2n_set (p_f2n p) far src).
Proof. exact discard_step. Qed.
Print Assumptions C06_discard_step.

(* FULL STATEMENT: for every history h1 ++ [d] ++ h2 in which d is discarded where it stands, deleting d
   changes no other delivery and not the final session state.
   PROVED (1) for every history in which all datagrams from the client's IP come from one address - the
   normal situation of a UDP association - with no condition on d whatsoever: *)
Theorem C06_discard_isolated : forall decode ss p h1 data src h2,
  Inv ss p ->
  let '(ss1, p1, out1) := run decode ss p h1 in
  is_discard (rs_outcome (recv decode ss1 p1 data src)) = true ->
  one_viewer_address (p_client p) ((data, src) :: h2) ->
  let '(ssA, pA, outA) := run decode ss p (h1 ++ (data, src) :: h2) in
  let '(ssB, pB, outB) := run decode ss p (h1 ++ h2) in
  exists tail, outA = out1 ++ [] :: tail /\ outB = out1 ++ tail /\ ssA = ssB /\ p_sess pA = p_sess pB.
Proof. exact discard_isolated_one_viewer. Qed.
Print Assumptions C06_discard_isolated.

(* PROVED (2) in general under the weakest side condition the repaired code admits: IF d was sent from
   the client's IP to a destination different from its sender, THEN no later datagram arrives from that
   destination on the client's IP.  (Before /repo dc82116 the condition was needed for destination =
   sender as well - finding #20.) *)
Theorem C06_discard_isolated_general : forall decode ss p h1 data src h2,
  Inv ss p ->
  let '(ss1, p1, out1) := run decode ss p h1 in
  is_discard (rs_outcome (recv decode ss1 p1 data src)) = true ->
  dest_harmless (p_client p) data src h2 ->
  let '(ssA, pA, outA) := run decode ss p (h1 ++ (data, src) :: h2) in
  let '(ssB, pB, outB) := run decode ss p (h1 ++ h2) in
  exists tail, outA = out1 ++ [] :: tail /\ outB = out1 ++ tail /\ ssA = ssB /\ p_sess pA = p_sess pB.
Proof. exact discard_isolated. Qed.
Print Assumptions C06_discard_isolated_general.

Theorem C06_one_viewer_harmless : forall client data src h2,
  one_viewer_address client ((data, src) :: h2) -> dest_harmless client data src h2.
Proof. exact one_viewer_harmless. Qed.
Print Assumptions C06_one_viewer_harmless.

(* why the residual condition cannot be dropped: with two local ports the full statement is false *)
Theorem C06_discard_isolated_two_ports_refuted :
  exists decode ss p h1 data src h2,
    Inv ss p /\
    is_discard (rs_outcome (let '(ss1, p1, _) := run decode ss p h1 in recv decode ss1 p1 data src)) = true /\
    snd (run decode ss p (h1 ++ (data, src) :: h2)) = [[([1], toy_S)]; []; []] /\
    snd (run decode ss p (h1 ++ h2)) = [[([1], toy_S)]; [([9], toy_S)]].
Proof. exact discard_isolated_two_ports_refuted. Qed.
Print Assumptions C06_discard_isolated_two_ports_refuted.

(* ---------------- non-vacuity: concrete instances meeting the hypotheses ---------------- *)

(* handshake, viewer->sim, sim->viewer, a banned inbound message, garbage, and CloseCircuit *)
Example C06_ex_traffic :
  snd (run toy_decode toy_sessions toy_proto
         [(wrap toy_S [1], toy_V); (wrap toy_S [9; 8], toy_V); ([7; 7], toy_S); ([3], toy_S);
          (wrap toy_S [255], toy_V); ([0; 0; 1; 1; 5], toy_V); (wrap toy_S2 [9], toy_V); ([6], toy_S2);
          ([6], (1, 1))])
  = [[([1], toy_S)]; [([9; 8], toy_S)]; [(wrap toy_S [7; 7], toy_V)]; []; []; []; []; []; []].
Proof. vm_compute. reflexivity. Qed.

(* the state after the handshake satisfies every hypothesis of C06_viewer_to_sim / C06_sim_to_viewer *)
Example C06_ex_hypotheses :
  let r := recv toy_decode toy_sessions toy_proto (wrap toy_S [1]) toy_V in
  let ss := rs_sessions r in let p := rs_proto r in
  exists s k rg c m,
    f2n_get (p_f2n p) (ip_addr toy_V) = None /\ fst toy_V = p_client p /\
    parse_socks (wrap toy_S [9]) = POk (ip_addr toy_S) [9] /\ toy_decode [9] = Some m /\
    p_sess p = Some 0%nat /\ nth_error ss 0 = Some s /\
    name_eqb (mi_name m) n_UseCircuitCode = false /\
    find_region (s_regions s) (ip_addr toy_S) = Some (k, rg, c) /\ mi_body_ok m = true /\ mi_consumed m = false /\
    f2n_get (p_f2n p) (ip_addr toy_S) = Some toy_V /\ validate_udp_msg (mi_name m) = Some true /\
    c_near c = toy_V /\ NoDup (map r_addr (s_regions s)) /\ toy_S <> toy_V.
Proof.
  vm_compute. do 5 eexists. repeat split; try reflexivity.
  - repeat constructor; cbn; intuition congruence.
  - discriminate.
Qed.

(* regression on the witness of finding #20: the self-addressed datagram is discarded without a trace and
   the next viewer datagram is forwarded (before /repo dc82116: it was not) *)
Example C06_ex_defect20_regression :
  let ss := toy_sessions in let p := toy_proto in
  let h1 := [(wrap toy_S [1], toy_V)] in let h2 := [(wrap toy_S [9], toy_V)] in
  is_discard (rs_outcome (let '(ss1, p1, _) := run toy_decode ss p h1 in
                          recv toy_decode ss1 p1 (wrap toy_V [9]) toy_V)) = true /\
  snd (run toy_decode ss p (h1 ++ (wrap toy_V [9], toy_V) :: h2)) = [[([1], toy_S)]; []; [([9], toy_S)]] /\
  snd (run toy_decode ss p (h1 ++ h2)) = [[([1], toy_S)]; [([9], toy_S)]] /\
  p_f2n (snd (fst (run toy_decode ss p (h1 ++ [(wrap toy_V [9], toy_V)])))) = p_f2n (snd (fst (run toy_decode ss p h1))).
Proof. exact discard_isolated_defect20_regression. Qed.

(* hypotheses of C06_discard_isolated: an established circuit, then a mis-addressed datagram (no circuit
   for 10.7.7.7:1) in the middle of valid traffic, all client datagrams from the one viewer address *)
Example C06_ex_discard_hypotheses :
  Inv toy_sessions toy_proto /\
  is_discard (rs_outcome (let '(ss1, p1, _) := run toy_decode toy_sessions toy_proto [(wrap toy_S [1], toy_V)] in
                          recv toy_decode ss1 p1 (wrap (168232711, 1) [9]) toy_V)) = true /\
  one_viewer_address (p_client toy_proto)
    ((wrap (168232711, 1) [9], toy_V) :: [(wrap toy_S [9], toy_V); ([7], toy_S)]) /\
  snd (run toy_decode toy_sessions toy_proto
         ([(wrap toy_S [1], toy_V)] ++ (wrap (168232711, 1) [9], toy_V) :: [(wrap toy_S [9], toy_V); ([7], toy_S)]))
  = [[([1], toy_S)]; []; [([9], toy_S)]; [(wrap toy_S [7], toy_V)]].
Proof.
  split; [exact toy_Inv|]. split; [vm_compute; reflexivity|]. split; [|vm_compute; reflexivity].
  exists toy_V. intros e [<-|[<-|[<-|[]]]] H; try reflexivity. vm_compute in H. discriminate.
Qed.

(* the ban list is not empty, and bans only inbound traffic *)
Example C06_ex_banned :
  validate_udp_msg [84; 101; 108; 101; 112; 111; 114; 116; 70; 105; 110; 105; 115; 104] (* "TeleportFinish" *) = Some false /\
  validate_udp_msg n_ChatFromViewer = Some true /\
  validate_udp_msg n_UseCircuitCode = Some true /\
  validate_udp_msg [112; 105; 99; 107; 105; 110; 102; 111; 114; 101; 113; 117; 101; 115; 116] (* "pickinforequest" *) = None.
Proof. vm_compute. repeat split. Qed.
