(* C16 - capability URLs are attributed to the right cap, region and session.
   Property theorems only.  Model: Http/Caps.v (tied to region.py / sessions.py / state.py /
   http_event_manager.py by the correspondence check of harness/props/c16.py). *)
From Coq Require Import String Ascii List Bool Arith NArith Permutation.
From HV Require Import Http.Caps Http.CapsProofs.
Import ListNotations.

(* In every region reached by ANY sequence of operations (session creation, region announcements, seed
   grants, registrations, lookups, seed requests/responses) the reverse index is the recomputed one, and the
   by-name view of every name is the list of its unconsumed grants, most recent first. *)
Theorem C16_reachable_good : forall fresh wrap ops si ri r,
  get_region (run fresh wrap ops init_manager) si ri = Some r ->
  r_lookup r = recalc (r_caps r) /\ forall n, md_getall n (r_caps r) = replay_log n (r_log r).
Proof. exact reachable_good. Qed.
Print Assumptions C16_reachable_good.

(* lookup by name yields the most recently granted (unconsumed) URL *)
Theorem C16_latest_by_name : forall fresh wrap ops si ri r n,
  get_region (run fresh wrap ops init_manager) si ri = Some r ->
  cap_url r n = match replay_log n (r_log r) with [] => None | (_, u) :: _ => Some u end.
Proof. exact latest_by_name. Qed.
Print Assumptions C16_latest_by_name.

(* a grant is immediately the by-name answer and shadows, without dropping, the older ones *)
Theorem C16_add_first : forall k v d,
  md_get k (md_add k v d) = Some v /\ md_getall k (md_add k v d) = v :: md_getall k d /\
  forall k', k' <> k -> md_getall k' (md_add k v d) = md_getall k' d.
Proof.
  intros. split; [apply md_get_add_same|split; [apply md_getall_add_same|]].
  intros. apply md_getall_add_other. assumption.
Qed.
Print Assumptions C16_add_first.

(* resolve_sound: after any run, if prefix-related grant URLs carry the same attribution, a request URL
   extending a granted URL resolves to that grant's name, type, region and session (region/session None
   for unwrapped asset caps, as coded) *)
Theorem C16_resolve_sound : forall fresh wrap ops si ri e sfx,
  let m := run fresh wrap ops init_manager in
  unambiguous (m_sessions m) -> site (m_sessions m) si ri e ->
  snd (step fresh wrap m (OResolve (e_url e ++ sfx))) = OCap (site_cd si ri e).
Proof. exact resolve_sound. Qed.
Print Assumptions C16_resolve_sound.

(* a URL no grant is a prefix of resolves to the empty CapData and changes nothing *)
Theorem C16_unknown_url_unresolved : forall fresh wrap ops url,
  let m := run fresh wrap ops init_manager in
  no_hits (m_sessions m) url -> step fresh wrap m (OResolve url) = (m, OCap empty_cd).
Proof. exact unknown_url_unresolved. Qed.
Print Assumptions C16_unknown_url_unresolved.

Definition ex_fresh (n : nat) : str := repeat "u"%char (S n).
Definition ex_wrap (name seed u : str) : str := ("w"%char :: name) ++ u.
Definition s (x : string) : str := list_ascii_of_string x.

(* FULL STATEMENT (false of the code): forall ops si ri e sfx, site (..) si ri e ->
     snd (step m (OResolve (e_url e ++ sfx))) = OCap (site_cd si ri e).
   Refuted by prefix-related URLs: the grant whose URL was inserted first in the reverse index wins
   (finding: prefix-related-urls-first-inserted-wins). *)
Theorem C16_resolve_prefix_refuted : exists ops si ri e sfx,
  let m := run ex_fresh ex_wrap ops init_manager in
  site (m_sessions m) si ri e /\
  snd (step ex_fresh ex_wrap m (OResolve (e_url e ++ sfx))) <> OCap (site_cd si ri e).
Proof.
  exists [OCreateSession 1 [] (Some 11%N) (Some (s "http://s/a")) (Some 5%N);
          OUpdateCaps 0 0 [(s "A", VStr (s "http://h/1"))];
          OUpdateCaps 0 0 [(s "B", VStr (s "http://h/12"))]].
  exists 0, 0, (s "B", (NORMAL, s "http://h/12")), (s "/x").
  split.
  - eexists; eexists. split; [reflexivity|]. split; [reflexivity|]. vm_compute. right. right. left. reflexivity.
  - vm_compute. discriminate.
Qed.
Print Assumptions C16_resolve_prefix_refuted.

(* temporary_once (region level): resolving a TEMPORARY cap removes exactly that grant, every other grant
   keeps its by-name order ... *)
Theorem C16_temporary_consume : forall r url name u r',
  good_region r -> resolve_cap r url true = (Some (name, u, TEMPORARY), r') ->
  good_region r' /\
  (forall n, md_getall n (r_caps r') =
             if str_eqb name n then remove_first tu_eqb (TEMPORARY, u) (md_getall name (r_caps r))
             else md_getall n (r_caps r)) /\
  r_addr r' = r_addr r /\ r_handle r' = r_handle r.
Proof. exact resolve_cap_consume. Qed.
Print Assumptions C16_temporary_consume.

(* ... a non-temporary cap is not consumed ... *)
Theorem C16_normal_not_consumed : forall r url c name u ty r',
  resolve_cap r url c = (Some (name, u, ty), r') -> (captype_eqb ty TEMPORARY && c) = false -> r' = r.
Proof. exact resolve_cap_keep. Qed.
Print Assumptions C16_normal_not_consumed.

(* ... and the second lookup of a one-shot URL fails.  (Region level; the lift of this clause to
   SessionManager.resolve_cap is not proved in Coq - C16_resolve_sound covers the first lookup at manager
   level, the second is covered by the correspondence check and the history oracle.) *)
Theorem C16_temporary_once_region : forall r url n u r',
  good_region r -> resolve_cap r url true = (Some (n, u, TEMPORARY), r') ->
  (forall e, In e (r_caps r) -> prefix (e_url e) url = true -> e = (n, (TEMPORARY, u))) ->
  count_occ tu_dec (md_getall n (r_caps r)) (TEMPORARY, u) = 1 ->
  resolve_cap r' url true = (None, r').
Proof. exact temporary_once_region. Qed.
Print Assumptions C16_temporary_once_region.

(* seed_request: names are only moved from the upstream list to the recorded list ... *)
Theorem C16_seed_request_perm : forall caps req,
  Permutation req (fst (seed_request caps req) ++ snd (seed_request caps req)).
Proof. exact seed_request_perm. Qed.
Print Assumptions C16_seed_request_perm.

(* ... and (for a request without duplicate names) upstream gets exactly the non-proxy-only names, in order *)
Theorem C16_seed_request_upstream : forall caps req,
  NoDup req -> fst (seed_request caps req) = filter (fun n => negb (proxy_name caps n)) req.
Proof. exact seed_request_upstream. Qed.
Print Assumptions C16_seed_request_upstream.

(* seed_response: entries that are neither wrapped asset caps nor requested proxy caps are preserved; every
   http grant is registered for the region; requested proxy-only caps are added with their by-name URL;
   nothing the region knew is lost *)
Theorem C16_seed_response_spec : forall wrap worder needed r body p' r',
  seed_response wrap worder needed r body = (Some p', r') ->
  (forall k v, In (k, v) body -> ~ In k worder -> ~ In k needed -> In (k, v) p') /\
  (forall k u, In (k, VStr u) body -> prefix c_http u = true -> In (k, (NORMAL, u)) (r_caps r')) /\
  (forall k, In k needed -> exists u, cap_url r' k = Some u /\ In (k, VStr u) p') /\
  (forall e, In e (r_caps r) -> In e (r_caps r')).
Proof. exact seed_response_spec. Qed.
Print Assumptions C16_seed_response_spec.

(* proxy_cap_idempotent: registering a proxy-only cap twice yields the same URL and draws no new uuid *)
Theorem C16_proxy_cap_idempotent : forall fresh r n c u r1 c1,
  register_proxy_cap fresh r n c = (u, r1, c1) -> register_proxy_cap fresh r1 n c1 = (u, r1, c1).
Proof. exact proxy_cap_idempotent. Qed.
Print Assumptions C16_proxy_cap_idempotent.

(* ... also after any other activity that leaves the by-name head of that name alone *)
Theorem C16_proxy_cap_stable : forall fresh r n c u r1 c1 r2 c2,
  register_proxy_cap fresh r n c = (u, r1, c1) ->
  md_get n (r_caps r2) = md_get n (r_caps r1) ->
  register_proxy_cap fresh r2 n c2 = (u, r2, c2).
Proof. exact proxy_cap_stable. Qed.
Print Assumptions C16_proxy_cap_stable.

(* register_once (used by C17): announcing a region never creates a second region for a circuit address *)
Theorem C16_register_once : forall s addr seed handle i s',
  NoDup (map r_addr (s_regions s)) -> register_region s addr seed handle = Some (i, s') ->
  NoDup (map r_addr (s_regions s')) /\
  (map r_addr (s_regions s') = map r_addr (s_regions s) \/
   (~ In addr (map r_addr (s_regions s)) /\ map r_addr (s_regions s') = map r_addr (s_regions s) ++ [addr])).
Proof. exact register_once. Qed.
Print Assumptions C16_register_once.

(* ---- non-vacuity ---- *)
Definition ex_ops : list op :=
  [OCreateSession 1 [] (Some 11%N) (Some (s "http://s/a")) (Some 5%N);
   OUpdateCaps 0 0 [(s "A", VStr (s "http://h/1")); (s "GetTexture", VStr (s "http://t/x"))];
   ORegisterCap 0 0 (s "T") (s "http://h/2") TEMPORARY;
   ORegisterProxy 0 0 (s "P")].

(* the hypotheses of C16_resolve_sound hold on a run with four distinct grants; the temporary one resolves
   with its region and session and is gone afterwards *)
Example C16_ex_resolve :
  let m := run ex_fresh ex_wrap ex_ops init_manager in
  snd (step ex_fresh ex_wrap m (OResolve (s "http://h/2/x"))) = OCap (mkCD (Some (s "T")) (Some (0, 0)) (Some 0) (Some (s "http://h/2")) TEMPORARY)
  /\ snd (step ex_fresh ex_wrap (fst (step ex_fresh ex_wrap m (OResolve (s "http://h/2/x")))) (OResolve (s "http://h/2/x"))) = OCap empty_cd
  /\ snd (step ex_fresh ex_wrap m (OResolve (s "http://t/x?y"))) = OCap (mkCD (Some (s "GetTexture")) None None (Some (s "http://t/x")) NORMAL).
Proof. vm_compute. repeat split. Qed.

Example C16_ex_seed_request :
  seed_request [(s "P", (PROXY_ONLY, s "u")); (s "A", (NORMAL, s "http://h/1"))] [s "A"; s "P"; s "B"]
  = ([s "A"; s "B"], [s "P"]).
Proof. vm_compute. reflexivity. Qed.

Example C16_ex_seed_response :
  let r := new_region (Some 1%N) (Some (s "http://s/a")) None in
  let r1 := snd (fst (register_proxy_cap ex_fresh r (s "P") 0)) in
  fst (seed_response ex_wrap [s "GetTexture"] [s "P"] r1 [(s "A", VStr (s "http://h/1")); (s "GetTexture", VStr (s "http://t/x")); (s "N", VOther 7)])
  = Some [(s "A", VStr (s "http://h/1")); (s "GetTexture", VStr (s "wGetTexturehttp://t/x")); (s "N", VOther 7); (s "P", VStr (s "u"))].
Proof. vm_compute. reflexivity. Qed.

Example C16_ex_proxy_twice :
  let r := new_region (Some 1%N) (Some (s "http://s/a")) None in
  let '(u1, r1, c1) := register_proxy_cap ex_fresh r (s "P") 0 in
  let '(u2, r2, c2) := register_proxy_cap ex_fresh r1 (s "P") c1 in
  u1 = u2 /\ c1 = 1 /\ c2 = 1.
Proof. vm_compute. repeat split. Qed.
