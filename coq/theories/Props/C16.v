(* C16 - capability URLs are attributed to the right cap, region and session.
   Property theorems only.  Model: Http/Caps.v (tied to region.py / sessions.py / state.py /
   http_event_manager.py by the correspondence check of harness/props/c16.py). *)
From Coq Require Import String Ascii List Bool Arith NArith Permutation.
From HV Require Import Http.Caps Http.CapsProofs.
Import ListNotations.

(* In every region reached by ANY sequence of operations (session creation, region announcements, seed
   grants, registrations, lookups, seed requests/responses) the reverse index is the recomputed one, and the
   by-name view of every name is the list of its unconsumed grants, most recent first. *)
Theorem C16_reachable_good : forall fresh wrap ops si ri r,
  get_region (run fresh wrap ops init_manager) si ri = Some r ->
  r_lookup r = recalc (r_caps r) /\ forall n, md_getall n (r_caps r) = replay_log n (r_log r).
Proof. exact reachable_good. Qed.
Print Assumptions C16_reachable_good.

(* lookup by name yields the most recently granted (unconsumed) URL *)
Theorem C16_latest_by_name : forall fresh wrap ops si ri r n,
  get_region (run fresh wrap ops init_manager) si ri = Some r ->
  cap_url r n = match replay_log n (r_log r) with [] => None | (_, u) :: _ => Some u end.
Proof. exact latest_by_name. Qed.
Print Assumptions C16_latest_by_name.

(* a grant is immediately the by-name answer and shadows, without dropping, the older ones *)
Theorem C16_add_first : forall k v d,
  md_get k (md_add k v d) = Some v /\ md_getall k (md_add k v d) = v :: md_getall k d /\
  forall k', k' <> k -> md_getall k' (md_add k v d) = md_getall k' d.
Proof.
  intros. split; [apply md_get_add_same|split; [apply md_getall_add_same|]].
  intros. apply md_getall_add_other. assumption.
Qed.
Print Assumptions C16_add_first.

(* resolve_sound: after any run, if prefix-related grant URLs carry the same attribution, a request URL
   extending a granted URL resolves to that grant's name, type, region and session (region/session None
   for unwrapped asset caps, as coded) *)
Theorem C16_resolve_sound : forall fresh wrap ops si ri e sfx,
  let m := run fresh wrap ops init_manager in
  unambiguous (m_sessions m) -> site (m_sessions m) si ri e ->
  snd (step fresh wrap m (OResolve (e_url e ++ sfx))) = OCap (site_cd si ri e).
Proof. exact resolve_sound. Qed.
Print Assumptions C16_resolve_sound.

(* a URL no grant is a prefix of resolves to the empty CapData and changes nothing *)
Theorem C16_unknown_url_unresolved : forall fresh wrap ops url,
  let m := run fresh wrap ops init_manager in
  no_hits (m_sessions m) url -> step fresh wrap m (OResolve url) = (m, OCap empty_cd).
Proof. exact unknown_url_unresolved. Qed.
Print Assumptions C16_unknown_url_unresolved.

Definition ex_fresh (n : nat) : str := repeat "u"%char (S n).
Definition ex_wrap (name seed u : str) : str := ("w"%char :: name) ++ u.
Definition s (x : string) : str := list_ascii_of_string x.

(* FULL STATEMENT (false of the code): forall ops si ri e sfx, site (..) si ri e ->
     snd (step m (OResolve (e_url e ++ sfx))) = OCap (site_cd si ri e).
   Refuted by prefix-related URLs: the grant whose URL was inserted first in the reverse index wins
   (finding: prefix-related-urls-first-inserted-wins). *)
Theorem C16_resolve_prefix_refuted : exists ops si ri e sfx,
  let m := run ex_fresh ex_wrap ops init_manager in
  site (m_sessions m) si ri e /\
  snd (step ex_fresh ex_wrap m (OResolve (e_url e ++ sfx))) <> OCap (site_cd si ri e).
Proof.
  exists [OCreateSession 1 [] (Some 11%N) (Some (s "http://s/a")) (Some 5%N);
          OUpdateCaps 0 0 [(s "A", VStr (s "http://h/1"))];
          OUpdateCaps 0 0 [(s "B", VStr (s "http://h/12"))]].
  exists 0, 0, (s "B", (NORMAL, s "http://h/12")), (s "/x").
  split.
  - eexists; eexists. split; [reflexivity|]. split; [reflexivity|]. vm_compute. right. right. left. reflexivity.
  - vm_compute. discriminate.
Qed.
Print Assumptions C16_resolve_prefix_refuted.

(* temporary_once (region level): resolving a TEMPORARY cap removes exactly that grant, every other grant
   keeps its by-name order ... *)
Theorem C16_temporary_consume : forall r url name u r',
  good_region r -> resolve_cap r url true = (Some (name, u, TEMPORARY), r') ->
  good_region r' /\
  (forall n, md_getall n (r_caps r') =
             if str_eqb name n then remove_first tu_eqb (TEMPORARY, u) (md_getall name (r_caps r))
             else md_getall n (r_caps r)) /\
  r_addr r' = r_addr r /\ r_handle r' = r_handle r.
Proof. exact resolve_cap_consume. Qed.
Print Assumptions C16_temporary_consume.

(* ... a non-temporary cap is not consumed ... *)
Theorem C16_normal_not_consumed : forall r url c name u ty r',
  resolve_cap r url c = (Some (name, u, ty), r') -> (captype_eqb ty TEMPORARY && c) = false -> r' = r.
Proof. exact resolve_cap_keep. Qed.
Print Assumptions C16_normal_not_consumed.

(* ... and the second lookup of a one-shot URL fails.  (Region level; the lift of this clause to
   SessionManager.resolve_cap is not proved in Coq - C16_resolve_sound covers the first lookup at manager
   level, the second is covered by the correspondence check and the history oracle.) *)
Theorem C16_temporary_once_region : forall r url n u r',
  good_region r -> resolve_cap r url true = (Some (n, u, TEMPORARY), r') ->
  (forall e, In e (r_caps r) -> prefix (e_url e) url = true -> e = (n, (TEMPORARY, u))) ->
  count_occ tu_dec (md_getall n (r_caps r)) (TEMPORARY, u) = 1 ->
  resolve_cap r' url true = (None, r').
Proof. exact temporary_once_region. Qed.
Print Assumptions C16_temporary_once_region.

(* seed_request: names are only moved from the upstream list to the recorded list ... *)
Theorem C16_seed_request_perm : forall caps req,
  Permutation req (fst (seed_request caps req) ++ snd (seed_request caps req)).
Proof. exact seed_request_perm. Qed.
Print Assumptions C16_seed_request_perm.

(* ... and (for a request without duplicate names) upstream gets exactly the non-proxy-only names, in order *)
Theorem C16_seed_request_upstream : forall caps req,
  NoDup req -> fst (seed_request caps req) = filter (fun n => negb (proxy_name caps n)) req.
Proof. exact seed_request_upstream. Qed.
Print Assumptions C16_seed_request_upstream.

(* seed_response: entries that are neither wrapped asset caps nor requested proxy caps are preserved; every
   http grant is registered for the region; requested proxy-only caps are added with their by-name URL;
   nothing the region knew is lost *)
Theorem C16_seed_response_spec : forall wrap worder needed r body p' r',
  seed_response wrap worder needed r body = (Some p', r') ->
  (forall k v, In (k, v) body -> ~ In k worder -> ~ In k needed -> In (k, v) p') /\
  (forall k u, In (k, VStr u) body -> prefix c_http u = true -> In (k, (NORMAL, u)) (r_caps r')) /\
  (forall k, In k needed -> exists u, cap_url r' k = Some u /\ In (k, VStr u) p') /\
  (forall e, In e (r_caps r) -> In e (r_caps r')).
Proof. exact seed_response_spec. Qed.
Print Assumptions C16_seed_response_spec.

(* proxy_cap_idempotent: registering a proxy-only cap twice yields the same URL and draws no new uuid *)
Theorem C16_proxy_cap_idempotent : forall fresh r n c u r1 c1,
  register_proxy_cap fresh r n c = (u, r1, c1) -> register_proxy_cap fresh r1 n c1 = (u, r1, c1).
Proof. exact proxy_cap_idempotent. Qed.
Print Assumptions C16_proxy_cap_idempotent.

(* ... also after any other activity that leaves the by-name head of that name alone *)
Theorem C16_proxy_cap_stable : forall fresh r n c u r1 c1 r2 c2,
  register_proxy_cap fresh r n c = (u, r1, c1) ->
  md_get n (r_caps r2) = md_get n (r_caps r1) ->
  register_proxy_cap fresh r2 n c2 = (u, r2, c2).
Proof. exact proxy_cap_stable. Qed.
Print Assumptions C16_proxy_cap_stable.

(* register_once (used by C17): announcing a region never creates a second region for a circuit address *)
Theorem C16_register_once : forall s addr seed handle i s',
  NoDup (map r_addr (s_regions s)) -> register_region s addr seed handle = Some (i, s') ->
  NoDup (map r_addr (s_regions s')) /\
  (map r_addr (s_regions s') = map r_addr (s_regions s) \/
   (~ In addr (map r_addr (s_regions s)) /\ map r_addr (s_regions s') = map r_addr (s_regions s) ++ [addr])).
Proof. exact register_once. Qed.
Print Assumptions C16_register_once.

(* ---------------- wave 2 ---------------- *)

(* temporary_once at SessionManager.resolve_cap level, over op sequences: after ANY run in which
   prefix-related grants agree, a non-asset TEMPORARY cap granted once resolves on its first lookup to its
   name, type, region and session; that lookup removes exactly this grant from exactly this region (every
   other region is untouched, every other by-name list of the region is unchanged); the second lookup of the
   same URL resolves to nothing and changes nothing *)
Theorem C16_temporary_once : forall fresh wrap ops si ri n u sfx,
  let m := run fresh wrap ops init_manager in
  unambiguous (m_sessions m) ->
  site (m_sessions m) si ri (n, (TEMPORARY, u)) ->
  is_asset_server_cap_name n = false ->
  (forall r, get_region m si ri = Some r -> count_occ tu_dec (md_getall n (r_caps r)) (TEMPORARY, u) = 1) ->
  let m1 := fst (step fresh wrap m (OResolve (u ++ sfx))) in
  snd (step fresh wrap m (OResolve (u ++ sfx))) = OCap (site_cd si ri (n, (TEMPORARY, u))) /\
  step fresh wrap m1 (OResolve (u ++ sfx)) = (m1, OCap empty_cd) /\
  (forall si' ri', (si', ri') <> (si, ri) -> get_region m1 si' ri' = get_region m si' ri') /\
  (exists r r', get_region m si ri = Some r /\ get_region m1 si ri = Some r' /\
     forall n', md_getall n' (r_caps r') =
                if str_eqb n n' then remove_first tu_eqb (TEMPORARY, u) (md_getall n (r_caps r))
                else md_getall n' (r_caps r)).
Proof. exact temporary_once. Qed.
Print Assumptions C16_temporary_once.

(* seed_response, wrapped-asset clause: a wrappable cap present in the simulator's body (and not also a requested
   proxy cap) is replaced by wrap(name, current Seed URL, current URL of the cap), and that URL is registered
   as name+"ProxyWrapper" of type WRAPPER *)
Theorem C16_seed_response_wraps : forall wrap worder needed r body p' r' k,
  wrapper_names_disjoint worder ->
  seed_response wrap worder needed r body = (Some p', r') ->
  In k worder -> dict_mem k body = true -> ~ In k needed ->
  exists t u ts seed,
    md_get k (r_caps (update_caps r body)) = Some (t, u) /\
    md_get c_Seed (r_caps (update_caps r body)) = Some (ts, seed) /\
    dict_get k p' = Some (VStr (wrap k seed u)) /\
    In ((k ++ c_ProxyWrapper)%list, (WRAPPER, wrap k seed u)) (r_caps r').
Proof. exact seed_response_wraps. Qed.
Print Assumptions C16_seed_response_wraps.

(* ... for a body with distinct keys the wrapped URL is the one the simulator just sent *)
Theorem C16_seed_response_wraps_sent : forall wrap worder needed r body p' r' k u0,
  wrapper_names_disjoint worder -> NoDup (map fst body) ->
  seed_response wrap worder needed r body = (Some p', r') ->
  In k worder -> In (k, VStr u0) body -> prefix c_http u0 = true -> ~ In k needed ->
  exists ts seed,
    md_get c_Seed (r_caps (update_caps r body)) = Some (ts, seed) /\
    dict_get k p' = Some (VStr (wrap k seed u0)) /\
    In ((k ++ c_ProxyWrapper)%list, (WRAPPER, wrap k seed u0)) (r_caps r').
Proof. exact seed_response_wraps_sent. Qed.
Print Assumptions C16_seed_response_wraps_sent.

(* with the wrapper URL built as the code does - urlunsplit(http, host(name, sha256(seed id)), rest of the URL) -
   and sha256/lower/urlsplit as oracles assumed collision-free resp. netloc-faithful, the wrapper URLs handed to
   viewers separate cap names and regions (seed ids) *)
Theorem C16_wrapper_urls_distinct : forall host unsplit seed_id,
  (forall n i n' i', host n i = host n' i' -> n = n' /\ i = i') ->
  (forall h u h' u', unsplit h u = unsplit h' u' -> h = h') ->
  forall worder needed1 needed2 r1 r2 body1 body2 p1 p2 r1' r2' k1 k2 w1 w2 t1 seed1 t2 seed2,
  wrapper_names_disjoint worder ->
  seed_response (wrap_c host unsplit seed_id) worder needed1 r1 body1 = (Some p1, r1') ->
  seed_response (wrap_c host unsplit seed_id) worder needed2 r2 body2 = (Some p2, r2') ->
  In k1 worder -> dict_mem k1 body1 = true -> ~ In k1 needed1 ->
  In k2 worder -> dict_mem k2 body2 = true -> ~ In k2 needed2 ->
  md_get c_Seed (r_caps (update_caps r1 body1)) = Some (t1, seed1) ->
  md_get c_Seed (r_caps (update_caps r2 body2)) = Some (t2, seed2) ->
  dict_get k1 p1 = Some (VStr w1) -> dict_get k2 p2 = Some (VStr w2) ->
  k1 <> k2 \/ seed_id seed1 <> seed_id seed2 -> w1 <> w2.
Proof. exact wrapper_urls_distinct. Qed.
Print Assumptions C16_wrapper_urls_distinct.

(* seed_request for ANY request list, duplicates included (the code is well defined there: list.remove drops
   one occurrence per PROXY_ONLY item): of every name exactly min(#occurrences, #PROXY_ONLY items of that name)
   copies are removed upstream *)
Theorem C16_seed_request_counts : forall caps req n,
  count_occ str_dec (fst (seed_request caps req)) n = count_occ str_dec req n - pcount caps n.
Proof. exact seed_request_counts. Qed.
Print Assumptions C16_seed_request_counts.

(* FULL STATEMENT for duplicates (false of the code): forall caps req n, proxy_name caps n = true ->
   ~ In n (fst (seed_request caps req)).  A viewer listing a proxy-only name twice gets one copy through. *)
Theorem C16_seed_request_dup_refuted : exists caps req n,
  proxy_name caps n = true /\ In n (fst (seed_request caps req)).
Proof.
  exists [(s "P", (PROXY_ONLY, s "u"))], [s "A"; s "P"; s "P"], (s "P"). split; vm_compute; auto.
Qed.
Print Assumptions C16_seed_request_dup_refuted.

(* ---- non-vacuity ---- *)
Definition ex_ops : list op :=
  [OCreateSession 1 [] (Some 11%N) (Some (s "http://s/a")) (Some 5%N);
   OUpdateCaps 0 0 [(s "A", VStr (s "http://h/1")); (s "GetTexture", VStr (s "http://t/x"))];
   ORegisterCap 0 0 (s "T") (s "http://h/2") TEMPORARY;
   ORegisterProxy 0 0 (s "P")].

(* the hypotheses of C16_resolve_sound hold on a run with four distinct grants; the temporary one resolves
   with its region and session and is gone afterwards *)
Example C16_ex_resolve :
  let m := run ex_fresh ex_wrap ex_ops init_manager in
  snd (step ex_fresh ex_wrap m (OResolve (s "http://h/2/x"))) = OCap (mkCD (Some (s "T")) (Some (0, 0)) (Some 0) (Some (s "http://h/2")) TEMPORARY)
  /\ snd (step ex_fresh ex_wrap (fst (step ex_fresh ex_wrap m (OResolve (s "http://h/2/x")))) (OResolve (s "http://h/2/x"))) = OCap empty_cd
  /\ snd (step ex_fresh ex_wrap m (OResolve (s "http://t/x?y"))) = OCap (mkCD (Some (s "GetTexture")) None None (Some (s "http://t/x")) NORMAL).
Proof. vm_compute. repeat split. Qed.

Example C16_ex_seed_request :
  seed_request [(s "P", (PROXY_ONLY, s "u")); (s "A", (NORMAL, s "http://h/1"))] [s "A"; s "P"; s "B"]
  = ([s "A"; s "B"], [s "P"]).
Proof. vm_compute. reflexivity. Qed.

Example C16_ex_seed_response :
  let r := new_region (Some 1%N) (Some (s "http://s/a")) None in
  let r1 := snd (fst (register_proxy_cap ex_fresh r (s "P") 0)) in
  fst (seed_response ex_wrap [s "GetTexture"] [s "P"] r1 [(s "A", VStr (s "http://h/1")); (s "GetTexture", VStr (s "http://t/x")); (s "N", VOther 7)])
  = Some [(s "A", VStr (s "http://h/1")); (s "GetTexture", VStr (s "wGetTexturehttp://t/x")); (s "N", VOther 7); (s "P", VStr (s "u"))].
Proof. vm_compute. reflexivity. Qed.

Example C16_ex_proxy_twice :
  let r := new_region (Some 1%N) (Some (s "http://s/a")) None in
  let '(u1, r1, c1) := register_proxy_cap ex_fresh r (s "P") 0 in
  let '(u2, r2, c2) := register_proxy_cap ex_fresh r1 (s "P") c1 in
  u1 = u2 /\ c1 = 1 /\ c2 = 1.
Proof. vm_compute. repeat split. Qed.

(* wave 2 non-vacuity: the real wrappable set satisfies wrapper_names_disjoint ... *)
Example C16_ex_wrapper_names :
  wrapper_names_disjoint [s "ViewerAsset"; s "GetTexture"; s "GetMesh2"; s "GetMesh"].
Proof.
  intros a Ha b Hb. cbn in Ha.
  destruct Ha as [<-|[<-|[<-|[<-|[]]]]]; (destruct Hb as [Hb|Hb]; [cbn in Hb; destruct Hb as [<-|[<-|[<-|[<-|[]]]]]|subst b]);
    vm_compute; discriminate.
Qed.

(* ... the oracle hypotheses of C16_wrapper_urls_distinct are satisfiable (a length-prefixed host, netloc-only unsplit) ... *)
Definition ex_host (n i : str) : str := repeat "1"%char (length n) ++ "0"%char :: n ++ i.
Definition ex_unsplit (h u : str) : str := h.

Lemma ex_unary : forall a b (x y : str),
  repeat "1"%char a ++ "0"%char :: x = repeat "1"%char b ++ "0"%char :: y -> a = b /\ x = y.
Proof.
  induction a as [|a IH]; destruct b as [|b]; cbn; intros x y H; try discriminate.
  - inversion H. auto.
  - inversion H as [H1]. apply IH in H1. destruct H1; subst; auto.
Qed.

Lemma ex_app_len : forall (n n' i i' : str), length n = length n' -> n ++ i = n' ++ i' -> n = n' /\ i = i'.
Proof.
  induction n as [|c n IH]; destruct n' as [|c' n']; cbn; intros i i' Hl H; try discriminate; auto.
  inversion H; subst. inversion Hl as [Hl']. destruct (IH _ _ _ Hl' H2); subst; auto.
Qed.

Example C16_ex_oracles :
  (forall n i n' i', ex_host n i = ex_host n' i' -> n = n' /\ i = i') /\
  (forall h u h' u', ex_unsplit h u = ex_unsplit h' u' -> h = h').
Proof.
  split; [|auto]. intros n i n' i' H. unfold ex_host in H. apply ex_unary in H as [Hl H]. exact (ex_app_len _ _ _ _ Hl H).
Qed.

(* ... and the hypotheses of C16_temporary_once hold on the run of C16_ex_resolve (checked there by computation):
   the grant (T, TEMPORARY, http://h/2) is unique, non-asset, and no other granted URL is prefix-related to it *)
Example C16_ex_temporary_hyps :
  let m := run ex_fresh ex_wrap ex_ops init_manager in
  site (m_sessions m) 0 0 (s "T", (TEMPORARY, s "http://h/2")) /\
  is_asset_server_cap_name (s "T") = false /\
  (forall r, get_region m 0 0 = Some r -> count_occ tu_dec (md_getall (s "T") (r_caps r)) (TEMPORARY, s "http://h/2") = 1).
Proof.
  split; [|split].
  - eexists; eexists. split; [reflexivity|]. split; [reflexivity|]. vm_compute. auto 10.
  - reflexivity.
  - intros r H. vm_compute in H. inversion H; subst. vm_compute. reflexivity.
Qed.
