(* C04 - Packet-ID translation around injected packets is an order-preserving
   bijection.  Property theorems only (closed by [exact] of lemmas of
   Inj/InjTrackerProofs.v), each followed by [Print Assumptions].

   Model: Inj/InjTracker.v (hippolyzer/lib/proxy/circuit.py:InjectionTracker),
   tied to the code on every run by harness/props/c04.py.

   All theorems quantify over EVERY history [h] of {Fwd o | Inject | Drop o}
   run from InjectionTracker(p0, maxlen=m) for every p0 and every m (m = 0
   included).  [g] is the reached tracker state together with two ghost
   components the code does not keep: [evicted g] (injected IDs that aged out
   of the bounded deque) and [seen g] (all wire IDs emitted).  [jall g] is
   every ID ever injected.  [above_evicted g w] is the statement's "w is newer
   than any injection that has aged out of the tracker's bounded memory". *)
From Coq Require Import ZArith List Bool.
From HV Require Import Inj.InjTracker Inj.InjTrackerProofs.
Import ListNotations.
Open Scope Z_scope.

Definition reach (p0 : Z) (m : nat) (h : list op) : gstate := grun (ginit p0 m) h.

(* the ghost components only observe: the tracker inside the ghost run is the plain run *)
Theorem C04_ghost_erasure : forall p0 m h, tr (reach p0 m h) = run (init p0 m) h.
Proof. intros p0 m h. exact (tr_grun h (ginit p0 m)). Qed.
Print Assumptions C04_ghost_erasure.

(* invariant of every reachable state: window strictly increasing and below the
   highest ID seen, base = number forgotten, deque length bounded *)
Theorem C04_invariant : forall p0 m h, Inv (reach p0 m h).
Proof. intros p0 m h. exact (Inv_grun h _ (Inv_init p0 m)). Qed.
Print Assumptions C04_invariant.

(* strictly order-preserving at every reachable state, without qualification *)
Theorem C04_eff_strict_mono : forall p0 m h o1 o2,
  o1 < o2 <-> eff (tr (reach p0 m h)) o1 < eff (tr (reach p0 m h)) o2.
Proof. intros p0 m h. exact (eff_lt_iff _ (C04_invariant p0 m h)). Qed.
Print Assumptions C04_eff_strict_mono.

(* injective at every reachable state *)
Theorem C04_eff_injective : forall p0 m h o1 o2,
  eff (tr (reach p0 m h)) o1 = eff (tr (reach p0 m h)) o2 -> o1 = o2.
Proof. intros p0 m h. exact (eff_injective _ (C04_invariant p0 m h)). Qed.
Print Assumptions C04_eff_injective.

(* refinement of the abstract order isomorphism: above the forgotten injections the
   wire ID of o is THE o-th integer outside the set of all IDs ever injected
   ([nth_free]: not injected, and exactly o-1... i.e. w - |{j injected, j<w}| = o),
   equivalently the value of the specification function E *)
Theorem C04_eff_refines : forall p0 m h o,
  let g := reach p0 m h in
  above_evicted g (eff (tr g) o) ->
  nth_free (jall g) o (eff (tr g) o) /\ eff (tr g) o = E (jall g) o.
Proof.
  intros p0 m h o g Ha. split.
  - exact (eff_refines g (C04_invariant p0 m h) o Ha).
  - exact (eff_refines_E g (C04_invariant p0 m h) o Ha).
Qed.
Print Assumptions C04_eff_refines.

(* [nth_free J o] determines the wire ID, and is strictly monotone: the spec is an
   order isomorphism between IDs and the complement of J *)
Theorem C04_spec_is_order_iso : forall J o1 o2 w1 w2,
  ssorted J -> nth_free J o1 w1 -> nth_free J o2 w2 ->
  (o1 < o2 <-> w1 < w2) /\ (o1 = o2 -> w1 = w2).
Proof.
  intros J o1 o2 w1 w2 Hs H1 H2. split.
  - exact (nth_free_mono J o1 o2 w1 w2 Hs H1 H2).
  - intros <-. exact (nth_free_unique J o1 w1 w2 Hs H1 H2).
Qed.
Print Assumptions C04_spec_is_order_iso.

(* never yields an ID the proxy used for an injected packet: unconditionally for the
   IDs still in the window, and for all IDs ever injected above the forgotten ones *)
Theorem C04_eff_avoids_injected : forall p0 m h o,
  let g := reach p0 m h in
  was_injected (tr g) (eff (tr g) o) = false /\
  (above_evicted g (eff (tr g) o) -> ~ In (eff (tr g) o) (jall g)).
Proof.
  intros p0 m h o g. split.
  - exact (eff_avoids_window g (C04_invariant p0 m h) o).
  - exact (eff_avoids_injected g (C04_invariant p0 m h) o).
Qed.
Print Assumptions C04_eff_avoids_injected.

(* orig after eff, eff after orig: at every reachable state, for every ID *)
Theorem C04_orig_eff : forall p0 m h o,
  orig (tr (reach p0 m h)) (eff (tr (reach p0 m h)) o) = Some o.
Proof. intros p0 m h. exact (orig_eff _ (C04_invariant p0 m h)). Qed.
Print Assumptions C04_orig_eff.

Theorem C04_eff_orig : forall p0 m h w o,
  orig (tr (reach p0 m h)) w = Some o -> eff (tr (reach p0 m h)) o = w.
Proof. intros p0 m h. exact (eff_orig _ (C04_invariant p0 m h)). Qed.
Print Assumptions C04_eff_orig.

(* orig refuses exactly the injected IDs still in the window (ValueError) *)
Theorem C04_orig_none_iff_injected : forall p0 m h w,
  orig (tr (reach p0 m h)) w = None <-> was_injected (tr (reach p0 m h)) w = true.
Proof.
  intros p0 m h w. unfold orig, was_injected.
  destruct (memz w (inj (tr (reach p0 m h)))); split; congruence.
Qed.
Print Assumptions C04_orig_none_iff_injected.

(* translating back a non-injected wire ID above the forgotten injections gives its
   rank among ALL non-injected IDs *)
Theorem C04_orig_refines : forall p0 m h w,
  let g := reach p0 m h in
  ~ In w (jall g) -> above_evicted g w -> orig (tr g) w = Some (rank (jall g) w).
Proof. intros p0 m h w g. exact (orig_refines g (C04_invariant p0 m h) w). Qed.
Print Assumptions C04_orig_refines.

(* THE across-time law: packet o is forwarded after history h1 and gets wire ID w;
   then ANY further history h2 happens (any number of injections, older packets,
   resends).  As long as w is above what the tracker has forgotten by then:
   w is not an injected ID, w translates back to exactly o, and o translated again
   (a resend) gets the same w. *)
Theorem C04_stable_and_reversible_across_time : forall p0 m h1 o h2,
  let g1 := reach p0 m h1 in
  let w := eff (tr g1) o in
  let g2 := grun g1 (Fwd o :: h2) in
  above_evicted g2 w ->
  ~ In w (jall g2) /\ orig (tr g2) w = Some o /\ eff (tr g2) o = w.
Proof.
  intros p0 m h1 o h2 g1 w g2 Ha.
  assert (HI : Inv g1) by exact (C04_invariant p0 m h1).
  destruct (gstep_fwd g1 o HI) as (_ & _ & Hp & _ & Hinj & Hib & _).
  assert (Hsame : eff (tr (gstep g1 (Fwd o))) o = w)
    by (unfold w, eff; rewrite Hinj, Hib; reflexivity).
  assert (Hle : eff (tr (gstep g1 (Fwd o))) o <= pbase (tr (gstep g1 (Fwd o))))
    by (rewrite Hsame, Hp; fold w; apply Z.le_max_r).
  assert (Ha' : above_evicted (grun (gstep g1 (Fwd o)) h2) (eff (tr (gstep g1 (Fwd o))) o))
    by (rewrite Hsame; exact Ha).
  destruct (across_time (gstep g1 (Fwd o)) h2 o (Inv_gstep g1 (Fwd o) HI) Hle Ha')
    as ((Hn & _) & Ho & He).
  rewrite Hsame in Hn, Ho, He. split; [exact Hn|]. split; [exact Ho|exact He].
Qed.
Print Assumptions C04_stable_and_reversible_across_time.

(* two packets forwarded at different times: original order = wire order, and equal
   IDs <-> equal wire IDs (injective + order-preserving + stable, across time) *)
Theorem C04_order_across_time : forall p0 m h1 o1 h2 o2,
  let g := reach p0 m h1 in
  let w1 := eff (tr g) o1 in
  let g2 := grun (gstep g (Fwd o1)) h2 in
  let w2 := eff (tr g2) o2 in
  above_evicted g2 w1 ->
  (o1 < o2 <-> w1 < w2) /\ (o1 = o2 <-> w1 = w2).
Proof. intros p0 m h1 o1 h2 o2. exact (order_across_time _ h2 o1 o2 (C04_invariant p0 m h1)). Qed.
Print Assumptions C04_order_across_time.

(* gen_injectable_id: pbase+1, never an ID that was on the wire (forwarded or injected) *)
Theorem C04_gen_fresh : forall p0 m h,
  let g := reach p0 m h in
  let id := snd (gen (tr g)) in
  id = pbase (tr g) + 1 /\ ~ In id (seen g) /\ ~ In id (jall g).
Proof. exact inject_fresh_run. Qed.
Print Assumptions C04_gen_fresh.

(* every wire ID that was ever emitted, is not an injected ID and lies above the forgotten
   injections translates back to an ID the endpoint really sent (some [Fwd a] of the history) *)
Theorem C04_wire_id_translates_back_to_a_sent_id : forall p0 m h w a,
  let g := reach p0 m h in
  In w (seen g) -> ~ In w (jall g) -> above_evicted g w -> orig (tr g) w = Some a ->
  In (Fwd a) h.
Proof. exact orig_was_sent. Qed.
Print Assumptions C04_wire_id_translates_back_to_a_sent_id.

(* ------------------------------------------------------------------ *)
(* The UNQUALIFIED statement (stability / avoiding injected IDs / reversibility for
   every ID, without "above the forgotten injections") is false of the code: with a
   window of one, after  fwd 1 -> 1, inject -> 2, inject -> 3  (2 is forgotten),
   ID 1 re-translates to 2, an ID the proxy injected, and wire ID 1 translates back
   to 0.  This is inherent in the bounded memory (DESIGN.md section 7, finding 2). *)
Theorem C04_unqualified_stability_refuted :
  exists m h1 o h2,
    let g1 := reach 0 m h1 in
    let w := eff (tr g1) o in
    let g2 := grun g1 (Fwd o :: h2) in
    eff (tr g2) o <> w /\ In (eff (tr g2) o) (jall g2) /\ orig (tr g2) w <> Some o.
Proof.
  exists 1%nat, [], 1, [Inject; Inject]. vm_compute.
  split; [discriminate|]. split; [auto|discriminate].
Qed.
Print Assumptions C04_unqualified_stability_refuted.

(* ------------------------------------------------------------------ *)
(* non-vacuity: the hypotheses are satisfiable on histories with eviction *)

Definition ex_h1 : list op := [Fwd 1; Inject; Fwd 2; Inject; Inject; Fwd 3; Inject].
Definition ex_h2 : list op := [Inject; Fwd 5; Fwd 3].

(* maxlen 2: by the end 2,4,5 have been forgotten, window = [7;9]; packet 4 forwarded after
   ex_h1 (wire ID 8) still sits above everything forgotten after ex_h2 *)
Example C04_ex_across_time :
  let g1 := reach 0 2 ex_h1 in
  let w := eff (tr g1) 4 in
  let g2 := grun g1 (Fwd 4 :: ex_h2) in
  w = 8 /\ evicted g2 = [2; 4; 5] /\ above_evictedb g2 w = true /\
  orig (tr g2) w = Some 4 /\ eff (tr g2) 4 = w /\ jall g2 = [2; 4; 5; 7; 9].
Proof. vm_compute. repeat split. Qed.

Example C04_ex_refines :
  let g := reach 0 2 (ex_h1 ++ ex_h2) in
  above_evictedb g (eff (tr g) 4) = true /\ eff (tr g) 4 = E (jall g) 4 /\
  map (eff (tr g)) [3; 4; 5; 6; 7] = map (E (jall g)) [3; 4; 5; 6; 7].
Proof. vm_compute. repeat split. Qed.

Example C04_ex_orig_none :
  orig (tr (reach 0 3 [Inject; Fwd 1; Inject])) 3 = None /\
  orig (tr (reach 0 3 [Inject; Fwd 1; Inject])) 2 = Some 1.
Proof. vm_compute. split; reflexivity. Qed.

(* ------------------------------------------------------------------ *)
(* NEW packets need no aged-out qualifier (Inj/InjFresh.v).

   A new packet is an endpoint ID [o] above the tracker's start value p0 (last_seen_id)
   and above every endpoint ID forwarded so far - the normal, in-order case.  Whatever the
   window size m (0 included) and however many injections have aged out of the deque, its
   wire ID w = eff o
     - is exactly o + (number of injections ever made),
     - is above the highest wire ID seen, hence
     - is not an ID the proxy EVER used for an injected packet (aged out or not),
     - was never on the wire before (forwarded or injected),
     - is above everything the tracker has forgotten (so every qualified theorem above
       applies to it), and
     - is strictly above the wire ID every earlier forwarded packet got when it was
       forwarded (strictly order-preserving and injective w.r.t. the whole past).
   No [above_evicted] hypothesis. *)
From HV Require Import Inj.InjFresh.

Theorem C04_new_packet_fresh : forall p0 m h o,
  let g := reach p0 m h in
  p0 < o ->
  (forall o', In (Fwd o') h -> o' < o) ->
  let w := eff (tr g) o in
  w = o + Z.of_nat (length (jall g)) /\
  pbase (tr g) < w /\
  ~ In w (jall g) /\
  ~ In w (seen g) /\
  above_evicted g w /\
  (forall h1 o1 h2, h = h1 ++ Fwd o1 :: h2 -> eff (tr (reach p0 m h1)) o1 < w).
Proof. exact new_packet_fresh. Qed.
Print Assumptions C04_new_packet_fresh.

(* so for a new packet the refinement of the abstract order isomorphism is unqualified too:
   w is THE o-th integer outside the set of all IDs ever injected, equals the specification
   function E, and translates back to o *)
Theorem C04_new_packet_refines : forall p0 m h o,
  let g := reach p0 m h in
  p0 < o ->
  (forall o', In (Fwd o') h -> o' < o) ->
  nth_free (jall g) o (eff (tr g) o) /\
  eff (tr g) o = E (jall g) o /\
  orig (tr g) (eff (tr g) o) = Some o.
Proof. exact new_packet_refines. Qed.
Print Assumptions C04_new_packet_refines.

(* the invariant behind it, at every reachable state: the highest wire ID seen is the highest
   endpoint ID forwarded so far ([hmax]: p0 when none) plus the number of injections ever made,
   and the first endpoint ID above it translates to exactly pbase+1 *)
Theorem C04_pbase_is_newest_plus_injections : forall p0 m h,
  let g := reach p0 m h in
  pbase (tr g) = hmax p0 h + Z.of_nat (length (jall g)) /\
  eff (tr g) (hmax p0 h + 1) = pbase (tr g) + 1.
Proof. exact pbase_is_hmax_plus_injections. Qed.
Print Assumptions C04_pbase_is_newest_plus_injections.

(* the hypothesis p0 < o is needed: an ID at or below last_seen_id can land on an injected ID
   (InjectionTracker(0, maxlen=0): inject -> 1, then ID 0 translates to 1) *)
Theorem C04_new_packet_below_start_refuted :
  exists p0 m h o,
    let g := reach p0 m h in
    (forall o', In (Fwd o') h -> o' < o) /\ ~ p0 < o /\ In (eff (tr g) o) (jall g).
Proof. exact new_packet_needs_start_bound. Qed.
Print Assumptions C04_new_packet_below_start_refuted.

(* non-vacuity: window 1, three injections, two of them aged out (2 and 3); packet 3 is new
   and gets 3 + 3 = 6; the OLD packet 1 at the same state re-translates to 3, an aged-out
   injected ID - the qualifier is needed for old IDs only *)
Definition ex_h3 : list op := [Fwd 1; Inject; Inject; Fwd 2; Inject].

Example C04_ex_new_packet :
  let g := reach 0 1 ex_h3 in
  (0 < 3 /\ forall o', In (Fwd o') ex_h3 -> o' < 3) /\
  evicted g = [2; 3] /\ inj (tr g) = [5] /\ pbase (tr g) = 5 /\ hmax 0 ex_h3 = 2 /\
  eff (tr g) 3 = 6 /\ seen g = [5; 4; 3; 2; 1] /\
  eff (tr g) 1 = 3 /\ In (eff (tr g) 1) (jall g).
Proof.
  cbn zeta. split.
  - split; [reflexivity|]. intros o' H. cbn in H.
    destruct H as [H|[H|[H|[H|[H|[]]]]]]; try discriminate H; injection H as <-; reflexivity.
  - vm_compute. repeat split. right. left. reflexivity.
Qed.
