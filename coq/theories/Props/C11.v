(* C11 - human-readable message text round-trips; safe mode never evaluates.
   Property theorems only.  Model: Text/HumanText.v (tied to
   message_formatting.HumanMessageSerializer by harness/props/c11.py). *)
From Coq Require Import NArith List Bool.
From HV Require Import Text.HumanText Text.HumanTextSafe.
Import ListNotations.
Open Scope N_scope.

(* safe mode: for every text and every behaviour of the oracles, the evaluation
   entry point is never consulted (its call trace stays empty), whether parsing
   succeeds, fails or finds no message *)
Theorem C11_safe_no_eval :
  forall val read_lit read_vec read_uuid repl eval_fn vnone has_ser pack txt,
    outcome_trace val (from_human val read_lit read_vec read_uuid repl eval_fn vnone has_ser pack true txt) = [].
Proof. exact safe_no_eval. Qed.
Print Assumptions C11_safe_no_eval.

(* a statement whose operator contains a dollar raises at once in safe mode *)
Theorem C11_safe_rejects_stmt :
  forall val read_lit read_vec read_uuid repl eval_fn vnone has_ser s n op v,
    mem DOLLAR op = true ->
    handle_var val read_lit read_vec read_uuid repl eval_fn vnone has_ser true s n op v = inr (s_trace val s).
Proof. exact safe_rejects_stmt. Qed.
Print Assumptions C11_safe_rejects_stmt.

(* ... hence a text accepted in safe mode contains no dollar-operator statement *)
Theorem C11_safe_accepts_no_dollar :
  forall val read_lit read_vec read_uuid repl eval_fn vnone has_ser pack txt m t,
    from_human val read_lit read_vec read_uuid repl eval_fn vnone has_ser pack true txt = OMsg val m t ->
    match drop_while is_comment (prep txt) with
    | [] => True
    | _ :: rest => existsb has_dollar (stmts rest None) = false
    end.
Proof. exact safe_accepts_no_dollar. Qed.
Print Assumptions C11_safe_accepts_no_dollar.

From HV Require Import Text.HumanTextLemmas Text.HumanTextProofs Text.HumanTextExamples.

(* Round trip of the framing.  For every instance of the oracles (literal reader,
   vector/uuid readers, replacement table, serializer table, packers) and of the
   formatter's choices (present = what _format_var shows: plain / packed with
   inline original / packed with the original on a comment line; block suffix;
   header comments), for every message with any number of block lists - empty
   ones included -, block multiplicities, variables and multi-line values: if
   every shown value satisfies var_ok (physical lines non-blank, newline-free,
   not ending in a backslash; their stripped concatenation reads back through
   the parser's sniffers / literal reader; the packer, run after the whole text
   has been read on the block with placeholders for the packed values not yet
   restored, re-encodes the value), parsing the text in either mode returns
   exactly the message it was produced from - hence the same datagram body under
   any serializer - and evaluates nothing. *)
Theorem C11_text_roundtrip :
  forall val read_lit read_vec read_uuid repl eval_fn vnone has_ser pack present block_suffix hdr_comments safe m,
    wf_msg val read_lit read_vec read_uuid repl vnone has_ser pack present block_suffix hdr_comments m ->
    from_human val read_lit read_vec read_uuid repl eval_fn vnone has_ser pack safe
      (to_human val present block_suffix hdr_comments m) = OMsg val m [].
Proof. exact text_roundtrip. Qed.
Print Assumptions C11_text_roundtrip.

(* regression witnesses of the two repaired defects, now positive: a block list
   that is present but empty survives the text form ... *)
Example C11_ex_empty_list : x_from true (x_to ex_empty) = OMsg xval ex_empty [].
Proof. vm_compute. reflexivity. Qed.

(* ... and a packer that needs a later variable of its block (x_pack of s needs
   p, as ObjectUpdate State needs PCode) sees it, because packing is deferred *)
Example C11_ex_packed_later_field :
  x_pack [77] [66] [115] [([115], x_none)] [48;32;35;48] = None /\
  x_from true (x_to ex_order) = OMsg xval ex_order [].
Proof. split; vm_compute; reflexivity. Qed.

(* non-vacuity: a message with two B blocks, a C block and an empty E list, a
   two-line literal, both packed forms, a uuid-like value, a replacement token,
   named and unnamed flags, satisfies the hypotheses and round-trips *)
Example C11_ex_roundtrip : x_from true (x_to ex_msg) = OMsg xval ex_msg [].
Proof. vm_compute. reflexivity. Qed.

Example C11_ex_unsafe_trace :
  outcome_trace xval (x_from false [79;85;84;32;77;10;91;66;93;10;97;32;61;36;32;49;10;98;32;61;36;32;50]) = [[49]; [50]]
  /\ outcome_trace xval (x_from true [79;85;84;32;77;10;91;66;93;10;97;32;61;36;32;49;10;98;32;61;36;32;50]) = [].
Proof. split; vm_compute; reflexivity. Qed.

(* ... and satisfies the hypotheses of C11_text_roundtrip *)
Example C11_ex_hyps :
  wf_msg xval x_read_lit x_read_vec x_read_uuid x_repl x_none x_has_ser x_pack x_present x_suffix x_comments ex_msg.
Proof.
  unfold wf_msg, ex_msg. cbn [m_name m_flags m_blocks].
  split; [split; [discriminate | reflexivity]|].
  split; [reflexivity|].
  split; [repeat constructor; cbn; intuition discriminate|].
  split.
  - repeat (apply Forall_cons || apply Forall_nil); unfold entry_ok; cbn [fst snd];
      (split; [split; [discriminate | reflexivity]|]); (split; [repeat split; reflexivity|]);
      repeat (apply Forall_cons || apply Forall_nil); cbn [vars_ok];
      repeat (match goal with
              | |- _ /\ _ => split
              | |- True => exact I
              | |- ~ In _ _ => cbn; intuition discriminate
              | |- var_ok _ _ _ _ _ _ _ _ _ _ _ _ _ _ _ _ => unfold var_ok; cbn [x_present str_eqb N.eqb Pos.eqb andb]
              | |- wordy _ => split; [discriminate | reflexivity]
              | |- lines_ok _ => split; [discriminate | repeat (apply Forall_cons || apply Forall_nil)]
              | |- line_ok _ => split; [reflexivity | split; [vm_compute; discriminate | vm_compute; reflexivity]]
              | |- exists pv, _ => eexists; split; [reflexivity | vm_compute; reflexivity]
              | |- _ = _ => vm_compute; reflexivity
              end).
  - constructor; [|constructor]. split; [reflexivity|]. exists [], [32;73;68;58;32;49]. split; reflexivity.
Qed.
