(* C11 - human-readable message text round-trips; safe mode never evaluates.
   Property theorems only.  Model: Text/HumanText.v (tied to
   message_formatting.HumanMessageSerializer by harness/props/c11.py). *)
From Coq Require Import NArith List Bool.
From HV Require Import Text.HumanText Text.HumanTextSafe.
Import ListNotations.
Open Scope N_scope.

(* safe mode: for every text and every behaviour of the oracles, the evaluation
   entry point is never consulted (its call trace stays empty), whether parsing
   succeeds, fails or finds no message *)
Theorem C11_safe_no_eval :
  forall val read_lit read_vec read_uuid repl eval_fn vnone has_ser pack txt,
    outcome_trace val (from_human val read_lit read_vec read_uuid repl eval_fn vnone has_ser pack true txt) = [].
Proof. exact safe_no_eval. Qed.
Print Assumptions C11_safe_no_eval.

(* a statement whose operator contains a dollar raises at once in safe mode *)
Theorem C11_safe_rejects_stmt :
  forall val read_lit read_vec read_uuid repl eval_fn vnone has_ser s n op v,
    mem DOLLAR op = true ->
    handle_var val read_lit read_vec read_uuid repl eval_fn vnone has_ser true s n op v = inr (s_trace val s).
Proof. exact safe_rejects_stmt. Qed.
Print Assumptions C11_safe_rejects_stmt.

(* ... hence a text accepted in safe mode contains no dollar-operator statement *)
Theorem C11_safe_accepts_no_dollar :
  forall val read_lit read_vec read_uuid repl eval_fn vnone has_ser pack txt m t,
    from_human val read_lit read_vec read_uuid repl eval_fn vnone has_ser pack true txt = OMsg val m t ->
    match drop_while is_comment (prep txt) with
    | [] => True
    | _ :: rest => existsb has_dollar (stmts rest None) = false
    end.
Proof. exact safe_accepts_no_dollar. Qed.
Print Assumptions C11_safe_accepts_no_dollar.

From HV Require Import Text.HumanTextLemmas Text.HumanTextProofs Text.HumanTextExamples.

(* Round trip of the framing.  For every instance of the oracles (literal reader,
   vector/uuid readers, replacement table, serializer table, packers) and of the
   formatter's choices (present = what _format_var shows: plain / packed with
   inline original / packed with the original on a comment line; block suffix;
   header comments), for every message with any number of block lists - empty
   ones included -, block multiplicities, variables and multi-line values: if
   every shown value satisfies var_ok (physical lines non-blank, newline-free,
   not ending in a backslash; their stripped concatenation reads back through
   the parser's sniffers / literal reader; the packer, run after the whole text
   has been read on the block with placeholders for the packed values not yet
   restored, re-encodes the value), parsing the text in either mode returns
   exactly the message it was produced from - hence the same datagram body under
   any serializer - and evaluates nothing. *)
Theorem C11_text_roundtrip :
  forall val read_lit read_vec read_uuid repl eval_fn vnone has_ser pack present block_suffix hdr_comments safe m,
    wf_msg val read_lit read_vec read_uuid repl vnone has_ser pack present block_suffix hdr_comments m ->
    from_human val read_lit read_vec read_uuid repl eval_fn vnone has_ser pack safe
      (to_human val present block_suffix hdr_comments m) = OMsg val m [].
Proof. exact text_roundtrip. Qed.
Print Assumptions C11_text_roundtrip.

(* regression witnesses of the two repaired defects, now positive: a block list
   that is present but empty survives the text form ... *)
Example C11_ex_empty_list : x_from true (x_to ex_empty) = OMsg xval ex_empty [].
Proof. vm_compute. reflexivity. Qed.

(* ... and a packer that needs a later variable of its block (x_pack of s needs
   p, as ObjectUpdate State needs PCode) sees it, because packing is deferred *)
Example C11_ex_packed_later_field :
  x_pack [77] [66] [115] [([115], x_none)] [48;32;35;48] = None /\
  x_from true (x_to ex_order) = OMsg xval ex_order [].
Proof. split; vm_compute; reflexivity. Qed.

(* non-vacuity: a message with two B blocks, a C block and an empty E list, a
   two-line literal, both packed forms, a uuid-like value, a replacement token,
   named and unnamed flags, satisfies the hypotheses and round-trips *)
Example C11_ex_roundtrip : x_from true (x_to ex_msg) = OMsg xval ex_msg [].
Proof. vm_compute. reflexivity. Qed.

Example C11_ex_unsafe_trace :
  outcome_trace xval (x_from false [79;85;84;32;77;10;91;66;93;10;97;32;61;36;32;49;10;98;32;61;36;32;50]) = [[49]; [50]]
  /\ outcome_trace xval (x_from true [79;85;84;32;77;10;91;66;93;10;97;32;61;36;32;49;10;98;32;61;36;32;50]) = [].
Proof. split; vm_compute; reflexivity. Qed.

(* ... and satisfies the hypotheses of C11_text_roundtrip *)
Example C11_ex_hyps :
  wf_msg xval x_read_lit x_read_vec x_read_uuid x_repl x_none x_has_ser x_pack x_present x_suffix x_comments ex_msg.
Proof.
  unfold wf_msg, ex_msg. cbn [m_name m_flags m_blocks].
  split; [split; [discriminate | reflexivity]|].
  split; [reflexivity|].
  split; [repeat constructor; cbn; intuition discriminate|].
  split.
  - repeat (apply Forall_cons || apply Forall_nil); unfold entry_ok; cbn [fst snd];
      (split; [split; [discriminate | reflexivity]|]); (split; [repeat split; reflexivity|]);
      repeat (apply Forall_cons || apply Forall_nil); cbn [vars_ok];
      repeat (match goal with
              | |- _ /\ _ => split
              | |- True => exact I
              | |- ~ In _ _ => cbn; intuition discriminate
              | |- var_ok _ _ _ _ _ _ _ _ _ _ _ _ _ _ _ _ => unfold var_ok; cbn [x_present str_eqb N.eqb Pos.eqb andb]
              | |- wordy _ => split; [discriminate | reflexivity]
              | |- lines_ok _ => split; [discriminate | repeat (apply Forall_cons || apply Forall_nil)]
              | |- line_ok _ => split; [reflexivity | split; [vm_compute; discriminate | vm_compute; reflexivity]]
              | |- exists pv, _ => eexists; split; [reflexivity | vm_compute; reflexivity]
              | |- _ = _ => vm_compute; reflexivity
              end).
  - constructor; [|constructor]. split; [reflexivity|]. exists [], [32;73;68;58;32;49]. split; reflexivity.
Qed.

(* ======================================================================
   Concrete Python literals (Text/PyLiteral.v): the per-value hypotheses of
   C11_text_roundtrip become theorems for str / bytes / int values.
   The renderer model (repr of str / bytes / int, HippoPrettyPrinter's
   one-literal-per-line form for five or more newlines, pprint's wrapping
   above 100 columns) and the reader model (ast.literal_eval on these literal
   forms) are tied to CPython and to /repo by harness/props/c11.py.
   [printable] is str.isprintable; the only fact used about it is that no
   surrogate code point is printable (checked over all code points each run). *)
From HV Require Import Text.PyLiteral Text.PyLiteralProofs Text.HumanTextConcrete.

(* literal_eval (repr s) = s for every str (any quotes, backslashes, NULs,
   newlines, non-BMP and surrogate code points) and every bytes value *)
Theorem C11_repr_str_reads_back :
  forall printable, (forall c, printable c = true -> is_sur c = false) ->
  forall s, Forall (fun c => c < UNI_MAX) s -> read_lit (repr_str printable s) = Some (VStr s).
Proof. exact (fun p H s Hs => read_lit_single p H false s Hs). Qed.
Print Assumptions C11_repr_str_reads_back.

Theorem C11_repr_bytes_reads_back :
  forall printable, (forall c, printable c = true -> is_sur c = false) ->
  forall b, Forall (fun c => c < 256) b -> read_lit (repr_bytes b) = Some (VBytes b).
Proof. exact (fun p H b Hb => read_lit_single p H true b Hb). Qed.
Print Assumptions C11_repr_bytes_reads_back.

(* For every str / bytes / int value and either choice of _format_var (repr on
   one line when the variable has a subfield serializer, _multi_line_pformat
   otherwise): every physical line shown is newline-free, non-blank once
   stripped, does not end in a backslash, does not start with an opening
   bracket, a hash, a dollar or a bar (lines_ok'); the stripped concatenation of the lines is not
   taken for a replacement token, a vector or a UUID (unsniffed); and the
   literal reader returns the value. *)
Theorem C11_literal_value_roundtrip :
  forall printable, (forall c, printable c = true -> is_sur c = false) ->
  forall ser v, wf_val v = true ->
    lines_ok' (render_val printable ser v)
    /\ unsniffed (concat (map strip (render_val printable ser v)))
    /\ read_lit (concat (map strip (render_val printable ser v))) = Some v.
Proof. exact render_val_ok. Qed.
Print Assumptions C11_literal_value_roundtrip.

(* The round trip with NO hypothesis about values: for every message whose
   variables are Python str / bytes / int values (wf_val: code points below
   0x110000, bytes below 256, ints CPython agrees to print), shown in plain form
   (beautify off), with any number of block lists - empty ones included -,
   blocks and variables, under the structural conditions plain_msg (message,
   block and variable names are non-empty words, block names and the variable
   names of one block are distinct, flags below 2048, block suffix / header
   comments as the formatter writes them): parsing the text, in either mode and
   whatever the other oracles do, returns exactly the message, evaluating nothing. *)
Theorem C11_text_roundtrip_concrete :
  forall printable, (forall c, printable c = true -> is_sur c = false) ->
  forall read_vec read_uuid repl eval_fn has_ser pack block_suffix hdr_comments safe m,
    plain_msg block_suffix hdr_comments m ->
    from_human pval read_lit read_vec read_uuid repl eval_fn VNone has_ser pack safe
      (to_human pval (c_present printable has_ser) block_suffix hdr_comments m) = OMsg pval m [].
Proof. exact text_roundtrip_concrete. Qed.
Print Assumptions C11_text_roundtrip_concrete.

(* Mixed form, for any value type embedding the three kinds and any literal
   reader extending the modelled one: a variable shown plain by the modelled
   renderer needs no hypothesis; every other variable (packed =| forms, uuid,
   vector, float, replacement token ...) keeps exactly the abstract hypotheses
   var_ok of C11_text_roundtrip (cvar_ok is the disjunction of the two). *)
Theorem C11_text_roundtrip_mixed :
  forall printable, (forall c, printable c = true -> is_sur c = false) ->
  forall (val : Type) (emb : pval -> val) (read_lit_v : str -> option val),
    (forall s v, read_lit s = Some v -> read_lit_v s = Some (emb v)) ->
  forall read_vec read_uuid repl eval_fn vnone has_ser pack present block_suffix hdr_comments safe m,
    cwf_msg printable val emb read_lit_v read_vec read_uuid repl vnone has_ser pack present block_suffix hdr_comments m ->
    from_human val read_lit_v read_vec read_uuid repl eval_fn vnone has_ser pack safe
      (to_human val present block_suffix hdr_comments m) = OMsg val m [].
Proof. exact text_roundtrip_mixed. Qed.
Print Assumptions C11_text_roundtrip_mixed.

(* the block suffixes to_human_string writes (none, or the Variable marker)
   satisfy the suffix condition of plain_msg for every block name *)
Theorem C11_std_suffix_ok : forall is_variable bn, suffix_ok (std_suffix is_variable) bn.
Proof. exact std_suffix_ok. Qed.
Print Assumptions C11_std_suffix_ok.

(* The same two statements with NO oracle premise left: [py_printable] is the
   table regenerated on every run from str.isprintable of the interpreter under
   test (gen/C11_printable_gen.v; its no-surrogate obligation is discharged by
   computation there). *)
From HVgen Require Import C11_printable_gen.

Theorem C11_literal_value_roundtrip_cpython :
  forall ser v, wf_val v = true ->
    lines_ok' (render_val py_printable ser v)
    /\ unsniffed (concat (map strip (render_val py_printable ser v)))
    /\ read_lit (concat (map strip (render_val py_printable ser v))) = Some v.
Proof. exact (render_val_ok py_printable C11_gen_printable_nosur). Qed.
Print Assumptions C11_literal_value_roundtrip_cpython.

Theorem C11_text_roundtrip_cpython :
  forall read_vec read_uuid repl eval_fn has_ser pack block_suffix hdr_comments safe m,
    plain_msg block_suffix hdr_comments m ->
    from_human pval read_lit read_vec read_uuid repl eval_fn VNone has_ser pack safe
      (to_human pval (c_present py_printable has_ser) block_suffix hdr_comments m) = OMsg pval m [].
Proof. exact (text_roundtrip_concrete py_printable C11_gen_printable_nosur). Qed.
Print Assumptions C11_text_roundtrip_cpython.

(* the live table at work: e-acute and a non-BMP emoji are printable and stay raw,
   the no-break space is not and is escaped *)
Example C11_ex_cpython_table :
  render_val py_printable true (VStr [233; 160; 128512]) = [[39; 233; 92; 120; 97; 48; 128512; 39]]
  /\ read_lit [39; 233; 92; 120; 97; 48; 128512; 39] = Some (VStr [233; 160; 128512]).
Proof. split; vm_compute; reflexivity. Qed.

(* non-vacuity and regression witness: a message with a seven-line string holding
   both quotes and a backslash before a newline, a NUL-bearing bytes value, a
   negative int, a string wrapped above 100 columns, an empty string and an
   empty block list satisfies plain_msg; the model prints exactly the text
   recorded from to_human_string; the text parses back to the message *)
Example C11_ex_concrete_hyps : plain_msg ex_no_suffix ex_no_comments ex_cmsg.
Proof. exact ex_cmsg_plain. Qed.

Example C11_ex_concrete_text : cx_to ex_cmsg = ex_ctext.
Proof. vm_compute. reflexivity. Qed.

Example C11_ex_concrete_roundtrip : cx_from true ex_ctext = OMsg pval ex_cmsg [].
Proof. vm_compute. reflexivity. Qed.

Example C11_ex_printable_hyp : forall c, ex_printable c = true -> is_sur c = false.
Proof. exact ex_printable_nosur. Qed.

(* the rendered lines of the seven-line string, and what the reader makes of a
   literal outside the fragment (triple-quoted) and of a mixed concatenation *)
Example C11_ex_literal_lines :
  render_val ex_printable false (VBytes ex_bytes) = [[98;39;97;98;92;120;48;48;92;120;102;102;92;39;34;92;92;92;110;39]]
  /\ length (render_val ex_printable false (VStr ex_s7)) = 7%nat
  /\ read_lit [39;39;39;97;39;39;39] = None
  /\ read_lit [39;97;39;32;98;39;99;39] = None
  /\ read_lit [40;32;45;32;48;48;32;41;32;35;120] = Some (VInt Z0).
Proof. repeat split; vm_compute; reflexivity. Qed.
