(* C17 driver.  One history of ONE region per line, ops separated by "|":
     I o.n            inject event (origin o: 0 sim / 1 injected, number n)
     Q ack            poll request          ack = "-" (undef) or int
     P ack status B   poll response         B = "-" (undef body) or id:o.n,o.n,...  ("id:" alone = no events)
     D                mark_dead
   The addon verdict: an event from the simulator with an odd number is swallowed.
   Output: per-op outs joined by " | ", then " || " and the final state. *)
let ev_of w = match String.split_on_char '.' w with
  | [o; n] -> ((if o = "1" then Injected else FromSim), n_of_int (int_of_string n))
  | _ -> failwith "ev"
let ev_out (o, n) = (match o with FromSim -> "0" | Injected -> "1") ^ "." ^ string_of_int (int_of_n n)
let ack_of w = if w = "-" then None else Some (n_of_int (int_of_string w))
let ack_out a = match a with None -> "-" | Some x -> string_of_int (int_of_n x)
let payload_of w =
  if w = "-" then None else
    match String.split_on_char ':' w with
    | [id; evs] -> Some { p_id = n_of_int (int_of_string id);
                          p_events = List.map ev_of (List.filter (fun x -> x <> "") (String.split_on_char ',' evs)) }
    | _ -> failwith "payload"
let payload_out p = string_of_int (int_of_n p.p_id) ^ ":" ^ String.concat "," (List.map ev_out p.p_events)
let opayload_out b = match b with None -> "-" | Some p -> payload_out p
let swallow (o, n) = (match o with FromSim -> true | Injected -> false) && (int_of_n n) land 1 = 1

let parse_op ws = match ws with
  | ["I"; e] -> EInject (ev_of e)
  | ["Q"; a] -> EReq (ack_of a)
  | ["P"; a; st; b] -> EResp (ack_of a, n_of_int (int_of_string st), payload_of b)
  | ["D"] -> EDead
  | _ -> failwith ("op: " ^ String.concat " " ws)
let rec split_ops ws cur = match ws with
  | [] -> if cur = [] then [] else [List.rev cur]
  | "|" :: t -> List.rev cur :: split_ops t []
  | w :: t -> split_ops t (w :: cur)
let out_out o = match o with
  | XNone -> "none" | XForward -> "fwd"
  | XCached p -> "cached:" ^ payload_out p
  | XBody b -> "body:" ^ opayload_out b
let state_out q = "Q " ^ String.concat "," (List.map ev_out q.q_queued) ^ " A " ^ ack_out q.q_last_ack ^ " P " ^ opayload_out q.q_last_payload

let () =
  try
    while true do
      let line = input_line stdin in
      (try
        let ops = List.map parse_op (split_ops (words line) []) in
        let (q, outs) = eq_trace swallow ops eq_init in
        print_endline (String.concat " | " (List.map out_out outs) ^ " || " ^ state_out q)
      with Failure e -> print_endline ("PARSE-ERROR " ^ e))
    done
  with End_of_file -> ()
