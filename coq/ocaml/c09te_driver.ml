(* C09 TextureEntry driver (model: Spec/TexEntry.v, raw fixed-size elements).  One case per line:
     bd HEX                 dec_bitfield            -> ERR | FACES REST
     be FACES               enc_bitfield            -> HEX
     d  LAYOUT HEX          dec_te                  -> ERR | OK STRUCT REST
     e  LAYOUT STRUCT       enc_te                  -> ERR | HEX
     gd LAYOUT HEX          dec_te_greedy           -> ERR | N | V STRUCT
     ge LAYOUT STRUCT|N     enc_te_greedy           -> ERR | HEX
     ud LAYOUT HEX          dec_te_u32              -> ERR | N REST | V STRUCT REST
     ue LAYOUT STRUCT|N     enc_te_u32              -> ERR | HEX
     sd LAYOUT HEX          sub_dec_u32             -> ERR | N | V STRUCT
     se LAYOUT STRUCT|N     sub_enc_u32             -> ERR | HEX
     ok LAYOUT STRUCT       raw_layout_okb, raw_te_ok -> two 0/1 flags
     rf STRUCTFIELD FACE    realize_face of one field -> HEX
     xb HEX                 dec_dictcoll (ExtraParams shape, raw entries) -> ERR | V DICT REST
     xd HEX                 sub_dec_dictcoll        -> ERR | N | V DICT
     xw HEX                 dec_entries (count byte, then the entries as they are on the wire, before dict()) -> ERR | V DICT REST
     xe DICT|N              sub_enc_dictcoll        -> ERR | HEX
     xo DICT                raw_dict_ok             -> 0/1
   DICT    type:HEX,type:HEX,...  "{}" for the empty dict
   LAYOUT  first,optional,size/first,optional,size/...      HEX  hex digits, "-" for empty
   FACES   1.2.3, "e" for the empty tuple
   STRUCT  field;field;...   field = "~" (None) | HEX|FACES=HEX|FACES=HEX  (default, then items in dict order) *)
let split c s = String.split_on_char c s
let bytes_of_hex (s : string) : n list =
  if s = "-" then [] else
    List.init (String.length s / 2) (fun i -> n_of_int (int_of_string ("0x" ^ String.sub s (2 * i) 2)))
let hex_of_bytes (l : n list) : string =
  if l = [] then "-" else String.concat "" (List.map (fun b -> Printf.sprintf "%02x" (int_of_n b)) l)
let faces_of_text (s : string) : n list =
  if s = "e" then [] else List.map (fun w -> n_of_int (int_of_string w)) (split '.' s)
let text_of_faces (l : n list) : string =
  if l = [] then "e" else String.concat "." (List.map (fun f -> string_of_int (int_of_n f)) l)
let layout_of_text (s : string) =
  List.map (fun f -> match split ',' f with
      | [a; b; k] -> ((a = "1", b = "1"), nat_of_int (int_of_string k))
      | _ -> failwith ("bad layout " ^ f)) (split '/' s)
let field_of_text (s : string) =
  if s = "~" then None else
    match split '|' s with
    | d :: items ->
      Some (bytes_of_hex d,
            List.map (fun it -> match split '=' it with
                | [f; v] -> (faces_of_text f, bytes_of_hex v)
                | _ -> failwith ("bad item " ^ it)) items)
    | [] -> failwith "empty field"
let text_of_field = function
  | None -> "~"
  | Some (d, items) ->
    String.concat "|" (hex_of_bytes d :: List.map (fun (f, v) -> text_of_faces f ^ "=" ^ hex_of_bytes v) items)
let struct_of_text (s : string) = List.map field_of_text (split ';' s)
let text_of_struct vs = String.concat ";" (List.map text_of_field vs)
let tev_of_text (s : string) = if s = "N" then None else Some (struct_of_text s)
let b2s b = if b then "1" else "0"
let dict_of_text (s : string) =
  if s = "{}" then [] else
    List.map (fun e -> match split ':' e with
        | [k; v] -> (n_of_int (int_of_string k), bytes_of_hex v)
        | _ -> failwith ("bad dict entry " ^ e)) (split ',' s)
let text_of_dict d =
  if d = [] then "{}" else String.concat "," (List.map (fun (k, v) -> string_of_int (int_of_n k) ^ ":" ^ hex_of_bytes v) d)

let handle (line : string) : string =
  match words line with
  | ["bd"; h] ->
    (match dec_bitfield (bytes_of_hex h) with
     | None -> "ERR"
     | Some (f, r) -> text_of_faces f ^ " " ^ hex_of_bytes r)
  | ["be"; f] -> hex_of_bytes (enc_bitfield (faces_of_text f))
  | ["d"; l; h] ->
    (match dec_te (raw_layout (layout_of_text l)) (bytes_of_hex h) with
     | None -> "ERR"
     | Some (vs, r) -> "OK " ^ text_of_struct vs ^ " " ^ hex_of_bytes r)
  | ["e"; l; s] ->
    (match enc_te (raw_layout (layout_of_text l)) (struct_of_text s) with
     | None -> "ERR"
     | Some b -> hex_of_bytes b)
  | ["gd"; l; h] ->
    (match dec_te_greedy (raw_layout (layout_of_text l)) (bytes_of_hex h) with
     | None -> "ERR"
     | Some None -> "N"
     | Some (Some vs) -> "V " ^ text_of_struct vs)
  | ["ge"; l; s] ->
    (match enc_te_greedy (raw_layout (layout_of_text l)) (tev_of_text s) with
     | None -> "ERR"
     | Some b -> hex_of_bytes b)
  | ["ud"; l; h] ->
    (match dec_te_u32 (raw_layout (layout_of_text l)) (bytes_of_hex h) with
     | None -> "ERR"
     | Some (None, r) -> "N " ^ hex_of_bytes r
     | Some (Some vs, r) -> "V " ^ text_of_struct vs ^ " " ^ hex_of_bytes r)
  | ["ue"; l; s] ->
    (match enc_te_u32 (raw_layout (layout_of_text l)) (tev_of_text s) with
     | None -> "ERR"
     | Some b -> hex_of_bytes b)
  | ["sd"; l; h] ->
    (match sub_dec_u32 (raw_layout (layout_of_text l)) (bytes_of_hex h) with
     | None -> "ERR"
     | Some None -> "N"
     | Some (Some vs) -> "V " ^ text_of_struct vs)
  | ["se"; l; s] ->
    (match sub_enc_u32 (raw_layout (layout_of_text l)) (tev_of_text s) with
     | None -> "ERR"
     | Some b -> hex_of_bytes b)
  | ["ok"; l; s] ->
    let ls = layout_of_text l in
    b2s (raw_layout_okb ls) ^ " " ^ b2s (raw_te_ok ls (struct_of_text s))
  | ["rf"; s; f] ->
    (match field_of_text s with
     | None -> "ERR"
     | Some fv -> hex_of_bytes (realize_face fv (n_of_int (int_of_string f))))
  | ["xb"; h] ->
    (match dec_dictcoll N.eqb raw_entry_codec (bytes_of_hex h) with
     | None -> "ERR"
     | Some (d, r) -> "V " ^ text_of_dict d ^ " " ^ hex_of_bytes r)
  | ["xw"; h] ->
    (match bytes_of_hex h with
     | [] -> "ERR"
     | n :: r ->
       (match dec_entries raw_entry_codec (nat_of_int (int_of_n n)) r with
        | None -> "ERR"
        | Some (es, r') -> "V " ^ text_of_dict es ^ " " ^ hex_of_bytes r'))
  | ["xd"; h] ->
    (match sub_dec_dictcoll N.eqb raw_entry_codec (bytes_of_hex h) with
     | None -> "ERR"
     | Some None -> "N"
     | Some (Some d) -> "V " ^ text_of_dict d)
  | ["xe"; s] ->
    (match sub_enc_dictcoll raw_entry_codec (if s = "N" then None else Some (dict_of_text s)) with
     | None -> "ERR"
     | Some b -> hex_of_bytes b)
  | ["xo"; s] -> b2s (raw_dict_ok (dict_of_text s))
  | _ -> "BADLINE"

let () =
  try
    while true do
      let line = input_line stdin in
      print_endline (try handle line with e -> "DRIVER-EXC " ^ Printexc.to_string e)
    done
  with End_of_file -> ()
