(* C08 driver.  One case per line:
     ser E SPEC VALUE      -> OK <hex> | ERR
     de E POD SPEC HEX     -> OK <value> <bytes-left> | ERR
     info SPEC             -> <wf> <delimited> <min_size> <calc_size|N>
     dom E POD SPEC VALUE  -> 0 | 1
     utf8 HEX              -> 0 | 1
   E is < or >, POD is 0/1, numbers are hexadecimal (optionally signed), byte strings are
   hex atoms ("-" = empty), SPEC / VALUE are s-expressions with ( ) as separate tokens. *)
type sx = A of string | L of sx list

let tokenize (s:string) : string list = words s

let rec parse_list toks acc =
  match toks with
  | [] -> failwith "unbalanced"
  | ")" :: r -> (List.rev acc, r)
  | _ -> let (x, r) = parse_one toks in parse_list r (x :: acc)
and parse_one toks =
  match toks with
  | [] -> failwith "eof"
  | "(" :: r -> let (l, r') = parse_list r [] in (L l, r')
  | ")" :: _ -> failwith "unexpected )"
  | a :: r -> (A a, r)

let hexval c = match c with
  | '0'..'9' -> Char.code c - 48 | 'a'..'f' -> Char.code c - 87 | 'A'..'F' -> Char.code c - 55
  | _ -> failwith "hex"

(* unsigned hex -> n, without going through OCaml ints (64-bit values) *)
let n_of_hex (s:string) : n =
  let p = ref None in
  String.iter (fun c ->
    let d = hexval c in
    List.iter (fun bit ->
      let b = (d lsr bit) land 1 = 1 in
      p := (match !p with
            | None -> if b then Some XH else None
            | Some q -> Some (if b then XI q else XO q))) [3;2;1;0]) s;
  match !p with None -> N0 | Some q -> Npos q

let z_of_hex (s:string) : z =
  let neg = String.length s > 0 && s.[0] = '-' in
  let body = if neg then String.sub s 1 (String.length s - 1) else s in
  match n_of_hex body with
  | N0 -> Z0
  | Npos p -> if neg then Zneg p else Zpos p

let hex_of_pos (p:positive) : string =
  let rec bits p = match p with XH -> [1] | XO q -> 0 :: bits q | XI q -> 1 :: bits q in
  let rec digits l = match l with
    | [] -> []
    | a :: b :: c :: d :: r -> (a + 2*b + 4*c + 8*d) :: digits r
    | a :: b :: c :: [] -> [a + 2*b + 4*c]
    | a :: b :: [] -> [a + 2*b]
    | a :: [] -> [a] in
  let ds = List.rev (digits (bits p)) in
  String.concat "" (List.map (fun d -> String.make 1 "0123456789abcdef".[d]) ds)

let hex_of_n (x:n) = match x with N0 -> "0" | Npos p -> hex_of_pos p
let hex_of_z (x:z) = match x with Z0 -> "0" | Zpos p -> hex_of_pos p | Zneg p -> "-" ^ hex_of_pos p

let bytes_of_hex (s:string) : n list =
  if s = "-" then [] else
  let n = String.length s / 2 in
  List.init n (fun i -> n_of_int (16 * hexval s.[2*i] + hexval s.[2*i+1]))

let hex_of_bytes (l:n list) : string =
  if l = [] then "-" else
  String.concat "" (List.map (fun b -> Printf.sprintf "%02x" (int_of_n b)) l)

let atom x = match x with A a -> a | _ -> failwith "atom expected"
let flag x = atom x = "1"
let nlist x = match x with L l -> List.map (fun a -> n_of_hex (atom a)) l | _ -> failwith "list expected"
let width_of s = match s with "1" -> W1 | "2" -> W2 | "4" -> W4 | "8" -> W8 | _ -> failwith "width"
let iprim_of k w = IP ((atom k = "s"), width_of (atom w))
let tbl_of l = List.map (fun x -> match x with L [n; z] -> (n_of_hex (atom n), z_of_hex (atom z)) | _ -> failwith "tbl") l

let rec spec_of (x:sx) : spec =
  match x with
  | L (A "prim" :: A "f" :: A "4" :: []) -> SPrim PF32
  | L (A "prim" :: A "f" :: A "8" :: []) -> SPrim PF64
  | L [A "prim"; k; w] -> SPrim (PI (iprim_of k w))
  | L [A "bytearray"; k; w] -> SByteArray (iprim_of k w)
  | L [A "bytesfixed"; n] -> SBytesFixed (n_of_hex (atom n))
  | L [A "bytesgreedy"] -> SBytesGreedy
  | L [A "bytesterm"; ts; wt; eof] -> SBytesTerm (nlist ts, flag wt, flag eof)
  | L [A "str"; k; w; nt] -> SStr (iprim_of k w, flag nt)
  | L [A "strfixed"; n] -> SStrFixed (n_of_hex (atom n))
  | L [A "cstr"; ts; wt; eof] -> SCStr (nlist ts, flag wt, flag eof)
  | L [A "uuid"] -> SUUID
  | L [A "null"] -> SNull
  | L (A "tuple" :: ss) -> STuple (List.map spec_of ss)
  | L (A "coord" :: _ :: ss) -> STuple (List.map spec_of ss)          (* TupleCoord family = tuple of components *)
  | L (A "dataclass" :: fs) ->                                         (* Dataclass = Template + record adapter *)
    STemplate (List.map (fun f -> match f with L [n; s] -> (n_of_hex (atom n), spec_of s) | _ -> failwith "field") fs, false, true)
  | L (A "template" :: skip :: fs) ->
    STemplate (List.map (fun f -> match f with L [n; s] -> (n_of_hex (atom n), spec_of s) | _ -> failwith "field") fs, flag skip, false)
  | L [A "coll"; k; s] -> SCollection (lenk_of k, spec_of s)
  | L [A "opt"; s] -> SOptPrefixed (spec_of s)
  | L [A "adapter"; a; s] -> SAdapter (adapter_of a, spec_of s)
  | L [A "typed"; k; en; ct; s] -> STypedBytes (tbk_of k, spec_of s, flag en, flag ct)
  | L [A "ifpresent"; s] -> SIfPresent (spec_of s)
  | L (A "lenswitch" :: cs) ->
    SLengthSwitch (List.map (fun c -> match c with
        | L [A "none"; s] -> (None, spec_of s)
        | L [k; s] -> (Some (n_of_hex (atom k)), spec_of s)
        | _ -> failwith "choice") cs)
  | L [A "optflagged"; f; L [A "none"]; mask; sp] ->
    SOptFlagged (n_of_hex (atom f), None, z_of_hex (atom mask), spec_of sp)
  | L [A "optflagged"; f; L tbl; mask; sp] ->
    SOptFlagged (n_of_hex (atom f), Some (tbl_of tbl), z_of_hex (atom mask), spec_of sp)
  | L (A "ctxswitch" :: f :: cs) ->
    SCtxSwitch (n_of_hex (atom f), List.map (fun c -> match c with
        | L [A "none"; s] -> (None, spec_of s)
        | L [k; s] -> (Some (z_of_hex (atom k)), spec_of s)
        | _ -> failwith "choice") cs)
  | L [A "ctxadapter"; f; L opts; sp] ->
    SCtxAdapter (n_of_hex (atom f), List.map (fun o -> match o with
        | L [k; a] ->
          ((match k with A "none" -> None | _ -> Some (z_of_hex (atom k))),
           (match a with L [A "none"] -> None | _ -> Some (sadapter_of a)))
        | _ -> failwith "option") opts, spec_of sp)
  | L (A "flagswitch" :: L tbl :: k :: w :: cs) ->
    SFlagSwitch (tbl_of tbl, iprim_of k w, List.map (fun c -> match c with
        | L [n; z; s] -> ((n_of_hex (atom n), z_of_hex (atom z)), spec_of s)
        | _ -> failwith "choice") cs)
  | L (A "enumswitch" :: L tbl :: strict :: k :: w :: cs) ->
    SEnumSwitch (tbl_of tbl, flag strict, iprim_of k w,
                 List.map (fun c -> match c with L [z; s] -> (z_of_hex (atom z), spec_of s) | _ -> failwith "choice") cs)
  | _ -> failwith "spec"
and lenk_of x = match x with
  | L [A "prefixed"; k; w] -> LPrefixed (iprim_of k w)
  | L [A "fixed"; n] -> LFixed (n_of_hex (atom n))
  | L [A "greedy"] -> LGreedy
  | _ -> failwith "lenk"
and tbk_of x = match x with
  | L [A "greedy"] -> TBGreedy
  | L [A "array"; k; w] -> TBArray (iprim_of k w)
  | L [A "fixed"; n] -> TBFixed (n_of_hex (atom n))
  | L [A "term"; ts; sk] -> TBTerm (nlist ts, flag sk)
  | _ -> failwith "tbk"
and sadapter_of x = match x with
  | L [A "bool"] -> ABool
  | L (A "enum" :: strict :: tbl) -> AEnum (tbl_of tbl, flag strict)
  | L (A "flag" :: tbl) -> AFlag (tbl_of tbl)
  | L [A "opaque"; id] -> AOpaqueInt (n_of_hex (atom id))
  | _ -> failwith "sadapter"
and adapter_of x = match x with
  | L (A "bitfield" :: sh :: fs) ->
    ABitField (List.map (fun f -> match f with
        | L [n; bits; L [A "none"]] -> ((n_of_hex (atom n), n_of_hex (atom bits)), None)
        | L [n; bits; fa] -> ((n_of_hex (atom n), n_of_hex (atom bits)), Some (sadapter_of fa))
        | _ -> failwith "bitfield entry") fs, flag sh)
  | _ -> ASimple (sadapter_of x)

let rec value_of (x:sx) : value =
  match x with
  | L [A "i"; z] -> VInt (z_of_hex (atom z))
  | L [A "f"; b] -> VF (n_of_hex (atom b))
  | L [A "b"; h] -> VBytes (bytes_of_hex (atom h))
  | L [A "s"; h] -> VStr (bytes_of_hex (atom h))
  | L [A "none"] -> VNone
  | L [A "uuid"; h] -> VUuid (bytes_of_hex (atom h))
  | L [A "uuidstr"; h] -> VUuidStr (bytes_of_hex (atom h))
  | L [A "name"; n] -> VName (n_of_hex (atom n))
  | L (A "l" :: vs) -> VList (List.map value_of vs)
  | L (A "d" :: kvs) -> VDict (List.map (fun kv -> match kv with L [k; v] -> (n_of_hex (atom k), value_of v) | _ -> failwith "kv") kvs)
  | _ -> failwith "value"

let rec string_of_value (v:value) : string =
  match v with
  | VInt z -> "( i " ^ hex_of_z z ^ " )"
  | VF b -> "( f " ^ hex_of_n b ^ " )"
  | VBytes b -> "( b " ^ hex_of_bytes b ^ " )"
  | VStr b -> "( s " ^ hex_of_bytes b ^ " )"
  | VNone -> "( none )"
  | VUuid b -> "( uuid " ^ hex_of_bytes b ^ " )"
  | VUuidStr b -> "( uuidstr " ^ hex_of_bytes b ^ " )"
  | VName n -> "( name " ^ hex_of_n n ^ " )"
  | VList l -> String.concat " " (["( l"] @ List.map string_of_value l @ [")"])
  | VDict l -> String.concat " " (["( d"] @ List.map (fun (k, v) -> "( " ^ hex_of_n k ^ " " ^ string_of_value v ^ " )") l @ [")"])

let endian s = (s = "<")

let handle (line:string) : string =
  match tokenize line with
  | "ser" :: e :: rest ->
    let (sp, r1) = parse_one rest in
    let (vl, _) = parse_one r1 in
    (match ser (endian e) (spec_of sp) [] (value_of vl) with
     | Some b -> "OK " ^ hex_of_bytes b
     | None -> "ERR")
  | "de" :: e :: pod :: rest ->
    let (sp, r1) = parse_one rest in
    let h = (match r1 with [x] -> x | _ -> failwith "hex expected") in
    (match de (endian e) (pod = "1") (spec_of sp) [] (bytes_of_hex h) with
     | Some (v, r) -> "OK " ^ string_of_value v ^ " " ^ string_of_int (List.length r)
     | None -> "ERR")
  | "info" :: rest ->
    let (sp, _) = parse_one rest in
    let s = spec_of sp in
    Printf.sprintf "%d %d %s %s" (if wf s then 1 else 0) (if delimited s then 1 else 0)
      (hex_of_n (min_size s)) (match calc_size s with Some n -> "S" ^ hex_of_n n | None -> "N")
  | "dom" :: e :: pod :: rest ->
    let (sp, r1) = parse_one rest in
    let (vl, _) = parse_one r1 in
    if domb (endian e) (pod = "1") (spec_of sp) [] (value_of vl) then "1" else "0"
  | "utf8" :: [h] -> if utf8_ok (bytes_of_hex h) then "1" else "0"
  | _ -> "?"

let () =
  try
    while true do
      let line = input_line stdin in
      print_endline (try handle line with Failure m -> "BAD " ^ m)
    done
  with End_of_file -> ()
