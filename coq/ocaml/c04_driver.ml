(* one case per line:  <maxlen> <p0> <qlo> <qhi> op op ...   with op = f<int> | i | d<int>
   output: "<outs> | <pbase> <ibase> | <inj> | <dropped> | <q:eff:orig:winj:wdrop> ..." *)
let parse_op (w:string) : op =
  let arg () = z_of_int (int_of_string (String.sub w 1 (String.length w - 1))) in
  match w.[0] with
  | 'i' -> Inject
  | 'f' -> Fwd (arg ())
  | 'd' -> Drop (arg ())
  | _ -> failwith ("bad op " ^ w)

let zs l = string_of_ints (List.map int_of_z l)

let () =
  try
    while true do
      let line = input_line stdin in
      match words line with
      | m :: p0 :: qlo :: qhi :: ops ->
        let st0 = init (z_of_int (int_of_string p0)) (nat_of_int (int_of_string m)) in
        let (st, outs) = run_outs st0 (List.map parse_op ops) in
        let b = Buffer.create 256 in
        Buffer.add_string b (zs outs);
        Buffer.add_string b (Printf.sprintf " | %d %d | %s | %s |" (int_of_z st.pbase) (int_of_z st.ibase) (zs st.inj) (zs st.dropped));
        for q = int_of_string qlo to int_of_string qhi do
          let zq = z_of_int q in
          let o = match orig st zq with Some x -> string_of_int (int_of_z x) | None -> "X" in
          Buffer.add_string b (Printf.sprintf " %d:%d:%s:%d:%d" q (int_of_z (eff st zq)) o
            (if was_injected st zq then 1 else 0) (if was_dropped st zq then 1 else 0))
        done;
        print_endline (Buffer.contents b)
      | _ -> print_endline "?"
    done
  with End_of_file -> ()
