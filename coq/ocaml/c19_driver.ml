(* one case per line:   W T E ; ev ; ev ; ...
     W = dedupe window, T = initial tries_left, E = resend interval (ms)
   events:
     R known banned reliable id na a1..an np p1..pn   datagram_received
     S reliable synthetic                              Circuit.send
     Q synthetic                                       Circuit.send_reliable
     T d                                               clock += d ms
     X                                                 Circuit.resend_unacked
     D                                                 Circuit.disconnect
   output: per event  "<log> / <tracked> / <completions> / <state>"  joined by " ;; " *)
let b_of_int i = i <> 0
let i_of_b b = if b then 1 else 0
let rec take_n n l = if n = 0 then ([], l) else match l with
  | [] -> failwith "short" | x :: r -> let (a, b) = take_n (n-1) r in (x :: a, b)

let parse_event ws =
  match ws with
  | "R" :: r ->
    (match ints_of_words r with
     | k :: b :: rel :: id :: na :: rest ->
       let (acks, rest) = take_n na rest in
       (match rest with
        | np :: rest -> let (pa, _) = take_n np rest in
          ERecv { p_known = b_of_int k; p_banned = b_of_int b; p_reliable = b_of_int rel;
                  p_id = n_of_int id; p_acks = List.map n_of_int acks; p_pa = List.map n_of_int pa }
        | _ -> failwith "bad R")
     | _ -> failwith "bad R")
  | ["S"; r; s] -> ESend (b_of_int (int_of_string r), b_of_int (int_of_string s))
  | ["Q"; s] -> ESendReliable (b_of_int (int_of_string s))
  | ["T"; d] -> ETick (n_of_int (int_of_string d))
  | ["X"] -> EResend
  | ["D"] -> EDisconnect
  | _ -> failwith "bad event"

let lvl = function Session -> "S" | Region -> "R"
let si = string_of_int
let log_tok = function
  | OSent (id, rel) -> Some (Printf.sprintf "snd:%d:%d" (int_of_n id) (i_of_b rel))
  | OAckSent (id, a) -> Some (Printf.sprintf "ack:%d:%d" (int_of_n id) (int_of_n a))
  | OResent (h, id, t) -> Some (Printf.sprintf "rsd:%d:%d:%d" (int_of_nat h) (int_of_n id) (int_of_n t))
  | ODispatch (l, pid, rel) -> Some (Printf.sprintf "dsp:%s:%d:%d" (lvl l) (int_of_n pid) (i_of_b rel))
  | ORaise -> Some "raise"
  | ODisc -> Some "disc"
  | _ -> None
let trk_tok = function
  | OTracked (h, id, ep, t) -> Some (Printf.sprintf "trk:%d:%d:%d:%d" (int_of_nat h) (int_of_n id) (int_of_nat ep) (int_of_n t))
  | _ -> None
let cmp_tok = function
  | ODone h -> Some (Printf.sprintf "done:%d" (int_of_nat h))
  | OFailed h -> Some (Printf.sprintf "fail:%d" (int_of_nat h))
  | _ -> None
let group f outs = String.concat " " (List.filter_map f outs)
let state_str s =
  Printf.sprintf "next=%d now=%d u=[%s] seen=[%s]" (int_of_n s.st_next) (int_of_n s.st_now)
    (String.concat " " (List.map (fun (k, i) ->
         Printf.sprintf "%d:%d:%d:%d" (int_of_n k) (int_of_n i.ri_tries) (int_of_n i.ri_last) (int_of_nat i.ri_fut)) s.st_unacked))
    (String.concat " " (List.map (fun x -> si (int_of_n x)) s.st_seen))

let () =
  try
    while true do
      let line = input_line stdin in
      (try
        match String.split_on_char ';' line with
        | [] -> print_endline ""
        | c :: evs ->
          let cfg = match ints_of_words (words c) with
            | [w; t; e] -> { cf_window = nat_of_int w; cf_tries = n_of_int t; cf_every = n_of_int e }
            | _ -> failwith "bad config" in
          let s = ref init in
          let res = List.map (fun ev ->
              let (s', outs) = step cfg !s (parse_event (words ev)) in
              s := s';
              Printf.sprintf "%s / %s / %s / %s" (group log_tok outs) (group trk_tok outs) (group cmp_tok outs) (state_str s'))
              evs in
          print_endline (String.concat " ;; " res)
      with Failure m -> print_endline ("PARSE-ERROR " ^ m))
    done
  with End_of_file -> ()
