(* one case per line, all fields are small ints:
   P <cfg...>   pump one event, then the late ops
                -> "exc taken resumed proxied nputs held | puts | final data | taken resumed callbacks held | late oks"
   X ev present set_ok   one iteration of the proxy-side callback pump
                -> "resumes set_state intercepts"
   D ...        CapData serialize/deserialize round trip (format at run_d) *)
let b i = i <> 0
let ib x = if x then 1 else 0

let cname_of code a w = match code with
  | 0 -> NNone | 1 -> NSeed | 2 -> NEQ | 3 -> NLogin | 4 -> NBridge | 5 -> NUpload
  | _ -> NOther (b a, b w)
let ctype_of = function 0 -> TNormal | 1 -> TTemporary | 2 -> TWrapper | _ -> TProxyOnly
let int_of_ctype = function TNormal -> 0 | TTemporary -> 1 | TWrapper -> 2 | TProxyOnly -> 3

let act_of i =
  if i >= 1000 then AInject (n_of_int (i - 1000))
  else match i with
    | 0 -> ATake | 1 -> AResume true | 2 -> AResume false | 3 -> APreempt
    | 4 -> ARewriteUrl | 5 -> ASetStream false | _ -> ASetStream true

let str_cap = function
  | None -> "-"
  | Some c ->
    let (code, a, w) = match c.c_name with
      | NNone -> (0,0,0) | NSeed -> (1,0,0) | NEQ -> (2,0,0) | NLogin -> (3,0,0)
      | NBridge -> (4,0,0) | NUpload -> (5,0,0) | NOther (a, w) -> (6, ib a, ib w) in
    Printf.sprintf "%d.%d.%d.%d.%d.%d" code a w (int_of_ctype c.c_type) (ib c.c_sess) (ib c.c_region)

let str_data d =
  Printf.sprintf "%d %d %d %d %d %d %s"
    (match d.d_resp with None -> -1 | Some s -> int_of_n s)
    (ib d.d_resp_inj) (ib d.d_req_inj) (ib d.d_can_stream) (ib d.d_url_rw) (ib d.d_body_rw)
    (str_cap d.d_cap)

let str_put = function
  | PCallback d -> "cb " ^ str_data d
  | PPreempt d -> "pre " ^ str_data d

let run_p (ws : int list) =
  let a = Array.of_list ws in
  let i = ref 0 in
  let next () = let v = a.(!i) in incr i; v in
  let read_cap () =
    let code = next () in let asset = next () in let wrap = next () in
    let ty = next () in let s = next () in let r = next () in
    { c_name = cname_of code asset wrap; c_type = ctype_of ty; c_sess = b s; c_region = b r } in
  let read_acts () = let n = next () in List.init n (fun _ -> act_of (next ())) in
  let read_hooks () =
    let n = next () in
    List.init n (fun _ ->
        let ret = (match next () with 0 -> HFalsy | 1 -> HTruthy | _ -> HRaise) in
        let acts = read_acts () in
        { h_acts = acts; h_ret = ret }) in
  let ev = (match next () with 0 -> EvRequest | 1 -> EvResponse | _ -> EvBogus) in
  let cap = read_cap () in
  let fault = (match next () with 0 -> FNone | 1 -> FResolve | 2 -> FAsset | 3 -> FReload | 4 -> FMake | _ -> FSniff) in
  let swallow = b (next ()) in
  let asset_hit = b (next ()) in
  let orig = b (next ()) in
  let body_ok = b (next ()) in
  let eq_cached = b (next ()) in
  let seed_needed = b (next ()) in
  let is_login = b (next ()) in
  let is_login_rw = b (next ()) in
  let logger = (match next () with 0 -> LNone | 1 -> LOk | _ -> LRaise) in
  let bridge = (match next () with 0 -> BNone | 1 -> BBad | 2 -> BMatch | _ -> BNoMatch) in
  let main_region = b (next ()) in
  let login_ok = b (next ()) in
  let inj_login_ok = b (next ()) in
  let fin_ok = b (next ()) in
  let proxied = b (next ()) in
  (* initial data *)
  let resp = (let v = next () in if v < 0 then None else Some (n_of_int v)) in
  let resp_inj = b (next ()) in
  let req_inj = b (next ()) in
  let can_stream = b (next ()) in
  let dcap = (let present = next () in if present = 0 then None else Some (read_cap ())) in
  let hooks = read_hooks () in
  let sess_hooks = read_hooks () in
  let reg_hooks = read_hooks () in
  let late = read_acts () in
  let c = { g_ev = ev; g_cap = cap; g_fault = fault; g_swallow = swallow; g_hooks = hooks;
            g_sess_hooks = sess_hooks; g_reg_hooks = reg_hooks; g_asset_hit = asset_hit;
            g_orig_present = orig; g_body_ok = body_ok; g_eq_cached = eq_cached;
            g_seed_needed = seed_needed; g_is_login = is_login; g_is_login_rw = is_login_rw; g_logger = logger;
            g_bridge = bridge; g_main_region = main_region; g_login_ok = login_ok; g_inj_login_ok = inj_login_ok;
            g_fin_gs_ok = fin_ok } in
  let d = { d_resp = resp; d_resp_inj = resp_inj; d_req_inj = req_inj; d_can_stream = can_stream;
            d_url_rw = false; d_body_rw = false; d_cap = dcap } in
  let r = pump c proxied (fresh d) in
  let f = r.r_flow in
  let npump = List.length f.puts in
  let (f2, oks) = run_late late f in
  Printf.sprintf "%d %d %d %d %d %d | %s | %s | %d %d %d %d | %s"
    (ib r.r_exc) (ib f.taken) (ib f.resumed) (ib r.r_proxied) npump (ib f.held)
    (String.concat " ; " (List.map str_put f2.puts))
    (str_data f2.dat)
    (ib f2.taken) (ib f2.resumed) (int_of_nat (callbacks f2)) (ib f2.held)
    (String.concat "" (List.map (fun o -> if o then "1" else "0") oks))

let run_x ws = match ws with
  | [e; present; set_ok] ->
    let ev = (match e with 0 -> PECallback | 1 -> PEPreempt | 2 -> PEReplay | _ -> PEUnknown) in
    let r = proxy_pump ev (b present) (b set_ok) in
    Printf.sprintf "%d %d %d" (int_of_nat r.pr_resumes) (ib r.pr_set_state) (int_of_nat r.pr_intercepts)
  | _ -> "?"

(* D mgr nsessions (oid sid nregions (roid addr)* )* name url type sessref regref
   name/url: -1 = None;  sessref: -1 attribute None, -2 dead weakref, k>=0 index into the list
   regref: -1 / -2 / si ri (indices) *)
let run_d ws =
  let a = Array.of_list ws in
  let i = ref 0 in
  let next () = let v = a.(!i) in incr i; v in
  let mgr = b (next ()) in
  let ns = next () in
  let sessions = List.init ns (fun _ ->
      let oid = next () in let sid = next () in let nr = next () in
      let regs = List.init nr (fun _ -> let ro = next () in let ad = next () in
                                { rg_oid = n_of_int ro; rg_addr = n_of_int ad }) in
      { ss_oid = n_of_int oid; ss_id = n_of_int sid; ss_regions = regs }) in
  let opt v = if v < 0 then None else Some (n_of_int v) in
  let name = opt (next ()) in
  let url = opt (next ()) in
  let ty = ctype_of (next ()) in
  let sref = (match next () with
      | -1 -> None | -2 -> Some None
      | k -> Some (Some (List.nth sessions k))) in
  let rref = (match next () with
      | -1 -> None | -2 -> Some None
      | si -> let ri = next () in Some (Some (List.nth (List.nth sessions si).ss_regions ri))) in
  let c = { cd_name = name; cd_region = rref; cd_session = sref; cd_url = url; cd_type = ty } in
  let s = serialize c in
  let c' = deserialize (if mgr then Some sessions else None) s in
  let so = function None -> "-" | Some x -> string_of_int (int_of_n x) in
  let sref_s = function None -> "-" | Some None -> "dead" | Some (Some x) -> string_of_int (int_of_n x.ss_oid) in
  let rref_s = function None -> "-" | Some None -> "dead" | Some (Some x) -> string_of_int (int_of_n x.rg_oid) in
  Printf.sprintf "ser %s %s %s %s %d | de %s %s %s %s %d"
    (so s.sc_name) (so s.sc_region_addr) (so s.sc_session_id) (so s.sc_url) (int_of_ctype s.sc_type)
    (so c'.cd_name) (rref_s c'.cd_region) (sref_s c'.cd_session) (so c'.cd_url) (int_of_ctype c'.cd_type)

let () =
  try
    while true do
      let line = input_line stdin in
      (match words line with
       | [] -> print_endline ""
       | op :: ws ->
         (try
            let l = ints_of_words ws in
            match op with
            | "P" -> print_endline (run_p l)
            | "X" -> print_endline (run_x l)
            | "D" -> print_endline (run_d l)
            | _ -> print_endline "?"
          with Invalid_argument _ | Failure _ -> print_endline "BADCASE"))
    done
  with End_of_file -> ()
