(* C16 driver.  One case per line: ops separated by the token "|"; strings are hex tokens prefixed
   with 'x' ("x" = empty), options use "-".  Output: outs joined by " | ", then " || ", then the state dump.
     CS id ng (name url)* addr seed handle      create_session
     RR si addr seed handle                     Session.register_region
     UC si ri n (name val)*                     update_caps          val = s<hex> | o<int>
     RC si ri name url ty                       register_cap         ty = N|T|W|P
     RW si ri name                              register_wrapper_cap
     RP si ri name                              register_proxy_cap
     RS url                                     SessionManager.resolve_cap
     RQ url n name*                             _handle_request (seed body = list of names)
     RE fid status nw wname* n (name val)*      _handle_response
   A first token "U<n>" sets the uuid counter base (default 0).
   After it, a token "E" (every-step records) or "T" (tree walk) selects the modes described near the end of this file. *)

(* ---- string conversions ---- *)
let ascii_of_char (c:char) : ascii =
  let k = Char.code c in
  let b i = (k lsr i) land 1 = 1 in
  Ascii (b 0, b 1, b 2, b 3, b 4, b 5, b 6, b 7)
let char_of_ascii (a:ascii) : char =
  match a with Ascii (b0,b1,b2,b3,b4,b5,b6,b7) ->
    let v b i = if b then 1 lsl i else 0 in
    Char.chr (v b0 0 + v b1 1 + v b2 2 + v b3 3 + v b4 4 + v b5 5 + v b6 6 + v b7 7)
let str_of_ocaml s = List.init (String.length s) (fun i -> ascii_of_char s.[i])
let ocaml_of_str (l:ascii list) = String.init (List.length l) (fun i -> char_of_ascii (List.nth l i))
let ocaml_of_str l = let b = Buffer.create 64 in List.iter (fun a -> Buffer.add_char b (char_of_ascii a)) l; Buffer.contents b
let unhex h =
  let n = String.length h / 2 in
  String.init n (fun i -> Char.chr (int_of_string ("0x" ^ String.sub h (2*i) 2)))
let hex s =
  let d = "0123456789abcdef" in
  let n = String.length s in
  let b = Bytes.create (2 * n) in
  for i = 0 to n - 1 do
    let c = Char.code s.[i] in
    Bytes.unsafe_set b (2 * i) d.[c lsr 4]; Bytes.unsafe_set b (2 * i + 1) d.[c land 15]
  done;
  Bytes.to_string b
let xtok w = str_of_ocaml (unhex (String.sub w 1 (String.length w - 1)))
let xout l = "x" ^ hex (ocaml_of_str l)

(* ---- SHA-256 (for the wrapper host name) ---- *)
let sha256 (msg:string) : string =
  let k = [|
    0x428a2f98;0x71374491;0xb5c0fbcf;0xe9b5dba5;0x3956c25b;0x59f111f1;0x923f82a4;0xab1c5ed5;
    0xd807aa98;0x12835b01;0x243185be;0x550c7dc3;0x72be5d74;0x80deb1fe;0x9bdc06a7;0xc19bf174;
    0xe49b69c1;0xefbe4786;0x0fc19dc6;0x240ca1cc;0x2de92c6f;0x4a7484aa;0x5cb0a9dc;0x76f988da;
    0x983e5152;0xa831c66d;0xb00327c8;0xbf597fc7;0xc6e00bf3;0xd5a79147;0x06ca6351;0x14292967;
    0x27b70a85;0x2e1b2138;0x4d2c6dfc;0x53380d13;0x650a7354;0x766a0abb;0x81c2c92e;0x92722c85;
    0xa2bfe8a1;0xa81a664b;0xc24b8b70;0xc76c51a3;0xd192e819;0xd6990624;0xf40e3585;0x106aa070;
    0x19a4c116;0x1e376c08;0x2748774c;0x34b0bcb5;0x391c0cb3;0x4ed8aa4a;0x5b9cca4f;0x682e6ff3;
    0x748f82ee;0x78a5636f;0x84c87814;0x8cc70208;0x90befffa;0xa4506ceb;0xbef9a3f7;0xc67178f2 |] in
  let m32 = 0xffffffff in
  let rotr x n = ((x lsr n) lor (x lsl (32 - n))) land m32 in
  let h = [| 0x6a09e667;0xbb67ae85;0x3c6ef372;0xa54ff53a;0x510e527f;0x9b05688c;0x1f83d9ab;0x5be0cd19 |] in
  let len = String.length msg in
  let padlen = let r = (len + 9) mod 64 in if r = 0 then 0 else 64 - r in
  let total = len + 9 + padlen in
  let buf = Bytes.make total '\000' in
  Bytes.blit_string msg 0 buf 0 len;
  Bytes.set buf len '\x80';
  let bits = len * 8 in
  for i = 0 to 7 do
    Bytes.set buf (total - 1 - i) (Char.chr ((bits lsr (8*i)) land 0xff))
  done;
  let w = Array.make 64 0 in
  for blk = 0 to total / 64 - 1 do
    for i = 0 to 15 do
      let o = blk*64 + i*4 in
      w.(i) <- (Char.code (Bytes.get buf o) lsl 24) lor (Char.code (Bytes.get buf (o+1)) lsl 16)
               lor (Char.code (Bytes.get buf (o+2)) lsl 8) lor (Char.code (Bytes.get buf (o+3)))
    done;
    for i = 16 to 63 do
      let s0 = (rotr w.(i-15) 7) lxor (rotr w.(i-15) 18) lxor (w.(i-15) lsr 3) in
      let s1 = (rotr w.(i-2) 17) lxor (rotr w.(i-2) 19) lxor (w.(i-2) lsr 10) in
      w.(i) <- (w.(i-16) + s0 + w.(i-7) + s1) land m32
    done;
    let a = ref h.(0) and b = ref h.(1) and c = ref h.(2) and d = ref h.(3)
    and e = ref h.(4) and f = ref h.(5) and g = ref h.(6) and hh = ref h.(7) in
    for i = 0 to 63 do
      let s1 = (rotr !e 6) lxor (rotr !e 11) lxor (rotr !e 25) in
      let ch = (!e land !f) lxor ((lnot !e) land m32 land !g) in
      let t1 = (!hh + s1 + ch + k.(i) + w.(i)) land m32 in
      let s0 = (rotr !a 2) lxor (rotr !a 13) lxor (rotr !a 22) in
      let maj = (!a land !b) lxor (!a land !c) lxor (!b land !c) in
      let t2 = (s0 + maj) land m32 in
      hh := !g; g := !f; f := !e; e := (!d + t1) land m32;
      d := !c; c := !b; b := !a; a := (t1 + t2) land m32
    done;
    h.(0) <- (h.(0) + !a) land m32; h.(1) <- (h.(1) + !b) land m32;
    h.(2) <- (h.(2) + !c) land m32; h.(3) <- (h.(3) + !d) land m32;
    h.(4) <- (h.(4) + !e) land m32; h.(5) <- (h.(5) + !f) land m32;
    h.(6) <- (h.(6) + !g) land m32; h.(7) <- (h.(7) + !hh) land m32
  done;
  String.concat "" (Array.to_list (Array.map (fun x -> Printf.sprintf "%08x" x) h))

(* ---- the two oracles ---- *)
let uuid_base = ref 0
(* uuid.uuid4 is patched to UUID(int = (0x4000 << 64 | 0x8000 << 48) + base + n) in the harness *)
let fresh_ocaml (n:int) : string =
  Printf.sprintf "http://00000000-0000-4000-8000-%012x.caps.hippo-proxy.localhost" (!uuid_base + n)
let fresh (n:nat) = str_of_ocaml (fresh_ocaml (int_of_nat n))

(* urlsplit/urlunsplit for URLs of the shape scheme://netloc[rest] (rest starts with / ? or #).
   register_wrapper_cap: netloc := lower(name)-sha256(seed.split("/")[-1])[:16].hippo-proxy.localhost, scheme := http *)
let wrap_ocaml (name:string) (seed:string) (orig:string) : string =
  let seed_id = match List.rev (String.split_on_char '/' seed) with x :: _ -> x | [] -> "" in
  let host = String.lowercase_ascii name ^ "-" ^ String.sub (sha256 seed_id) 0 16 ^ ".hippo-proxy.localhost" in
  let rest =
    let n = String.length orig in
    let rec find_sub i = if i + 3 > n then None else if String.sub orig i 3 = "://" then Some i else find_sub (i+1) in
    match find_sub 0 with
    | None -> "/" ^ orig         (* scheme-less plain path: urlunsplit inserts the slash *)
    | Some i ->
      let j = ref (i + 3) in
      while !j < n && orig.[!j] <> '/' && orig.[!j] <> '?' && orig.[!j] <> '#' do incr j done;
      String.sub orig !j (n - !j) in
  "http://" ^ host ^ rest
let wrap (name:ascii list) (seed:ascii list) (orig:ascii list) =
  str_of_ocaml (wrap_ocaml (ocaml_of_str name) (ocaml_of_str seed) (ocaml_of_str orig))

(* ---- parsing ---- *)
let opt_n w = if w = "-" then None else Some (n_of_int (int_of_string w))
let opt_s w = if w = "-" then None else Some (xtok w)
let ty_of w = match w with "N" -> NORMAL | "T" -> TEMPORARY | "W" -> WRAPPER | "P" -> PROXY_ONLY | _ -> failwith "ty"
let ty_out t = match t with NORMAL -> "N" | TEMPORARY -> "T" | WRAPPER -> "W" | PROXY_ONLY -> "P"
let val_of w =
  if w.[0] = 's' then VStr (str_of_ocaml (unhex (String.sub w 1 (String.length w - 1))))
  else VOther (n_of_int (int_of_string (String.sub w 1 (String.length w - 1))))
let val_out v = match v with VStr s -> "s" ^ hex (ocaml_of_str s) | VOther t -> "o" ^ string_of_int (int_of_n t)

let rec take k l = if k = 0 then ([], l) else match l with x :: t -> let (a, b) = take (k-1) t in (x :: a, b) | [] -> failwith "take"
let rec pairs f l = match l with a :: b :: t -> (xtok a, f b) :: pairs f t | [] -> [] | _ -> failwith "pairs"

let parse_op (ws : string list) : op =
  match ws with
  | "CS" :: id :: ng :: rest ->
    let (g, rest) = take (2 * int_of_string ng) rest in
    (match rest with
     | [addr; seed; handle] -> OCreateSession (n_of_int (int_of_string id), pairs xtok g, opt_n addr, opt_s seed, opt_n handle)
     | _ -> failwith "CS")
  | ["RR"; si; addr; seed; handle] -> ORegisterRegion (nat_of_int (int_of_string si), opt_n addr, opt_s seed, opt_n handle)
  | "UC" :: si :: ri :: n :: rest -> OUpdateCaps (nat_of_int (int_of_string si), nat_of_int (int_of_string ri), pairs val_of rest)
  | ["RC"; si; ri; name; url; ty] -> ORegisterCap (nat_of_int (int_of_string si), nat_of_int (int_of_string ri), xtok name, xtok url, ty_of ty)
  | ["RW"; si; ri; name] -> ORegisterWrapper (nat_of_int (int_of_string si), nat_of_int (int_of_string ri), xtok name)
  | ["RP"; si; ri; name] -> ORegisterProxy (nat_of_int (int_of_string si), nat_of_int (int_of_string ri), xtok name)
  | ["RS"; url] -> OResolve (xtok url)
  | "RQ" :: url :: n :: rest -> ORequest (xtok url, List.map xtok rest)
  | "RE" :: fid :: status :: nw :: rest ->
    let (wo, rest) = take (int_of_string nw) rest in
    (match rest with
     | _ :: kv -> OResponse (nat_of_int (int_of_string fid), n_of_int (int_of_string status), List.map xtok wo, pairs val_of kv)
     | [] -> failwith "RE")
  | _ -> failwith ("op: " ^ String.concat " " ws)

let rec split_ops (ws : string list) (cur : string list) : string list list =
  match ws with
  | [] -> if cur = [] then [] else [List.rev cur]
  | "|" :: t -> List.rev cur :: split_ops t []
  | w :: t -> split_ops t (w :: cur)

(* ---- printing ---- *)
let osome f o = match o with None -> "-" | Some x -> f x
let cd_out (c : capData) =
  String.concat "," [ osome xout c.cd_name;
                      osome (fun (a, b) -> string_of_int (int_of_nat a) ^ "." ^ string_of_int (int_of_nat b)) c.cd_region;
                      osome (fun a -> string_of_int (int_of_nat a)) c.cd_session;
                      osome xout c.cd_base; ty_out c.cd_type ]
let kv_out l = "[" ^ String.concat "," (List.map (fun (k, v) -> xout k ^ "=" ^ val_out v) l) ^ "]"
let out_out (o : out) = match o with
  | ONone -> "none" | OErr -> "err"
  | OIdx i -> "idx:" ^ string_of_int (int_of_nat i)
  | OUrl u -> "url:" ^ xout u
  | OCap c -> "cap:" ^ cd_out c
  | OReq (c, needed, content) ->
    "req:" ^ cd_out c ^ ":" ^ String.concat "," (List.map xout needed) ^ ":" ^
    osome (fun l -> "[" ^ String.concat "," (List.map xout l) ^ "]") content
  | OResp content -> "resp:" ^ osome kv_out content

let region_out (r : region) =
  "R " ^ osome (fun a -> string_of_int (int_of_n a)) r.r_addr ^ " " ^ osome (fun a -> string_of_int (int_of_n a)) r.r_handle
  ^ " C " ^ String.concat " " (List.map (fun (n, (t, u)) -> xout n ^ ":" ^ ty_out t ^ ":" ^ xout u) r.r_caps)
  ^ " L " ^ String.concat " " (List.map (fun (u, (t, n)) -> xout u ^ ":" ^ ty_out t ^ ":" ^ xout n) r.r_lookup)
let state_out (m : manager) =
  String.concat " ; " (List.map (fun s -> "S " ^ string_of_int (int_of_n s.s_id) ^ " " ^ String.concat " " (List.map region_out s.s_regions)) m.m_sessions)
  ^ " U " ^ string_of_int (int_of_nat m.m_uuid)

(* ---- every-step and tree modes (after the optional U<n> token) ----
   E <ops>                                    one record "out || state" per op (state after EVERY op), records joined by TAB
   T depth si ri name || <prefix ops> || <alphabet ops>
                                              after the prefix, every sequence of 1..depth alphabet ops, depth-first in alphabet
                                              order (a node is printed before its children); one record per node:
                                              "out || state || BN <cap_url r name> G <md_getall name (r_caps r)>", joined by TAB.
   The walk only applies the extracted [step] to the parent's model state; the by-name part is the extracted
   [cap_url] / [md_getall] on region (si, ri). *)
let rec split_on tok (ws : string list) (cur : string list) : string list list =
  match ws with
  | [] -> [List.rev cur]
  | w :: t when w = tok -> List.rev cur :: split_on tok t []
  | w :: t -> split_on tok t (w :: cur)

let by_name_out (m : manager) (si, ri, name) =
  match get_region m si ri with
  | None -> "BN none"
  | Some r ->
    "BN " ^ osome xout (cap_url r name) ^ " G " ^
    String.concat " " (List.map (fun (t, u) -> ty_out t ^ ":" ^ xout u) (md_getall name r.r_caps))

let run_every (ops : op list) : string =
  let buf = Buffer.create 4096 in
  let _ = List.fold_left (fun m o ->
      let (m1, x) = step fresh wrap m o in
      if Buffer.length buf > 0 then Buffer.add_char buf '\t';
      Buffer.add_string buf (out_out x); Buffer.add_string buf " || "; Buffer.add_string buf (state_out m1);
      m1) init_manager ops in
  Buffer.contents buf

let run_tree (depth : int) watch (pre : op list) (alpha : op list) : string =
  let buf = Buffer.create (1 lsl 20) in
  let (m0, _) = run_trace fresh wrap pre init_manager in
  let rec walk m d =
    List.iter (fun o ->
        let (m1, x) = step fresh wrap m o in
        if Buffer.length buf > 0 then Buffer.add_char buf '\t';
        Buffer.add_string buf (out_out x); Buffer.add_string buf " || "; Buffer.add_string buf (state_out m1);
        Buffer.add_string buf " || "; Buffer.add_string buf (by_name_out m1 watch);
        if d > 1 then walk m1 (d - 1)) alpha in
  walk m0 depth;
  Buffer.contents buf

let () =
  try
    while true do
      let line = input_line stdin in
      (try
        let ws = words line in
        let ws = match ws with
          | w :: t when String.length w > 1 && w.[0] = 'U' && w <> "UC" -> uuid_base := int_of_string (String.sub w 1 (String.length w - 1)); t
          | _ -> uuid_base := 0; ws in
        (match ws with
         | "E" :: rest ->
           print_endline (run_every (List.map parse_op (split_ops rest [])))
         | "T" :: depth :: si :: ri :: name :: "||" :: rest ->
           (match split_on "||" rest [] with
            | [pre; alpha] ->
              print_endline (run_tree (int_of_string depth)
                               (nat_of_int (int_of_string si), nat_of_int (int_of_string ri), xtok name)
                               (List.map parse_op (split_ops pre [])) (List.map parse_op (split_ops alpha [])))
            | _ -> failwith "T")
         | _ ->
           let ops = List.map parse_op (split_ops ws []) in
           let (m, outs) = run_trace fresh wrap ops init_manager in
           print_endline (String.concat " | " (List.map out_out outs) ^ " || " ^ state_out m))
      with Failure e -> print_endline ("PARSE-ERROR " ^ e)
         | Invalid_argument e -> print_endline ("PARSE-ERROR " ^ e))
    done
  with End_of_file -> ()
