(* one case per line:  d b0 b1 ...  (declarative read) | f b0 b1 ... (fast read) | w b0 b1 ... (declarative read, then write)
   output: ERR | OK <rest-length> name=tok ...   (d)   | OK name=tok ...  (f)
           | ERR | OK <rest-length> name=tok ... | W b0 b1 ...   or   ... | WERR   (w)
   tok: N | I<int> | B<hex> | T(tok,tok,..) | L<id>:<hex> | X<hex> *)
let int_of_ascii (Ascii (b0, b1, b2, b3, b4, b5, b6, b7)) =
  let v b k = if b then 1 lsl k else 0 in
  v b0 0 + v b1 1 + v b2 2 + v b3 3 + v b4 4 + v b5 5 + v b6 6 + v b7 7
let ocaml_string (s : ascii list) : string =
  String.concat "" (List.map (fun a -> String.make 1 (Char.chr (int_of_ascii a))) s)
let hex l = String.concat "" (List.map (fun x -> Printf.sprintf "%02x" (int_of_n x)) l)
let rec tok v =
  match v with
  | VNone -> "N"
  | VInt z -> "I" ^ string_of_int (int_of_z z)
  | VBytes l -> "B" ^ hex l
  | VTuple l -> "T(" ^ String.concat "," (List.map tok l) ^ ")"
  | VLazy (id, w) -> "L" ^ string_of_int (int_of_n id) ^ ":" ^ hex w
  | VX x -> "X" ^ hex x
let show d = String.concat " " (List.map (fun (k, v) -> ocaml_string k ^ "=" ^ tok v) d)
let () =
  try
    while true do
      let line = input_line stdin in
      match words line with
      | [] -> print_endline ""
      | op :: ws ->
        let l = List.map n_of_int (ints_of_words ws) in
        (match op with
         | "d" -> (match m_decl l with
             | Some (d, r) -> print_endline ("OK " ^ string_of_int (List.length r) ^ " " ^ show d)
             | None -> print_endline "ERR")
         | "f" -> (match m_fast l with
             | Some d -> print_endline ("OK " ^ show d)
             | None -> print_endline "ERR")
         | "w" -> (match m_decl l with
             | Some (d, r) ->
               let head = "OK " ^ string_of_int (List.length r) ^ " " ^ show d in
               (match m_write d with
                 | Some o -> print_endline (head ^ " | W " ^ string_of_ints (List.map int_of_n o))
                 | None -> print_endline (head ^ " | WERR"))
             | None -> print_endline "ERR")
         | _ -> print_endline "?")
    done
  with End_of_file -> ()
