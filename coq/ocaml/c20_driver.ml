(* C20 driver.  One case per line:
     P m hex                      -> sender packets of Xfer(data=hex) with MAX_CHUNK_SIZE m:  id:eof:hex ...
     X turbo id:eof:hex ...       -> XferManager._handle_send_xfer_packet over the arrivals
     T id:eof:hex ...             -> TransferManager._handle_transfer_packet over the arrivals
   A step on which the model raises (None) is marked E in the trace and leaves the state unchanged
   (the harness catches the exception and goes on likewise). *)
let hexval c = match c with
  | '0'..'9' -> Char.code c - 48 | 'a'..'f' -> Char.code c - 87 | 'A'..'F' -> Char.code c - 55 | _ -> failwith "hex"
let bytes_of_hex (s:string) : n list =
  let l = String.length s / 2 in
  List.init l (fun i -> n_of_int (16 * hexval s.[2*i] + hexval s.[2*i+1]))
let hex_of_bytes (l : n list) : string =
  let b = Buffer.create 64 in
  List.iter (fun x -> Buffer.add_string b (Printf.sprintf "%02x" (int_of_n x))) l; Buffer.contents b
let parse_packet (w:string) : packet =
  match String.split_on_char ':' w with
  | [i; e; h] -> { pid = nat_of_int (int_of_string i); peof = (e = "1"); pdata = bytes_of_hex h }
  | _ -> failwith "packet"
let show_packet (p:packet) = Printf.sprintf "%d:%s:%s" (int_of_nat p.pid) (if p.peof then "1" else "0") (hex_of_bytes p.pdata)
let show_core (c:core) =
  Printf.sprintf "ec=%s chunks=%s reasm=%s"
    (match c.expected_chunks with Some e -> string_of_int (int_of_nat e) | None -> "-")
    (String.concat "," (List.map (fun (k, d) -> Printf.sprintf "%d:%s" (int_of_nat k) (hex_of_bytes d)) c.chunks))
    (hex_of_bytes (reassemble c))
let show_str (l : n list) = String.concat "," (List.map (fun x -> string_of_int (int_of_n x)) l)
let show_tok t = match t with
  | None -> "ERR"
  | Some (k, None) -> "K " ^ show_str k ^ " NONE"
  | Some (k, Some v) -> "K " ^ show_str k ^ " V " ^ show_str v
(* ---- typed records (live schemas from gen/C20_records.v) ---- *)
let rec bits_of_pos p = match p with XH -> [true] | XO q -> false :: bits_of_pos q | XI q -> true :: bits_of_pos q
let hex_of_n x = match x with
  | N0 -> "0"
  | Npos p ->
    let rec groups bs = match bs with
      | [] -> []
      | _ -> let take k l = List.filteri (fun i _ -> i < k) l and drop k l = List.filteri (fun i _ -> i >= k) l in
        let g = take 4 bs in
        let v = List.fold_right (fun b acc -> 2 * acc + (if b then 1 else 0)) g 0 in
        v :: groups (drop 4 bs) in
    String.concat "" (List.rev_map (fun v -> Printf.sprintf "%x" v) (groups (bits_of_pos p)))
let n_of_hex (s:string) : n =
  let bits = ref [] in   (* LSB first *)
  String.iter (fun c -> let v = hexval c in
                bits := [v land 1 = 1; v land 2 = 2; v land 4 = 4; v land 8 = 8] @ !bits) s;
  let rec strip_msb l = match l with [] -> [] | b :: r -> if b then l else strip_msb r in
  let msb_first = strip_msb (List.rev !bits) in
  match msb_first with
  | [] -> N0
  | _ :: rest -> Npos (List.fold_left (fun p b -> if b then XI p else XO p) XH rest)
let cps_of (s:string) : n list =
  if s = "" then [] else List.map (fun w -> n_of_int (int_of_string w)) (String.split_on_char ',' s)
let parse_pval (w:string) : pval option =
  let w = String.trim w in
  if w = "-" then None else
    let body = String.sub w 1 (String.length w - 1) in
    match w.[0] with
    | 'S' -> Some (VS (cps_of body))
    | 'Z' -> Some (VZ (z_of_int (int_of_string body)))
    | 'H' -> Some (VN (n_of_hex body))
    | _ -> failwith "pval"
let parse_fval (w:string) : fval option =
  let w = String.trim w in
  if w = "-" then None
  else if String.length w >= 2 && w.[0] = 'R' then
    let inner = String.sub w 2 (String.length w - 3) in
    Some (R (List.map parse_pval (String.split_on_char '!' inner)))
  else (match parse_pval w with Some v -> Some (P v) | None -> None)
let show_pval (v : pval option) = match v with
  | None -> "-"
  | Some (VS s) -> "S" ^ show_str s
  | Some (VZ z) -> "Z" ^ string_of_int (int_of_z z)
  | Some (VN x) -> "H" ^ hex_of_n x
let show_fval (v : fval option) = match v with
  | None -> "-"
  | Some (P p) -> show_pval (Some p)
  | Some (R vs) -> "R[" ^ String.concat " ! " (List.map show_pval vs) ^ "]"
let rest_after (line:string) (k:int) : string =
  (* the text after the k-th space-separated word *)
  let n = String.length line in
  let rec skip i words = if words = 0 then i else
      if i >= n then n else if line.[i] = ' ' then skip (i + 1) (words - 1) else skip (i + 1) words in
  let i = skip 0 k in String.sub line i (n - i)
let lines_of (s:string) : n list list =
  List.map (fun l -> cps_of (String.trim l)) (String.split_on_char '/' s)
(* ---- LLSD flavours ---- *)
let show_plval (v : plval) = match v with
  | LS s -> "s" ^ show_str s
  | LI z -> "i" ^ string_of_int (int_of_z z)
  | LB b -> "b" ^ hex_of_bytes b
  | LU u -> "u" ^ hex_of_n u
  | LX x -> "x" ^ show_str x
let parse_plval (w:string) : plval =
  let w = String.trim w in
  let body = String.sub w 1 (String.length w - 1) in
  match w.[0] with
  | 's' -> LS (cps_of body)
  | 'i' -> LI (z_of_int (int_of_string body))
  | 'b' -> LB (bytes_of_hex body)
  | 'u' -> LU (n_of_hex body)
  | 'x' -> LX (cps_of body)
  | _ -> failwith "plval"
let split_kv (e:string) = let e = String.trim e in let i = String.index e '=' in
  (cps_of (String.sub e 0 i), String.sub e (i + 1) (String.length e - i - 1))
let parse_entry (e:string) : (n list * lval) =
  let (k, v) = split_kv e in
  if String.length v >= 2 && v.[0] = 'm' then
    let inner = String.trim (String.sub v 2 (String.length v - 3)) in
    let es = if inner = "" then [] else String.split_on_char '!' inner in
    (k, LM (List.map (fun e2 -> let (k2, v2) = split_kv e2 in (k2, parse_plval v2)) es))
  else (k, LP (parse_plval v))
let show_entry ((k, l) : (n list * lval)) = match l with
  | LP v -> show_str k ^ "=" ^ show_plval v
  | LM m -> show_str k ^ "=m[" ^ String.concat " ! " (List.map (fun (k2, v2) -> show_str k2 ^ "=" ^ show_plval v2) m) ^ "]"
let flavor_of s = if s = "legacy" then Legacy else Ais
(* ---- mesh container (Asset/MeshLayout.v).  Sections of a case are separated by " | "; keys are k<hex of the UTF-8 name>.
   header entries  k..:S:<off>:<size>:<extra id>  |  k..:O:<value id>        (ids name opaque LLSD values)
   MW <allow> | header | segments k..:P:<hex of deflate(value)> / k..:B:<hex> | raw_segments k..:<hex>
      -> ERR | H <header entries> | B <body hex>
   MP <allow> <incl> <header_end> | header | <buffer hex> | oracle  k..:<slice hex>=o<idx> / =z / =x
      -> ERR | S k..=<idx> ... | R k..=<slice hex> ...       (NOORACLE <key>:<hex> if the table has no answer)
   MC <allow> <header_end> | header | <buffer hex>
      -> every (key, slice) the reader would hand to inflate if every answer were a value:  k..:<hex> ...
   MS k.. k.. ...  -> the keys sorted by sorted(keys, key=_segment_sort) *)
exception No_oracle of string
let sections (line:string) : string list =
  (* split at " | " keeping empty sections *)
  let parts = String.split_on_char '|' line in List.map String.trim parts
let key_of (w:string) : n list = bytes_of_hex (String.sub w 1 (String.length w - 1))
let show_mkey (k : n list) = "k" ^ hex_of_bytes k
let parse_hentry (w:string) : (n list * int hval) =
  match String.split_on_char ':' w with
  | [k; "S"; o; sz; e] -> (key_of k, HSeg (z_of_int (int_of_string o), z_of_int (int_of_string sz), int_of_string e))
  | [k; "O"; v] -> (key_of k, HOther (int_of_string v))
  | _ -> failwith ("header entry " ^ w)
let show_hentry ((k, v) : (n list * int hval)) = match v with
  | HSeg (o, sz, e) -> Printf.sprintf "%s:S:%d:%d:%d" (show_mkey k) (int_of_z o) (int_of_z sz) e
  | HOther x -> Printf.sprintf "%s:O:%d" (show_mkey k) x
let live_rank = rank known_segments
(* ---- animations (Asset/Anim.v).  Typed tokens: decimal ints, f<hex8> raw floats, q<dec> quantised wire ints,
   t<dec>/tf<hex8> keyframe times, h<hex> byte strings (h alone = empty).
   AP hex  -> ERR | OK <tokens> # wf=<b> rest=<n> W=<hex|ERR>
   AW toks -> W=<hex|ERR> wf=<b> rt=<b>      (rt: the model parses its own output back to the same value, nothing left) *)
let tok_bytes (l : n list) = "h" ^ hex_of_bytes l
let tok_f (x : n) = Printf.sprintf "f%08x" (int_of_n x)
let show_key w (k : key) =
  if w = 4 then Printf.sprintf "tf%08x %s %s %s" (int_of_n k.k_time) (tok_f k.k_x) (tok_f k.k_y) (tok_f k.k_z)
  else Printf.sprintf "t%d q%d q%d q%d" (int_of_n k.k_time) (int_of_n k.k_x) (int_of_n k.k_y) (int_of_n k.k_z)
let show_vec3 ((xy, z) : (n * n) * n) = let (x, y) = xy in Printf.sprintf "%s %s %s" (tok_f x) (tok_f y) (tok_f z)
let show_anim (a : anim) : string =
  let w = if int_of_n a.a_major = 0 && int_of_n a.a_minor = 1 then 4 else 2 in
  let b = Buffer.create 256 in
  let add s = Buffer.add_string b s; Buffer.add_char b ' ' in
  add (string_of_int (int_of_n a.a_major)); add (string_of_int (int_of_n a.a_minor));
  add (string_of_int (int_of_z a.a_base_prio)); add (tok_f a.a_duration); add (tok_bytes a.a_emote);
  add (tok_f a.a_loop_in); add (tok_f a.a_loop_out); add (string_of_int (int_of_z a.a_loop));
  add (tok_f a.a_ease_in); add (tok_f a.a_ease_out); add (string_of_int (int_of_n a.a_hand_pose));
  add (Printf.sprintf "J%d" (List.length a.a_joints));
  List.iter (fun (j : joint) ->
      add (tok_bytes j.j_name); add (string_of_int (int_of_z j.j_prio));
      add (Printf.sprintf "R%d" (List.length j.j_rot)); List.iter (fun k -> add (show_key w k)) j.j_rot;
      add (Printf.sprintf "P%d" (List.length j.j_pos)); List.iter (fun k -> add (show_key w k)) j.j_pos) a.a_joints;
  add (Printf.sprintf "C%d" (List.length a.a_constraints));
  List.iter (fun (c : constr) ->
      add (string_of_int (int_of_n c.c_chain)); add (string_of_int (int_of_n c.c_type));
      add (tok_bytes c.c_src_vol); add (show_vec3 c.c_src_off); add (tok_bytes c.c_tgt_vol);
      add (show_vec3 c.c_tgt_off); add (show_vec3 c.c_tgt_dir);
      add (tok_f c.c_ease_in_start); add (tok_f c.c_ease_in_stop); add (tok_f c.c_ease_out_start); add (tok_f c.c_ease_out_stop))
    a.a_constraints;
  String.trim (Buffer.contents b)
let anim_of_tokens (ws : string list) : anim =
  let q = ref ws in
  let next () = match !q with [] -> failwith "anim tokens" | x :: r -> q := r; x in
  let body s k = String.sub s k (String.length s - k) in
  let int_tok () = int_of_string (next ()) in
  let nat_tok () = n_of_int (int_tok ()) in
  let z_tok () = z_of_int (int_tok ()) in
  let f_tok () = let s = next () in n_of_int (int_of_string ("0x" ^ body s 1)) in
  let h_tok () = bytes_of_hex (body (next ()) 1) in
  let cnt c = let s = next () in if s.[0] <> c then failwith "anim count" else int_of_string (body s 1) in
  let num_tok () = let s = next () in
    if String.length s >= 2 && s.[0] = 't' && s.[1] = 'f' then n_of_int (int_of_string ("0x" ^ body s 2))
    else if s.[0] = 'f' then n_of_int (int_of_string ("0x" ^ body s 1))
    else n_of_int (int_of_string (body s 1)) in
  let key_tok () = let t = num_tok () in let x = num_tok () in let y = num_tok () in let z = num_tok () in
    { k_time = t; k_x = x; k_y = y; k_z = z } in
  let vec () = let x = f_tok () in let y = f_tok () in let z = f_tok () in ((x, y), z) in
  let rec rep n f = if n <= 0 then [] else let x = f () in x :: rep (n - 1) f in
  let maj = nat_tok () in let mi = nat_tok () in let bp = z_tok () in let du = f_tok () in let em = h_tok () in
  let li = f_tok () in let lo = f_tok () in let lp = z_tok () in let ei = f_tok () in let eo = f_tok () in
  let hp = nat_tok () in
  let nj = cnt 'J' in
  let js = rep nj (fun () ->
      let nm = h_tok () in let pr = z_tok () in
      let nr = cnt 'R' in let rot = rep nr key_tok in
      let np = cnt 'P' in let pos = rep np key_tok in
      { j_name = nm; j_prio = pr; j_rot = rot; j_pos = pos }) in
  let nc = cnt 'C' in
  let cs = rep nc (fun () ->
      let ch = nat_tok () in let ty = nat_tok () in let sv = h_tok () in let so = vec () in let tv = h_tok () in
      let t_o = vec () in let td = vec () in
      let e1 = f_tok () in let e2 = f_tok () in let e3 = f_tok () in let e4 = f_tok () in
      { c_chain = ch; c_type = ty; c_src_vol = sv; c_src_off = so; c_tgt_vol = tv; c_tgt_off = t_o; c_tgt_dir = td;
        c_ease_in_start = e1; c_ease_in_stop = e2; c_ease_out_start = e3; c_ease_out_stop = e4 }) in
  { a_major = maj; a_minor = mi; a_base_prio = bp; a_duration = du; a_emote = em; a_loop_in = li; a_loop_out = lo;
    a_loop = lp; a_ease_in = ei; a_ease_out = eo; a_hand_pose = hp; a_joints = js; a_constraints = cs }
(* ---- whole inventory models (Asset/InvModel.v at live_table from gen/C20_invmodel.v).  A node is "<class idx> @ <record in
   dataclass order>", nodes are separated by "||", dicts by "||" (entries as in LR).
   IMT nodes        -> wf=<b> ids=<b> rt=<b> T=<code points of the text>     (rt: from_reader of the text, re-split at LF, == m)
   IMR lines        -> ERR | N nodes # root=<node|-> cons=<b>
   ILW fl nodes     -> wf=<b> ids=<b> rt=<b> D=<dicts> | ... D=ERR
   ILR fl dicts     -> ERR | N nodes # root=.. cons=..
   IEQ nodes ## nodes -> model_eqb ;  IADD nodes -> add() one after the other from the empty model *)
let split_str (sep:string) (s:string) : string list =
  let n = String.length s and k = String.length sep in
  let rec go i start acc =
    if i > n - k then List.rev (String.sub s start (n - start) :: acc)
    else if String.sub s i k = sep then go (i + k) (i + k) (String.sub s start (i - start) :: acc)
    else go (i + 1) start acc in
  go 0 0 []
let parse_node (w:string) =
  let w = String.trim w in
  let i = String.index w '@' in
  (nat_of_int (int_of_string (String.trim (String.sub w 0 i))),
   List.map parse_fval (String.split_on_char ';' (String.sub w (i + 1) (String.length w - i - 1))))
let parse_nodes (s:string) = let s = String.trim s in if s = "" then [] else List.map parse_node (split_str "||" s)
let show_node (i, r) = Printf.sprintf "%d @ %s" (int_of_nat i) (String.concat " ; " (List.map show_fval r))
let store_of ns = { s_nodes = List.map (fun nd -> (node_key live_table nd, nd)) ns; s_root = None }
let show_store (m : store) =
  Printf.sprintf "N %s # root=%s cons=%b" (String.concat " || " (List.map show_node (svalues m)))
    (match m.s_root with Some nd -> show_node nd | None -> "-") (consistent live_table m)
let resplit (ls : n list list) : n list list =
  (* what StringIO.readline sees: the lines joined with LF, split at every LF *)
  let flat = List.concat (List.map (fun l -> l @ [n_of_int 10]) ls) in
  let rec go cur acc = function
    | [] -> List.rev (if cur = [] then acc else List.rev cur :: acc)
    | c :: r -> if int_of_n c = 10 then go [] (List.rev cur :: acc) r else go (c :: cur) acc r in
  go [] [] flat
let parse_dicts (s:string) : (n list * lval) list list =
  List.map (fun d -> let d = String.trim d in if d = "" then [] else List.map parse_entry (String.split_on_char ';' d)) (split_str "||" s)
let show_written (o : n list option) = match o with Some b -> hex_of_bytes b | None -> "ERR"
let () =
  try
    while true do
      let line = input_line stdin in
      match words line with
      | "P" :: m :: rest ->
        let payload = match rest with [] -> [] | h :: _ -> bytes_of_hex h in
        print_endline (String.concat " " (List.map show_packet (xfer_packets (nat_of_int (int_of_string m)) payload)))
      | "X" :: turbo :: ps ->
        let tb = (turbo = "1") in
        let trace = Buffer.create 16 in
        let st = List.fold_left (fun st w ->
            match xfer_step tb st (parse_packet w) with
            | Some s -> Buffer.add_char trace (if s.xcore.is_done then '1' else '0'); s
            | None -> Buffer.add_char trace 'E'; st) xinit ps in
        Printf.printf "trace=%s size=%s na=%d acks=%s %s\n" (Buffer.contents trace)
          (match st.expected_size with Some z -> string_of_int (int_of_z z) | None -> "-")
          (int_of_nat st.next_ackable)
          (String.concat "," (List.map (fun a -> string_of_int (int_of_nat a)) st.acks))
          (show_core st.xcore)
      | "T" :: ps ->
        let trace = Buffer.create 16 in
        let c = List.fold_left (fun c w ->
            let c' = cstep c (tview (parse_packet w)) in
            Buffer.add_char trace (if c'.is_done then '1' else '0'); c') core_init ps in
        Printf.printf "trace=%s %s\n" (Buffer.contents trace) (show_core c)
      | ["W"; lo; hi] ->
        (* every code point in [lo,hi) the model classifies as whitespace *)
        let b = Buffer.create 256 in
        for c = int_of_string lo to int_of_string hi - 1 do
          if is_space (n_of_int c) then (Buffer.add_string b (string_of_int c); Buffer.add_char b ' ')
        done;
        print_endline (String.trim (Buffer.contents b))
      | "L" :: cps ->
        (* one reader line: strip, skip if empty, token regex *)
        let s = strip (List.map n_of_int (ints_of_words cps)) in
        (match s with
         | [] -> print_endline "SKIP"
         | _ -> print_endline (show_tok (parse_stripped s)))
      | "B" :: ws ->
        (* lines separated by "/" *)
        let lines = List.map (fun l -> List.map n_of_int (ints_of_words (words l)))
            (String.split_on_char '/' (String.concat " " ws)) in
        let (toks, rem) = read_block lines in
        Printf.printf "%s # %d\n" (String.concat " ; " (List.map (fun (k, v) -> show_tok (Some (k, v))) toks)) (List.length rem)
      | "M" :: cps ->
        let s = List.map n_of_int (ints_of_words cps) in
        Printf.printf "ok=%b ser=%s de=%s\n" (mstr_ok s) (show_str (mstr_serialize s)) (show_str (mstr_deserialize (mstr_serialize s)))
      | "D" :: what :: cps ->
        let s = List.map n_of_int (ints_of_words cps) in
        print_endline (if (if what = "k" then key_ok s else val_ok s) then "1" else "0")
      | "RW" :: which :: _ ->
        let (name, sch) = List.nth live_schemas (int_of_string which) in
        let r = List.map parse_fval (String.split_on_char ';' (rest_after line 2)) in
        Printf.printf "dom=%b %s\n" (dom sch r) (String.concat " / " (List.map show_str (to_lines name sch r)))
      | "RR" :: which :: _ ->
        let (_, sch) = List.nth live_schemas (int_of_string which) in
        (match from_lines sch (lines_of (rest_after line 2)) with
         | None -> print_endline "ERR"
         | Some (r, rem) -> Printf.printf "%s # %d\n" (String.concat " ; " (List.map show_fval r)) (List.length rem))
      | "LW" :: which :: fl :: _ ->
        let sch = List.nth live_llsd_schemas (int_of_string which) in
        let r = List.map parse_fval (String.split_on_char ';' (rest_after line 3)) in
        Printf.printf "dom=%b %s\n" (dom_llsd (flavor_of fl) sch r) (String.concat " ; " (List.map show_entry (to_llsd (flavor_of fl) sch r)))
      | "LR" :: which :: fl :: _ ->
        let sch = List.nth live_llsd_schemas (int_of_string which) in
        let txt = String.trim (rest_after line 3) in
        let d = if txt = "" then [] else List.map parse_entry (String.split_on_char ';' txt) in
        (match from_llsd (flavor_of fl) sch d with
         | None -> print_endline "ERR"
         | Some r -> print_endline (String.concat " ; " (List.map show_fval r)))
      | ["AP"] | ["AP"; _] ->
        let bs = (match words line with [_; h] -> bytes_of_hex h | _ -> []) in
        (match parse_anim bs with
         | None -> print_endline "ERR"
         | Some (a, rest) ->
           Printf.printf "OK %s # wf=%b rest=%d W=%s\n" (show_anim a) (wf_anim a) (List.length rest) (show_written (write_anim a)))
      | "AW" :: toks ->
        let a = anim_of_tokens toks in
        let w = write_anim a in
        let rt = (match w with
            | None -> false
            | Some b -> (match parse_anim b with Some (a2, []) -> show_anim a2 = show_anim a | _ -> false)) in
        Printf.printf "W=%s wf=%b rt=%b\n" (show_written w) (wf_anim a) rt
      | ["U8"] | ["U8"; _] ->
        let bs = (match words line with [_; h] -> bytes_of_hex h | _ -> []) in
        print_endline (if utf8_valid bs then "1" else "0")
      | "MW" :: allow :: _ ->
        (match sections line with
         | [_; h; sg; rw] ->
           let hdr = List.map parse_hentry (words h) in
           let segs = List.map (fun w -> match String.split_on_char ':' w with
               | [k; "P"; b] -> (key_of k, SParsed (bytes_of_hex b))
               | [k; "B"; b] -> (key_of k, SBytes (bytes_of_hex b))
               | _ -> failwith "segment") (words sg) in
           let raws = List.map (fun w -> match String.split_on_char ':' w with
               | [k; b] -> (key_of k, bytes_of_hex b) | _ -> failwith "raw") (words rw) in
           let m = { m_header = hdr; m_segments = segs; m_raw = raws } in
           (match write_layout live_rank (fun _ b -> b) (allow = "1") m with
            | None -> print_endline "ERR"
            | Some (h2, body) -> Printf.printf "H %s | B %s\n" (String.concat " " (List.map show_hentry h2)) (hex_of_bytes body))
         | _ -> print_endline "?")
      | "MP" :: allow :: incl :: hend :: _ ->
        (match sections line with
         | [_; h; buf; orc] ->
           let hdr = List.map parse_hentry (words h) in
           let table = List.map (fun w -> let i = String.index w '=' in
                                  (String.sub w 0 i, String.sub w (i + 1) (String.length w - i - 1))) (words orc) in
           let inflate k b =
             let q = show_mkey k ^ ":" ^ hex_of_bytes b in
             (match List.assoc_opt q table with
              | None -> raise (No_oracle q)
              | Some "z" -> IZlib
              | Some "x" -> IOther
              | Some a -> IOk (int_of_string (String.sub a 1 (String.length a - 1)))) in
           (try
              match parse_segments inflate (allow = "1") (incl = "1") (bytes_of_hex buf) (z_of_int (int_of_string hend)) hdr with
              | None -> print_endline "ERR"
              | Some (sg, rw) ->
                Printf.printf "S %s | R %s\n" (String.concat " " (List.map (fun (k, i) -> Printf.sprintf "%s=%d" (show_mkey k) i) sg))
                  (String.concat " " (List.map (fun (k, b) -> Printf.sprintf "%s=%s" (show_mkey k) (hex_of_bytes b)) rw))
            with No_oracle q -> print_endline ("NOORACLE " ^ q))
         | _ -> print_endline "?")
      | "MC" :: allow :: hend :: _ ->
        (match sections line with
         | [_; h; buf] ->
           let hdr = List.map parse_hentry (words h) in
           let asked = ref [] in
           let inflate k b = asked := (show_mkey k ^ ":" ^ hex_of_bytes b) :: !asked; IOk 0 in
           let _ = parse_segments inflate (allow = "1") false (bytes_of_hex buf) (z_of_int (int_of_string hend)) hdr in
           print_endline (String.concat " " (List.rev !asked))
         | _ -> print_endline "?")
      | "MS" :: ks ->
        print_endline (String.concat " " (List.map show_mkey (sort_keys live_rank (List.map key_of ks))))
      | ["I"; z] -> let t = int_to_text (z_of_int (int_of_string z)) in
        Printf.printf "%s %s\n" (show_str t) (match int_of_text t with Some r -> string_of_int (int_of_z r) | None -> "ERR")
      | ["U"; h] -> let t = uuid_to_text (n_of_hex h) in
        Printf.printf "%s %s\n" (show_str t) (match uuid_of_text t with Some r -> hex_of_n r | None -> "ERR")
      | ["X8"; h] -> let t = hex8_to_text (n_of_hex h) in
        Printf.printf "%s %s\n" (show_str t) (match hex_of_text t with Some r -> hex_of_n r | None -> "ERR")
      | "IMT" :: _ ->
        let ns = parse_nodes (rest_after line 1) in
        let m = store_of ns in
        let ls = to_writer live_table m in
        let rt = (match from_reader live_table (resplit ls) with Some m' -> model_eqb m' m | None -> false) in
        Printf.printf "wf=%b ids=%b rt=%b T=%s\n" (List.for_all (node_ok_text live_table) ns) (ids_distinct live_table ns) rt
          (show_str (List.concat (List.map (fun l -> l @ [n_of_int 10]) ls)))
      | "IMR" :: _ ->
        (match from_reader live_table (lines_of (rest_after line 1)) with
         | None -> print_endline "ERR"
         | Some m -> print_endline (show_store m))
      | "ILW" :: fl :: _ ->
        let ns = parse_nodes (rest_after line 2) in
        let m = store_of ns in
        let f = flavor_of fl in
        let wf = List.for_all (node_ok_llsd f live_table) ns and ids = ids_distinct live_table ns in
        (match model_to_llsd f live_table m with
         | None -> Printf.printf "wf=%b ids=%b rt=false D=ERR\n" wf ids
         | Some ds ->
           let rt = (match model_from_llsd f live_table ds with Some m' -> model_eqb m' m | None -> false) in
           Printf.printf "wf=%b ids=%b rt=%b D=%s\n" wf ids rt
             (String.concat " || " (List.map (fun d -> String.concat " ; " (List.map show_entry d)) ds)))
      | "ILR" :: fl :: _ ->
        let txt = rest_after line 2 in
        let ds = if String.trim txt = "" then [] else parse_dicts txt in
        (match model_from_llsd (flavor_of fl) live_table ds with
         | None -> print_endline "ERR"
         | Some m -> print_endline (show_store m))
      | "IEQ" :: _ ->
        (match split_str "##" (rest_after line 1) with
         | [a; b] -> Printf.printf "%b\n" (model_eqb (store_of (parse_nodes a)) (store_of (parse_nodes b)))
         | _ -> print_endline "?")
      | "IADD" :: _ ->
        (match add_all live_table empty_store (parse_nodes (rest_after line 1)) with
         | None -> print_endline "ERR"
         | Some m -> print_endline (show_store m))
      | "PI" :: cps -> (match int_of_text (cps_of (String.concat "" cps)) with Some r -> print_endline (string_of_int (int_of_z r)) | None -> print_endline "ERR")
      | _ -> print_endline "?"
    done
  with End_of_file -> ()
