(* C20 driver.  One case per line:
     P m hex                      -> sender packets of Xfer(data=hex) with MAX_CHUNK_SIZE m:  id:eof:hex ...
     X turbo id:eof:hex ...       -> XferManager._handle_send_xfer_packet over the arrivals
     T id:eof:hex ...             -> TransferManager._handle_transfer_packet over the arrivals
   A step on which the model raises (None) is marked E in the trace and leaves the state unchanged
   (the harness catches the exception and goes on likewise). *)
let hexval c = match c with
  | '0'..'9' -> Char.code c - 48 | 'a'..'f' -> Char.code c - 87 | 'A'..'F' -> Char.code c - 55 | _ -> failwith "hex"
let bytes_of_hex (s:string) : n list =
  let l = String.length s / 2 in
  List.init l (fun i -> n_of_int (16 * hexval s.[2*i] + hexval s.[2*i+1]))
let hex_of_bytes (l : n list) : string =
  let b = Buffer.create 64 in
  List.iter (fun x -> Buffer.add_string b (Printf.sprintf "%02x" (int_of_n x))) l; Buffer.contents b
let parse_packet (w:string) : packet =
  match String.split_on_char ':' w with
  | [i; e; h] -> { pid = nat_of_int (int_of_string i); peof = (e = "1"); pdata = bytes_of_hex h }
  | _ -> failwith "packet"
let show_packet (p:packet) = Printf.sprintf "%d:%s:%s" (int_of_nat p.pid) (if p.peof then "1" else "0") (hex_of_bytes p.pdata)
let show_core (c:core) =
  Printf.sprintf "ec=%s chunks=%s reasm=%s"
    (match c.expected_chunks with Some e -> string_of_int (int_of_nat e) | None -> "-")
    (String.concat "," (List.map (fun (k, d) -> Printf.sprintf "%d:%s" (int_of_nat k) (hex_of_bytes d)) c.chunks))
    (hex_of_bytes (reassemble c))
let show_str (l : n list) = String.concat "," (List.map (fun x -> string_of_int (int_of_n x)) l)
let show_tok t = match t with
  | None -> "ERR"
  | Some (k, None) -> "K " ^ show_str k ^ " NONE"
  | Some (k, Some v) -> "K " ^ show_str k ^ " V " ^ show_str v
let () =
  try
    while true do
      let line = input_line stdin in
      match words line with
      | "P" :: m :: rest ->
        let payload = match rest with [] -> [] | h :: _ -> bytes_of_hex h in
        print_endline (String.concat " " (List.map show_packet (xfer_packets (nat_of_int (int_of_string m)) payload)))
      | "X" :: turbo :: ps ->
        let tb = (turbo = "1") in
        let trace = Buffer.create 16 in
        let st = List.fold_left (fun st w ->
            match xfer_step tb st (parse_packet w) with
            | Some s -> Buffer.add_char trace (if s.xcore.is_done then '1' else '0'); s
            | None -> Buffer.add_char trace 'E'; st) xinit ps in
        Printf.printf "trace=%s size=%s na=%d acks=%s %s\n" (Buffer.contents trace)
          (match st.expected_size with Some z -> string_of_int (int_of_z z) | None -> "-")
          (int_of_nat st.next_ackable)
          (String.concat "," (List.map (fun a -> string_of_int (int_of_nat a)) st.acks))
          (show_core st.xcore)
      | "T" :: ps ->
        let trace = Buffer.create 16 in
        let c = List.fold_left (fun c w ->
            let c' = cstep c (tview (parse_packet w)) in
            Buffer.add_char trace (if c'.is_done then '1' else '0'); c') core_init ps in
        Printf.printf "trace=%s %s\n" (Buffer.contents trace) (show_core c)
      | ["W"; lo; hi] ->
        (* every code point in [lo,hi) the model classifies as whitespace *)
        let b = Buffer.create 256 in
        for c = int_of_string lo to int_of_string hi - 1 do
          if is_space (n_of_int c) then (Buffer.add_string b (string_of_int c); Buffer.add_char b ' ')
        done;
        print_endline (String.trim (Buffer.contents b))
      | "L" :: cps ->
        (* one reader line: strip, skip if empty, token regex *)
        let s = strip (List.map n_of_int (ints_of_words cps)) in
        (match s with
         | [] -> print_endline "SKIP"
         | _ -> print_endline (show_tok (parse_stripped s)))
      | "B" :: ws ->
        (* lines separated by "/" *)
        let lines = List.map (fun l -> List.map n_of_int (ints_of_words (words l)))
            (String.split_on_char '/' (String.concat " " ws)) in
        let (toks, rem) = read_block lines in
        Printf.printf "%s # %d\n" (String.concat " ; " (List.map (fun (k, v) -> show_tok (Some (k, v))) toks)) (List.length rem)
      | "M" :: cps ->
        let s = List.map n_of_int (ints_of_words cps) in
        Printf.printf "ok=%b ser=%s de=%s\n" (mstr_ok s) (show_str (mstr_serialize s)) (show_str (mstr_deserialize (mstr_serialize s)))
      | "D" :: what :: cps ->
        let s = List.map n_of_int (ints_of_words cps) in
        print_endline (if (if what = "k" then key_ok s else val_ok s) then "1" else "0")
      | _ -> print_endline "?"
    done
  with End_of_file -> ()
