(* C18 driver.  One case per line, whitespace separated tokens, prefix encoding
   (REP x = zero or more x, the count is given by the preceding <n>):
     str    = <len> c1 .. cn
     num    = <kind 0:bool 1:int 2:float> <numerator> <denominator>   (binary digits, numerator with optional leading -)
     pv     = N | X num | S str | B [0 | 1 str] str | T <n> REP num | C <n> REP num str | O str
     value  = L pv | M <n> REP str | E str str [R pv | A | K]
     ov     = - | + <op 0..9> value
     fexp   = l str <n> REP str ov | n fexp | a fexp fexp | o fexp fexp
     var    = str pv [- | + <n> REP [str pv]]
     block  = <n> REP var
     mv     = V pv | D <ci> <n> REP [str pv] str
     mlist  = <n> REP [str mv]
     entry  = <kind 0:LLUDP 1:other> str str mlist <nlayers> REP mlist <nnames> REP [str <nblocks> REP block]
   commands:
     F fexp entry                   prints  res(sc=true) # res(sc=false)
     G <maxlen> fexp <nops> REP lop prints the observation after every op, separated by semicolons: raw ids|view ids
     lop = L <id> entry | S + fexp | S - | P <0 or 1> | C
     P <n> REP <code point below 256>   the text parsed by the model of the grammar (FilterSyntax.parse, enum
                                        references resolved to A): prints  OK fexp  (same encoding as above) or REJECT
     K <n> REP <code point>             same through FilterSyntax.compile (strip, empty filter, lone bang)
     Q fexp                             prints  <wf_syntax 0 or 1> <n> REP <code point>  : FilterSyntax.print  *)
let toks : string list ref = ref []
let next () = match !toks with [] -> failwith "eof" | t :: r -> toks := r; t
let int_ () = int_of_string (next ())
let rec rep n f = if n <= 0 then [] else let x = f () in x :: rep (n - 1) f
let str_ () = let n = int_ () in rep n (fun () -> n_of_int (int_ ()))
let bool_ () = int_ () <> 0
let pos_of_bits (s : string) : positive =
  let p = ref XH in
  for i = 1 to String.length s - 1 do p := (if s.[i] = '1' then XI !p else XO !p) done; !p
let z_of_bits (s : string) : z =
  if s = "0" then Z0
  else if s.[0] = '-' then Zneg (pos_of_bits (String.sub s 1 (String.length s - 1)))
  else Zpos (pos_of_bits s)
let num_ () =
  let k = (match int_ () with 0 -> KB | 1 -> KI | _ -> KF) in
  let a = next () in let d = next () in
  { nkind = k; nnum = z_of_bits a; nden = pos_of_bits d }
let pv_ () = match next () with
  | "N" -> PNone
  | "X" -> PNum (num_ ())
  | "S" -> PStr (str_ ())
  | "B" -> let j = (if bool_ () then Some (str_ ()) else None) in PBytes (j, str_ ())
  | "T" -> let n = int_ () in PTup (rep n num_)
  | "C" -> let n = int_ () in let l = rep n num_ in PCoord (l, str_ ())
  | "O" -> POther (str_ ())
  | t -> failwith ("pv " ^ t)
let op_ () = match int_ () with
  | 0 -> OEq | 1 -> ONe | 2 -> OStarts | 3 -> OEnds | 4 -> OIn
  | 5 -> OLt | 6 -> OLe | 7 -> OGt | 8 -> OGe | _ -> OBand
let value_ () = match next () with
  | "L" -> VLit (pv_ ())
  | "M" -> let n = int_ () in VMeta (rep n str_)
  | "E" -> let a = str_ () in let b = str_ () in
    let r = (match next () with "R" -> ERes (pv_ ()) | "A" -> ENoEnum | _ -> ENoField) in
    VEnum (a, b, r)
  | t -> failwith ("value " ^ t)
let ov_ () = match next () with
  | "-" -> None
  | _ -> let o = op_ () in let v = value_ () in Some (o, v)
let rec fexp_ () = match next () with
  | "l" -> let s0 = str_ () in let n = int_ () in let rest = rep n str_ in let ov = ov_ () in Leaf (s0, rest, ov)
  | "n" -> Not (fexp_ ())
  | "a" -> let f = fexp_ () in let g = fexp_ () in And (f, g)
  | "o" -> let f = fexp_ () in let g = fexp_ () in Or (f, g)
  | t -> failwith ("fexp " ^ t)
let kv_ () = let k = str_ () in let v = pv_ () in (k, v)
let var_ () =
  let nm = str_ () in let v = pv_ () in
  let sub = (match next () with "-" -> None | _ -> let n = int_ () in Some (rep n kv_)) in
  { v_name = nm; v_val = v; v_sub = sub }
let block_ () = let n = int_ () in rep n var_
let mv_ () = match next () with
  | "V" -> MV (pv_ ())
  | _ -> let ci = bool_ () in let n = int_ () in let d = rep n kv_ in MDict (ci, d, str_ ())
let mlist_ () = let n = int_ () in rep n (fun () -> let k = str_ () in let v = mv_ () in (k, v))
let entry_ () =
  let k = (if int_ () = 0 then KLLUDP else KOther) in
  let nm = str_ () in let ty = str_ () in
  let ci = mlist_ () in
  let nl = int_ () in let layers = rep nl mlist_ in
  let nb = int_ () in
  let blocks = rep nb (fun () -> let bn = str_ () in let c = int_ () in (bn, rep c block_)) in
  { e_kind = k; e_name = nm; e_type = ty; e_meta_ci = ci; e_meta = layers; e_blocks = blocks }

(* ---- concrete syntax ---- *)
let ascii_of_int (n : int) : ascii =
  let b i = (n lsr i) land 1 = 1 in Ascii (b 0, b 1, b 2, b 3, b 4, b 5, b 6, b 7)
let int_of_ascii (Ascii (b0, b1, b2, b3, b4, b5, b6, b7)) : int =
  let v b i = if b then 1 lsl i else 0 in
  v b0 0 + v b1 1 + v b2 2 + v b3 3 + v b4 4 + v b5 5 + v b6 6 + v b7 7
let text_ () = let n = int_ () in rep n (fun () -> ascii_of_int (int_ ()))
let rec bits_of_pos (p : positive) : string = match p with
  | XH -> "1" | XO q -> bits_of_pos q ^ "0" | XI q -> bits_of_pos q ^ "1"
let bits_of_z (z : z) : string = match z with
  | Z0 -> "0" | Zpos p -> bits_of_pos p | Zneg p -> "-" ^ bits_of_pos p
let enc_str (s : str) = String.concat " " (string_of_int (List.length s) :: List.map (fun c -> string_of_int (int_of_n c)) s)
let enc_num (x : num) =
  (match x.nkind with KB -> "0" | KI -> "1" | KF -> "2") ^ " " ^ bits_of_z x.nnum ^ " " ^ bits_of_pos x.nden
let enc_pv = function
  | PNone -> "N"
  | PNum x -> "X " ^ enc_num x
  | PStr s -> "S " ^ enc_str s
  | PBytes (None, b) -> "B 0 " ^ enc_str b
  | PBytes (Some r, b) -> "B 1 " ^ enc_str r ^ " " ^ enc_str b
  | PTup l -> String.concat " " ("T" :: string_of_int (List.length l) :: List.map enc_num l)
  | PCoord (l, r) -> String.concat " " ("C" :: string_of_int (List.length l) :: List.map enc_num l) ^ " " ^ enc_str r
  | POther r -> "O " ^ enc_str r
let enc_value = function
  | VLit v -> "L " ^ enc_pv v
  | VMeta l -> String.concat " " ("M" :: string_of_int (List.length l) :: List.map enc_str l)
  | VEnum (a, b, r) -> "E " ^ enc_str a ^ " " ^ enc_str b ^ " " ^
      (match r with ERes v -> "R " ^ enc_pv v | ENoEnum -> "A" | ENoField -> "K")
let op_index = function
  | OEq -> 0 | ONe -> 1 | OStarts -> 2 | OEnds -> 3 | OIn -> 4 | OLt -> 5 | OLe -> 6 | OGt -> 7 | OGe -> 8 | OBand -> 9
let rec enc_fexp = function
  | Leaf (s0, rest, ov) ->
    "l " ^ enc_str s0 ^ " " ^ String.concat " " (string_of_int (List.length rest) :: List.map enc_str rest) ^ " " ^
    (match ov with None -> "-" | Some (o, v) -> "+ " ^ string_of_int (op_index o) ^ " " ^ enc_value v)
  | Not f -> "n " ^ enc_fexp f
  | And (f, g) -> "a " ^ enc_fexp f ^ " " ^ enc_fexp g
  | Or (f, g) -> "o " ^ enc_fexp f ^ " " ^ enc_fexp g
let no_enum : str -> str -> eres = fun _ _ -> ENoEnum
let show_parsed = function None -> "REJECT" | Some f -> "OK " ^ enc_fexp f

let show_str (s : str) = String.concat "," (List.map (fun c -> string_of_int (int_of_n c)) s)
let show_key (((b, i), v) : fkey) = show_str b ^ "/" ^ string_of_int (int_of_n i) ^ "/" ^ show_str v
let show_res = function
  | Ok (b, fl) -> "OK " ^ (if b then "1" else "0") ^ " [" ^ String.concat " " (List.map show_key fl) ^ "]"
  | Err XValue -> "EXC:ValueError"
  | Err XType -> "EXC:TypeError"
  | Err XAttr -> "EXC:AttributeError"
  | Err XKey -> "EXC:KeyError"
let show_ids l = String.concat "," (List.map (fun c -> string_of_int (int_of_n c)) l)

let lop_ () = match next () with
  | "L" -> let i = int_ () in let e = entry_ () in Log (n_of_int i, e)
  | "S" -> (match next () with "+" -> SetFilter (Some (fexp_ ())) | _ -> SetFilter None)
  | "P" -> SetPaused (bool_ ())
  | _ -> Clear

let () =
  try
    while true do
      let line = input_line stdin in
      toks := words line;
      (try
        match next () with
        | "F" ->
          let f = fexp_ () in let e = entry_ () in
          print_endline (show_res (eval true f e) ^ " # " ^ show_res (eval false f e))
        | "G" ->
          let ml = int_ () in let f0 = fexp_ () in let n = int_ () in
          let ops = rep n lop_ in
          let tr = ctrace (nat_of_int ml) (init f0) ops in
          print_endline (String.concat ";" (List.map (fun (r, v) -> show_ids r ^ "|" ^ show_ids v) tr))
        | "P" -> let t = text_ () in print_endline (show_parsed (parse no_enum t))
        | "K" -> let t = text_ () in print_endline (show_parsed (compile no_enum t))
        | "Q" ->
          let f = fexp_ () in
          let t = print f in
          print_endline (String.concat " " ((if wf_syntax f then "1" else "0") :: string_of_int (List.length t)
                                            :: List.map (fun c -> string_of_int (int_of_ascii c)) t))
        | t -> print_endline ("?" ^ t)
      with Failure m -> print_endline ("PARSE-ERROR " ^ m))
    done
  with End_of_file -> ()
