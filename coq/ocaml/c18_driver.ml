(* C18 driver.  One case per line, whitespace separated tokens, prefix encoding
   (REP x = zero or more x, the count is given by the preceding <n>):
     str    = <len> c1 .. cn
     num    = <kind 0:bool 1:int 2:float> <numerator> <denominator>   (binary digits, numerator with optional leading -)
     pv     = N | X num | S str | B [0 | 1 str] str | T <n> REP num | C <n> REP num str | O str
     value  = L pv | M <n> REP str | E str str [R pv | A | K]
     ov     = - | + <op 0..9> value
     fexp   = l str <n> REP str ov | n fexp | a fexp fexp | o fexp fexp
     var    = str pv [- | + <n> REP [str pv]]
     block  = <n> REP var
     mv     = V pv | D <ci> <n> REP [str pv] str
     mlist  = <n> REP [str mv]
     entry  = <kind 0:LLUDP 1:other> str str mlist <nlayers> REP mlist <nnames> REP [str <nblocks> REP block]
   commands:
     F fexp entry                   prints  res(sc=true) # res(sc=false)
     G <maxlen> fexp <nops> REP lop prints the observation after every op, separated by semicolons: raw ids|view ids
     lop = L <id> entry | S + fexp | S - | P <0 or 1> | C
     P <n> REP <code point below 256>   the text parsed by the model of the grammar (FilterSyntax.parse, enum
                                        references resolved to A): prints  OK fexp  (same encoding as above) or REJECT
     K <n> REP <code point>             same through FilterSyntax.compile (strip, empty filter, lone bang)
     Q fexp                             prints  <wf_syntax 0 or 1> <n> REP <code point>  : FilterSyntax.print
   export / import, freeze / thaw (Log/Export.v).  hex = lower-case hex of a byte string, "-" when empty;
   hex16 = the 64 bits of a float in 16 hex digits; dec = decimal integer of any size:
     yv     = N | T | F | I dec | R hex16 | S hex | B <p|j|r|a> hex | G <h|s> hex | C <2|3|4|q> <n> REP hex16
              | L <l|t> <n> REP yv | M <n> REP [hex yv] | D hex16 | U hex
     msg    = hex <nlists> REP [hex <nblocks> REP [<nvars> REP [hex yv]]] <- | dec> yv(dict: meta) <0|1 dropped> <0|1 synthetic>
              <I|O> dec(flags) <p|j|r|a> hex(extra) <l|t> <n> REP yv(acks)
     lentry = <- | S hex>(region name) <- | G hex>(agent id) <- | S hex>(summary cache) yv(dict: meta) <U msg | E yv> hex(summ oracle)
     tables = ; REP [hex16 hex] ; REP [hex16 hex] ; REP [hex hex hex <2|3|4|q|s>]
              repr(float) and date-string tables (the parsers use their inverses); template facts read by
              _restore_value_classes: message, block, variable -> coordinate class or s = Fixed/Variable and not probably_binary
   commands:
     XM msg tables        prints  <wf_msg><plain_msg><wfn> | yv(to_dict true) | hex(notation) | msg-or-ERR(from_dict . to_dict)
                                  | msg-or-ERR(from_dict . parse_notation . format_notation) | yv(to_dict false) | msg(norm_msg)
                                  | msg-or-ERR(_restore_value_classes of the former) | <deser_classes>
     XD yv                prints  msg-or-ERR (Message.from_dict of any value)
     XV yv tables         prints  hex(notation) | yv(norm) | <plain>
     XE <n> REP lentry tables
                          prints per entry, joined by " || ":  <entry_ok><std_meta> | yv-or-ERR(entry_to_dict)
                                  | lentry-or-ERR(entry_from_dict . entry_to_dict) | lentry-or-ERR(norm_entry)
     XF <0|1 repickle> <nversions> REP msg <nops> REP op       op = m <i> (the live message now holds version i) | f (freeze)
                          | o (read name, method, seq) | w (read message)
                          prints per op, joined by ";":  m: "-"   f: ok|EXC   o: hex hex <-|dec>   w: <version index>|EXC  *)
let toks : string list ref = ref []
let next () = match !toks with [] -> failwith "eof" | t :: r -> toks := r; t
let int_ () = int_of_string (next ())
let rec rep n f = if n <= 0 then [] else let x = f () in x :: rep (n - 1) f
let str_ () = let n = int_ () in rep n (fun () -> n_of_int (int_ ()))
let bool_ () = int_ () <> 0
let pos_of_bits (s : string) : positive =
  let p = ref XH in
  for i = 1 to String.length s - 1 do p := (if s.[i] = '1' then XI !p else XO !p) done; !p
let z_of_bits (s : string) : z =
  if s = "0" then Z0
  else if s.[0] = '-' then Zneg (pos_of_bits (String.sub s 1 (String.length s - 1)))
  else Zpos (pos_of_bits s)
let num_ () =
  let k = (match int_ () with 0 -> KB | 1 -> KI | _ -> KF) in
  let a = next () in let d = next () in
  { nkind = k; nnum = z_of_bits a; nden = pos_of_bits d }
let pv_ () = match next () with
  | "N" -> PNone
  | "X" -> PNum (num_ ())
  | "S" -> PStr (str_ ())
  | "B" -> let j = (if bool_ () then Some (str_ ()) else None) in PBytes (j, str_ ())
  | "T" -> let n = int_ () in PTup (rep n num_)
  | "C" -> let n = int_ () in let l = rep n num_ in PCoord (l, str_ ())
  | "O" -> POther (str_ ())
  | t -> failwith ("pv " ^ t)
let op_ () = match int_ () with
  | 0 -> OEq | 1 -> ONe | 2 -> OStarts | 3 -> OEnds | 4 -> OIn
  | 5 -> OLt | 6 -> OLe | 7 -> OGt | 8 -> OGe | _ -> OBand
let value_ () = match next () with
  | "L" -> VLit (pv_ ())
  | "M" -> let n = int_ () in VMeta (rep n str_)
  | "E" -> let a = str_ () in let b = str_ () in
    let r = (match next () with "R" -> ERes (pv_ ()) | "A" -> ENoEnum | _ -> ENoField) in
    VEnum (a, b, r)
  | t -> failwith ("value " ^ t)
let ov_ () = match next () with
  | "-" -> None
  | _ -> let o = op_ () in let v = value_ () in Some (o, v)
let rec fexp_ () = match next () with
  | "l" -> let s0 = str_ () in let n = int_ () in let rest = rep n str_ in let ov = ov_ () in Leaf (s0, rest, ov)
  | "n" -> Not (fexp_ ())
  | "a" -> let f = fexp_ () in let g = fexp_ () in And (f, g)
  | "o" -> let f = fexp_ () in let g = fexp_ () in Or (f, g)
  | t -> failwith ("fexp " ^ t)
let kv_ () = let k = str_ () in let v = pv_ () in (k, v)
let var_ () =
  let nm = str_ () in let v = pv_ () in
  let sub = (match next () with "-" -> None | _ -> let n = int_ () in Some (rep n kv_)) in
  { v_name = nm; v_val = v; v_sub = sub }
let block_ () = let n = int_ () in rep n var_
let mv_ () = match next () with
  | "V" -> MV (pv_ ())
  | _ -> let ci = bool_ () in let n = int_ () in let d = rep n kv_ in MDict (ci, d, str_ ())
let mlist_ () = let n = int_ () in rep n (fun () -> let k = str_ () in let v = mv_ () in (k, v))
let entry_ () =
  let k = (if int_ () = 0 then KLLUDP else KOther) in
  let nm = str_ () in let ty = str_ () in
  let ci = mlist_ () in
  let nl = int_ () in let layers = rep nl mlist_ in
  let nb = int_ () in
  let blocks = rep nb (fun () -> let bn = str_ () in let c = int_ () in (bn, rep c block_)) in
  { e_kind = k; e_name = nm; e_type = ty; e_meta_ci = ci; e_meta = layers; e_blocks = blocks }

(* ---- concrete syntax ---- *)
let ascii_of_int (n : int) : ascii =
  let b i = (n lsr i) land 1 = 1 in Ascii (b 0, b 1, b 2, b 3, b 4, b 5, b 6, b 7)
let int_of_ascii (Ascii (b0, b1, b2, b3, b4, b5, b6, b7)) : int =
  let v b i = if b then 1 lsl i else 0 in
  v b0 0 + v b1 1 + v b2 2 + v b3 3 + v b4 4 + v b5 5 + v b6 6 + v b7 7
let text_ () = let n = int_ () in rep n (fun () -> ascii_of_int (int_ ()))
let rec bits_of_pos (p : positive) : string = match p with
  | XH -> "1" | XO q -> bits_of_pos q ^ "0" | XI q -> bits_of_pos q ^ "1"
let bits_of_z (z : z) : string = match z with
  | Z0 -> "0" | Zpos p -> bits_of_pos p | Zneg p -> "-" ^ bits_of_pos p
let enc_str (s : str) = String.concat " " (string_of_int (List.length s) :: List.map (fun c -> string_of_int (int_of_n c)) s)
let enc_num (x : num) =
  (match x.nkind with KB -> "0" | KI -> "1" | KF -> "2") ^ " " ^ bits_of_z x.nnum ^ " " ^ bits_of_pos x.nden
let enc_pv = function
  | PNone -> "N"
  | PNum x -> "X " ^ enc_num x
  | PStr s -> "S " ^ enc_str s
  | PBytes (None, b) -> "B 0 " ^ enc_str b
  | PBytes (Some r, b) -> "B 1 " ^ enc_str r ^ " " ^ enc_str b
  | PTup l -> String.concat " " ("T" :: string_of_int (List.length l) :: List.map enc_num l)
  | PCoord (l, r) -> String.concat " " ("C" :: string_of_int (List.length l) :: List.map enc_num l) ^ " " ^ enc_str r
  | POther r -> "O " ^ enc_str r
let enc_value = function
  | VLit v -> "L " ^ enc_pv v
  | VMeta l -> String.concat " " ("M" :: string_of_int (List.length l) :: List.map enc_str l)
  | VEnum (a, b, r) -> "E " ^ enc_str a ^ " " ^ enc_str b ^ " " ^
      (match r with ERes v -> "R " ^ enc_pv v | ENoEnum -> "A" | ENoField -> "K")
let op_index = function
  | OEq -> 0 | ONe -> 1 | OStarts -> 2 | OEnds -> 3 | OIn -> 4 | OLt -> 5 | OLe -> 6 | OGt -> 7 | OGe -> 8 | OBand -> 9
let rec enc_fexp = function
  | Leaf (s0, rest, ov) ->
    "l " ^ enc_str s0 ^ " " ^ String.concat " " (string_of_int (List.length rest) :: List.map enc_str rest) ^ " " ^
    (match ov with None -> "-" | Some (o, v) -> "+ " ^ string_of_int (op_index o) ^ " " ^ enc_value v)
  | Not f -> "n " ^ enc_fexp f
  | And (f, g) -> "a " ^ enc_fexp f ^ " " ^ enc_fexp g
  | Or (f, g) -> "o " ^ enc_fexp f ^ " " ^ enc_fexp g
let no_enum : str -> str -> eres = fun _ _ -> ENoEnum
let show_parsed = function None -> "REJECT" | Some f -> "OK " ^ enc_fexp f

let show_str (s : str) = String.concat "," (List.map (fun c -> string_of_int (int_of_n c)) s)
let show_key (((b, i), v) : fkey) = show_str b ^ "/" ^ string_of_int (int_of_n i) ^ "/" ^ show_str v
let show_res = function
  | Ok (b, fl) -> "OK " ^ (if b then "1" else "0") ^ " [" ^ String.concat " " (List.map show_key fl) ^ "]"
  | Err XValue -> "EXC:ValueError"
  | Err XType -> "EXC:TypeError"
  | Err XAttr -> "EXC:AttributeError"
  | Err XKey -> "EXC:KeyError"
let show_ids l = String.concat "," (List.map (fun c -> string_of_int (int_of_n c)) l)


(* ---- export / import, freeze / thaw ---- *)
let hexval c = match c with
  | '0'..'9' -> Char.code c - 48 | 'a'..'f' -> Char.code c - 87 | 'A'..'F' -> Char.code c - 55
  | _ -> failwith "hex"
let bytes_of_hex (s : string) : n list =
  if s = "-" then [] else begin
    let l = ref [] in
    for i = String.length s / 2 - 1 downto 0 do
      l := n_of_int (hexval s.[2*i] * 16 + hexval s.[2*i+1]) :: !l
    done; !l end
let hex_of_bytes (l : n list) : string =
  if l = [] then "-" else String.concat "" (List.map (fun b -> Printf.sprintf "%02x" (int_of_n b)) l)
let n_of_hex (s : string) : n =
  let acc = ref N0 in
  String.iter (fun c -> acc := N.add (N.mul !acc (n_of_int 16)) (n_of_int (hexval c))) s; !acc
let rec lbits_of_pos (p : positive) : int list = match p with
  | XH -> [1] | XO q -> 0 :: lbits_of_pos q | XI q -> 1 :: lbits_of_pos q
let hex_of_n (x : n) : string =
  let bits = match x with N0 -> [] | Npos p -> lbits_of_pos p in
  let rec nyb l = match l with
    | [] -> []
    | a :: b :: c :: d :: r -> (a + 2*b + 4*c + 8*d) :: nyb r
    | a :: b :: c :: [] -> [a + 2*b + 4*c]
    | a :: b :: [] -> [a + 2*b]
    | a :: [] -> [a] in
  let s = String.concat "" (List.map (Printf.sprintf "%x") (List.rev (nyb bits))) in
  String.make (max 0 (16 - String.length s)) '0' ^ s
let z_of_dec (s : string) : z =
  let neg = String.length s > 0 && s.[0] = '-' in
  let acc = ref N0 in
  String.iter (fun c -> if c <> '-' && c <> '+' then acc := N.add (N.mul !acc (n_of_int 10)) (n_of_int (Char.code c - 48))) s;
  match !acc with N0 -> Z0 | Npos p -> if neg then Zneg p else Zpos p
let rec dec_of_n (x : n) : string = match x with
  | N0 -> ""
  | _ -> dec_of_n (N.div x (n_of_int 10)) ^ string_of_int (int_of_n (N.modulo x (n_of_int 10)))
let dec_of_z (x : z) : string = match x with
  | Z0 -> "0" | Zpos p -> dec_of_n (Npos p) | Zneg p -> "-" ^ dec_of_n (Npos p)

let bcls_ () = match next () with "p" -> BPlain | "j" -> BJank | "r" -> BRaw | "a" -> BArray | t -> failwith ("bcls " ^ t)
let scls_ () = match next () with "l" -> SList | "t" -> STuple | t -> failwith ("scls " ^ t)
let hex_ () = bytes_of_hex (next ())
let rec yv_ () : yv = match next () with
  | "N" -> YNone
  | "T" -> YBool true
  | "F" -> YBool false
  | "I" -> YInt (z_of_dec (next ()))
  | "R" -> YFloat (n_of_hex (next ()))
  | "S" -> YStr (hex_ ())
  | "B" -> let c = bcls_ () in YBytes (c, hex_ ())
  | "G" -> let c = (match next () with "h" -> UHippo | _ -> UStd) in YUuid (c, hex_ ())
  | "C" -> let k = (match next () with "2" -> CVec2 | "3" -> CVec3 | "4" -> CVec4 | _ -> CQuat) in
    let n = int_ () in YCoord (k, rep n (fun () -> n_of_hex (next ())))
  | "L" -> let c = scls_ () in let n = int_ () in YSeq (c, rep n yv_)
  | "M" -> let n = int_ () in YDict (rep n (fun () -> let k = hex_ () in let v = yv_ () in (k, v)))
  | "D" -> YDate (n_of_hex (next ()))
  | "U" -> YUri (hex_ ())
  | t -> failwith ("yv " ^ t)
let ydict_ () = match yv_ () with YDict m -> m | _ -> failwith "dict expected"
let msg_ () : msg =
  let name = hex_ () in
  let nl = int_ () in
  let blocks = rep nl (fun () ->
    let bn = hex_ () in let nb = int_ () in
    (bn, rep nb (fun () -> let nv = int_ () in rep nv (fun () -> let k = hex_ () in let v = yv_ () in (k, v))))) in
  let pid = (match next () with "-" -> None | d -> Some (z_of_dec d)) in
  let meta = ydict_ () in
  let dr = bool_ () in let sy = bool_ () in
  let di = (match next () with "I" -> DIn | _ -> DOut) in
  let fl = z_of_dec (next ()) in
  let ec = bcls_ () in let ex = hex_ () in
  let ac = scls_ () in let na = int_ () in let al = rep na yv_ in
  { m_name = name; m_blocks = blocks; m_packet_id = pid; m_meta = meta; m_dropped = dr; m_synthetic = sy;
    m_direction = di; m_flags = fl; m_extra_cls = ec; m_extra = ex; m_acks_cls = ac; m_acks = al }

let pr_bcls = function BPlain -> "p" | BJank -> "j" | BRaw -> "r" | BArray -> "a"
let pr_scls = function SList -> "l" | STuple -> "t"
let rec pr_yv (b : Buffer.t) (v : yv) : unit =
  let add s = Buffer.add_string b s; Buffer.add_char b ' ' in
  match v with
  | YNone -> add "N"
  | YBool true -> add "T"
  | YBool false -> add "F"
  | YInt z -> add "I"; add (dec_of_z z)
  | YFloat x -> add "R"; add (hex_of_n x)
  | YStr s -> add "S"; add (hex_of_bytes s)
  | YBytes (c, s) -> add "B"; add (pr_bcls c); add (hex_of_bytes s)
  | YUuid (c, u) -> add "G"; add (match c with UHippo -> "h" | UStd -> "s"); add (hex_of_bytes u)
  | YCoord (k, xs) -> add "C"; add (match k with CVec2 -> "2" | CVec3 -> "3" | CVec4 -> "4" | CQuat -> "q");
    add (string_of_int (List.length xs)); List.iter (fun x -> add (hex_of_n x)) xs
  | YSeq (c, l) -> add "L"; add (pr_scls c); add (string_of_int (List.length l)); List.iter (pr_yv b) l
  | YDict m -> add "M"; add (string_of_int (List.length m)); List.iter (fun (k, x) -> add (hex_of_bytes k); pr_yv b x) m
  | YDate x -> add "D"; add (hex_of_n x)
  | YUri s -> add "U"; add (hex_of_bytes s)
let pr_msg (b : Buffer.t) (m : msg) : unit =
  let add s = Buffer.add_string b s; Buffer.add_char b ' ' in
  add (hex_of_bytes m.m_name);
  add (string_of_int (List.length m.m_blocks));
  List.iter (fun (bn, bl) -> add (hex_of_bytes bn); add (string_of_int (List.length bl));
              List.iter (fun vars -> add (string_of_int (List.length vars));
                          List.iter (fun (k, v) -> add (hex_of_bytes k); pr_yv b v) vars) bl) m.m_blocks;
  add (match m.m_packet_id with None -> "-" | Some z -> dec_of_z z);
  pr_yv b (YDict m.m_meta);
  add (if m.m_dropped then "1" else "0"); add (if m.m_synthetic then "1" else "0");
  add (match m.m_direction with DIn -> "I" | DOut -> "O");
  add (dec_of_z m.m_flags);
  add (pr_bcls m.m_extra_cls); add (hex_of_bytes m.m_extra);
  add (pr_scls m.m_acks_cls); add (string_of_int (List.length m.m_acks)); List.iter (pr_yv b) m.m_acks
let with_buf f = let b = Buffer.create 256 in f b; String.trim (Buffer.contents b)
let yv_string v = with_buf (fun b -> pr_yv b v)
let msg_string m = with_buf (fun b -> pr_msg b m)
let optmsg_string = function Some m -> msg_string m | None -> "ERR"

(* the rest of the line: ; (hex16 hex)* ; (hex16 hex)* ; (hex hex hex kind)*  *)
let tables_ () =
  let rec split cur acc = function
    | [] -> List.rev (List.rev cur :: acc)
    | ";" :: r -> split [] (List.rev cur :: acc) r
    | w :: r -> split (w :: cur) acc r in
  let rec pairs = function k :: t :: r -> (String.lowercase_ascii k, bytes_of_hex t) :: pairs r | _ -> [] in
  let rec quads = function
    | a :: b :: c :: k :: r ->
      ((bytes_of_hex a, bytes_of_hex b, bytes_of_hex c),
       (match k with "2" -> KCoord CVec2 | "3" -> KCoord CVec3 | "4" -> KCoord CVec4 | "q" -> KCoord CQuat | _ -> KStringy)) :: quads r
    | _ -> [] in
  let parts = split [] [] !toks in
  toks := [];
  let nth_or i = if List.length parts > i then List.nth parts i else [] in
  let tt = quads (nth_or 3) in
  let tk = fun (mn : n list) (bn : n list) (vn : n list) -> (try Some (List.assoc (mn, bn, vn) tt) with Not_found -> None) in
  (pairs (nth_or 1), pairs (nth_or 2), tk)
let render tbl = fun (x : n) -> (try List.assoc (hex_of_n x) tbl with Not_found -> [n_of_int 63])
let unrender tbl = fun (t : n list) ->
  let rec find = function [] -> None | (k, v) :: r -> if v = t then Some (n_of_hex k) else find r in find tbl

let payload_ () = match next () with
  | "U" -> PUdp (msg_ ())
  | "E" -> PEq (yv_ ())
  | t -> failwith ("payload " ^ t)
let lentry_ () : lentry * n list =
  let rn = (match next () with "-" -> None | _ -> Some (hex_ ())) in
  let aid = (match next () with "-" -> None | _ -> Some (hex_ ())) in
  let sm = (match next () with "-" -> None | _ -> Some (hex_ ())) in
  let meta = ydict_ () in
  let p = payload_ () in
  let su = hex_ () in
  ({ le_region_name = rn; le_agent_id = aid; le_summary = sm; le_meta = meta; le_payload = p }, su)
let pr_lentry (b : Buffer.t) (e : lentry) : unit =
  let add s = Buffer.add_string b s; Buffer.add_char b ' ' in
  (match e.le_region_name with None -> add "-" | Some s -> add "S"; add (hex_of_bytes s));
  (match e.le_agent_id with None -> add "-" | Some s -> add "G"; add (hex_of_bytes s));
  (match e.le_summary with None -> add "-" | Some s -> add "S"; add (hex_of_bytes s));
  pr_yv b (YDict e.le_meta);
  (match e.le_payload with PUdp m -> add "U"; pr_msg b m | PEq v -> add "E"; pr_yv b v)
let optlentry_string = function Some e -> with_buf (fun b -> pr_lentry b e) | None -> "ERR"
let b01 b = if b then "1" else "0"

let lop_ () = match next () with
  | "L" -> let i = int_ () in let e = entry_ () in Log (n_of_int i, e)
  | "S" -> (match next () with "+" -> SetFilter (Some (fexp_ ())) | _ -> SetFilter None)
  | "P" -> SetPaused (bool_ ())
  | _ -> Clear

let () =
  try
    while true do
      let line = input_line stdin in
      toks := words line;
      (try
        match next () with
        | "F" ->
          let f = fexp_ () in let e = entry_ () in
          print_endline (show_res (eval true f e) ^ " # " ^ show_res (eval false f e))
        | "G" ->
          let ml = int_ () in let f0 = fexp_ () in let n = int_ () in
          let ops = rep n lop_ in
          let tr = ctrace (nat_of_int ml) (init f0) ops in
          print_endline (String.concat ";" (List.map (fun (r, v) -> show_ids r ^ "|" ^ show_ids v) tr))
        | "P" -> let t = text_ () in print_endline (show_parsed (parse no_enum t))
        | "K" -> let t = text_ () in print_endline (show_parsed (compile no_enum t))
        | "Q" ->
          let f = fexp_ () in
          let t = print f in
          print_endline (String.concat " " ((if wf_syntax f then "1" else "0") :: string_of_int (List.length t)
                                            :: List.map (fun c -> string_of_int (int_of_ascii c)) t))
        | "XM" ->
          let m = msg_ () in
          let (rt, dt, tk) = tables_ () in
          let rreal = render rt and rdate = render dt and preal = unrender rt and pdate = unrender dt in
          let d = to_dict true m in
          let nb = notation rreal rdate d in
          let back = (match of_notation preal pdate nb with Some v -> from_dict v | None -> None) in
          let rest = (match back with Some x -> restore_msg tk x | None -> None) in
          print_endline (String.concat " | "
            [ b01 (wf_msg m) ^ b01 (plain_msg m) ^ b01 (wfn (msg_tree m)); yv_string d; hex_of_bytes nb;
              optmsg_string (from_dict d); optmsg_string back; yv_string (to_dict false m); msg_string (norm_msg m);
              optmsg_string rest; b01 (deser_classes tk m) ])
        | "XD" -> let v = yv_ () in print_endline (optmsg_string (from_dict v))
        | "XV" ->
          let v = yv_ () in
          let (rt, dt, _) = tables_ () in
          print_endline (String.concat " | " [ hex_of_bytes (notation (render rt) (render dt) v); yv_string (norm v); b01 (plain v) ])
        | "XE" ->
          let n = int_ () in
          let es = rep n lentry_ in
          let (rt, dt, tk) = tables_ () in
          let rreal = render rt and rdate = render dt and preal = unrender rt and pdate = unrender dt in
          let summ = fun (p : payload) -> (try List.assoc p (List.map (fun (e, su) -> (e.le_payload, su)) es) with Not_found -> []) in
          let one (e, _) =
            let d = entry_to_dict rreal rdate summ e in
            String.concat " | "
              [ b01 (entry_ok rreal rdate preal pdate tk e) ^ b01 (std_meta e.le_payload e.le_meta);
                (match d with Some v -> yv_string v | None -> "ERR");
                optlentry_string (match d with Some v -> entry_from_dict preal pdate tk v | None -> None);
                optlentry_string (norm_entry summ tk e) ] in
          print_endline (String.concat " || " (List.map one es))
        | "XF" ->
          let rp = bool_ () in
          let nv = int_ () in
          let versions = Array.of_list (rep nv msg_) in
          let index_of (m : msg) = let r = ref (-1) in Array.iteri (fun i x -> if !r < 0 && x = m then r := i) versions; !r in
          let pk = (function None -> [n_of_int 78] | Some m -> [n_of_int 1; n_of_int (index_of m)]) in
          let unpk = (function
            | [a] when int_of_n a = 78 -> Some None
            | [a; i] when int_of_n a = 1 -> Some (Some versions.(int_of_n i))
            | _ -> None) in
          let cur = ref 0 in
          let heap = fun (_ : nat) -> versions.(!cur) in
          let u = ref (u_init heap O) in
          let dead = ref false in
          let nops = int_ () in
          let outs = rep nops (fun () -> match next () with
            | "m" -> cur := int_ (); "-"
            | "f" -> (match u_freeze rp pk unpk heap !u with Some u' -> u := u'; "ok" | None -> "EXC")
            | "o" ->
              let s = hex_of_bytes (u_get_name heap !u) ^ " " ^ hex_of_bytes (u_get_method heap !u) ^ " " ^
                      (match u_get_seq heap !u with None -> "-" | Some z -> dec_of_z z) in
              u := u_touch heap !u; s
            | "w" -> (match u_msg unpk heap !u with Some m -> string_of_int (index_of m) | None -> "EXC")
            | t -> failwith ("op " ^ t)) in
          ignore !dead;
          print_endline (String.concat ";" outs)
        | t -> print_endline ("?" ^ t)
      with Failure m -> print_endline ("PARSE-ERROR " ^ m))
    done
  with End_of_file -> ()
