(* one case per line (see harness/props/c07.py for the grammar):
     sn/sw/rn/rw#msg#msg..      msg = kind,ncmd,rel,acks;sid:pred:beh,..;module|module..
     module = hookset+hookset..(last = the module object)   hookset = pkt.lludp.rlv
   prefix "N " : run the calmed configuration (every raise replaced by a falsy return)
   prefix "U " : print cfg_unclaimed per message
   prefix "O " : ownership op sequence on a fresh wire message:  O rel acks OPS
   output: per message the trace, " ; " separated, then " ;; " and the remaining subscriptions *)
let split c s = if s = "" then [] else String.split_on_char c s
let split2 s = String.split_on_char '#' s

let op_of_char c = match Char.uppercase_ascii c with
  | 'T' -> Take | 'D' -> Drop | 'S' -> SendOrig | 'C' -> SendCopy | 'M' -> Mutate | 'F' -> TakeFail
  | _ -> failwith "op"
let char_of_op = function Take -> "T" | Drop -> "D" | SendOrig -> "S" | SendCopy -> "C" | Mutate -> "M" | TakeFail -> "F"

let parse_beh (s : string) : beh =
  let n = String.length s in
  let rec go i =
    if i = n - 1 then (match s.[i] with '0' -> Ret false | '1' -> Ret true | 'x' -> Raise | _ -> failwith "beh end")
    else
      let c = s.[i] in
      Act (Char.lowercase_ascii c = c, op_of_char c, go (i + 1)) in
  if n = 0 then failwith "empty beh" else go 0
let parse_pbeh c = match c with '0' -> PRet false | '1' -> PRet true | 'x' -> PRaise | _ -> failwith "pbeh"
let parse_hookset (s : string) : hookset =
  match String.split_on_char '.' s with
  | [p; l; r] ->
    { h_pkt = (if p = "-" then None else Some (parse_pbeh p.[0]));
      h_lludp = (if l = "-" then None else Some (parse_beh l));
      h_rlv = (if r = "-" then None else Some (List.map parse_pbeh (List.of_seq (String.to_seq r)))) }
  | _ -> failwith ("hookset " ^ s)
let parse_module (s : string) : modcfg =
  let hs = List.map parse_hookset (split '+' s) in
  match List.rev hs with
  | self :: rsubs -> { m_subs = List.rev rsubs; m_self = self }
  | [] -> failwith "module"
let parse_pred = function "t" -> PTrue | "f" -> PFalse | "x" -> PRaises | _ -> failwith "pred"
let parse_sub (s : string) =
  match String.split_on_char ':' s with
  | [sid; p; b] -> (nat_of_int (int_of_string sid), (parse_pred p, parse_beh b))
  | _ -> failwith ("sub " ^ s)
let parse_msg (s : string) : msgcfg =
  match String.split_on_char ';' s with
  | [head; subs; mods] ->
    (match String.split_on_char ',' head with
     | [k; ncmd; rel; acks] ->
       let kind = (match k with "P" -> KPlain | "C" -> KCommand | "R" -> KRlv (nat_of_int (int_of_string ncmd)) | _ -> failwith "kind") in
       { mkind = kind; mrel = (rel = "1"); macks = (acks = "1");
         msubs = List.map parse_sub (split ',' subs);
         mmods = List.map parse_module (split '|' mods) }
     | _ -> failwith "head")
  | _ -> failwith ("msg " ^ s)
let parse_subscr (s : string) =
  let n = String.length s in
  if n > 0 && s.[n-1] = 'o' then (nat_of_int (int_of_string (String.sub s 0 (n-1))), true)
  else (nat_of_int (int_of_string s), false)
let parse_world (s : string) : world =
  match String.split_on_char '/' s with
  | [a; b; c; d] ->
    let f x = List.map parse_subscr (split ',' x) in
    { sn = f a; sw = f b; rn = f c; rw = f d }
  | _ -> failwith "world"

let b01 b = if b then "1" else "0"
let show_si = function None -> "s" | Some n -> string_of_int (int_of_nat n)
let show_ev = function
  | EHook (PtPkt, mi, si) -> Printf.sprintf "Hp%d.%s" (int_of_nat mi) (show_si si)
  | EHook (PtLludp, mi, si) -> Printf.sprintf "Hl%d.%s" (int_of_nat mi) (show_si si)
  | EHook (PtRlv c, mi, si) -> Printf.sprintf "Hr%d:%d.%s" (int_of_nat c) (int_of_nat mi) (show_si si)
  | ESub (h, sid) -> Printf.sprintf "U%s%d" (match h with HSessNamed -> "a" | HSessWild -> "b" | HRegNamed -> "c" | HRegWild -> "d") (int_of_nat sid)
  | EOrig n -> Printf.sprintf "O%d" (int_of_nat n)
  | ECopy -> "C" | EAck -> "A" | ECmd -> "Q"
  | EOp (o, ok) -> "o" ^ char_of_op o ^ b01 ok
  | EExcHook -> "Xh" | EExcSub -> "Xs"
  | EExcHandler s -> if s then "Xms" else "Xmr"
  | EExcRlv -> "Xr" | EEscape -> "E"
  | ELog (f, d, q, n) -> Printf.sprintf "L%s%s%s:%d" (b01 f) (b01 d) (b01 q) (int_of_nat n)
let show_subs l = String.concat "," (List.map (fun (sid, os) -> string_of_int (int_of_nat sid) ^ (if os then "o" else "")) l)
let show_world w = String.concat "/" [show_subs w.sn; show_subs w.sw; show_subs w.rn; show_subs w.rw]

let run_case calmed line =
  match split2 line with
  | ws :: msgs ->
    let w = parse_world ws in
    let cs = List.map parse_msg msgs in
    let cs = if calmed then List.map calm_cfg cs else cs in
    let (w', res) = run_history w cs in
    String.concat " ; " (List.map (fun (es, _) -> String.concat " " (List.map show_ev es)) res)
    ^ " ;; " ^ show_world w'
  | [] -> "?"

let () =
  try
    while true do
      let line = input_line stdin in
      let out =
        try
          if String.length line > 2 && String.sub line 0 2 = "N " then run_case true (String.sub line 2 (String.length line - 2))
          else if String.length line > 2 && String.sub line 0 2 = "U " then
            (match split2 (String.sub line 2 (String.length line - 2)) with
             | _ :: msgs -> String.concat " " (List.map (fun s -> b01 (cfg_unclaimed (parse_msg s))) msgs)
             | [] -> "?")
          else if String.length line > 2 && String.sub line 0 2 = "O " then
            (match words (String.sub line 2 (String.length line - 2)) with
             | rel :: acks :: rest ->
               let ops = (match rest with [] -> [] | s :: _ -> List.map op_of_char (List.of_seq (String.to_seq s))) in
               let ((m, ws), oks) = apply_ops ops (wire_msg (rel = "1") (acks = "1")) in
               String.concat "" (List.map b01 oks) ^ " "
               ^ String.concat "" (List.map (function WMsg _ -> "O" | WAck -> "A") ws) ^ " "
               ^ b01 m.finalized ^ b01 m.dropped ^ b01 m.queued
             | _ -> "?")
          else run_case false line
        with Failure m -> "PARSE-ERROR " ^ m | Invalid_argument m -> "PARSE-ERROR " ^ m in
      print_endline out
    done
  with End_of_file -> ()
