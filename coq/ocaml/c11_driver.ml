(* one case per line:
     P <safe 0/1> cp cp ...      parse the text (code points) with symbolic oracles
     T <ints...>                 format a message (see harness/props/c11.py:enc_msg)
     C lo hi                     character classes of code points lo..hi-1 (s = space, w = word, - = neither)
     L cp cp ...                 prep: stripped non-blank lines *)
type sym =
  | Lit of int list | Vec of int list list | Uuid of int list | Repl of int list
  | Eval of int list | NoneV | Pack of int list * int list * int list * string * sym

let ints_of_str (s : n list) : int list = List.map int_of_n s
let str_of_ints (l : int list) : n list = List.map n_of_int l
let show_s (s : int list) = String.concat "." (List.map string_of_int s)
let rec show_sym = function
  | Lit s -> "L:" ^ show_s s
  | Vec ps -> "V:" ^ String.concat "/" (List.map show_s ps)
  | Uuid s -> "U:" ^ show_s s
  | Repl s -> "R:" ^ show_s s
  | Eval s -> "E:" ^ show_s s
  | NoneV -> "N"
  | Pack (m, b, k, ks, x) -> "P:" ^ show_s m ^ ":" ^ show_s b ^ ":" ^ show_s k ^ "{" ^ ks ^ "}(" ^ show_sym x ^ ")"

(* a deliberately small float grammar; the harness checks that it agrees with
   Python's float() on every component that occurs *)
let simple_float (s : int list) : bool =
  let is_sp c = c = 32 || (c >= 9 && c <= 13) in
  let rec ltrim = function c :: r when is_sp c -> ltrim r | l -> l in
  let s = List.rev (ltrim (List.rev (ltrim s))) in
  let dig c = c >= 48 && c <= 57 in
  let rec digits n = function c :: r when dig c -> digits (n + 1) r | l -> (n, l) in
  let s = match s with (43 | 45) :: r -> r | l -> l in
  let (n1, s) = digits 0 s in
  let (n2, s) = match s with 46 :: r -> digits 0 r | l -> (0, l) in
  if n1 + n2 = 0 then false else
  match s with
  | [] -> true
  | (101 | 69) :: r ->
    let r = match r with (43 | 45) :: q -> q | l -> l in
    let (n3, r) = digits 0 r in n3 > 0 && r = []
  | _ -> false

let known_repl = [ [65;71;69;78;84;95;73;68]; [83;69;83;83;73;79;78;95;73;68];
                   [67;73;82;67;85;73;84;95;67;79;68;69]; [88] ]

let read_lit s = Some (Lit (ints_of_str s))
let read_vec ps =
  let ps = List.map ints_of_str ps in
  if List.for_all simple_float ps then Some (Vec ps) else None
let read_uuid s = Some (Uuid (ints_of_str s))
let repl s = let s = ints_of_str s in if List.mem s known_repl then Some (Repl s) else None
let eval_fn s _ = Some (Eval (ints_of_str s))
(* the serializer table has no entry for variables starting with Q; the packer of
   variables starting with Z raises; a packed value records the keys of the block
   it was packed in (with ! for a None placeholder) *)
let has_ser _ _ k = (match ints_of_str k with 81 :: _ -> false | _ -> true)
let pack m b k vars x =
  match ints_of_str k with
  | 90 :: _ -> None
  | k' ->
    let ks = String.concat "," (List.map (fun (kk, v) ->
      show_s (ints_of_str kk) ^ (match v with NoneV -> "!" | _ -> "")) vars) in
    Some (Pack (ints_of_str m, ints_of_str b, k', ks, x))

let show_trace t = String.concat "," (List.map (fun s -> show_s (ints_of_str s)) t)

let show_blocks bs =
  String.concat " " (List.concat_map (fun (n, l) ->
    List.map (fun b ->
      show_s (ints_of_str n) ^ "[" ^
      String.concat ";" (List.map (fun (k, v) -> show_s (ints_of_str k) ^ "=" ^ show_sym v) b) ^ "]") l) bs)

(* sequential reader over an int array *)
let fmt (a : int array) : string =
  let pos = ref 0 in
  let next () = let v = a.(!pos) in incr pos; v in
  let rstr () = let n = next () in let l = List.init n (fun _ -> 0) in List.map (fun _ -> n_of_int (next ())) l in
  let rlist f = let n = next () in let l = List.init n (fun _ -> 0) in List.map (fun _ -> f ()) l in
  let m_in = next () = 1 in
  let name = rstr () in
  let flags = n_of_int (next ()) in
  let comments = rlist rstr in
  let suffixes = ref [] in
  let entries = rlist (fun () ->
    let bn = rstr () in
    let sfx = rstr () in
    suffixes := (bn, sfx) :: !suffixes;
    let bl = rlist (fun () ->
      rlist (fun () ->
        let k = rstr () in
        let kind = next () in
        let lines = rlist rstr in
        let orig = rstr () in
        let p = match kind with
          | 0 -> PPlain lines
          | 1 -> PInline (lines, orig)
          | _ -> PAbove (lines, orig) in
        (k, p))) in
    (bn, bl)) in
  let m = { m_in = m_in; m_name = name; m_flags = flags; m_blocks = entries } in
  let present _ _ _ _ v = v in
  let suffix bn = try List.assoc bn !suffixes with Not_found -> [] in
  let txt = to_human present suffix (fun _ -> comments) m in
  show_s (ints_of_str txt)

let () =
  try
    while true do
      let line = input_line stdin in
      match words line with
      | [] -> print_endline ""
      | "P" :: safe :: ws ->
        let txt = str_of_ints (ints_of_words ws) in
        (match from_human read_lit read_vec read_uuid repl eval_fn NoneV has_ser pack (safe = "1") txt with
         | OErr t -> print_endline ("ERR|" ^ show_trace t)
         | ONoMsg -> print_endline "NOMSG"
         | OMsg (m, t) ->
           print_endline ("MSG|" ^ (if m.m_in then "IN" else "OUT") ^ "|" ^ show_s (ints_of_str m.m_name) ^ "|"
                          ^ string_of_int (int_of_n m.m_flags) ^ "|" ^ show_blocks m.m_blocks ^ "|" ^ show_trace t))
      | "T" :: ws -> print_endline (try fmt (Array.of_list (ints_of_words ws)) with _ -> "BADCASE")
      | "C" :: lo :: hi :: _ ->
        let lo = int_of_string lo and hi = int_of_string hi in
        print_endline (String.init (hi - lo) (fun i ->
          let c = n_of_int (lo + i) in
          if is_space c then 's' else if is_word c then 'w' else '-'))
      | "L" :: ws ->
        print_endline (String.concat "|" (List.map (fun s -> show_s (ints_of_str s)) (prep (str_of_ints (ints_of_words ws)))))
      | _ -> print_endline "?"
    done
  with End_of_file -> ()
