(* one case per line:
     P <safe 0/1> cp cp ...      parse the text (code points) with symbolic oracles
     T <ints...>                 format a message (see harness/props/c11.py:enc_msg)
     C lo hi                     character classes of code points lo..hi-1 (s = space, w = word, - = neither)
     L cp cp ...                 prep: stripped non-blank lines
   concrete literal model (Text/PyLiteral.v):
     I lo hi lo hi ...           set the printable oracle (str.isprintable) to the union of [lo,hi)
     R <ser 0/1> s|b cp ...      physical lines of the rendered str / bytes value
     R <ser 0/1> i <neg 0/1> bit bit ...   ... of an int (magnitude in binary, most significant bit first)
     E cp cp ...                 read_lit (ast.literal_eval) of the text
     M <ints...>                 format a message with concrete values (see harness/props/c11.py:enc_cmsg)
     Q <safe 0/1> cp cp ...      parse the text with the concrete literal reader *)
type sym =
  | Lit of int list | Vec of int list list | Uuid of int list | Repl of int list
  | Eval of int list | NoneV | Pack of int list * int list * int list * string * sym

let ints_of_str (s : n list) : int list = List.map int_of_n s
let str_of_ints (l : int list) : n list = List.map n_of_int l
let show_s (s : int list) = String.concat "." (List.map string_of_int s)
let rec show_sym = function
  | Lit s -> "L:" ^ show_s s
  | Vec ps -> "V:" ^ String.concat "/" (List.map show_s ps)
  | Uuid s -> "U:" ^ show_s s
  | Repl s -> "R:" ^ show_s s
  | Eval s -> "E:" ^ show_s s
  | NoneV -> "N"
  | Pack (m, b, k, ks, x) -> "P:" ^ show_s m ^ ":" ^ show_s b ^ ":" ^ show_s k ^ "{" ^ ks ^ "}(" ^ show_sym x ^ ")"

(* a deliberately small float grammar; the harness checks that it agrees with
   Python's float() on every component that occurs *)
let simple_float (s : int list) : bool =
  let is_sp c = c = 32 || (c >= 9 && c <= 13) in
  let rec ltrim = function c :: r when is_sp c -> ltrim r | l -> l in
  let s = List.rev (ltrim (List.rev (ltrim s))) in
  let dig c = c >= 48 && c <= 57 in
  let rec digits n = function c :: r when dig c -> digits (n + 1) r | l -> (n, l) in
  let s = match s with (43 | 45) :: r -> r | l -> l in
  let (n1, s) = digits 0 s in
  let (n2, s) = match s with 46 :: r -> digits 0 r | l -> (0, l) in
  if n1 + n2 = 0 then false else
  match s with
  | [] -> true
  | (101 | 69) :: r ->
    let r = match r with (43 | 45) :: q -> q | l -> l in
    let (n3, r) = digits 0 r in n3 > 0 && r = []
  | _ -> false

let known_repl = [ [65;71;69;78;84;95;73;68]; [83;69;83;83;73;79;78;95;73;68];
                   [67;73;82;67;85;73;84;95;67;79;68;69]; [88] ]

let read_lit s = Some (Lit (ints_of_str s))
let read_vec ps =
  let ps = List.map ints_of_str ps in
  if List.for_all simple_float ps then Some (Vec ps) else None
let read_uuid s = Some (Uuid (ints_of_str s))
let repl s = let s = ints_of_str s in if List.mem s known_repl then Some (Repl s) else None
let eval_fn s _ = Some (Eval (ints_of_str s))
(* the serializer table has no entry for variables starting with Q; the packer of
   variables starting with Z raises; a packed value records the keys of the block
   it was packed in (with ! for a None placeholder) *)
let has_ser _ _ k = (match ints_of_str k with 81 :: _ -> false | _ -> true)
let pack m b k vars x =
  match ints_of_str k with
  | 90 :: _ -> None
  | k' ->
    let ks = String.concat "," (List.map (fun (kk, v) ->
      show_s (ints_of_str kk) ^ (match v with NoneV -> "!" | _ -> "")) vars) in
    Some (Pack (ints_of_str m, ints_of_str b, k', ks, x))

let show_trace t = String.concat "," (List.map (fun s -> show_s (ints_of_str s)) t)

let show_blocks bs =
  String.concat " " (List.concat_map (fun (n, l) ->
    List.map (fun b ->
      show_s (ints_of_str n) ^ "[" ^
      String.concat ";" (List.map (fun (k, v) -> show_s (ints_of_str k) ^ "=" ^ show_sym v) b) ^ "]") l) bs)

(* sequential reader over an int array *)
let fmt (a : int array) : string =
  let pos = ref 0 in
  let next () = let v = a.(!pos) in incr pos; v in
  let rstr () = let n = next () in let l = List.init n (fun _ -> 0) in List.map (fun _ -> n_of_int (next ())) l in
  let rlist f = let n = next () in let l = List.init n (fun _ -> 0) in List.map (fun _ -> f ()) l in
  let m_in = next () = 1 in
  let name = rstr () in
  let flags = n_of_int (next ()) in
  let comments = rlist rstr in
  let suffixes = ref [] in
  let entries = rlist (fun () ->
    let bn = rstr () in
    let sfx = rstr () in
    suffixes := (bn, sfx) :: !suffixes;
    let bl = rlist (fun () ->
      rlist (fun () ->
        let k = rstr () in
        let kind = next () in
        let lines = rlist rstr in
        let orig = rstr () in
        let p = match kind with
          | 0 -> PPlain lines
          | 1 -> PInline (lines, orig)
          | _ -> PAbove (lines, orig) in
        (k, p))) in
    (bn, bl)) in
  let m = { m_in = m_in; m_name = name; m_flags = flags; m_blocks = entries } in
  let present _ _ _ _ v = v in
  let suffix bn = try List.assoc bn !suffixes with Not_found -> [] in
  let txt = to_human present suffix (fun _ -> comments) m in
  show_s (ints_of_str txt)

(* ---- concrete literal model ---- *)
let ptab = Bytes.make (0x110000 / 8) '\000'
let set_printable (l : int list) =
  Bytes.fill ptab 0 (Bytes.length ptab) '\000';
  let rec go = function
    | lo :: hi :: r ->
      for c = lo to hi - 1 do
        Bytes.set ptab (c lsr 3) (Char.chr (Char.code (Bytes.get ptab (c lsr 3)) lor (1 lsl (c land 7))))
      done; go r
    | _ -> () in
  go l
let printable (c : n) : bool =
  let c = int_of_n c in
  c < 0x110000 && (Char.code (Bytes.get ptab (c lsr 3)) lsr (c land 7)) land 1 = 1

let pos_of_bits (bits : int list) : positive option =
  let rec drop = function 0 :: r -> drop r | l -> l in
  match drop bits with
  | [] -> None
  | _ :: r -> Some (List.fold_left (fun p b -> if b = 1 then XI p else XO p) XH r)
let z_of_bits (neg : bool) (bits : int list) : z =
  match pos_of_bits bits with None -> Z0 | Some p -> if neg then Zneg p else Zpos p
let rec bits_of_pos (p : positive) (acc : string) : string =
  match p with XH -> "1" ^ acc | XO q -> bits_of_pos q ("0" ^ acc) | XI q -> bits_of_pos q ("1" ^ acc)
let show_z = function Z0 -> "0" | Zpos p -> bits_of_pos p "" | Zneg p -> "-" ^ bits_of_pos p ""

let show_pval = function
  | VStr s -> "S:" ^ show_s (ints_of_str s)
  | VBytes b -> "B:" ^ show_s (ints_of_str b)
  | VInt z -> "I:" ^ show_z z
  | VNone -> "N"
  | VOpaque (t, d) -> "O:" ^ string_of_int (int_of_n t) ^ ":" ^ String.concat "/" (List.map (fun x -> show_s (ints_of_str x)) d)

(* the oracles that stay symbolic in the concrete parser: 1 vector, 2 uuid, 3 replacement, 4 eval, 5 packed *)
let c_read_vec ps =
  if List.for_all (fun p -> simple_float (ints_of_str p)) ps then Some (VOpaque (n_of_int 1, ps)) else None
let c_read_uuid s = Some (VOpaque (n_of_int 2, [s]))
let c_repl s = if List.mem (ints_of_str s) known_repl then Some (VOpaque (n_of_int 3, [s])) else None
let c_eval s _ = Some (VOpaque (n_of_int 4, [s]))
let c_pack _ _ k _ x =
  match ints_of_str k with
  | 90 :: _ -> None
  | _ -> Some (VOpaque (n_of_int 5, [str_of_ints (List.map Char.code (List.of_seq (String.to_seq (show_pval x))))]))

let show_cblocks bs =
  String.concat " " (List.concat_map (fun (n, l) ->
    List.map (fun b ->
      show_s (ints_of_str n) ^ "[" ^
      String.concat ";" (List.map (fun (k, v) -> show_s (ints_of_str k) ^ "=" ^ show_pval v) b) ^ "]") l) bs)

let cfmt (a : int array) : string =
  let pos = ref 0 in
  let next () = let v = a.(!pos) in incr pos; v in
  let rints () = let n = next () in let l = List.init n (fun _ -> 0) in List.map (fun _ -> next ()) l in
  let rstr () = str_of_ints (rints ()) in
  let rlist f = let n = next () in let l = List.init n (fun _ -> 0) in List.map (fun _ -> f ()) l in
  let m_in = next () = 1 in
  let name = rstr () in
  let flags = n_of_int (next ()) in
  let comments = rlist rstr in
  let suffixes = ref [] in
  let sers = ref [] in
  let entries = rlist (fun () ->
    let bn = rstr () in
    let sfx = rstr () in
    suffixes := (bn, sfx) :: !suffixes;
    let bl = rlist (fun () ->
      rlist (fun () ->
        let k = rstr () in
        let ser = next () = 1 in
        if ser then sers := (bn, k) :: !sers;
        let kind = next () in
        let v = match kind with
          | 0 -> VStr (rstr ())
          | 1 -> VBytes (rstr ())
          | _ -> let neg = next () = 1 in VInt (z_of_bits neg (rints ())) in
        (k, v))) in
    (bn, bl)) in
  let m = { m_in = m_in; m_name = name; m_flags = flags; m_blocks = entries } in
  let hs _ bn k = List.mem (bn, k) !sers in
  let suffix bn = try List.assoc bn !suffixes with Not_found -> [] in
  let txt = to_human (c_present printable hs) suffix (fun _ -> comments) m in
  show_s (ints_of_str txt)

let () =
  try
    while true do
      let line = input_line stdin in
      match words line with
      | [] -> print_endline ""
      | "P" :: safe :: ws ->
        let txt = str_of_ints (ints_of_words ws) in
        (match from_human read_lit read_vec read_uuid repl eval_fn NoneV has_ser pack (safe = "1") txt with
         | OErr t -> print_endline ("ERR|" ^ show_trace t)
         | ONoMsg -> print_endline "NOMSG"
         | OMsg (m, t) ->
           print_endline ("MSG|" ^ (if m.m_in then "IN" else "OUT") ^ "|" ^ show_s (ints_of_str m.m_name) ^ "|"
                          ^ string_of_int (int_of_n m.m_flags) ^ "|" ^ show_blocks m.m_blocks ^ "|" ^ show_trace t))
      | "T" :: ws -> print_endline (try fmt (Array.of_list (ints_of_words ws)) with _ -> "BADCASE")
      | "C" :: lo :: hi :: _ ->
        let lo = int_of_string lo and hi = int_of_string hi in
        print_endline (String.init (hi - lo) (fun i ->
          let c = n_of_int (lo + i) in
          if is_space c then 's' else if is_word c then 'w' else '-'))
      | "I" :: ws -> set_printable (ints_of_words ws); print_endline "OK"
      | "R" :: ser :: kind :: ws ->
        print_endline (try
          let v = (match kind with
            | "s" -> VStr (str_of_ints (ints_of_words ws))
            | "b" -> VBytes (str_of_ints (ints_of_words ws))
            | _ -> (match ints_of_words ws with neg :: bits -> VInt (z_of_bits (neg = 1) bits) | [] -> VInt Z0)) in
          String.concat "|" (List.map (fun l -> show_s (ints_of_str l)) (render_val printable (ser = "1") v))
        with _ -> "BADCASE")
      | "E" :: ws ->
        print_endline (match C11_model.read_lit (str_of_ints (ints_of_words ws)) with None -> "NONE" | Some v -> show_pval v)
      | "M" :: ws -> print_endline (try cfmt (Array.of_list (ints_of_words ws)) with _ -> "BADCASE")
      | "Q" :: safe :: ws ->
        let txt = str_of_ints (ints_of_words ws) in
        (match from_human C11_model.read_lit c_read_vec c_read_uuid c_repl c_eval VNone has_ser c_pack (safe = "1") txt with
         | OErr t -> print_endline ("ERR|" ^ show_trace t)
         | ONoMsg -> print_endline "NOMSG"
         | OMsg (m, t) ->
           print_endline ("MSG|" ^ (if m.m_in then "IN" else "OUT") ^ "|" ^ show_s (ints_of_str m.m_name) ^ "|"
                          ^ string_of_int (int_of_n m.m_flags) ^ "|" ^ show_cblocks m.m_blocks ^ "|" ^ show_trace t))
      | "L" :: ws ->
        print_endline (String.concat "|" (List.map (fun s -> show_s (ints_of_str s)) (prep (str_of_ints (ints_of_words ws)))))
      | _ -> print_endline "?"
    done
  with End_of_file -> ()
