(* C12 driver.  One case per line, tokens separated by blanks.
   Tree syntax (prefix):  U | T | F | I <int> | R <hex16> | S <hex> | G <hex> | D <hex16> | L <hex> | B <hex>
                          | A <n> <tree>*n | M <n> (<keyhex> <tree>)*n       (empty byte string = "-")
   Commands:
     fb <ut> <0|1> <tree>       format_binary(with_header)       -> hex | ERR (formatter raises)
     pb <hex>                   llsd.parse_binary                -> OK <tree> | ERR
     pr <hex>                   parser.parse + unread count      -> OK <restlen> <tree> | ERR
     ns <hex>                   notation STRING                  -> hex
     ps <hex>                   notation _parse_string           -> OK <hex> <restlen> | ERR
     fn <tree> ; (<bits16> <texthex>)* ; (<bits16> <texthex>)*   notation of a tree, repr(float)/datestr tables -> hex
     u8 <hex>                   strict UTF-8?                    -> 0 | 1
     wf <tree>                  wf, bin_ok, keys_uris_nl_free    -> three 0/1 digits
     pn <hex> ; (<texthex> <bits16>)* ; (<texthex> <bits16>)*   LLSDNotationParser.parse with float()/_parse_datestr tables
                                                                 -> OK <restlen> <tree> | ERR (parse error or outside the model)
     sr <hex>                   bytes _real_regex matches        -> OK <hex> <restlen> | ERR
     mp <TYPE> <mval>           LLSDMessageSerializer.serialize, one variable  -> <conforms> OK <tree> | <conforms> ERR
     mu <TYPE> <tree>           ... deserialize, one variable                   -> OK <mval> | ERR
   mval syntax:  VI <int> | VR <hex16> | VV <n> <hex16>*n | VQ <x> <y> <z> | VG <hex> | VA <hex> | VB <hex> | VS <hex> | VT | VF *)

let hexval c = match c with
  | '0'..'9' -> Char.code c - 48 | 'a'..'f' -> Char.code c - 87 | 'A'..'F' -> Char.code c - 55
  | _ -> failwith "hex"

let bytes_of_hex (s:string) : n list =
  if s = "-" then [] else begin
    let l = ref [] in
    let k = String.length s / 2 in
    for i = k - 1 downto 0 do
      l := n_of_int (hexval s.[2*i] * 16 + hexval s.[2*i+1]) :: !l
    done; !l end

let hex_of_bytes (l:n list) : string =
  if l = [] then "-" else String.concat "" (List.map (fun b -> Printf.sprintf "%02x" (int_of_n b)) l)

(* arbitrary-size N <-> hex (64-bit payloads do not fit an OCaml int) *)
let n_of_hex (s:string) : n =
  let acc = ref N0 in
  String.iter (fun c -> acc := N.add (N.mul !acc (n_of_int 16)) (n_of_int (hexval c))) s; !acc

let rec bits_of_pos (p:positive) : int list = match p with
  | XH -> [1] | XO q -> 0 :: bits_of_pos q | XI q -> 1 :: bits_of_pos q
let hex_of_n (x:n) : string =
  let bits = match x with N0 -> [] | Npos p -> bits_of_pos p in
  let rec nyb l = match l with
    | [] -> []
    | a :: b :: c :: d :: r -> (a + 2*b + 4*c + 8*d) :: nyb r
    | a :: b :: c :: [] -> [a + 2*b + 4*c]
    | a :: b :: [] -> [a + 2*b]
    | a :: [] -> [a] in
  let ds = List.rev (nyb bits) in
  let s = String.concat "" (List.map (Printf.sprintf "%x") ds) in
  let pad = max 0 (16 - String.length s) in
  String.make pad '0' ^ s

(* decimal <-> Z of any size (notation integers are unbounded) *)
let z_of_dec (s:string) : z =
  let neg = String.length s > 0 && s.[0] = '-' in
  let acc = ref N0 in
  String.iter (fun c -> if c <> '-' && c <> '+' then acc := N.add (N.mul !acc (n_of_int 10)) (n_of_int (Char.code c - 48))) s;
  match !acc with N0 -> Z0 | Npos p -> if neg then Zneg p else Zpos p
let rec dec_of_n (x:n) : string = match x with
  | N0 -> ""
  | _ -> dec_of_n (N.div x (n_of_int 10)) ^ string_of_int (int_of_n (N.modulo x (n_of_int 10)))
let dec_of_z (x:z) : string = match x with
  | Z0 -> "0" | Zpos p -> dec_of_n (Npos p) | Zneg p -> "-" ^ dec_of_n (Npos p)

let rec rd_tree (ws:string list) : llsd * string list =
  match ws with
  | "U" :: r -> (Undef, r)
  | "T" :: r -> (Bool true, r)
  | "F" :: r -> (Bool false, r)
  | "I" :: i :: r -> (Int (z_of_dec i), r)
  | "R" :: h :: r -> (Real (n_of_hex h), r)
  | "S" :: h :: r -> (Str (bytes_of_hex h), r)
  | "G" :: h :: r -> (Uuid (bytes_of_hex h), r)
  | "D" :: h :: r -> (Date (n_of_hex h), r)
  | "L" :: h :: r -> (Uri (bytes_of_hex h), r)
  | "B" :: h :: r -> (Bin (bytes_of_hex h), r)
  | "A" :: k :: r ->
    let rec go k r acc = if k = 0 then (List.rev acc, r) else
        let (v, r') = rd_tree r in go (k-1) r' (v :: acc) in
    let (l, r') = go (int_of_string k) r [] in (Arr l, r')
  | "M" :: k :: r ->
    let rec go k r acc = if k = 0 then (List.rev acc, r) else
        (match r with
         | kh :: r1 -> let (v, r') = rd_tree r1 in go (k-1) r' ((bytes_of_hex kh, v) :: acc)
         | [] -> failwith "tree") in
    let (l, r') = go (int_of_string k) r [] in (Map l, r')
  | _ -> failwith "tree"

let rec pr_tree (b:Buffer.t) (v:llsd) : unit =
  let add s = Buffer.add_string b s; Buffer.add_char b ' ' in
  match v with
  | Undef -> add "U"
  | Bool true -> add "T"
  | Bool false -> add "F"
  | Int z -> add "I"; add (dec_of_z z)
  | Real x -> add "R"; add (hex_of_n x)
  | Str s -> add "S"; add (hex_of_bytes s)
  | Uuid s -> add "G"; add (hex_of_bytes s)
  | Date x -> add "D"; add (hex_of_n x)
  | Uri s -> add "L"; add (hex_of_bytes s)
  | Bin s -> add "B"; add (hex_of_bytes s)
  | Arr l -> add "A"; add (string_of_int (List.length l)); List.iter (pr_tree b) l
  | Map m -> add "M"; add (string_of_int (List.length m));
    List.iter (fun (k, x) -> add (hex_of_bytes k); pr_tree b x) m

let tree_string v = let b = Buffer.create 64 in pr_tree b v; String.trim (Buffer.contents b)

let rec split_semi (ws:string list) : string list list =
  let rec go cur acc = function
    | [] -> List.rev (List.rev cur :: acc)
    | ";" :: r -> go [] (List.rev cur :: acc) r
    | w :: r -> go (w :: cur) acc r in
  go [] [] ws

let rec table (ws:string list) : (string * n list) list = match ws with
  | k :: t :: r -> (String.lowercase_ascii k, bytes_of_hex t) :: table r
  | _ -> []

let b01 b = if b then "1" else "0"

let mvt_of_string = function
  | "MVT_FIXED" -> MVT_FIXED | "MVT_VARIABLE" -> MVT_VARIABLE | "MVT_U8" -> MVT_U8 | "MVT_U16" -> MVT_U16
  | "MVT_U32" -> MVT_U32 | "MVT_U64" -> MVT_U64 | "MVT_S8" -> MVT_S8 | "MVT_S16" -> MVT_S16 | "MVT_S32" -> MVT_S32
  | "MVT_S64" -> MVT_S64 | "MVT_F32" -> MVT_F32 | "MVT_F64" -> MVT_F64 | "MVT_LLVector3" -> MVT_LLVector3
  | "MVT_LLVector3d" -> MVT_LLVector3d | "MVT_LLVector4" -> MVT_LLVector4 | "MVT_LLQuaternion" -> MVT_LLQuaternion
  | "MVT_LLUUID" -> MVT_LLUUID | "MVT_BOOL" -> MVT_BOOL | "MVT_IP_ADDR" -> MVT_IP_ADDR | "MVT_IP_PORT" -> MVT_IP_PORT
  | _ -> failwith "mvt"

let rd_mval (ws:string list) : mval = match ws with
  | "VI" :: i :: _ -> VInt (z_of_dec i)
  | "VR" :: h :: _ -> VReal (n_of_hex h)
  | "VV" :: k :: r -> VVec (List.map n_of_hex (List.filteri (fun i _ -> i < int_of_string k) r))
  | "VQ" :: x :: y :: z :: _ -> VQuat (n_of_hex x, n_of_hex y, n_of_hex z)
  | "VG" :: h :: _ -> VUuid (bytes_of_hex h)
  | "VA" :: h :: _ -> VIp (bytes_of_hex h)
  | "VB" :: h :: _ -> VBytes (bytes_of_hex h)
  | "VS" :: h :: _ -> VText (bytes_of_hex h)
  | "VT" :: _ -> VBool true
  | "VF" :: _ -> VBool false
  | _ -> failwith "mval"

let mval_string (v:mval) : string = match v with
  | VInt z -> "VI " ^ dec_of_z z
  | VReal b -> "VR " ^ hex_of_n b
  | VVec l -> "VV " ^ string_of_int (List.length l) ^ " " ^ String.concat " " (List.map hex_of_n l)
  | VQuat (x, y, z) -> "VQ " ^ hex_of_n x ^ " " ^ hex_of_n y ^ " " ^ hex_of_n z
  | VUuid u -> "VG " ^ hex_of_bytes u
  | VIp a -> "VA " ^ hex_of_bytes a
  | VBytes s -> "VB " ^ hex_of_bytes s
  | VText s -> "VS " ^ hex_of_bytes s
  | VBool true -> "VT"
  | VBool false -> "VF"

let () =
  try
    while true do
      let line = input_line stdin in
      (try
        match words line with
        | [] -> print_endline ""
        | "fb" :: ut :: h :: ws ->
          let (v, _) = rd_tree ws in
          if bin_ok v then print_endline (hex_of_bytes (format_binary (ut = "1") (h = "1") v)) else print_endline "ERR"
        | "pb" :: h :: _ ->
          (match parse_binary (bytes_of_hex h) with
           | Some v -> print_endline ("OK " ^ tree_string v)
           | None -> print_endline "ERR")
        | "pr" :: h :: _ ->
          (match parse_bin_rest (bytes_of_hex h) with
           | Some (v, r) -> print_endline ("OK " ^ string_of_int (List.length r) ^ " " ^ tree_string v)
           | None -> print_endline "ERR")
        | "ns" :: h :: _ -> print_endline (hex_of_bytes (fmt_not_string (bytes_of_hex h)))
        | "ps" :: h :: _ ->
          (match parse_not_string (bytes_of_hex h) with
           | Some (s, r) -> print_endline ("OK " ^ hex_of_bytes s ^ " " ^ string_of_int (List.length r))
           | None -> print_endline "ERR")
        | "fn" :: ws ->
          (match split_semi ws with
           | tw :: rw :: dw :: _ ->
             let (v, _) = rd_tree tw in
             let rt = table rw and dt = table dw in
             let look t x = try List.assoc (hex_of_n x) t with Not_found -> [n_of_int 63] in
             print_endline (hex_of_bytes (fmt_not (look rt) (look dt) v))
           | _ -> print_endline "?")
        | "pn" :: ws ->
          (match split_semi ws with
           | [h] :: rw :: dw :: _ ->
             let rec tab l = match l with t :: b :: r -> (String.lowercase_ascii t, n_of_hex b) :: tab r | _ -> [] in
             let rt = tab rw and dt = tab dw in
             let look t x = try Some (List.assoc (hex_of_bytes x) t) with Not_found -> None in
             (match parse_not_rest (look rt) (look dt) (bytes_of_hex h) with
              | Some (v, r) -> print_endline ("OK " ^ string_of_int (List.length r) ^ " " ^ tree_string v)
              | None -> print_endline "ERR")
           | _ -> print_endline "?")
        | "sr" :: h :: _ ->
          (match scan_real (bytes_of_hex h) with
           | Some (t, r) -> print_endline ("OK " ^ hex_of_bytes t ^ " " ^ string_of_int (List.length r))
           | None -> print_endline "ERR")
        | "u8" :: h :: _ -> print_endline (b01 (utf8_valid (bytes_of_hex h)))
        | "wf" :: ws ->
          let (v, _) = rd_tree ws in
          print_endline (b01 (wf v) ^ b01 (bin_ok v) ^ b01 (keys_uris_nl_free v))
        | "mp" :: t :: ws ->
          let t = mvt_of_string t and v = rd_mval ws in
          print_endline (b01 (conforms t v) ^ " " ^
                         (match to_llsd_var t v with Some x -> "OK " ^ tree_string x | None -> "ERR"))
        | "mu" :: t :: ws ->
          let t = mvt_of_string t in let (x, _) = rd_tree ws in
          print_endline (match of_llsd_var t x with Some v -> "OK " ^ mval_string v | None -> "ERR")
        | _ -> print_endline "?"
      with Failure m -> print_endline ("BAD " ^ m))
    done
  with End_of_file -> ()
