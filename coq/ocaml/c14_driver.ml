(* one history per line: events separated by ';' (syntax: harness/props/c14.py).
   output: the observation after every step, separated by " | "; "ERR" (and stop) when the model raises. *)
let ni = n_of_int
(* an event token group is a list of model events: "D" (one ObjectUpdate with two blocks for the same object)
   is the sequence of its two blocks *)
let rec parse_events (ws : string list) : event list =
  match ws with
  | "D" :: args ->
    let a = Array.of_list (List.map int_of_string args) in
    [EFull (false, ni a.(0), ni a.(1), ni a.(2), ni a.(3), a.(4) <> 0, ni a.(5));
     EFull (false, ni a.(0), ni a.(1), ni a.(2), ni a.(3), a.(4) <> 0, ni a.(6))]
  | _ -> [parse_event ws]
and parse_event (ws : string list) : event =
  match ws with
  | k :: args ->
    let a = Array.of_list (List.map int_of_string args) in
    (match k with
     | "F" -> EFull (false, ni a.(0), ni a.(1), ni a.(2), ni a.(3), a.(4) <> 0, ni a.(5))
     | "C" -> EFull (true, ni a.(0), ni a.(1), ni a.(2), ni a.(3), a.(4) <> 0, ni a.(5))
     | "T" -> ETerse (ni a.(0), ni a.(1), ni a.(2))
     | "H" -> ECached (ni a.(0), ni a.(1), ni a.(2), ni a.(3))
     | "P" -> EProps (ni a.(0), ni a.(1))
     | "K" -> EKill (ni a.(0), ni a.(1))
     | "X" -> EClear (ni a.(0))
     | "R" -> ETrack (ni a.(0))
     | "Q" -> EReqObj (ni a.(0), ni a.(1))
     | "S" -> EReqProps (ni a.(0), ni a.(1))
     | "M" -> EReqMissing (ni a.(0))
     | _ -> failwith ("bad event " ^ k))
  | [] -> failwith "empty event"

let i = int_of_n
let obj_str (o : obj) : string =
  Printf.sprintf "%d(r%d l%d p%d %s c%d u%d x%d n%d %s P%s C[%s])"
    (i o.o_full) (i o.o_region) (i o.o_lid) (i o.o_parent) (if o.o_av then "av" else "pr")
    (i o.o_crc) (i o.o_flags) (i o.o_pos) (i o.o_name) (if o.o_vel then "v" else "-")
    (match o.o_plink with None -> "-" | Some p -> string_of_int (i p))
    (String.concat "," (List.map (fun (c, cf) -> Printf.sprintf "%d:%d" (i c) (i cf)) o.o_children))

let observe (w : world) : string =
  let objs = List.sort compare (List.map (fun (f, o) -> (i f, obj_str o)) w.w_full) in
  let regs = List.map (fun r ->
      match List.assoc_opt r (List.map (fun (k, v) -> (i k, v)) w.w_regions) with
      | None -> Printf.sprintf "r%d ?" r
      | Some rs ->
        let local = List.sort compare (List.map (fun (l, f) -> (i l, i f)) rs.r_local) in
        let orph = List.sort compare (List.map (fun (p, ls) -> (i p, List.map i ls)) rs.r_orphans) in
        let miss = List.sort compare (List.map i rs.r_missing) in
        Printf.sprintf "r%d %s L[%s] O[%s] M[%s]" r (if rs.r_tracked then "T" else "U")
          (String.concat " " (List.map (fun (l, f) -> Printf.sprintf "%d:%d" l f) local))
          (String.concat " " (List.map (fun (p, ls) -> Printf.sprintf "%d>%s" p (string_of_ints ls)) orph
                              |> List.map (String.map (fun c -> if c = ' ' then ',' else c)))
           |> fun s -> s)
          (String.concat "," (List.map string_of_int miss))) [1; 2] in
  (* futures grouped by (region, lid, kind) in creation order; kind P sorts before U *)
  let keys = List.sort_uniq compare (List.map (fun x -> (i x.f_region, i x.f_lid, if x.f_kind then "U" else "P")) w.w_futs) in
  let futs = List.map (fun (r, l, k) ->
      let sts = List.filter_map (fun x ->
          if (i x.f_region, i x.f_lid, (if x.f_kind then "U" else "P")) = (r, l, k) then
            Some (match x.f_state with Pending -> "p" | Cancelled -> "c" | Resolved f -> "r" ^ string_of_int (i f))
          else None) w.w_futs in
      Printf.sprintf "%d.%d%s=%s" r l k (String.concat "," sts)) keys in
  Printf.sprintf "W[%s] %s F[%s]" (String.concat " " (List.map snd objs)) (String.concat " " regs) (String.concat " " futs)

(* the reference semantics (Obj/SceneGraphRef.v: ref_step): live full ids with (region, local id, parent id, avatar?),
   sorted by full id, and the tracked regions *)
let ref_observe (s : refst) : string =
  let objs = List.sort compare (List.map (fun (f, o) ->
      (i f, Printf.sprintf "%d(r%d l%d p%d %s)" (i f) (i o.x_region) (i o.x_lid) (i o.x_parent) (if o.x_av then "av" else "pr"))) s.rf_live) in
  let tr = List.sort_uniq compare (List.map i s.rf_tracked) in
  Printf.sprintf "L[%s] T[%s]" (String.concat " " (List.map snd objs)) (String.concat "," (List.map string_of_int tr))

(* "REF <history>": the reference state after every event group, separated by " | " (the reference is total) *)
let ref_line (line : string) : string =
  let evs = List.filter (fun s -> String.trim s <> "") (String.split_on_char ';' line) in
  let buf = Buffer.create 256 in
  let _ = List.fold_left (fun s e ->
      let s1 = List.fold_left ref_step s (parse_events (words e)) in
      if Buffer.length buf > 0 then Buffer.add_string buf " | ";
      Buffer.add_string buf (ref_observe s1); s1) ref_init evs in
  Buffer.contents buf

let () =
  try
    while true do
      let line = input_line stdin in
      if String.length line >= 4 && String.sub line 0 4 = "REF " then
        print_endline (ref_line (String.sub line 4 (String.length line - 4)))
      else
      let evs = List.filter (fun s -> String.trim s <> "") (String.split_on_char ';' line) in
      let buf = Buffer.create 256 in
      let rec go w = function
        | [] -> ()
        | e :: t ->
          (match List.fold_left (fun acc ev -> match acc with Some w0 -> step w0 ev | None -> None) (Some w) (parse_events (words e)) with
           | Some w1 ->
             if Buffer.length buf > 0 then Buffer.add_string buf " | ";
             Buffer.add_string buf (observe w1); go w1 t
           | None ->
             if Buffer.length buf > 0 then Buffer.add_string buf " | ";
             Buffer.add_string buf "ERR")
      in
      go init evs;
      print_endline (Buffer.contents buf)
    done
  with End_of_file -> ()
