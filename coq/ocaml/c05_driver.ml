(* one case per line:  <maxlen> <every_ms> ev ev ...
     R:<d>:<pid>:<rel><resent>:<acks>:<kind>   received + forwarded      d = O|I, acks = a.b.c or -
     D:<d>:<pid>:<rel><resent>:<acks>:<kind>   received + dropped        kind = P | A<ids> | S<oldest>
     I:<d>:<rel>:<kind>                        proxy injects
     T:<ms>                                    clock tick + resend_unacked
   output: per event "E:<d>:<id>:<rel><resent>:<acks>:<kind>:<syn>" and "C:<d>:<id>" / "X:<d>:<id>",
   events separated by " | ", then " || " and the final state *)
let split c s = String.split_on_char c s
let zlist s = if s = "-" || s = "" then [] else List.map (fun x -> z_of_int (int_of_string x)) (split '.' s)
let pdir s = if s = "O" then OUT else IN
let sdir d = match d with OUT -> "O" | IN -> "I"
let pkind s =
  match s.[0] with
  | 'P' -> Plain
  | 'A' -> PacketAck (zlist (String.sub s 1 (String.length s - 1)))
  | 'S' -> StartPing (z_of_int (int_of_string (String.sub s 1 (String.length s - 1))))
  | _ -> failwith "kind"
let szl l = if l = [] then "-" else String.concat "." (List.map (fun x -> string_of_int (int_of_z x)) l)
let skind k = match k with Plain -> "P" | PacketAck ids -> "A" ^ szl ids | StartPing o -> "S" ^ string_of_int (int_of_z o)
let pmsg f =
  match f with
  | [d; pid; fl; acks; k] ->
    { r_dir = pdir d; r_pid = z_of_int (int_of_string pid); r_rel = (fl.[0] = '1'); r_resent = (fl.[1] = '1');
      r_acks = zlist acks; r_kind = pkind k }
  | _ -> failwith "msg"
let pev w =
  match split ':' w with
  | "R" :: f -> Recv (pmsg f)
  | "D" :: f -> RecvDrop (pmsg f)
  | ["I"; d; rel; k] -> Inj (pdir d, (rel = "1"), pkind k)
  | ["T"; ms] -> Tick (z_of_int (int_of_string ms))
  | _ -> failwith ("bad event " ^ w)
let b2s b = if b then "1" else "0"
let semit e = Printf.sprintf "E:%s:%d:%s%s:%s:%s:%s" (sdir e.e_dir) (int_of_z e.e_id) (b2s e.e_rel) (b2s e.e_resent)
    (szl e.e_acks) (skind e.e_kind) (b2s e.e_syn)
let ssig s = match s with
  | Completed (d, id) -> Printf.sprintf "C:%s:%d" (sdir d) (int_of_z id)
  | TimedOut (d, id) -> Printf.sprintf "X:%s:%d" (sdir d) (int_of_z id)
let strk t = Printf.sprintf "%d %d [%s] [%s]" (int_of_z t.pbase) (int_of_z t.ibase) (szl t.inj) (szl t.dropped)
let () =
  try
    while true do
      let line = input_line stdin in
      match words line with
      | m :: ev :: evs ->
        let st0 = pc_init (nat_of_int (int_of_string m)) (z_of_int (int_of_string ev)) in
        let (st, tr) = run_trace st0 (List.map pev evs) in
        let per = List.map (fun ((_, es), ss) -> String.concat " " (List.map semit es @ List.map ssig ss)) tr in
        let un = String.concat " " (List.map (fun ((d, id), ri) ->
            Printf.sprintf "%s:%d:%d:%d" (sdir d) (int_of_z id) (int_of_z ri.ri_last) (int_of_z ri.ri_tries)) st.unacked) in
        print_endline (String.concat " | " per ^ " || in " ^ strk st.t_in ^ " out " ^ strk st.t_out ^ " un " ^ un
                       ^ " now " ^ string_of_int (int_of_z st.now))
      | _ -> print_endline "?"
    done
  with End_of_file -> ()
