(* C06 driver.  One case per line, one result line per case.
   p <hex>                          parse_socks        -> EXC | NONE | OK I <ip> <port> <hex> | OK D <hexdom> <port> <hex>
   r <ip> <port> <hex>              wrap               -> <hex>
   v <name>                         validate_udp_msg   -> 1 | 0 | K
   w S <n> {<sidhex> <nreg> {<ip> <port>}}  P <n> {<client_ip>}  O <n> {<keyhex> X | <keyhex> M <name> <body_ok> <sidhex> <consumed> <outhex|!>}
     E <n> {<proto> <ip> <port> <hex>}
        -> per event "<outcome> {<hex>@<ip>:<port>}" joined by " ; ", then " # " final state
   hex strings: "-" is the empty string. *)
let hexval c = match c with
  | '0'..'9' -> Char.code c - 48 | 'a'..'f' -> Char.code c - 87 | 'A'..'F' -> Char.code c - 55
  | _ -> failwith "hex"
let bytes_of_hex (s:string) : n list =
  if s = "-" then [] else
  let l = String.length s / 2 in
  List.init l (fun i -> n_of_int (16 * hexval s.[2*i] + hexval s.[2*i+1]))
let hex_of_bytes (l : n list) : string =
  if l = [] then "-" else String.concat "" (List.map (fun b -> Printf.sprintf "%02x" (int_of_n b)) l)
let n_of_hex (s:string) : n =
  let acc = ref N0 in
  String.iter (fun ch ->
    let d = hexval ch in
    for b = 3 downto 0 do
      let bit = (d lsr b) land 1 in
      acc := (match !acc with
              | N0 -> if bit = 1 then Npos XH else N0
              | Npos p -> Npos (if bit = 1 then XI p else XO p))
    done) s;
  !acc
let coq_string (s:string) : n list =
  List.init (String.length s) (fun i -> n_of_int (Char.code s.[i]))

let outcome_name o = match o with
  | OForward -> "FWD" | OConsumed -> "CONSUMED" | ONonSocks -> "NONSOCKS" | OSelfAddressed -> "SELFADDR" | OUnknownHost -> "UNKNOWNHOST" | OPreSession -> "PRESESSION"
  | OUnclaimed -> "UNCLAIMED" | OCouldntOpen -> "COULDNTOPEN" | ONoCircuit -> "NOCIRCUIT"
  | OExcSocks -> "EXC:socks" | OExcDecode -> "EXC:decode" | OExcBanned -> "EXC:banned"
  | OExcFlavor -> "EXC:flavor" | OExcBody -> "EXC:body" | OBadIndex -> "BADINDEX"

let str_ipaddr ((a, p) : n * n) = Printf.sprintf "%d:%d" (int_of_n a) (int_of_n p)
let str_addr ((h, p) : host * n) = match h with
  | HIp a -> Printf.sprintf "I%d:%d" (int_of_n a) (int_of_n p)
  | HDom d -> Printf.sprintf "D%s:%d" (hex_of_bytes d) (int_of_n p)

let str_region r =
  Printf.sprintf "%s=%s" (str_ipaddr r.r_addr)
    (match r.r_circ with None -> "none" | Some c -> Printf.sprintf "%s/%s" (str_ipaddr c.c_near) (if c.c_alive then "alive" else "dead"))
let str_session s =
  Printf.sprintf "{pending=%s main=%s regions=[%s]}" (if s.s_pending then "1" else "0")
    (match s.s_main with None -> "-" | Some k -> string_of_int (int_of_nat k))
    (String.concat "," (List.map str_region s.s_regions))
let str_proto p =
  Printf.sprintf "{sess=%s f2n=[%s]}" (match p.p_sess with None -> "-" | Some i -> string_of_int (int_of_nat i))
    (String.concat "," (List.map (fun (a, v) -> str_addr a ^ ">" ^ str_ipaddr v) p.p_f2n))

let world_case (ws : string list) : string =
  let toks = ref ws in
  let next () = match !toks with [] -> failwith "eof" | t :: r -> toks := r; t in
  let nexti () = int_of_string (next ()) in
  let expect s = if next () <> s then failwith ("expected " ^ s) in
  expect "S";
  let ns = nexti () in
  let sessions = List.init ns (fun _ ->
    let sid = n_of_hex (next ()) in
    let nr = nexti () in
    let regs = List.init nr (fun _ -> let ip = nexti () in let port = nexti () in
                                      { r_addr = (n_of_int ip, n_of_int port); r_circ = None }) in
    { s_id = sid; s_pending = true; s_regions = regs; s_main = None }) in
  expect "P";
  let np = nexti () in
  let protos = List.init np (fun _ -> { p_client = n_of_int (nexti ()); p_f2n = []; p_sess = None }) in
  expect "O";
  let no = nexti () in
  let tbl = Hashtbl.create 64 in
  for _ = 1 to no do
    let key = next () in
    match next () with
    | "X" -> Hashtbl.replace tbl key None
    | "M" ->
        let name = next () in
        let body_ok = (next () = "1") in
        let sid = n_of_hex (next ()) in
        let consumed = (next () = "1") in
        let out = (match next () with "!" -> None | h -> Some (bytes_of_hex h)) in
        Hashtbl.replace tbl key (Some { mi_name = coq_string name; mi_body_ok = body_ok; mi_sid = sid; mi_consumed = consumed; mi_out = out })
    | _ -> failwith "oracle"
  done;
  let missing = ref false in
  let decode (d : n list) = match Hashtbl.find_opt tbl (hex_of_bytes d) with
    | Some v -> v
    | None -> missing := true; None in
  expect "E";
  let ne = nexti () in
  let w = ref { w_sessions = sessions; w_protos = protos } in
  let outs = ref [] in
  for _ = 1 to ne do
    let pi = nexti () in
    let ip = nexti () in
    let port = nexti () in
    let data = bytes_of_hex (next ()) in
    let ((w', sends), o) = wstep decode !w (nat_of_int pi) data (n_of_int ip, n_of_int port) in
    w := w';
    let s = String.concat " " (outcome_name o :: List.map (fun (b, a) -> hex_of_bytes b ^ "@" ^ str_ipaddr a) sends) in
    outs := s :: !outs
  done;
  let final = Printf.sprintf "S[%s] P[%s]" (String.concat "" (List.map str_session !w.w_sessions))
      (String.concat "" (List.map str_proto !w.w_protos)) in
  (if !missing then "MISSING-ORACLE " else "") ^ String.concat " ; " (List.rev !outs) ^ " # " ^ final

let () =
  try
    while true do
      let line = input_line stdin in
      let res =
        try
          match words line with
          | [] -> ""
          | "p" :: [h] ->
              (match parse_socks (bytes_of_hex h) with
               | PExc -> "EXC" | PNone -> "NONE"
               | POk ((HIp a, p), d) -> Printf.sprintf "OK I %d %d %s" (int_of_n a) (int_of_n p) (hex_of_bytes d)
               | POk ((HDom dm, p), d) -> Printf.sprintf "OK D %s %d %s" (hex_of_bytes dm) (int_of_n p) (hex_of_bytes d))
          | "r" :: ip :: port :: [h] ->
              hex_of_bytes (wrap (n_of_int (int_of_string ip), n_of_int (int_of_string port)) (bytes_of_hex h))
          | "v" :: [name] ->
              (match validate_udp_msg (coq_string name) with Some true -> "1" | Some false -> "0" | None -> "K")
          | "w" :: rest -> world_case rest
          | _ -> "?"
        with Failure m -> "DRIVER-ERROR " ^ m
      in
      print_endline res
    done
  with End_of_file -> ()
