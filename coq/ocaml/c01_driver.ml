(* Driver for the extracted template codec (shared by C01 and C02).
   One case per line, one result line per case.

   message syntax (tokens separated by one blank):
     name flags pid|- extrahex|. acks(,)|. rawhex|.|= nblocks { bname ninst { fill nvars { vname value }* }* }*
   value:  U<hex> | S[-]<hex> | B<hex> | R<hex> (RawBytes)
   commands:
     S msg          serialize                      -> OK hex | ERR
     N msg          normalize                      -> msg
     C msg          conforms                       -> 1 | 0
     X msg          deserialize(serialize m) = Some(normalize m) inside the model -> 1 | 0 | ERR
     D hex          deserialize (eager)            -> OK msg | ERR
     H hex          parse_header                   -> OK msg | ERR
     L ops hex      parse_header; run ops (h = header only, b = touch blocks); serialize
                                                   -> HERR | P<0|1> F<0|1> Q<0|1> R<0|1> (OK hex | ERR)
                    P = body parsed afterwards, F = some body access raised,
                    Q = the body parses the same with and without NaN quieting (no signalling NaN met;
                        1 also when it does not parse), R = the parse left no bytes unread
     E hex          deserialize (eager) then serialize -> ERR | OK hex | SERR
     V bin text hex present utf8_valid             -> STR hex | JANK hex | BYTES hex
     W              wf_dict current_dict, #messages -> 1 481 *)

let cstr_of_string (s : string) =
  let rec go i acc =
    if i < 0 then acc
    else
      let c = Char.code s.[i] in
      let b k = (c lsr k) land 1 = 1 in
      go (i - 1) (Ascii (b 0, b 1, b 2, b 3, b 4, b 5, b 6, b 7) :: acc)
  in
  go (String.length s - 1) []

let string_of_cstr cs =
  let buf = Buffer.create 16 in
  List.iter (fun (Ascii (b0, b1, b2, b3, b4, b5, b6, b7)) ->
      let v x k = if x then 1 lsl k else 0 in
      Buffer.add_char buf (Char.chr (v b0 0 + v b1 1 + v b2 2 + v b3 3 + v b4 4 + v b5 5 + v b6 6 + v b7 7))) cs;
  Buffer.contents buf

let hexval c =
  match c with
  | '0' .. '9' -> Char.code c - 48
  | 'a' .. 'f' -> Char.code c - 87
  | 'A' .. 'F' -> Char.code c - 55
  | _ -> failwith "hex"

(* arbitrary-size naturals in hex <-> N *)
let n_of_hex (s : string) : n =
  let bits = ref [] in
  String.iter (fun c -> let v = hexval c in
                for k = 3 downto 0 do bits := ((v lsr k) land 1 = 1) :: !bits done) s;
  let msb_first = List.rev !bits in
  let rec strip = function false :: r -> strip r | l -> l in
  match strip msb_first with
  | [] -> N0
  | _ :: r -> Npos (List.fold_left (fun p b -> if b then XI p else XO p) XH r)

let hex_of_n (x : n) : string =
  match x with
  | N0 -> "0"
  | Npos p ->
    let rec bits p = match p with XH -> [true] | XO q -> false :: bits q | XI q -> true :: bits q in
    let lsb = bits p in
    let rec nibbles l = match l with
      | [] -> []
      | _ ->
        let take k l = let rec go k l acc = if k = 0 then (List.rev acc, l) else
                           match l with [] -> go (k - 1) [] (false :: acc) | x :: r -> go (k - 1) r (x :: acc) in go k l [] in
        let (nb, rest) = take 4 l in
        let v = List.fold_right (fun b acc -> acc * 2 + (if b then 1 else 0)) nb 0 in
        v :: nibbles rest in
    let ns = List.rev (nibbles lsb) in
    String.concat "" (List.map (fun v -> Printf.sprintf "%x" v) ns)

let bytes_of_hex (s : string) : n list =
  if s = "." then [] else begin
    let l = String.length s / 2 in
    let rec go i acc = if i < 0 then acc else go (i - 1) (n_of_int (hexval s.[2 * i] * 16 + hexval s.[2 * i + 1]) :: acc) in
    go (l - 1) []
  end

let hex_of_bytes (l : n list) : string =
  if l = [] then "." else begin
    let buf = Buffer.create 64 in
    List.iter (fun b -> Buffer.add_string buf (Printf.sprintf "%02x" (int_of_n b))) l;
    Buffer.contents buf
  end

let val_of_tok (t : string) : wval =
  let rest = String.sub t 1 (String.length t - 1) in
  match t.[0] with
  | 'U' -> WU (n_of_hex rest)
  | 'S' ->
    if String.length rest > 0 && rest.[0] = '-' then
      (match n_of_hex (String.sub rest 1 (String.length rest - 1)) with N0 -> WS Z0 | Npos p -> WS (Zneg p))
    else (match n_of_hex rest with N0 -> WS Z0 | Npos p -> WS (Zpos p))
  | 'B' -> WB (if rest = "" then [] else bytes_of_hex rest)
  | 'R' -> WRaw (if rest = "" then [] else bytes_of_hex rest)
  | _ -> failwith "value"

let tok_of_val (v : wval) : string =
  match v with
  | WU n -> "U" ^ hex_of_n n
  | WS Z0 -> "S0"
  | WS (Zpos p) -> "S" ^ hex_of_n (Npos p)
  | WS (Zneg p) -> "S-" ^ hex_of_n (Npos p)
  | WB [] -> "B"
  | WB l -> "B" ^ hex_of_bytes l
  | WRaw [] -> "R"
  | WRaw l -> "R" ^ hex_of_bytes l

(* token stream *)
let parse_msg (toks : string list) : msg =
  let st = ref toks in
  let next () = match !st with [] -> failwith "eof" | t :: r -> st := r; t in
  let name = next () in
  let flags = n_of_int (int_of_string (next ())) in
  let pid = (match next () with "-" -> None | s -> Some (n_of_int (int_of_string s))) in
  let extra = bytes_of_hex (next ()) in
  let acks = (match next () with "." -> [] | s -> List.map (fun a -> n_of_int (int_of_string a)) (String.split_on_char ',' s)) in
  let raw = (match next () with "." -> None | "=" -> Some [] | s -> Some (bytes_of_hex s)) in
  let nb = int_of_string (next ()) in
  let rec rep k f = if k <= 0 then [] else let x = f () in x :: rep (k - 1) f in
  let body = rep nb (fun () ->
      let bn = next () in
      let ni = int_of_string (next ()) in
      let insts = rep ni (fun () ->
          let fill = next () = "1" in
          let nv = int_of_string (next ()) in
          let vars = rep nv (fun () -> let vn = next () in let v = val_of_tok (next ()) in (cstr_of_string vn, v)) in
          { b_fill = fill; b_vars = vars }) in
      (cstr_of_string bn, insts)) in
  { m_name = cstr_of_string name; m_flags = flags; m_pid = pid; m_extra = extra; m_acks = acks; m_raw = raw; m_body = body }

let print_msg (m : msg) : string =
  let buf = Buffer.create 256 in
  let add s = Buffer.add_string buf s; Buffer.add_char buf ' ' in
  add (string_of_cstr m.m_name);
  add (string_of_int (int_of_n m.m_flags));
  add (match m.m_pid with None -> "-" | Some p -> string_of_int (int_of_n p));
  add (hex_of_bytes m.m_extra);
  add (match m.m_acks with [] -> "." | l -> String.concat "," (List.map (fun a -> string_of_int (int_of_n a)) l));
  add (match m.m_raw with None -> "." | Some [] -> "=" | Some l -> hex_of_bytes l);
  add (string_of_int (List.length m.m_body));
  List.iter (fun (bn, insts) ->
      add (string_of_cstr bn);
      add (string_of_int (List.length insts));
      List.iter (fun b ->
          add (if b.b_fill then "1" else "0");
          add (string_of_int (List.length b.b_vars));
          List.iter (fun (vn, v) -> add (string_of_cstr vn); add (tok_of_val v)) b.b_vars) insts) m.m_body;
  let s = Buffer.contents buf in
  String.sub s 0 (String.length s - 1)

let d = current_dict

let handle (line : string) : string =
  match words line with
  | [] -> ""
  | op :: ws ->
    (match op with
     | "S" -> (match serialize d (parse_msg ws) with Some b -> "OK " ^ hex_of_bytes b | None -> "ERR")
     | "N" -> print_msg (normalize d (parse_msg ws))
     | "C" -> if conforms d (parse_msg ws) then "1" else "0"
     | "X" ->
       let m = parse_msg ws in
       (match serialize d m with
        | None -> "ERR"
        | Some b -> (match deserialize d b with
            | None -> "0"
            | Some m' -> if print_msg m' = print_msg (normalize d m) then "1" else "0"))
     | "D" -> (match deserialize d (bytes_of_hex (List.hd ws)) with Some m -> "OK " ^ print_msg m | None -> "ERR")
     | "H" -> (match parse_header d (bytes_of_hex (List.hd ws)) with Some m -> "OK " ^ print_msg m | None -> "ERR")
     | "L" ->
       (match ws with
        | [ops; hex] ->
          (match parse_header d (bytes_of_hex hex) with
           | None -> "HERR"
           | Some m0 ->
             let failed = ref false in
             let m = ref m0 in
             String.iter (fun c ->
                 if c = 'b' then begin
                   (match !m.m_raw with
                    | Some (_ :: _) -> (match parse_body d !m with None -> failed := true | Some _ -> ())
                    | _ -> ());
                   m := lstep d !m OpBody
                 end else m := lstep d !m OpHeader) ops;
             let p = (match !m.m_raw with None -> "P1" | Some _ -> "P0") in
             let f = if !failed then "F1" else "F0" in
             let rt = parse_body_rest_q true d m0 and rf = parse_body_rest_q false d m0 in
             let q = (match rt, rf with
                 | Some (a, _), Some (b, _) -> if print_msg a = print_msg b then "Q1" else "Q0"
                 | None, None -> "Q1"
                 | _, _ -> "Q0") in
             let r = (match rt with Some (_, []) -> "R1" | Some _ -> "R0" | None -> "R1") in
             p ^ " " ^ f ^ " " ^ q ^ " " ^ r ^ " " ^ (match serialize d !m with Some b -> "OK " ^ hex_of_bytes b | None -> "ERR"))
        | _ -> "?")
     | "E" -> (match deserialize d (bytes_of_hex (List.hd ws)) with
         | None -> "ERR"
         | Some m -> (match serialize d m with Some b -> "OK " ^ hex_of_bytes b | None -> "SERR"))
     | "V" ->
       (match ws with
        | [b; t; hex] ->
          let tv = { vname = []; vty = TVarlen; vsize = nat_of_int 1; vbin = (b = "1"); vtext = (t = "1") } in
          (match present utf8_valid tv (bytes_of_hex hex) with
           | PStr l -> "STR " ^ hex_of_bytes l
           | PJank l -> "JANK " ^ hex_of_bytes l
           | PBytes l -> "BYTES " ^ hex_of_bytes l)
        | _ -> "?")
     | "W" -> (if wf_dict d then "1" else "0") ^ " " ^ string_of_int (List.length d)
     | _ -> "?")

let () =
  try
    while true do
      let line = input_line stdin in
      print_endline (try handle line with e -> "DRIVER-EXC " ^ Printexc.to_string e)
    done
  with End_of_file -> ()
