(* C09 driver.  One case per line:
     e IDX                     print entry IDX of the extracted (generated) registry
     k IDX CTX POD Z           run registry entry IDX: decode Z (pod=0/1, context field value CTX), re-encode
     x SERSPEC CTX POD Z       same for a serializer given inline (synthetic classes)
     s SERSPEC CTX VALUE       serialize a value given in the printed text form
     p VALUE                   model repr() of a plain-data value (hex), q HEX  model literal_eval of a text
     o SERSPEC TY              registered_ok / registered_fits of an inline serializer
   grammar  table  : A=1,B=-2 | -
            adapter: identity | bool | nibbles | enum;STRICT;table;table | flag;table;table
            ser    : E;table;table | F;table;table | A/adapter | C/k~adapter/.../d~adapter | B/SHIFT/name~bits~adapter/... | O *)
let cs (s : string) : ascii list =
  List.init (String.length s) (fun i ->
      let c = Char.code s.[i] in
      let b k = (c lsr k) land 1 = 1 in
      Ascii (b 0, b 1, b 2, b 3, b 4, b 5, b 6, b 7))
let ocaml_string_of (s : ascii list) : string =
  String.concat "" (List.map (fun (Ascii (b0, b1, b2, b3, b4, b5, b6, b7)) ->
      let v k b = if b then 1 lsl k else 0 in
      String.make 1 (Char.chr (v 0 b0 + v 1 b1 + v 2 b2 + v 3 b3 + v 4 b4 + v 5 b5 + v 6 b6 + v 7 b7))) s)

let zi = z_of_int
let z_of_string (s : string) : z =
  let neg = String.length s > 0 && s.[0] = '-' in
  let acc = ref Z0 in
  String.iteri (fun i c -> if not (neg && i = 0) then
    acc := Z.add (Z.mul !acc (zi 10)) (zi (Char.code c - 48))) s;
  if neg then Z.opp !acc else !acc
let string_of_z (x : z) : string =
  let neg = Z.ltb x Z0 in
  let x = if neg then Z.opp x else x in
  if Z.eqb x Z0 then "0" else begin
    let buf = Buffer.create 24 in
    let cur = ref x in
    while not (Z.eqb !cur Z0) do
      let (q, r) = Z.div_eucl !cur (zi 10) in
      Buffer.add_char buf (Char.chr (48 + int_of_z r));
      cur := q
    done;
    let s = Buffer.contents buf in
    let n = String.length s in
    (if neg then "-" else "") ^ String.init n (fun i -> s.[n - 1 - i])
  end

let split c s = String.split_on_char c s
let parse_table (s : string) =
  if s = "-" then [] else
    List.map (fun kv -> match split '=' kv with
        | [k; v] -> (cs k, z_of_string v)
        | _ -> failwith ("bad table entry " ^ kv)) (split ',' s)
let table_text t =
  if t = [] then "-" else String.concat "," (List.map (fun (n, v) -> ocaml_string_of n ^ "=" ^ string_of_z v) t)
let parse_cls a b = { c_iter = parse_table a; c_names = parse_table b }
let cls_text c = table_text c.c_iter ^ ";" ^ table_text c.c_names
let parse_adapter (s : string) : adapter =
  match split ';' s with
  | ["identity"] -> AIdentity
  | ["bool"] -> ABool
  | ["nibbles"] -> ANibbles
  | ["enum"; st; a; b] -> AEnum (st = "1", parse_cls a b)
  | ["flag"; a; b] -> AFlag (parse_cls a b)
  | _ -> failwith ("bad adapter " ^ s)
let adapter_text = function
  | AIdentity -> "identity" | ABool -> "bool" | ANibbles -> "nibbles"
  | AEnum (st, c) -> "enum;" ^ (if st then "1" else "0") ^ ";" ^ cls_text c
  | AFlag c -> "flag;" ^ cls_text c
let parse_ser (s : string) : serializer =
  match split '/' s with
  | ["O"] -> SOpaque
  | ["A"; a] -> SAdapter (parse_adapter a)
  | "C" :: opts ->
    let o = ref [] and d = ref None in
    List.iter (fun x -> match split '~' x with
        | ["d"; a] -> d := Some (parse_adapter a)
        | [k; a] -> o := !o @ [(z_of_string k, parse_adapter a)]
        | _ -> failwith "bad option") opts;
    SContext (!o, !d)
  | "B" :: sh :: fs ->
    SBitfield (sh = "1", List.map (fun x -> match split '~' x with
        | [n; b; a] -> { bf_name = cs n; bf_bits = z_of_string b; bf_adapter = parse_adapter a }
        | _ -> failwith "bad field") fs)
  | [one] -> (match split ';' one with
      | ["E"; a; b] -> SEnumField (parse_cls a b)
      | ["F"; a; b] -> SFlagField (parse_cls a b)
      | _ -> failwith ("bad serializer " ^ s))
  | _ -> failwith ("bad serializer " ^ s)
let ser_text = function
  | SOpaque -> "O"
  | SEnumField c -> "E;" ^ cls_text c
  | SFlagField c -> "F;" ^ cls_text c
  | SAdapter a -> "A/" ^ adapter_text a
  | SContext (o, d) ->
    "C" ^ String.concat "" (List.map (fun (k, a) -> "/" ^ string_of_z k ^ "~" ^ adapter_text a) o)
    ^ (match d with Some a -> "/d~" ^ adapter_text a | None -> "")
  | SBitfield (sh, fs) ->
    "B/" ^ (if sh then "1" else "0")
    ^ String.concat "" (List.map (fun f -> "/" ^ ocaml_string_of f.bf_name ^ "~" ^ string_of_z f.bf_bits ^ "~" ^ adapter_text f.bf_adapter) fs)
let ty_text = function U8 -> "U8" | U16 -> "U16" | U32 -> "U32" | U64 -> "U64" | S8 -> "S8" | S16 -> "S16" | S32 -> "S32" | S64 -> "S64"
let parse_ty = function "U8" -> U8 | "U16" -> U16 | "U32" -> U32 | "U64" -> U64 | "S8" -> S8 | "S16" -> S16 | "S32" -> S32 | "S64" -> S64
                        | s -> failwith ("bad type " ^ s)

let value_text = function
  | VInt z -> "i:" ^ string_of_z z
  | VMember (n, z) -> "m:" ^ ocaml_string_of n ^ ":" ^ string_of_z z
  | VFlag z -> "f:" ^ string_of_z z
  | VName n -> "n:" ^ ocaml_string_of n
  | VTuple l -> "t:[" ^ String.concat "," (List.map (function EName n -> "n:" ^ ocaml_string_of n | EInt z -> "i:" ^ string_of_z z) l) ^ "]"
  | VBool b -> if b then "b:1" else "b:0"
  | VUnser -> "U"
let sval_text = function
  | SV v -> value_text v
  | SDict d -> "d:{" ^ String.concat ";" (List.map (fun (k, v) -> ocaml_string_of k ^ "=" ^ value_text v) d) ^ "}"

(* values in the same text form the driver prints *)
let parse_elem (s : string) : pelem =
  if String.length s >= 2 && String.sub s 0 2 = "n:" then EName (cs (String.sub s 2 (String.length s - 2)))
  else if String.length s >= 2 && String.sub s 0 2 = "i:" then EInt (z_of_string (String.sub s 2 (String.length s - 2)))
  else failwith ("bad element " ^ s)
let parse_value (s : string) : value =
  let n = String.length s in
  let rest k = String.sub s k (n - k) in
  if s = "U" then VUnser
  else if n >= 2 && String.sub s 0 2 = "i:" then VInt (z_of_string (rest 2))
  else if n >= 2 && String.sub s 0 2 = "f:" then VFlag (z_of_string (rest 2))
  else if n >= 2 && String.sub s 0 2 = "b:" then VBool (rest 2 = "1")
  else if n >= 2 && String.sub s 0 2 = "n:" then VName (cs (rest 2))
  else if n >= 2 && String.sub s 0 2 = "m:" then
    (match split ':' (rest 2) with [nm; z] -> VMember (cs nm, z_of_string z) | _ -> failwith "bad member")
  else if n >= 4 && String.sub s 0 3 = "t:[" then
    let inner = String.sub s 3 (n - 4) in
    VTuple (if inner = "" then [] else List.map parse_elem (split ',' inner))
  else failwith ("bad value " ^ s)
let parse_sval (s : string) : sval =
  let n = String.length s in
  if n >= 4 && String.sub s 0 3 = "d:{" then
    let inner = String.sub s 3 (n - 4) in
    SDict (if inner = "" then [] else List.map (fun kv ->
        match String.index_opt kv '=' with
        | Some i -> (cs (String.sub kv 0 i), parse_value (String.sub kv (i + 1) (String.length kv - i - 1)))
        | None -> failwith "bad dict entry") (split ';' inner))
  else SV (parse_value s)

let atom_text = function
  | AInt z -> "i:" ^ string_of_z z
  | AStr n -> "n:" ^ ocaml_string_of n
  | ABoolean b -> if b then "b:1" else "b:0"
let plit_text = function
  | PAtom a -> atom_text a
  | PTup l -> "t:[" ^ String.concat "," (List.map atom_text l) ^ "]"

let run (s : serializer) ctx pod z =
  match s_deserialize s ctx pod z with
  | None -> "EXC"
  | Some v ->
    sval_text v ^ " -> " ^ (match v with
        | SV VUnser -> "-"
        | _ -> (match s_serialize s ctx v with Some z' -> string_of_z z' | None -> "EXC"))

let hex_of (s : string) : string =
  String.concat "" (List.init (String.length s) (fun i -> Printf.sprintf "%02x" (Char.code s.[i])))
let unhex (h : string) : string =
  String.init (String.length h / 2) (fun i -> Char.chr (int_of_string ("0x" ^ String.sub h (2 * i) 2)))

let registry_arr = Array.of_list registry

let () =
  try
    while true do
      let line = input_line stdin in
      (try
         match words line with
         | ["e"; i] ->
           let e = registry_arr.(int_of_string i) in
           print_endline (String.concat " " [ocaml_string_of e.e_msg; ocaml_string_of e.e_block; ocaml_string_of e.e_var;
                                             ty_text e.e_ty; ser_text e.e_ser])
         | ["k"; i; ctx; pod; z] ->
           let e = registry_arr.(int_of_string i) in
           print_endline (run e.e_ser (z_of_string ctx) (pod = "1") (z_of_string z))
         | ["x"; s; ctx; pod; z] ->
           print_endline (run (parse_ser s) (z_of_string ctx) (pod = "1") (z_of_string z))
         | ["s"; s; ctx; v] ->
           print_endline (match s_serialize (parse_ser s) (z_of_string ctx) (parse_sval v) with
               | Some z -> string_of_z z | None -> "EXC")
         | ["p"; v] ->
           (* repr() of a plain-data value, as hex; NONE outside the literal fragment *)
           (match parse_sval v with
            | SV x -> (match lit_of_value x with
                | Some p -> print_endline ((if safe_plit p then "safe " else "unsafe ") ^ hex_of (ocaml_string_of (print_plit p)))
                | None -> print_endline "NONE")
            | SDict _ -> print_endline "NONE")
         | ["q"] ->
           (match parse_plit [] with Some p -> print_endline (plit_text p) | None -> print_endline "NONE")
         | ["q"; h] ->
           (* literal_eval of a text given as hex *)
           (match parse_plit (cs (unhex h)) with
            | Some p -> print_endline (plit_text p)
            | None -> print_endline "NONE")
         | ["o"; s; ty] ->
           let s = parse_ser s and t = parse_ty ty in
           print_endline ((if registered_ok s t then "ok" else "bad") ^ " " ^ (if registered_fits s t then "fits" else "misfit"))
         | ["n"] -> print_endline (string_of_int (Array.length registry_arr))
         | _ -> print_endline "?"
       with Failure m -> print_endline ("FAIL " ^ m) | Invalid_argument m -> print_endline ("FAIL " ^ m))
    done
  with End_of_file -> ()
