(* one case per line:  c b0 b1 ...  (compress) | e b0 b1 ... (expand) | r ... (reference) | k ... (canonical?) *)
let () =
  try
    while true do
      let line = input_line stdin in
      match words line with
      | [] -> print_endline ""
      | op :: ws ->
        let l = List.map n_of_int (ints_of_words ws) in
        (match op with
         | "c" -> print_endline (string_of_ints (List.map int_of_n (zc_compress l)))
         | "e" -> (match zc_expand l with
             | Some r -> print_endline ("OK " ^ string_of_ints (List.map int_of_n r))
             | None -> print_endline "ERR")
         | "r" -> print_endline (string_of_ints (List.map int_of_n (zc_ref l)))
         | "k" -> print_endline (if canonical l then "1" else "0")
         | _ -> print_endline "?")
    done
  with End_of_file -> ()
