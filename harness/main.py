import argparse
import importlib
import os
import sys

from harness.common import framework


def main():
    ap = argparse.ArgumentParser()
    ap.add_argument("prop")
    ap.add_argument("--tier", default=os.environ.get("VERIF_TIER", "quick"), choices=["quick", "thorough"])
    ap.add_argument("--replay", default=None)
    ap.add_argument("--seed", type=int, default=int(os.environ.get("VERIF_SEED", "0")))
    a = ap.parse_args()
    mod = importlib.import_module("harness.props." + a.prop.lower())
    sys.exit(framework.run_property(mod, a.tier, a.seed, a.replay))


if __name__ == "__main__":
    main()
