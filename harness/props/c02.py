"""C02 - pass-through fidelity: unmodified datagrams re-encode byte-identically.

Model: the same codec as C01 (coq/theories/Tmpl/Codec.v) plus the lazy-parse state of Message
(m_raw / ensure_parsed / lrun) and the str/bytes presentation of text fields (present / pack_view);
proofs Tmpl/PassProofs.v + Tmpl/ViewProofs.v, theorems Props/C02.v.
"""
import itertools
import json
import logging
import os

from harness.common.framework import CorrResult
from harness.props import c01
from harness.translate import template as tmpl_tr

PROP_ID = "C02"
COQ_PROPS = "theories/Props/C02.v"
COQ_EXTRA = ["gen/Template_gen.v"]
EXTRACT = ("theories/Extract/ExC01.v", "c01_driver.ml")
EXTRACT_Z = True
TRUSTED = c01.TRUSTED + [
    "lazy parsing: Message.raw_body + Message.deserializer are the single field m_raw (the weak reference to the "
    "deserializer is taken to be alive - `msg.deserializer()` returning None after the deserializer was collected is not "
    "modelled; the harness keeps the deserializer alive). Touching Message.blocks is lstep OpBody (= ensure_parsed); "
    "a failing parse raises to the caller and leaves the message as it was",
    "text guessing of _parse_var: `present` (probably_binary / probably_text are read from the live template by the "
    "translator; bytes.decode('utf8') validity is the modelled predicate utf8_valid, the theorem holds for ANY validity "
    "predicate) and `_pack_string` = pack_view; that str -> UTF-8 -> str is the identity on valid UTF-8 is assumed of the codec",
    "single-precision floats pass through a Python float: bit patterns are preserved except that a signalling NaN "
    "is quieted (modelled: quiet_groups). This makes the full-strength parsed pass-through FALSE; see C02_parsed_passthrough_refuted",
    "'the re-encoded datagram decodes to the same message' is proved as C02_same_message under the one residual hypothesis "
    "recode_within_cap (for zero-coded messages the re-encoded plain body is at most 0x3000 bytes); without it the statement is false "
    "(C02_same_message_refuted / known finding reencoded-above-zerocode-cap, and C02_ex_cap_window_excluded shows the witness is exactly "
    "the excluded class). Equality there is on wire values (the parsed message already holds quieted floats)",
]

OPS = ["", "h", "b", "hb", "bh", "bb", "hbhb"]


class LeftCapture(logging.Handler):
    def __init__(self):
        super().__init__(level=logging.WARNING)
        self.left = 0

    def emit(self, record):
        try:
            if isinstance(record.msg, str) and record.msg.startswith("Left "):
                self.left += 1
        except Exception:
            pass


_CAP = None


def capture():
    """observe the implementation's own 'Left N bytes unread' warning"""
    global _CAP
    if _CAP is None:
        _CAP = LeftCapture()
        lg = logging.getLogger("message.udpdeserializer")
        lg.addHandler(_CAP)
        lg.propagate = False
        lg.setLevel(logging.WARNING)
    return _CAP


def py_canonical(e: bytes) -> bool:
    i, n = 0, len(e)
    while i < n:
        if e[i] == 0:
            if i + 1 >= n or e[i + 1] == 0:
                return False
            if e[i + 1] < 255 and i + 2 < n and e[i + 2] == 0:
                return False
            i += 2
        else:
            i += 1
    return True


def zc_noncanonical(rng, data: bytes) -> bytes:
    """a valid but non-canonical zero-coding of data: split runs, wrap form, lone trailing zero"""
    out = bytearray()
    i, n = 0, len(data)
    while i < n:
        if data[i] != 0:
            out.append(data[i])
            i += 1
            continue
        j = i
        while j < n and data[j] == 0:
            j += 1
        run = j - i
        while run > 0:
            if run > 256 and rng.random() < 0.5:
                k = rng.randrange(1, run // 256 + 1)
                rem = run - 256 * k
                nn = rng.randrange(1, min(rem, 255) + 1) if rem >= 1 else None
                if nn is None:
                    k -= 1
                    nn = 255 if k else min(run, 255)
                    if not k:
                        out += bytes([0, nn])
                        run -= nn
                        continue
                out += b"\x00" + b"\x00" * k + bytes([nn])
                run -= 256 * k + nn
                continue
            if run == 1 and j == n and rng.random() < 0.5:
                out.append(0)          # 00 at the very end stands for one zero
                run = 0
                continue
            piece = rng.randrange(1, min(run, 255) + 1)
            out += bytes([0, piece])
            run -= piece
        i = j
    return bytes(out)


class ImplRun:
    """observations on the implementation for one datagram"""

    def __init__(self, im: c01.Impl):
        self.im = im
        self.cap = capture()

    def lazy(self, b: bytes, ops: str):
        im = self.im
        try:
            m = im.de_lazy.deserialize(b)
        except Exception as e:
            return {"header": "EXC:" + type(e).__name__}
        raw0 = m.raw_body
        failed = False
        left0 = self.cap.left
        for o in ops:
            if o == "h":
                _ = (m.name, m.send_flags, m.packet_id, m.acks, m.extra, m.offset)
            else:
                try:
                    _ = m.blocks
                except Exception:
                    failed = True
        out = im.serialize(m)
        return {"header": "OK", "parsed": m.raw_body is None, "failed": failed, "raw_kept": m.raw_body == raw0,
                "left": self.cap.left > left0, "out": out, "msg": m, "raw0": raw0}

    def eager(self, b: bytes):
        im = self.im
        left0 = self.cap.left
        d = im.deserialize(b)
        if isinstance(d, str):
            return {"res": "ERR", "exc": d}
        out = im.serialize(d)
        return {"res": "OK", "out": out, "msg": d, "left": self.cap.left > left0}


# --------------------------------------------------------------------------
# datagram generator

SNAN = [bytes.fromhex("0000a07f"), bytes.fromhex("0100807f"), bytes.fromhex("4523a1ff"), bytes.fromhex("ffffbf7f")]
QNAN = [bytes.fromhex("0000c07f"), bytes.fromhex("ffffffff")]


def split_datagram(m, b: bytes):
    """(6 header bytes, body, ack trailer) of a datagram the implementation produced for message m"""
    tail = (4 * len(m.acks) + 1) if int(m.send_flags) & 0x10 else 0
    return b[:6], b[6:len(b) - tail], b[len(b) - tail:]


def gen_datagrams(ctx, im: c01.Impl):
    """yields (kind, datagram bytes)"""
    rng = ctx.rng
    g = c01.Gen(im, rng)
    for f, c in c01.corpus_cases("C02"):
        if "datagram" in c:
            yield "corpus", bytes.fromhex(c["datagram"])
    spec = c01.special_types(im)
    text_types = [t for t in im.tmsgs if any(tv.text and not tv.bin for b in t.blocks for tv in b.vars)]
    f32_types = [t for t in im.tmsgs if any(tv.ty in c01.F32S for b in t.blocks for tv in b.vars)]
    pools = [("special", spec), ("text", text_types), ("f32", f32_types), ("any", im.tmsgs)]
    n = ctx.pick(1600, 24000)
    for i in range(n):
        kind, pool = pools[i % len(pools)]
        t = rng.choice(pool)
        m = g.message(t, big_ok=(i % 7 == 0))
        if not c01.in_domain(im, m):
            continue
        b = im.serialize(m)
        if isinstance(b, str):
            continue
        yield kind, b
        k = rng.random()
        hdr, body, tail = split_datagram(m, b)
        if k < 0.25:
            yield "mutated", c01.mutate(rng, b)
        elif k < 0.35:
            # unknown trailing bytes inside the body (before the ack trailer)
            junk = bytes(rng.getrandbits(8) or 1 for _ in range(rng.randrange(1, 6)))
            if int(m.send_flags) & 0x80:
                yield "trailing", hdr + body + junk + tail
            else:
                yield "trailing", hdr + body + junk + tail
        elif k < 0.5 and int(m.send_flags) & 0x80:
            m.send_flags = int(m.send_flags) & ~0x80
            b0 = im.serialize(m)
            m.send_flags = int(m.send_flags) | 0x80
            if not isinstance(b0, str):
                _, plain, _ = split_datagram(m, b0)
                yield "noncanonical", hdr + zc_noncanonical(rng, plain) + tail
        elif k < 0.6:
            # truncate the body, keep the trailer
            if len(body) > 1:
                yield "truncated", hdr + body[:rng.randrange(1, len(body))] + tail
        elif k < 0.72 and kind == "f32" and not (int(m.send_flags) & 0x80):
            # plant NaN bit patterns into the body
            bb = bytearray(body)
            if len(bb) > 8:
                for _ in range(rng.choice((1, 2, 6))):
                    pos = rng.randrange(4, len(bb) - 4)
                    bb[pos:pos + 4] = rng.choice(SNAN + QNAN)
                yield "nanbits", hdr + bytes(bb) + tail
    # all truncations of a few datagrams (exhaustive small scope over the cut position)
    for t in rng.sample(im.tmsgs, ctx.pick(10, 80)):
        m = g.message(t, big_ok=False, counts=1)
        b = im.serialize(m)
        if isinstance(b, str) or len(b) > 220:
            continue
        for cut in range(len(b) + 1):
            yield "cut", b[:cut]


def targeted_datagrams(im: c01.Impl):
    """hand-built datagrams for the text / binary guessing and for float bit patterns"""
    M, B = im.Message, im.Block
    zero = im.dt.UUID()
    for payload in c01.BLOBS + [b"abc\x00", b"abc\x00\x00", b"\x00", b"", b"h\xc3\xa9\x00", b"\xff\x00", b"a\x00\x00b\x00"]:
        if len(payload) > 1000:
            continue
        for fl in (0, 0x80):
            m = M("ChatFromViewer", B("AgentData", AgentID=zero, SessionID=zero),
                  B("ChatData", Message=bytes(payload), Type=1, Channel=0), packet_id=1, flags=fl)
            b = im.serialize(m)
            if not isinstance(b, str):
                yield "text", b
    for pat in SNAN + QNAN:
        m = M("AgentThrottle", B("AgentData", AgentID=zero, SessionID=zero, CircuitCode=1),
              B("Throttle", GenCounter=0, Throttles=b""), packet_id=1, flags=0)
        b = im.serialize(m)
        if isinstance(b, str):
            break
        yield "plain", b
    # a zero-coded body whose last chunk (wrap form at the very end: 00 00 = 257 zeros) overshoots the decoder's
    # 0x3000 limit: accepted, but its canonical re-encoding is not
    u = im.dt.UUID(bytes=b"\x11" * 16)
    m = M("ChatFromViewer", B("AgentData", AgentID=u, SessionID=u),
          B("ChatData", Message=b"A" * 12000 + b"\x00" * 252, Type=0, Channel=0), packet_id=1, flags=0)
    b0 = im.serialize(m)
    if not isinstance(b0, str):
        core = b0[6:-257]
        enc = bytearray()
        for c in core:
            enc += b"\x00\x01" if c == 0 else bytes([c])
        yield "capwindow", bytes([0x80]) + b0[1:6] + bytes(enc) + b"\x00\x00"
    # F32 field: CameraProperty? use `AgentHeightWidth`-free choice: find the first message with a single F32 in a Single block
    for t in im.tmsgs:
        cands = [(b, tv) for b in t.blocks for tv in b.vars if tv.ty == "TF32" and b.kind == "S"]
        if not cands or len(t.blocks) > 2:
            continue
        for pat in SNAN + QNAN:
            m = M(t.name, packet_id=2, flags=0)
            for b in t.blocks:
                m.create_block_list(b.name)
                for _ in range({"S": 1, "M": b.number, "V": 1}[b.kind]):
                    m.add_block(B(b.name, fill_missing=True))
            bts = im.serialize(m)
            if isinstance(bts, str):
                continue
            # locate the float by encoding a marker value
            blk = m._blocks[cands[0][0].name][0]
            blk.vars[cands[0][1].name] = 1.0
            b1 = im.serialize(m)
            pos = b1.find(bytes.fromhex("0000803f"))
            if pos < 0:
                continue
            yield "snan" if pat in SNAN else "qnan", b1[:pos] + pat + b1[pos + 4:]
        break


# --------------------------------------------------------------------------
# the property evaluated on the implementation alone

def check_datagram(im: c01.Impl, run: ImplRun, b: bytes, model_q=None):
    """C02 on the implementation. Returns a list of failure descriptions (empty = holds)."""
    out = []
    base = {"datagram": b.hex()}
    r0 = run.lazy(b, "")
    if r0["header"] != "OK":
        return out                     # not accepted by the header parser: outside the quantifier
    # (1) never parsed
    if r0["out"] != b:
        out.append(dict(base, clause="never-parsed datagram re-encodes to the bytes it arrived with", ops="",
                        got=r0["out"] if isinstance(r0["out"], str) else r0["out"].hex(), **{"class": "raw-passthrough-differs"}))
    rb = run.lazy(b, "b")
    if rb["failed"]:
        # (3) failed parse keeps the datagram forwardable
        if not rb["raw_kept"] or rb["out"] != b:
            out.append(dict(base, clause="after a failed body parse the datagram is still forwarded byte-identically", ops="b",
                            raw_kept=rb["raw_kept"], got=rb["out"] if isinstance(rb["out"], str) else rb["out"].hex(),
                            **{"class": "failed-parse-loses-raw"}))
        return out
    if not rb["parsed"]:
        return out
    # (2) parsed: byte identity when the zero-coding is canonical (and the body was consumed exactly)
    zc = bool(b[0] & 0x80)
    canon = (not zc) or py_canonical(r0["raw0"])
    for how, res, left in (("lazy", rb["out"], rb["left"]),):
        if canon and not left and res != b:
            cls = "f32-signalling-nan-quieted" if model_q is False else "parsed-passthrough-differs"
            out.append(dict(base, clause="parsed datagram with canonical zero-coding re-encodes to the bytes it arrived with",
                            how=how, got=res if isinstance(res, str) else res.hex(), **{"class": cls}))
    re_ = run.eager(b)
    if re_["res"] == "OK":
        if canon and not re_["left"] and re_["out"] != b:
            cls = "f32-signalling-nan-quieted" if model_q is False else "parsed-passthrough-differs"
            out.append(dict(base, clause="parsed datagram with canonical zero-coding re-encodes to the bytes it arrived with",
                            how="eager", got=re_["out"] if isinstance(re_["out"], str) else re_["out"].hex(), **{"class": cls}))
    # (2b) in every case the re-encoding decodes to the same message
    if isinstance(rb["out"], str):
        out.append(dict(base, clause="a parsed datagram can be re-encoded", got=rb["out"], **{"class": "reencode-raises"}))
    else:
        d1 = im.deserialize(b)
        d2 = im.deserialize(rb["out"])
        l1 = d1 if isinstance(d1, str) else c01.to_line(im, d1)
        l2 = d2 if isinstance(d2, str) else c01.to_line(im, d2)
        if l1 != l2:
            cls = "reencoded-decodes-differently"
            if zc and isinstance(d2, str):
                try:
                    if len(im.de_eager.zero_code_expand(r0["raw0"])) > 0x3000:
                        cls = "reencoded-above-zerocode-cap"
                except Exception:
                    pass
            out.append(dict(base, clause="the re-encoded datagram decodes to the same message", got=l2[:300], want=l1[:300],
                            **{"class": cls}))
    return out


def present_cases(ctx):
    rng = ctx.rng
    pls = list(c01.BLOBS) + [b"abc\x00", b"a", b"\x00\x00\x00", b"\xe2\x82\xac\x00", b"\xe2\x82\x00", b"\xf0\x9f\x98\x80\x00",
                              b"\xf8\x88\x80\x80\x80\x00", b"\xef\xbf\xbf\x00", b"\xe0\x9f\xbf\x00", b"\xed\x9f\xbf\x00"]
    for _ in range(ctx.pick(300, 5000)):
        n = rng.randrange(0, 9)
        p = bytes(rng.choice((0, 0x41, 0x7f, 0x80, 0xbf, 0xc2, 0xdf, 0xe0, 0xed, 0xef, 0xf0, 0xf4, 0xf5, 0xa0, 0x9f, 0x90, 0x8f,
                              rng.getrandbits(8))) for _ in range(n))
        if rng.random() < 0.6:
            p += b"\x00"
        pls.append(p)
    return [p for p in pls if len(p) < 250]


def correspond_present(ctx, im: c01.Impl):
    """_parse_var's str / JankStringyBytes / bytes guess vs `present utf8_valid`, on real template variables of each kind"""
    from hippolyzer.lib.base import serialization as se
    res = CorrResult(suite="text/binary presentation of Variable payloads: _parse_var vs present",
                     rule="one template variable for each (probably_binary, probably_text) combination that occurs; payloads: "
                          "empty, NUL endings (none/one/two), embedded NULs, valid and invalid UTF-8 (overlong, surrogates, "
                          "> U+10FFFF, truncated sequences) and seeded random byte strings over UTF-8 lead/continuation bytes; "
                          "compared: kind of Python value (str / JankStringyBytes / bytes), its content, and its re-encoding by "
                          "_pack_string; non-trivial = payload that is not empty")
    picks = {}
    for t in im.tmsgs:
        for b in t.blocks:
            for tv in b.vars:
                if tv.ty == "TVarlen" and tv.size == 1 and (tv.bin, tv.text) not in picks:
                    picks[(tv.bin, tv.text)] = tv
    from hippolyzer.lib.base.message.data_packer import _pack_string
    lines, meta = [], []
    for (bn, tx), tv in sorted(picks.items()):
        for p in present_cases(ctx):
            lines.append("V %d %d %s" % (bn, tx, p.hex() or "."))
            meta.append((tv, p))
    outs = ctx.run_driver(lines)
    for (tv, p), mo in zip(meta, outs):
        try:
            rd = se.BufferReader("<", bytes([len(p)]) + p)
            v = im.de_eager._parse_var(rd, tv.py)
            kind = c01.view_kind(im, v)
            content = v.encode("utf8") if isinstance(v, str) else bytes(v)
            io = "%s %s" % (kind, content.hex() or ".")
            repacked = bytes(_pack_string(v))
        except Exception as e:
            io, repacked = "EXC:" + type(e).__name__, None
        if io != mo:
            res.disagreements.append({"op": "present", "var": tv.name, "bin": tv.bin, "text": tv.text, "payload": p.hex(),
                                      "impl": io, "model": mo})
        if repacked is not None and repacked != p:
            res.impl_violations.append({"clause": "a parsed text/binary field re-encodes to the payload it was read from",
                                        "var": tv.name, "payload": p.hex(), "got": repacked.hex(), "class": "text-field-not-reencodable"})
        res.evaluations += 1
        if p:
            res.distinct_nontrivial += 1
    res.distribution = {"variables": {"%d%d" % k: v.name for k, v in picks.items()}, "payloads": len(present_cases(ctx))}
    res.samples = [{"line": l, "model": o} for l, o in list(zip(lines, outs))[:4]]
    return res


def generate(ctx):
    msgs, obl = tmpl_tr.generate(ctx)
    return obl


def correspond(ctx):
    im = c01.impl()
    run = ImplRun(im)
    res = CorrResult(suite="lazy/eager pass-through: impl vs extracted model",
                     rule="datagrams serialized by the implementation from template-generated conformant messages (pools: types with "
                          "special variables, with text fields, with F32 fields, any), then as is / byte-mutated / unknown bytes appended to "
                          "the body / re-zero-coded non-canonically (split runs, wrap form, lone final zero) / body truncated / NaN bit "
                          "patterns planted, every cut position of some datagrams, hand-built text payloads (NUL endings, invalid UTF-8) "
                          "and signalling/quiet NaN floats. Each datagram: header parse, then every op sequence in "
                          + repr(OPS) + " (h = header fields only, b = Message.blocks) under deferred parsing, and eager deserialize; "
                          "compared with the model: header accepted?, parsed?, access raised?, re-encoded bytes; plus the impl-level "
                          "statement of C02. non-trivial = distinct datagram accepted by the header parser")
    dist = {}
    seen = set()
    batch = []

    def flush():
        nonlocal batch
        if not batch:
            return
        lines = []
        for kind, b in batch:
            hx = b.hex() or "."
            for ops in OPS:
                lines.append("L %s %s" % (ops or "-", hx))
            lines.append("E " + hx)
        outs = ctx.run_driver(lines)
        i = 0
        for kind, b in batch:
            mq = None
            hdr_ok = False
            for ops in OPS:
                mo = outs[i]
                i += 1
                r = run.lazy(b, ops)
                if r["header"] != "OK":
                    io = "HERR"
                else:
                    hdr_ok = True
                    o = r["out"]
                    io_core = ("P%d F%d" % (1 if r["parsed"] else 0, 1 if r["failed"] else 0),
                               "ERR" if isinstance(o, str) else "OK " + (o.hex() or "."))
                    parts = mo.split(" ")
                    if len(parts) >= 5 and parts[0].startswith("P"):
                        mcore = (" ".join(parts[0:2]), " ".join(parts[4:]))
                        if ops == "b":
                            mq = parts[2] == "Q1"
                            # the model's "no bytes left unread" against the implementation's own warning
                            if r["parsed"] and (parts[3] == "R0") != r["left"]:
                                res.disagreements.append({"op": "leftover", "datagram": b.hex(), "impl_left": r["left"], "model": parts[3]})
                    else:
                        mcore = (mo, "")
                    if io_core != mcore:
                        res.disagreements.append({"op": "lazy", "ops": ops, "kind": kind, "datagram": b.hex(),
                                                  "impl": " ".join(io_core)[:300], "model": mo[:300]})
                    res.evaluations += 1
                    continue
                if io != mo:
                    res.disagreements.append({"op": "lazy", "ops": ops, "kind": kind, "datagram": b.hex(), "impl": io, "model": mo[:300]})
                res.evaluations += 1
            mo = outs[i]
            i += 1
            e = run.eager(b)
            io = "ERR" if e["res"] == "ERR" else ("SERR" if isinstance(e["out"], str) else "OK " + (e["out"].hex() or "."))
            if io != mo:
                res.disagreements.append({"op": "eager", "kind": kind, "datagram": b.hex(), "impl": io[:300], "model": mo[:300],
                                          "impl_exc": e.get("exc")})
            res.evaluations += 1
            if hdr_ok:
                res.distinct_nontrivial += 1
                dist["header_ok"] = dist.get("header_ok", 0) + 1
                rb = run.lazy(b, "b")
                key = "body_failed" if rb["failed"] else ("body_parsed_left" if rb["left"] else "body_parsed")
                dist[key] = dist.get(key, 0) + 1
                if mq is False:
                    dist["signalling_nan_met"] = dist.get("signalling_nan_met", 0) + 1
            for v in check_datagram(im, run, b, model_q=mq):
                v["kind"] = kind
                res.impl_violations.append(v)
        batch = []

    for kind, b in itertools.chain(targeted_datagrams(im), gen_datagrams(ctx, im)):
        if b in seen:
            continue
        seen.add(b)
        dist[kind] = dist.get(kind, 0) + 1
        batch.append((kind, b))
        if len(batch) >= 300:
            flush()
    flush()
    res.distribution = dist
    res.samples = [{"kind": k, "datagram": b.hex()[:160]} for k, b in itertools.islice(targeted_datagrams(im), 4)]
    # de-duplicate violations by class, keep the shortest datagram of each
    best = {}
    for v in res.impl_violations:
        k = (v.get("class"), v.get("clause"))
        if k not in best or len(v["datagram"]) < len(best[k]["datagram"]):
            best[k] = v
    ctx.notes.append("impl violations by class: " + json.dumps({str(k[0]): sum(1 for v in res.impl_violations if v.get("class") == k[0]) for k in best}))
    # the two recorded findings last, so that anything new is what gets reported first
    known_cls = ("f32-signalling-nan-quieted", "reencoded-above-zerocode-cap")
    res.impl_violations = sorted(best.values(), key=lambda v: (v.get("class") in known_cls, str(v.get("class"))))
    for v in res.impl_violations:
        if len(v.get("datagram", "")) > 4000:
            v["datagram_note"] = "long datagram (%d bytes)" % (len(v["datagram"]) // 2)
    return [res, correspond_present(ctx, im)]


def search(ctx, hints):
    im = c01.impl()
    run = ImplRun(im)
    for h in hints:
        for key in ("impl_violation", "disagreement"):
            d = h.get(key)
            if d and d.get("datagram"):
                vs = check_datagram(im, run, bytes.fromhex(d["datagram"]))
                if vs:
                    return shrink(im, run, vs[0])
    for kind, b in itertools.chain(targeted_datagrams(im), gen_datagrams(ctx, im)):
        vs = check_datagram(im, run, b)
        if vs:
            return shrink(im, run, vs[0])
    return None


def shrink(im, run, v):
    """try dropping single bytes from the end of the body while the same clause keeps failing"""
    b = bytes.fromhex(v["datagram"])
    cls = v.get("class")
    changed = True
    rounds = 0
    while changed and rounds < 200:
        changed = False
        rounds += 1
        for i in range(len(b) - 1, 5, -1):
            t = b[:i] + b[i + 1:]
            ws = [w for w in check_datagram(im, run, t) if w.get("class") == cls]
            if ws:
                b, v, changed = t, ws[0], True
                break
    return v


def replay(ctx, case):
    im = c01.impl()
    run = ImplRun(im)
    if "datagram" not in case:
        return False, "no datagram in case"
    vs = check_datagram(im, run, bytes.fromhex(case["datagram"]))
    if case.get("class"):
        same = [v for v in vs if v.get("class") == case["class"] or
                (case["class"] == "f32-signalling-nan-quieted" and v.get("class") == "parsed-passthrough-differs")]
        return bool(same), (same[0] if same else "holds")
    return bool(vs), (vs[0] if vs else "holds")
