"""C08 - serialization combinators: read(write(v)) == v, exact framing, composable.
Model: coq/theories/Spec/Spec.v (deep embedding of serialization.py's combinator grammar),
proofs: Spec/SpecProofs.v, property theorems: Props/C08.v."""
import glob
import json
import os

from harness.common.framework import CorrResult, VERIF
from harness.translate import c08_specs as S
from harness.translate import c08_gen as G

PROP_ID = "C08"
COQ_PROPS = "theories/Props/C08.v"
COQ_EXTRA = ["gen/C08_registry_gen.v"]
EXTRACT = ("theories/Extract/ExC08.v", "c08_driver.ml")
TRUSTED = [
    "modelled by hand (Spec/Spec.v): serialize/deserialize/calc_size of SerializablePrimitive (ints; floats as raw bit "
    "patterns), ByteArray, BytesFixed, BytesGreedy, BytesTerminated, Str, StrFixed, CStr, UUID, Null, Tuple, Template, "
    "Collection, OptionalPrefixed, OptionalFlagged, BoolAdapter, IntEnum, IntFlag, BitField (helpers.BitField pack/unpack), "
    "TypedBytesGreedy/Array/Fixed/Terminated (incl. skip_none), IfPresent, LengthSwitch, EnumSwitch, FlagSwitch, ContextSwitch and "
    "ContextAdapter (context function = lookup of a sibling field); BufferReader as the list of remaining bytes, BufferWriter as "
    "concatenation, ParseContext as the enclosing dict (empty for sequence members), any exception as None",
    "identified at translation level (no separate model constructor): Dataclass = Template(record flag: calc_size None) with the "
    "instance <-> dict conversion done by the harness; BitfieldDataclass = BitField + that conversion; TupleCoord family (Vector3, "
    "Vector4, Vector3D, Vector*U16/U8, FixedPointVector3U16) = Tuple of their component specs with the coordinate object <-> "
    "component tuple conversion done by the harness; PackedQuat = its coordinate child with Quaternion(*comps) / .data(n) done "
    "by the harness; Color4() without inversion = its BytesFixed(4) child",
    "opaque int adapters (QuantizedFloat and subclasses, FixedPoint): the Python float is represented in the model by the wire int "
    "the REAL adapter encodes it to (AOpaqueInt = identity on ints).  This is sound exactly under the hypothesis 'lossless on the "
    "wire domain' (encode(decode(z)) == z), which C10 proves per instance; the harness only uses values z with that property and "
    "counts the others ('opaque:samples-outside-lossless-hypothesis')",
    "value abstraction: str = its UTF-8 bytes (CPython's strict utf-8 codec modelled by utf8_ok and compared exhaustively on short "
    "inputs), bool = int 0/1, tuple = list, enum/flag member = its int, float = bit pattern (struct's double<->float conversion "
    "and NaN quieting not modelled; NaN payloads compared up to NaN-ness), names (dict keys, member names) are numbers",
    "proved fragment = specs with wf = true: every modelled constructor.  Domain side conditions that refer to the encoding are part "
    "of domb (TypedBytesTerminated: the inner encoding contains no terminator byte; LengthSwitch: the tag equals the encoded length "
    "of the chosen branch).  BitField's domain is stated as 'the dict is exactly what its packed int unpacks to' (checked "
    "computationally by domb; no separate closed-form range theorem).  NOT modelled (registered trees using them are listed as not "
    "translated): ContextSwitch/ContextAdapter functions other than a sibling-field lookup (ctx._root, ctx._), TEFaceBitfield / "
    "TEExceptionField, NameValuesSerializer, DictAdapter / MultiDictAdapter, StringEnumAdapter, DateAdapter, BitmapAdapter, "
    "AttachmentStateAdapter, Color4 with inversion, ExprAdapter, NumPy adapters, BinaryLLSD, ForwardSerializable recursion, "
    "lazy TypedBytes over context-dependent specs (lazy proxies are forced by the harness), FHReader",
    "mapping-valued values (Template / Dataclass / BitfieldDataclass dict forms, BitField and FlagSwitch dicts): the model value is an "
    "association list that is only ever looked up (Spec/SpecOrder.v: ser is invariant under permutation of a duplicate-free dict, "
    "C08_order_*), the adapter c08_specs.to_sx canonicalises the real dicts to declaration order; every such domain value is also "
    "handed to the real writers in reversed / shuffled insertion order, with FlagSwitch keys as flag members, member names or mixed and "
    "dataclass values as instance or plain dict (c08_gen.reorder; descriptor `order` in a replay case), tuples / lists keep their "
    "order.  DictAdapter / MultiDictAdapter are order-carrying by definition and not modelled",
    "statefulness: spec objects are assumed to carry no state that matters between uses; this is probed, not proved - one pool of "
    "spec OBJECTS is reused across {<,>} x {pod, non-pod} in shuffled orders (write twice, read twice, in-place modification of a "
    "decoded value, phase 2 = phase 1), and a violation that needs earlier uses carries them as `history` (replayed on a freshly "
    "built object; registered objects cannot be rebuilt)",
    "type-confused inputs (a value of the wrong Python type for its spec) are outside the correspondence; a negative length prefix "
    "read through a signed ByteArray/TypedByteArray makes the real reader seek backwards - the model returns None and such cases "
    "are counted as skipped ('neg-length'); decoder runs exceeding the read budget (greedy loop over an entry that consumes "
    "nothing) are counted as 'hang' and skipped",
    "enum tables: IntFlag classes are generated / translated with their canonical single-bit members only (iter(flag_cls)); a "
    "registered IntFlag class with a canonical multi-bit member would be reported as not translated",
    "(G) translator harness/translate/c08_registry.py: walks se.SUBFIELD_SERIALIZERS and templates.py on every run and regenerates "
    "coq/gen/C08_registry_gen.v (one `wf reg_i = true` obligation + C08_roundtrip instance per translated tree); enum/flag instance "
    "serializers are composed with the integer wire type of their message-template variable",
    "while decoding, the harness substitutes serialization.BufferReader by a counting subclass (read budget, detection of negative "
    "byte counts), also for the inner readers of TypedBytes; observation points are BufferWriter.copy_buffer(), the value returned "
    "by Reader.read and len(reader) afterwards, spec.calc_size()",
]

READ_BUDGET = 20000


class Hang(BaseException):
    pass


_STATE = {"budget": 0, "neg": False, "cls": None, "orig": None}


def _guard_cls():
    se, _ = S.mods()
    if _STATE["cls"] is None:
        base = se.BufferReader if _STATE["orig"] is None else _STATE["orig"]
        _STATE["orig"] = base

        class GuardReader(base):
            __slots__ = ()

            def read(self, ser_type, ctx=None, peek=False):
                _STATE["budget"] -= 1
                if _STATE["budget"] < 0:
                    raise Hang()
                return base.read(self, ser_type, ctx=ctx, peek=peek)

            def read_bytes(self, num_bytes, peek=False, to_bytes=False, check_len=True):
                if num_bytes < 0:
                    _STATE["neg"] = True
                _STATE["budget"] -= 1
                if _STATE["budget"] < 0:
                    raise Hang()
                return base.read_bytes(self, num_bytes, peek=peek, to_bytes=to_bytes, check_len=check_len)
        _STATE["cls"] = GuardReader
    return _STATE["cls"]


def impl_ser(obj, v, e):
    """-> bytes or 'EXC:<type>' (observed at BufferWriter.copy_buffer())"""
    se, _ = S.mods()
    w = se.BufferWriter(e)
    try:
        w.write(obj, v)
        return w.copy_buffer()
    except RecursionError:
        raise
    except Exception as ex:
        return "EXC:" + type(ex).__name__


def impl_de(obj, data, e, pod):
    """-> ('OK', value, bytes_left) | ('ERR', exc) | ('HANG',) | ('NEG',)"""
    se, _ = S.mods()
    cls = _guard_cls()
    _STATE["budget"] = READ_BUDGET
    _STATE["neg"] = False
    old = se.BufferReader
    se.BufferReader = cls            # inner readers of TypedBytes are guarded too
    try:
        r = cls(e, data, pod=pod)
        try:
            v = r.read(obj)
            left = len(r)
        except Hang:
            return ("HANG",)
        except Exception as ex:
            if _STATE["neg"]:
                return ("NEG",)
            return ("ERR", type(ex).__name__)
        if _STATE["neg"]:
            return ("NEG",)
        return ("OK", v, left)
    finally:
        se.BufferReader = old


def impl_size(obj):
    try:
        s = obj.calc_size()
    except Exception as ex:
        return "EXC:" + type(ex).__name__
    return "N" if s is None else "S" + S.hx(s)


# ---------------------------------------------------------------- the property on the implementation

def in_fragment(n):
    """side conditions under which the property is claimed (Spec.wf) - stage-2 combinators get their own
    conditions here so that the oracle also covers them"""
    return S.wf(n, ext=True)


def may_reject(node):
    """a generated domain value may legitimately be unserializable: the inner encoding need not fit a
    TypedBytes frame, an enum member need not fit the primitive it is written with"""
    for x in node.walk():
        if x.k == "typed" and x.a[0][0] in ("fixed", "array", "term"):
            return True
        if x.k == "adapter" and x.a[0][0] == "enum":
            c = x.ch[0]
            lo, hi = S.ip_range(c.a[0] == "s", c.a[1])
            if any(not (lo <= z <= hi) for _, z in x.a[0][2]):
                return True
        if x.k in S.STAGE2:
            return True
    return False


def check_property(node, e, pod, v, trail: bytes, bad=False, variant=None):
    """C08's clauses evaluated directly on the real classes for one (spec, value, endianness, mode, trailing bytes).
    Returns None or a violation dict with a stable `class`.
    variant: the value is handed to the real writer with its mappings rebuilt in another insertion order / key form
    (G.reorder; an equal value, so every clause is unchanged; `value` in the report stays the canonical term and `order`
    says how to rebuild the dicts)"""
    obj = S.build(node)
    base = {"spec": S.sexp(node), "e": e, "pod": int(pod), "trail": S.hb(trail)}
    if node.x.get("regname"):
        base["registry"] = node.x["regname"]
    try:
        base["value"] = S.to_sx(node, pod, v)
    except S.Shape:
        base["value"] = repr(v)
    if variant:
        v, _ = G.reorder(node, v, variant)
        base["order"] = variant
        base["python_value"] = repr(v)[:400]
    size = impl_size(obj)
    if size.startswith("EXC"):
        return dict(base, clause="a size query never fails", **{"class": "size-query-raises"}, got=size)
    b = impl_ser(obj, v, e)
    if bad:
        if not isinstance(b, str):
            return dict(base, clause="a value outside a length or range limit is rejected rather than written",
                        **{"class": "limit-not-rejected"}, written=S.hb(b))
        return None
    if isinstance(b, str):
        if not may_reject(node):
            return dict(base, clause="every value of the domain can be written", **{"class": "domain-value-rejected"}, got=b)
        return None      # does not fit an outer frame / no enum member fits the primitive: nothing is claimed
    if size != "N" and len(b) != int(size[1:], 16):
        return dict(base, clause="every encoding has exactly the reported size", **{"class": "size-mismatch"},
                    size=size, written=S.hb(b))
    want = base["value"]
    r = impl_de(obj, b, e, pod)
    if r[0] in ("HANG", "NEG"):
        return dict(base, clause="read(write(v)) terminates", **{"class": "roundtrip-" + r[0].lower()}, written=S.hb(b))
    if r[0] == "ERR":
        return dict(base, clause="read(write(v)) == v", **{"class": "roundtrip-raises"}, written=S.hb(b), got=r[1])
    try:
        got = S.to_sx(node, pod, r[1])
    except S.Shape as ex:
        got = "shape:" + str(ex)
    if not S.same_value(got, want) or "nan" in want:
        return dict(base, clause="read(write(v)) == v", **{"class": "roundtrip-value"}, written=S.hb(b), got=got)
    if r[2] != 0:
        return dict(base, clause="reading consumes exactly the bytes written", **{"class": "roundtrip-consumed"},
                    written=S.hb(b), left=r[2])
    if trail and S.delimited(node):
        r = impl_de(obj, b + trail, e, pod)
        if r[0] != "OK":
            return dict(base, clause="encoding followed by further bytes decodes to the value",
                        **{"class": "compose-raises"}, written=S.hb(b), got=r[0])
        try:
            got = S.to_sx(node, pod, r[1])
        except S.Shape as ex:
            got = "shape:" + str(ex)
        if not S.same_value(got, want):
            return dict(base, clause="encoding followed by further bytes decodes to the value",
                        **{"class": "compose-value"}, written=S.hb(b), got=got)
        if r[2] != len(trail):
            return dict(base, clause="... and leaves exactly those bytes unread", **{"class": "compose-consumed"},
                        written=S.hb(b), left=r[2])
    return None


# ---------------------------------------------------------------- case streams

def corpus_cases():
    out = []
    for p in sorted(glob.glob(os.path.join(VERIF, "corpus", "C08", "*.json"))):
        for c in json.load(open(p)):
            out.append(c)
    return out


def spec_stream(ctx):
    """yields (kind, Node)"""
    for c in corpus_cases():
        yield "corpus", S.node_of_sx(S.parse_sx(c["spec"]))
    for n in G.exhaustive_specs(ctx.pick(1, 2)):
        yield "exhaustive", n
    rng = ctx.rng
    for i in range(ctx.pick(1400, 30000)):
        depth = rng.choice((1, 2, 2, 3, 3) if not ctx.thorough else (2, 3, 3, 4, 5))
        yield "random", G.gen_spec(rng, depth, need_delim=rng.random() < 0.3, sloppy=0.0, stage2=0.0)
    for i in range(ctx.pick(300, 6000)):
        yield "random-sloppy", G.gen_spec(rng, rng.choice((1, 2, 3)), sloppy=0.15, stage2=0.0)
    for i in range(ctx.pick(300, 6000)):
        yield "random-stage2", G.gen_spec(rng, rng.choice((1, 2, 3)), sloppy=0.03, stage2=0.35)
    for i in range(ctx.pick(140, 3000)):
        yield "random-mapping", G.gen_dicty(rng, rng.choice((1, 2, 2, 3)), need_delim=rng.random() < 0.3)


TRAILS = [b"\x00", b"\x01", b"\xff\xff", b"\x00\x00\x00\x00\x00", b"\n", b"a;b\x00"]


class OutOfDomain(Exception):
    pass


def fix_tags(node, e, v, ctxd=None):
    """LengthSwitch values carry the byte count of their window as tag: recompute it from the real encoding
    (everywhere in the value); a default-branch value whose size is an explicit key is outside the domain, and so is
    a TypedBytesTerminated value whose inner encoding contains a terminator byte"""
    k = node.k
    if not any(x.k == "lenswitch" or (x.k == "typed" and x.a[0][0] == "term") for x in node.walk()):
        return v
    if k == "typed":
        if v is None and node.a[1]:
            return v
        inner = fix_tags(node.ch[0], e, v, ctxd)
        if node.a[0][0] == "term" and not S.refs(node.ch[0]):
            b = impl_ser(S.build(node.ch[0]), inner, e)
            if not isinstance(b, str) and any(t in b for t in node.a[0][1]):
                raise OutOfDomain()        # the inner encoding contains a terminator byte
        return inner
    if k == "null" or (v is None and k in ("opt", "ifpresent", "optflagged")):
        return v
    if k in ("coord", "adapter", "ctxadapter"):
        return v
    if k == "dataclass":
        import dataclasses
        d = v if isinstance(v, dict) else {f.name: getattr(v, f.name) for f in dataclasses.fields(v)}
        d = {kk: fix_tags(c, e, d[kk], d) for kk, c in zip(S.tkeys(node), node.ch)}
        return d if isinstance(v, dict) else type(v)(**d)
    if k == "lenswitch":
        tag, inner = v
        idx = list(node.a[0]).index(tag)
        c = node.ch[idx]
        inner = fix_tags(c, e, inner, ctxd)
        if S.refs(c):
            return (tag, inner)
        b = impl_ser(S.build(c), inner, e)
        if isinstance(b, str):
            return (tag, inner)
        if tag is None and len(b) in node.a[0]:
            raise OutOfDomain()
        return (len(b), inner)
    if k == "tuple":
        if len(v) != len(node.ch):
            return v
        return [fix_tags(c, e, x) for c, x in zip(node.ch, v)]
    if k == "template":
        by = dict(zip(S.tkeys(node), node.ch))
        return {kk: (fix_tags(by[kk], e, x, v) if kk in by else x) for kk, x in v.items()}
    if k == "coll":
        return [fix_tags(node.ch[0], e, x) for x in v]
    if k in ("opt", "ifpresent", "optflagged"):
        return fix_tags(node.ch[0], e, v, ctxd)
    if k == "ctxswitch":
        try:
            i = G.ctx_choice(node, ctxd)
        except G.NoValue:
            return v
        return fix_tags(node.ch[i], e, v, ctxd)
    if k == "flagswitch":
        cls = S.flag_cls(node.a[0])
        out = {}
        for kk, x in v.items():
            for (nm, z), c in zip(node.a[3], node.ch):
                if kk == "F%d" % nm or kk == cls["F%d" % nm]:
                    x = fix_tags(c, e, x, ctxd)
            out[kk] = x
        return out
    if k == "enumswitch":
        tag, inner = v
        tbl, keys = node.a[0], node.a[4]
        z = dict(("E%d" % nm, zz) for nm, zz in reversed(tbl)).get(tag) if isinstance(tag, str) else int(tag)
        return (tag, fix_tags(node.ch[list(keys).index(z)], e, inner, ctxd))
    return v


def value_cases(kind, node, ctx, rng):
    """yields (e, pod, value, bad?)"""
    nvals = 2 if kind == "exhaustive" else (ctx.pick(4, 25) if kind == "registry" else ctx.pick(2, 3))
    for pod in (False, True):
        vals = []
        for _ in range(nvals):
            try:
                vals.append((G.gen_value(node, pod, rng), False))
            except Exception:
                continue
        try:
            b = G.gen_bad(node, pod, rng, budget=300 if rng.random() < 0.97 else 70000)
        except G.NoValue:
            b = None
        if b is not None:
            vals.append((b, True))
        for v, bad in vals:
            for e in ("<", ">"):
                yield e, pod, v, bad


def mutate(rng, b: bytes):
    out = []
    if b:
        out.append(b[:-1])
        i = rng.randrange(len(b))
        out.append(b[:i] + bytes([b[i] ^ (1 << rng.randrange(8))]) + b[i + 1:])
        out.append(b[:i] + bytes([rng.choice((0, 1, 2, 255, 128))]) + b[i + 1:])
    out.append(bytes(rng.randrange(256) if rng.random() < 0.5 else rng.choice((0, 1, 2, 3)) for _ in range(rng.choice((1, 2, 4, 9, 20)))))
    return out


def _engine_result(ctx):
    return CorrResult(
        suite="combinator engine: real serialization.py classes vs extracted Coq interpreters",
        rule="spec trees: corpus + every spec of depth<=2 over a 27-leaf alphabet (exhaustive stream) + seeded random trees of the "
             "combinator grammar (depth<=%d; mostly wf, a 'sloppy' stream ignoring the tail-position discipline, a stage-2 stream with "
             "IfPresent/LengthSwitch/EnumSwitch; wave-2 constructors: OptionalFlagged inside Templates, BitField, Dataclass, TupleCoord "
             "family, opaque quantized/fixed-point adapters, TypedBytesTerminated); per tree and mode values of the derived domain plus one "
             "value violating a single length/range limit; each in {<,>} x {pod, non-pod}.  Compared: serialized bytes or error, calc_size, "
             "static classification (wf/delimited/min_size), domain membership (model domb accepts every generated domain value of a wf "
             "spec and rejects every violating value), decoded value + bytes left on: the exact encoding, encoding + trailing bytes, "
             "truncated / bit-flipped / random bytes.  A mapping-heavy stream (FlagSwitch with >= 2 choices, Templates, Dataclasses, "
             "BitFields, nested) is added, and every domain value containing a dict is ALSO written with its dicts in reversed / shuffled "
             "insertion order and other key forms (oracle on the real classes + model `ser` on the permuted term).  The impl-level oracle "
             "checks the property clauses on the real classes for every "
             "wf spec.  non-trivial = distinct (spec, e, mode, value-or-bytes) evaluation on a composite spec (tree size > 1)"
             % ctx.pick(3, 5))


def registry_stream(ctx):
    from harness.translate import c08_registry as R
    trees, skipped = _registry(ctx)
    for name, kind, n in trees:
        n.x["regname"] = name
        yield "registry", n


_REG = {}


def _registry(ctx=None):
    from harness.translate import c08_registry as R
    if "t" not in _REG:
        _REG["t"] = R.translate_all()
    return _REG["t"]


def generate(ctx):
    """(G) translator: the registered spec trees of the live code as Spec terms + one wf obligation per tree"""
    from harness.translate import c08_registry as R
    from harness.common.framework import COQ
    trees, skipped = _registry(ctx)
    obls = R.write_gen(os.path.join(COQ, "gen", "C08_registry_gen.v"), trees, skipped)
    inside = sum(1 for _, _, n in trees if S.wf(n))
    ctx.notes.append("registry: %d spec trees found, %d translated (%d inside the proved fragment, %d outside), %d not translated"
                     % (len(trees) + len(skipped), len(trees), inside, len(trees) - inside, len(skipped)))
    for name, kind, why in skipped:
        ctx.notes.append("registry: NOT translated %s [%s]: %s" % (name, kind, why))
    return obls


def correspond(ctx):
    import time
    t0 = time.time()
    r1 = _run_suite(ctx, _engine_result(ctx), spec_stream(ctx), True)
    t1 = time.time()
    trees, skipped = _registry(ctx)
    r2 = CorrResult(
        suite="registered spec trees: the live SUBFIELD_SERIALIZERS registry and templates.py module-level specs vs the model",
        rule="every spec tree reachable from se.SUBFIELD_SERIALIZERS (TEMPLATE, TEMPLATES entries, ADAPTER; enum/flag instance serializers "
             "over the integer wire type of their message-template variable) and every module-level spec object of templates.py, "
             "translated by harness/translate/c08_registry.py (fail-closed; untranslatable trees are listed in the notes); the REAL "
             "registered objects are run against the model on values of their derived domains (decoded from random wire ints for "
             "adapters), violating values, trailing / truncated / bit-flipped / random bytes, in {<,>} x {pod, non-pod}; the oracle "
             "checks the property clauses on every tree inside the proved fragment")
    r2 = _run_suite(ctx, r2, registry_stream(ctx), False)
    inside = sum(1 for _, _, n in trees if S.wf(n))
    r2.distribution.update({"registry:trees-found": len(trees) + len(skipped), "registry:translated": len(trees),
                            "registry:inside-proved-fragment(wf)": inside, "registry:translated-but-not-wf": len(trees) - inside,
                            "registry:not-translated": len(skipped)})
    t2 = time.time()
    r3 = _run_state_suite(ctx)
    ctx.notes.append("suite wall times: engine %.1fs, registry %.1fs, order sweep + statefulness %.1fs" % (t1 - t0, t2 - t1, time.time() - t2))
    return [r1, r2, r3]


def _run_suite(ctx, res, stream, with_probes):
    rng = ctx.rng
    lines, expect = [], []       # expect[i] = (what, impl_observation, case-info)
    de_lines = []                # (index of the ser line it depends on | None, line, expectation): second driver pass
    dist = {}
    seen_specs = set()
    n_specs = 0
    oracle_runs = 0
    nontriv = set()

    def bump(k, d=1):
        dist[k] = dist.get(k, 0) + d

    # utf-8 validity: exhaustive 1- and 2-byte strings + structured 3/4-byte sequences
    utf = [] if not with_probes else [bytes([a]) for a in range(256)] + [bytes([a, b]) for a in range(0xBC, 0x100) for b in range(0x78, 0xC8)]
    for a in ((0xE0, 0xE1, 0xEC, 0xED, 0xEE, 0xEF) if with_probes else ()):
        for b in (0x7F, 0x80, 0x9F, 0xA0, 0xBF, 0xC0):
            for c in (0x7F, 0x80, 0xBF, 0xC0):
                utf.append(bytes([a, b, c]))
                utf.append(bytes([a, b, c, 0x41]))
    for a in ((0xF0, 0xF1, 0xF3, 0xF4, 0xF5) if with_probes else ()):
        for b in (0x7F, 0x80, 0x8F, 0x90, 0xBF, 0xC0):
            for c in (0x80, 0xBF, 0xC0):
                for d in (0x7F, 0x80, 0xBF, 0xC0):
                    utf.append(bytes([a, b, c, d]))
            utf.append(bytes([a, b, 0x80]))
    for u in utf:
        try:
            u.decode("utf8")
            ok = "1"
        except UnicodeDecodeError:
            ok = "0"
        lines.append("utf8 " + S.hb(u))
        expect.append(("utf8", ok, {"bytes": u.hex()}))
    bump("utf8-probes", len(utf))

    # corpus: explicit regression cases (spec, value, endianness, mode, trailing bytes) run first
    for c in (corpus_cases() if with_probes else []):
        if "value" not in c:
            continue
        try:
            viol = _case_violation(c)
        except Exception as ex:
            viol = dict(c, clause="corpus case could not be evaluated", **{"class": "corpus-error"}, got=repr(ex))
        oracle_runs += 1
        bump("corpus-cases")
        if viol:
            res.impl_violations.append(viol)
        node = S.node_of_sx(S.parse_sx(c["spec"]))
        b = impl_ser(S.build(node), S.from_sx(node, S.parse_sx(c["value"]), bool(c["pod"])), c["e"])
        lines.append(f"ser {c['e']} {c['spec']} {c['value']}")
        expect.append(("ser", "ERR" if isinstance(b, str) else "OK " + S.hb(b), c))

    for kind, node in stream:
        sx = S.sexp(node)
        if sx in seen_specs and kind != "registry":
            continue
        seen_specs.add(sx)
        n_specs += 1
        bump("specs:" + kind)
        try:
            obj = S.build(node)
        except Exception as ex:
            bump("spec-build-failed")
            continue
        iswf = S.wf(node)
        infrag = in_fragment(node)
        dompred = S.dom_predictable(node)
        bump("specs-wf(proved fragment)" if iswf else "specs-not-wf(unproved, compared only)")
        for x in node.walk():
            bump("ctor:" + x.k)
        composite = node.size() > 1
        mapping = G.has_mapping(node)
        lines.append("info " + sx)
        expect.append(("info", "%d %d %s %s" % (int(iswf), int(S.delimited(node)), S.hx(S.min_size(node)), impl_size(obj)),
                       {"spec": sx}))
        risky = G.spin_risk(node)
        uses = []          # earlier uses of THIS spec object (attached to violations: a failure may need them to replay)
        for e, pod, v, bad in value_cases(kind, node, ctx, rng):
            try:
                v = fix_tags(node, e, v)
            except OutOfDomain:
                bump("value-out-of-domain(lenswitch size collides / terminator inside typed-terminated)")
                continue
            except Exception:
                pass
            try:
                vsx = S.to_sx(node, pod, v)
            except S.Shape:
                if not bad:
                    bump("value-not-representable")
                    continue
                vsx = None
            info = {"spec": sx, "e": e, "pod": int(pod), "value": vsx}
            if kind == "registry":
                info["registry"] = node.x.get("regname")
            if uses:
                info["history"] = list(uses[-8:])
            this_use = {"e": e, "pod": int(pod), "value": vsx} if (vsx is not None and not bad) else None
            b = impl_ser(obj, v, e)
            ser_idx = None
            if vsx is not None and "nan" not in vsx:
                ser_idx = len(lines)
                lines.append(f"ser {e} {sx} {vsx}")
                expect.append(("ser", "ERR" if isinstance(b, str) else "OK " + S.hb(b), info))
                if iswf and dompred:
                    lines.append(f"dom {e} {int(pod)} {sx} {vsx}")
                    expect.append(("dom", "0" if bad else "1", info))
                if composite:
                    nontriv.add(("ser", sx, e, pod, vsx))
            bump("values:bad" if bad else "values:domain")
            if bad and not isinstance(b, str):
                bump("bad-accepted")
            if infrag:
                bump("oracle:proved-fragment" if iswf else "oracle:stage2-side-conditions")
                trail = rng.choice(TRAILS)
                viol = check_property(node, e, pod, v, trail, bad=bad)
                oracle_runs += 1
                if viol:
                    res.impl_violations.append(dict(viol, history=list(uses[-8:])) if uses else viol)
            if mapping and not bad:
                # the same value with its dicts in another insertion order / key form: oracle + model on the permuted term
                for var in G.variants_for(node, rng, ctx.pick(2, 4)):
                    try:
                        v2, changed = G.reorder(node, v, var)
                    except Exception:
                        bump("order-variant:not-applicable")
                        continue
                    if not changed:
                        bump("order-variant:identical(skipped)")
                        continue
                    bump("order-variant:" + ("+".join(["reordered"] + var.split("+")[1:])))
                    if infrag:
                        viol = check_property(node, e, pod, v, rng.choice(TRAILS), variant=var)
                        oracle_runs += 1
                        bump("order-variant:oracle-runs")
                        if viol:
                            res.impl_violations.append(dict(viol, history=list(uses[-8:])) if uses else viol)
                    if vsx is not None and "nan" not in vsx:
                        b2 = impl_ser(obj, v2, e)
                        psx = S._unparse_sx(G.reorder_sx(S.parse_sx(vsx), var))
                        lines.append(f"ser {e} {sx} {psx}")
                        expect.append(("ser", "ERR" if isinstance(b2, str) else "OK " + S.hb(b2), dict(info, order=var)))
                        if composite:
                            nontriv.add(("ser", sx, e, pod, psx, var))
            if this_use is not None:
                uses.append(this_use)
            if isinstance(b, str):
                bump("ser:rejected")
                continue
            bump("ser:ok")
            inputs = [b, b + rng.choice(TRAILS)]
            if not risky and rng.random() < 0.6:
                inputs += mutate(rng, b)
            for data in inputs:
                r = impl_de(obj, data, e, pod)
                if data is not b:
                    uses.append({"e": e, "pod": int(pod), "data": S.hb(data)})     # decode-only use of the object
                if r[0] == "HANG":
                    bump("de:hang(skipped)")
                    continue
                if r[0] == "NEG":
                    bump("de:neg-length(skipped)")
                    continue
                if r[0] == "OK":
                    try:
                        obs = "OK " + S.to_sx(node, pod, r[1]) + " " + str(r[2])
                    except S.Shape as ex:
                        obs = "OK shape:" + str(ex) + " " + str(r[2])
                    bump("de:ok")
                else:
                    obs = "ERR"
                    bump("de:error")
                if risky and ser_idx is None:
                    continue
                # a spec whose entries may decode from nothing spins on a huge count: its decode cases are only
                # run when the model agrees on the encoding (then the counts are the small ones that were written)
                de_lines.append((ser_idx if risky else None, f"de {e} {int(pod)} {sx} {S.hb(data)}",
                                 ("de", obs, dict(info, data=S.hb(data)))))
                if composite:
                    nontriv.add(("de", sx, e, pod, data))

    model = ctx.run_driver(lines, timeout=900)
    n1 = len(lines)
    for dep, line, ex in de_lines:
        if dep is not None and model[dep].strip() != expect[dep][1]:
            bump("de:skipped(spin-risk spec, encodings differ)")
            continue
        lines.append(line)
        expect.append(ex)
    model += ctx.run_driver(lines[n1:], timeout=900) if len(lines) > n1 else []
    for (what, obs, info), m in zip(expect, model):
        m = m.strip()
        same = (m == obs)
        if not same and what == "de" and obs.startswith("OK ") and m.startswith("OK "):
            same = S.same_value(obs, m)
        if not same:
            if len(res.disagreements) < 200:
                res.disagreements.append(dict(info, op=what, impl=obs[:300], model=m[:300]))
            else:
                bump("disagreements-not-listed")
    res.evaluations = len(lines) + oracle_runs
    res.distinct_nontrivial = len(nontriv)
    dist["oracle-runs"] = oracle_runs
    dist["opaque:samples-outside-lossless-hypothesis(not used)"] = G.HYPOTHESIS_FAILS[0]
    dist["spec-trees"] = n_specs
    res.distribution = dict(sorted(dist.items()))
    res.exhaustive = False
    res.samples = [{"op": e[0], "case": e[2], "impl": e[1][:120], "model": m[:120]}
                   for e, m in list(zip(expect, model))[len(utf) + 50:len(utf) + 53] + list(zip(expect, model))[-3:]][:6]
    if res.impl_violations:
        res.impl_violations.sort(key=lambda v: len(str(v.get("spec"))) + len(str(v.get("value"))))
        res.impl_violations = [shrink(v) for v in res.impl_violations[:3]] + res.impl_violations[3:50]
    return res


# ---------------------------------------------------------------- insertion-order sweep + statefulness probes

def _obs_sx(node, pod, r):
    try:
        return S.to_sx(node, pod, r[1])
    except S.Shape as ex:
        return "shape:" + str(ex)


def state_probe(node, e, pod, v):
    """the round-trip clauses hold at EVERY point of a history of uses of one spec object, so: writing the same value
    twice gives the same bytes; reading the same bytes twice gives equal values, also after the first result was modified
    in place (results are not aliased to state kept by the spec); a later write of the same value is unaffected"""
    obj = S.build(node)
    base = {"spec": S.sexp(node), "e": e, "pod": int(pod), "trail": "-", "probe": 1}
    if node.x.get("regname"):
        base["registry"] = node.x["regname"]
    try:
        base["value"] = S.to_sx(node, pod, v)
    except S.Shape:
        return None
    b1 = impl_ser(obj, v, e)
    b2 = impl_ser(obj, v, e)
    if b1 != b2:
        return dict(base, clause="writing the same value twice with one spec object gives the same bytes",
                    **{"class": "stateful-encoding"}, first=b1 if isinstance(b1, str) else S.hb(b1),
                    second=b2 if isinstance(b2, str) else S.hb(b2))
    if isinstance(b1, str):
        return None
    r1 = impl_de(obj, b1, e, pod)
    if r1[0] != "OK":
        return None                     # reported by the round-trip clause
    s1 = _obs_sx(node, pod, r1)
    r2 = impl_de(obj, b1, e, pod)
    s2 = _obs_sx(node, pod, r2) if r2[0] == "OK" else r2[0]
    if r2[0] != "OK" or not S.same_value(s2, s1) or r2[2] != r1[2]:
        return dict(base, clause="reading the same bytes twice with one spec object returns equal values",
                    **{"class": "stateful-decoding"}, written=S.hb(b1), first=s1, second=s2)
    if not S.same_value(_obs_sx(node, pod, r1), s1):
        return dict(base, clause="a later read does not change the value returned by an earlier read",
                    **{"class": "result-aliasing"}, written=S.hb(b1), first=s1, first_after_second_read=_obs_sx(node, pod, r1))
    touched = G.deep_mutate(r1[1])
    if touched and not S.same_value(_obs_sx(node, pod, r2), s1):
        return dict(base, clause="two reads return independent values: modifying one in place does not change the other",
                    **{"class": "result-aliasing"}, written=S.hb(b1), first=s1, second_after_modifying_first=_obs_sx(node, pod, r2),
                    containers_modified=touched)
    r3 = impl_de(obj, b1, e, pod)
    s3 = _obs_sx(node, pod, r3) if r3[0] == "OK" else r3[0]
    if r3[0] != "OK" or not S.same_value(s3, s1) or r3[2] != r1[2]:
        return dict(base, clause="reading the same bytes again returns an equal value after an earlier result was modified in place",
                    **{"class": "result-aliasing" if touched else "stateful-decoding"}, written=S.hb(b1), first=s1, third=s3,
                    containers_modified=touched)
    b3 = impl_ser(obj, v, e)
    if b3 != b1:
        return dict(base, clause="a later write of the same value gives the same bytes (after a read whose result was modified)",
                    **{"class": "stateful-encoding"}, first=S.hb(b1), second=b3 if isinstance(b3, str) else S.hb(b3))
    if S.to_sx(node, pod, v) != base["value"]:
        return dict(base, clause="read(write(v)) == v: the written value itself is unchanged by write / read",
                    **{"class": "value-aliasing"}, after=S.to_sx(node, pod, v))
    return None


def _subset_values(node, pod, rng):
    """FlagSwitch at the top: one value per subset of the choices; otherwise two random values"""
    if node.k != "flagswitch":
        out = []
        for _ in range(2):
            try:
                out.append(G.gen_value(node, pod, rng))
            except Exception:
                pass
        return out
    cls = S.flag_cls(node.a[0])
    out = []
    n = len(node.ch)
    for mask in range(1 << n):
        d = {}
        for i, ((nm, z), c) in enumerate(zip(node.a[3], node.ch)):
            if mask >> i & 1:
                d[("F%d" % nm) if pod else cls["F%d" % nm]] = G.gen_value(c, pod, rng)
        out.append(d)
    return out


def _confirm_history(viol):
    """a violation that needs earlier uses of the spec object: keep the shortest recorded history that reproduces it on a
    FRESHLY built object"""
    hist = viol.get("history") or []
    cands = [[]] + [[h] for h in hist[::-1]] + ([hist[-2:]] if len(hist) > 2 else []) + [hist]
    if viol.get("registry"):
        cands = [hist]         # the registered object cannot be rebuilt: its state is whatever this run left
    for hh in cands:
        try:
            w = _case_violation(dict(viol, history=hh))
        except Exception:
            w = None
        if w and w.get("class") == viol.get("class"):
            w["history"] = hh
            return w
    return dict(viol, replay_note="not reproduced from this spec object's own recorded history (state shared through sub-spec "
                                  "objects used by other trees); found in the run as reported")


def _run_state_suite(ctx):
    rng = ctx.rng
    res = CorrResult(
        suite="mapping insertion order (exhaustive small scope) + statefulness: spec OBJECTS reused across {<,>} x {pod, non-pod}",
        rule="(a) 9 fixed FlagSwitch / Template / Dataclass / BitField trees (incl. nested): FlagSwitch values for EVERY subset of the "
             "choices, every permutation of the insertion order of 2- and 3-key dicts (other dicts reversed) x key forms {as generated, "
             "all member names, all flag members, mixed} x {instance, dict form} x {<,>} x {pod, non-pod}: oracle on the real classes + "
             "model `ser` on the permuted term.  (b) a pool of spec OBJECTS (the fixed trees, mapping-heavy trees, random trees, "
             "TypedBytes wrappers, every translated live registered object) is built ONCE; every object is used with 2 values in each of "
             "{<,>} x {pod, non-pod}: phase 1 all uses of all objects in one globally shuffled order, phase 2 object by object with the "
             "uses of each object in a fresh random order.  At every use: the property clauses (round trip, framing, size, composition "
             "with trailing bytes) on the reused object, write twice = same bytes, read twice = equal values, in-place modification of "
             "the first decoded value (every dict / list / dataclass / record reachable) does not change the second decode nor a later "
             "write, the encoding / decoding of phase 2 equals that of phase 1, and the model (stateless by construction) gives the same "
             "`ser` / `de` answers.  non-trivial = distinct (spec, e, mode, value, order) on a composite spec")
    lines, expect = [], []
    dist = {}
    nontriv = set()
    oracle_runs = 0

    def bump(k, d=1):
        dist[k] = dist.get(k, 0) + d

    # ---- (a) exhaustive insertion-order sweep
    orders = ["perm:" + p for n_ in (2, 3) for p in G.all_perms(n_)]
    fixed = G.perm_scope_specs()
    for name, node in fixed:
        sx = S.sexp(node)
        obj = S.build(node)
        kinds = {x.k for x in node.walk()}
        forms = [""]
        if "flagswitch" in kinds:
            forms = ["", "+names", "+members", "+mixed"]
        if "dataclass" in kinds:
            forms = ["", "+dict"]
        for pod in (False, True):
            for v in _subset_values(node, pod, rng):
                try:
                    vsx = S.to_sx(node, pod, v)
                except S.Shape:
                    continue
                seen = set()
                for o in orders:
                    for f in forms:
                        var = o + f
                        try:
                            v2, changed = G.reorder(node, v, var)
                        except Exception:
                            bump("sweep:variant-not-applicable")
                            continue
                        if not changed or repr(v2) in seen:
                            continue
                        seen.add(repr(v2))
                        for e in ("<", ">"):
                            bump("sweep:cases")
                            bump("sweep:" + name)
                            viol = check_property(node, e, pod, v, rng.choice(TRAILS), variant=var)
                            oracle_runs += 1
                            if viol:
                                res.impl_violations.append(viol)
                            if "nan" in vsx:
                                continue
                            b2 = impl_ser(obj, v2, e)
                            psx = S._unparse_sx(G.reorder_sx(S.parse_sx(vsx), var))
                            lines.append(f"ser {e} {sx} {psx}")
                            expect.append(("ser", "ERR" if isinstance(b2, str) else "OK " + S.hb(b2),
                                           {"spec": sx, "e": e, "pod": int(pod), "value": vsx, "order": var}))
                            nontriv.add((sx, e, pod, psx, var))

    # ---- (b) statefulness: one pool of objects, reused
    pool = [n for _, n in fixed]
    for _ in range(ctx.pick(150, 600)):
        pool.append(G.gen_dicty(rng, rng.choice((1, 2, 2, 3)), need_delim=rng.random() < 0.3))
    for _ in range(ctx.pick(400, 2500)):
        pool.append(G.gen_spec(rng, rng.choice((1, 2, 2, 3)), need_delim=rng.random() < 0.3))
    for _ in range(ctx.pick(150, 600)):
        inner = G.gen_spec(rng, rng.choice((1, 2)), need_delim=False)
        tk = rng.choice((("array", False, 1), ("array", False, 2), ("greedy",), ("term", (0,), False)))
        fs = G.fixed_size(inner)
        if fs is not None and rng.random() < 0.4:
            tk = ("fixed", fs)
        pool.append(S.Node("typed", (tk, False, True), [inner]))
    reg = [n for _, n in registry_stream(ctx)]
    rng.shuffle(reg)
    pool += reg          # every translated registered object
    uses, per_obj = [], []
    seen_sx = set()
    for node in pool:
        sx = S.sexp(node)
        if not node.x.get("regname"):
            if sx in seen_sx:
                continue
            seen_sx.add(sx)
        try:
            if not in_fragment(node):
                bump("state:spec-outside-fragment(skipped)")
                continue
            S.build(node)
        except Exception:
            bump("state:spec-build-failed")
            continue
        bump("state:spec-objects")
        mine = []
        for pod in (False, True):
            for _ in range(2):
                try:
                    v0 = G.gen_value(node, pod, rng)
                except Exception:
                    continue
                for e in ("<", ">"):
                    try:
                        v = fix_tags(node, e, v0)
                        vsx = S.to_sx(node, pod, v)
                    except Exception:
                        continue
                    mine.append((node, e, pod, v, vsx))
        uses += mine
        per_obj.append(mine)
    phase1 = list(uses)
    rng.shuffle(phase1)
    phase2 = []
    rng.shuffle(per_obj)
    for mine in per_obj:
        mine = list(mine)
        rng.shuffle(mine)
        phase2 += mine
    first = {}
    hist = {}
    combos = {}
    for phase, seq in ((1, phase1), (2, phase2)):
        for node, e, pod, v, vsx in seq:
            obj = S.build(node)
            sx = S.sexp(node)
            key = (id(node), e, pod, vsx)
            h = hist.setdefault(id(node), [])
            combos.setdefault(id(node), []).append(e + ("p" if pod else "n"))
            bump("state:uses-phase%d" % phase)
            var = None
            if G.has_mapping(node) and rng.random() < 0.5:
                var = G.variants_for(node, rng, 2)[rng.randrange(2)]
            viol = check_property(node, e, pod, v, rng.choice(TRAILS), variant=var)
            if viol is None:
                viol = state_probe(node, e, pod, v)
            oracle_runs += 2
            b = impl_ser(obj, v, e)
            obs_b = b if isinstance(b, str) else "OK " + S.hb(b)
            obs_d = None
            if not isinstance(b, str):
                r = impl_de(obj, b, e, pod)
                obs_d = ("OK " + _obs_sx(node, pod, r) + " " + str(r[2])) if r[0] == "OK" else r[0]
            if key in first:
                fb, fd = first[key]
                if viol is None and (fb != obs_b or (fd is not None and obs_d is not None and not S.same_value(fd, obs_d))):
                    viol = {"spec": sx, "e": e, "pod": int(pod), "trail": "-", "value": vsx, "probe": 1,
                            "clause": "the encoding / decoding of a value does not depend on earlier uses of the spec object",
                            "class": "stateful-encoding" if fb != obs_b else "stateful-decoding",
                            "first_use": (fb if fb != obs_b else fd)[:300], "later_use": (obs_b if fb != obs_b else obs_d)[:300]}
                    if node.x.get("regname"):
                        viol["registry"] = node.x["regname"]
            else:
                first[key] = (obs_b, obs_d)
                if "nan" not in vsx:
                    info = {"spec": sx, "e": e, "pod": int(pod), "value": vsx, "history": list(h[-6:])}
                    lines.append(f"ser {e} {sx} {vsx}")
                    expect.append(("ser", "ERR" if isinstance(b, str) else obs_b, info))
                    if obs_d is not None and obs_d.startswith("OK") and not G.spin_risk(node):
                        lines.append(f"de {e} {int(pod)} {sx} {S.hb(b)}")
                        expect.append(("de", obs_d, dict(info, data=S.hb(b))))
                    if node.size() > 1:
                        nontriv.add((sx, e, pod, vsx))
            if viol:
                viol = dict(viol, history=list(h[-6:]))
                if len(res.impl_violations) < 60:
                    res.impl_violations.append(viol)
            h.append({"e": e, "pod": int(pod), "value": vsx})
    switches = sum(1 for c in combos.values() for a, b_ in zip(c, c[1:]) if a[0] != b_[0])
    dist["state:byte-order-switches-on-one-object"] = switches
    dist["state:mode-switches-on-one-object"] = sum(1 for c in combos.values() for a, b_ in zip(c, c[1:]) if a[1] != b_[1])
    dist["state:objects-used-in-all-4-combinations"] = sum(1 for c in combos.values() if len(set(c)) == 4)
    dist["state:distinct-use-orders"] = len({tuple(c) for c in combos.values()})

    model = ctx.run_driver(lines, timeout=900)
    for (what, obs, info), m in zip(expect, model):
        m = m.strip()
        same = (m == obs)
        if not same and what == "de" and obs.startswith("OK ") and m.startswith("OK "):
            same = S.same_value(obs, m)
        if not same and len(res.disagreements) < 200:
            res.disagreements.append(dict(info, op=what, impl=obs[:300], model=m[:300]))
    res.evaluations = len(lines) + oracle_runs
    res.distinct_nontrivial = len(nontriv)
    dist["oracle-runs"] = oracle_runs
    res.distribution = dict(sorted(dist.items()))
    res.samples = [{"op": e[0], "case": e[2], "impl": e[1][:120], "model": m[:120]}
                   for e, m in (list(zip(expect, model))[:3] + list(zip(expect, model))[-3:])]
    if res.impl_violations:
        res.impl_violations.sort(key=lambda v: (len(v.get("history") or []) > 0, len(str(v.get("spec"))) + len(str(v.get("value")))))
        head = []
        for v in res.impl_violations[:3]:
            head.append(_confirm_history(v) if v.get("probe") else shrink(v))
        res.impl_violations = head + res.impl_violations[3:50]
    return res


# ---------------------------------------------------------------- search / shrink / replay

def _node_of_case(case):
    if case.get("registry"):
        for name, kind, n in _registry()[0]:
            if name == case["registry"] and S.sexp(n) == case["spec"]:
                n.x["regname"] = name
                return n
    return S.node_of_sx(S.parse_sx(case["spec"]))


def _case_violation(case):
    node = _node_of_case(case)
    pod = bool(case["pod"])
    if not str(case["value"]).startswith("("):
        return None
    v = S.from_sx(node, S.parse_sx(case["value"]), pod)
    trail = b"" if case.get("trail", "-") == "-" else bytes.fromhex(case["trail"])
    bad = case.get("class") == "limit-not-rejected" or bool(case.get("bad"))
    obj = S.build(node)
    for h in case.get("history") or []:          # earlier uses of the same spec object (statefulness probes)
        try:
            if "data" in h:
                impl_de(obj, b"" if h["data"] == "-" else bytes.fromhex(h["data"]), h["e"], bool(h["pod"]))
                continue
            hv = S.from_sx(node, S.parse_sx(h["value"]), bool(h["pod"]))
            hb_ = impl_ser(obj, hv, h["e"])
            if not isinstance(hb_, str):
                impl_de(obj, hb_, h["e"], bool(h["pod"]))
        except Exception:
            pass
    viol = check_property(node, case["e"], pod, v, trail, bad=bad, variant=case.get("order"))
    if viol is None and case.get("probe"):
        viol = state_probe(node, case["e"], pod, v)
    if viol is not None and case.get("history"):
        viol["history"] = case["history"]
    return viol


def shrink(viol):
    """try the same clause on sub-specs with the corresponding sub-values"""
    if viol.get("class") == "limit-not-rejected" or viol.get("registry"):
        return viol         # which part of the value violates a limit is not known here: keep the case as found
    if viol.get("probe"):
        return viol         # statefulness probes: minimised over the history instead (_confirm_history)
    if viol.get("history"):
        viol = _confirm_history(viol)
        if viol.get("history") or viol.get("replay_note"):
            return viol
    try:
        node = S.node_of_sx(S.parse_sx(viol["spec"]))
        if not str(viol["value"]).startswith("("):
            return viol
        val = S.parse_sx(viol["value"])
    except Exception:
        return viol
    best = viol
    changed = True
    while changed:
        changed = False
        node = S.node_of_sx(S.parse_sx(best["spec"]))
        val = S.parse_sx(best["value"])
        for sub, sv in _sub_cases(node, val):
            if not in_fragment(sub):
                continue
            try:
                c = dict(best, spec=S.sexp(sub), value=_unparse(sv))
                w = _case_violation(c)
            except Exception:
                continue
            if w and w["class"] == best["class"]:
                best = w
                changed = True
                break
    return best


def _unparse(x):
    if isinstance(x, list):
        return "( " + " ".join(_unparse(i) for i in x) + " )" if x else "( )"
    return x


def _sub_cases(node, val):
    k = node.k
    if val[0] == "none":
        return
    if k in ("opt", "typed", "ifpresent"):
        yield node.ch[0], val
    elif k == "tuple" and val[0] == "l":
        for c, v in zip(node.ch, val[1:]):
            yield c, v
    elif k == "coll" and val[0] == "l":
        for v in val[1:]:
            yield node.ch[0], v
        if len(val) > 2:
            for i in range(1, len(val)):
                yield node, val[:i] + val[i + 1:]
    elif k == "template" and val[0] == "d":
        by = dict(zip(node.a[0], node.ch))
        for kv in val[1:]:
            yield by[int(kv[0], 16)], kv[1]


def search(ctx, hints):
    for h in hints:
        d = h.get("disagreement") or h.get("impl_violation")
        if d and d.get("spec") and d.get("value"):
            try:
                v = _case_violation(d)
            except Exception:
                v = None
            if v:
                return shrink(v)
    rng = ctx.rng
    for kind, node in spec_stream(ctx):
        if not in_fragment(node):
            continue
        for e, pod, v, bad in value_cases(kind, node, ctx, rng):
            try:
                v = fix_tags(node, e, v)
            except Exception:
                continue
            viol = check_property(node, e, pod, v, rng.choice(TRAILS), bad=bad)
            if viol:
                return shrink(viol)
            if bad or not G.has_mapping(node):
                continue
            for var in G.variants_for(node, rng, 2):
                try:
                    viol = check_property(node, e, pod, v, rng.choice(TRAILS), variant=var)
                except Exception:
                    viol = None
                if viol:
                    return shrink(viol)
    return None


def replay(ctx, case):
    if case.get("op") == "calc_size":
        node = S.node_of_sx(S.parse_sx(case["spec"]))
        r = impl_size(S.build(node))
        return r.startswith("EXC"), r
    v = _case_violation(case)
    return (v is not None), (v or "holds")
