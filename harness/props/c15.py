"""C15 - intercepted HTTP flows are handed back exactly once, state intact.

Models: coq/theories/Http/FlowOwner.v (pump_proxy_event, handlers, addon dispatch, take/resume/preempt,
proxy-side callback pump) and Http/CapData.v (CapData.serialize/deserialize, get_state/from_state).

The implementation side runs the real MITMProxyEventManager / HippoHTTPFlow / AddonManager / CapData with
in-process queue.Queue stand-ins for the two multiprocessing queues, real mitmproxy HTTPFlow objects
(mitmproxy.test.tflow) and real Session / ProxiedRegion objects.
"""
import contextlib
import copy
import gc
import io
import itertools
import json
import logging
import os
import queue
import threading
import weakref
import xmlrpc.client

from harness.common.framework import CorrResult

PROP_ID = "C15"
COQ_PROPS = "theories/Props/C15.v"
EXTRACT = ("theories/Extract/ExC15.v", "c15_driver.ml")
TRUSTED = [
    "PARTIAL (oracle only): the real transfer pickles the state dict over multiprocessing.Queue (feeder thread; an "
    "unpicklable item is dropped there without an error) - the check uses in-process queue.Queue stand-ins; what "
    "mitmproxy does with a resumed flow (Flow.resume / intercept / set_state, replay.client) is not modelled",
    "modelled by hand: HippoHTTPFlow.take/resume/preempt/response setter/get_state/from_state/__init__, "
    "MITMProxyEventManager.pump_proxy_event/_handle_request/_handle_response (ownership flags, puts, injected response "
    "status, rewritten url/body, can_stream, cap name class/type/session/region presence; response/request *bodies* "
    "rewritten inside the guarded Seed/EventQueueGet block of _handle_response are not modelled), "
    "AddonManager._call_all_addon_hooks/_try_call_hook for addon objects, MessageHandler.handle -> Event.notify for "
    "synchronous subscribers, CapData.serialize/deserialize, one iteration of IPCInterceptionAddon._pump_callbacks",
    "HippoHTTPFlow.from_state sits outside the try/finally of pump_proxy_event: a state that cannot be rebuilt is never "
    "handed back; the model takes a successfully rebuilt flow as its starting point (precondition)",
    "C15_flags_preserved / C15_state_intact carry the explicit premise that mitmproxy's HTTPFlow.get_state/from_state is the "
    "identity on request/response/metadata; the 'transfer' suite checks the conclusion on real flows every run",
    "strings (cap names, URLs, str(UUID), str(circuit_addr)) are tokens compared by equality; str() of distinct session "
    "ids / circuit addresses is assumed distinct; CapType.name / CapType[name] is assumed to be a bijection",
    "assert statements are active (python is not run with -O); a get_state() failure inside resume() is outside the "
    "property's quantifier (handler / hook raises) and is modelled as the explicit hypothesis cfg_gs_ok "
    "(C15_handed_back_once_without_gs_refuted shows what happens otherwise)",
    "the flow record of the model has a ghost field 'held' (set by an addon's successful take(), cleared when an addon's "
    "own resume() passes its assertion) that no model code reads; the theorems state the hand-back in terms of it and the "
    "harness tracks the same notion independently of HippoHTTPFlow.taken/resumed",
    "data-dependent outcomes of handler stages (body parses, cached EventQueueGet response exists, wrapped cap present, "
    "login sniffing result for the original / addon-rewritten URL, login body of the original / addon-injected response, "
    "bridge header kind) are parameters of the model; the harness arranges the concrete request/response/world so that "
    "they take the stated value",
    "addon behaviour is modelled as a finite list of statements {take, resume, preempt, inject response, rewrite url, "
    "set can_stream} followed by return falsy / return truthy / raise; async hooks and hot reloading are not modelled",
]

# --------------------------------------------------------------------------
# cap table: key -> (cap_name, url, type name).  cname code / asset / wrap are derived from the name.

CAPS = {
    "FakeCap": ("FakeCap", "http://fakecap.example.com/c", "NORMAL"),
    "Seed": ("Seed", "https://seed.example.com/seedcap1", "NORMAL"),
    "EQ": ("EventQueueGet", "http://eq.example.com/eq", "NORMAL"),
    "Asset": ("ViewerAsset", "http://assets.example.com/va", "NORMAL"),
    "AssetWrapper": ("ViewerAssetProxyWrapper", None, "WRAPPER"),        # url from register_wrapper_cap
    "FooWrapper": ("FooProxyWrapper", "http://foowrap.example.com/w", "NORMAL"),
    "TexWrapperPlain": ("GetTextureProxyWrapper", "http://texwrap.example.com/w", "NORMAL"),
    "ProxyOnly": ("ProxyThing", "http://proxything.caps.hippo-proxy.localhost", "PROXY_ONLY"),
    "MeshProxyOnly": ("GetMesh2Fake", "http://meshfake.caps.hippo-proxy.localhost", "PROXY_ONLY"),
    "Upload": ("NewFileAgentInventory", "http://upload.example.com/nfai", "NORMAL"),
    "Temp": ("TempThing", "http://temp.example.com/t", "TEMPORARY"),
    "SeedProxyOnly": ("Seed", "http://seedfake.caps.hippo-proxy.localhost", "PROXY_ONLY"),
    "Login": ("LoginRequest", "http://login.example.com/never-registered", "NORMAL"),       # response side only
    "Bridge": ("FirestormBridge", "http://bridge.example.com/never-registered", "NORMAL"),  # response side only
    "NoCap": (None, "http://nocap.example.com/x", "NORMAL"),
}
REQUEST_CAPS = ["FakeCap", "Seed", "EQ", "Asset", "AssetWrapper", "FooWrapper", "TexWrapperPlain", "ProxyOnly",
                "MeshProxyOnly", "Upload", "Temp", "NoCap"]
RESPONSE_CAPS = ["FakeCap", "Seed", "EQ", "Asset", "AssetWrapper", "ProxyOnly", "Upload", "Login", "Bridge"]
TYPES = {"NORMAL": 0, "TEMPORARY": 1, "WRAPPER": 2, "PROXY_ONLY": 3}
UPLOAD_CAPS = {
    "NewFileAgentInventory", "UpdateGestureAgentInventory", "UpdateGestureTaskInventory",
    "UpdateNotecardAgentInventory", "UpdateNotecardTaskInventory", "UpdateScriptAgent", "UpdateScriptTask",
    "UpdateSettingsAgentInventory", "UpdateSettingsTaskInventory", "UploadBakedTexture", "UploadAgentProfileImage",
}
FAULTS = {"none": 0, "resolve": 1, "asset": 2, "reload": 3, "make": 4, "sniff": 5}
LOGGERS = {"none": 0, "ok": 1, "raise": 2}
BRIDGES = {"none": 0, "bad": 1, "match": 2, "nomatch": 3}
RETS = {"falsy": 0, "truthy": 1, "raise": 2}
EVS = {"request": 0, "response": 1, "bogus": 2}
REQ_SHAPES = {  # shape -> expected _is_login_request
    "plain": False, "login_cgi": True, "login_xml": True, "get_xml": False, "browser": False,
    "other_post": False, "empty_post": False,
}
REWRITTEN_URL = "http://rewritten.example.com/by-addon"


def name_code(name):
    """-> (code, asset, wrap) as in FlowOwner.cname"""
    if name is None:
        return (0, 0, 0)
    fixed = {"Seed": 1, "EventQueueGet": 2, "LoginRequest": 3, "FirestormBridge": 4}
    if name in fixed:
        return (fixed[name], 0, 0)
    if name in UPLOAD_CAPS:
        return (5, 0, 0)
    asset = int(name.startswith("GetMesh") or name.startswith("GetTexture") or name.startswith("ViewerAsset"))
    return (6, asset, int(name.endswith("ProxyWrapper")))


def act_code(a):
    if a.startswith("inject:"):
        return 1000 + int(a.split(":")[1])
    return {"take": 0, "resume": 1, "resume_fail": 2, "preempt": 3, "rewrite": 4, "stream0": 5, "stream1": 6}[a]


def hooks_words(hs):
    out = [len(hs)]
    for h in hs:
        out.append(RETS[h["ret"]])
        out.append(len(h["acts"]))
        out += [act_code(a) for a in h["acts"]]
    return out


DEFAULT_CASE = {
    "kind": "pump", "ev": "request", "cap": "FakeCap", "fault": "none", "swallow": True,
    "hooks": [], "sess_hooks": [], "reg_hooks": [], "asset_hit": False, "orig_present": True, "body": "ok",
    "eq_cached": False, "seed_needed": False, "req_shape": "plain", "logger": "none", "bridge": "none",
    "main_region": True, "login_ok": True, "fin_gs_ok": True, "proxied": False, "status": 200,
    "resp_inj": False, "req_inj": False, "can_stream": True, "ser": "empty", "late": [],
}


def full_case(c):
    d = dict(DEFAULT_CASE)
    d.update(c)
    return d


def request_cap_words(key):
    name, _url, typ = CAPS[key]
    code, asset, wrap = name_code(name)
    if name is None:
        return [0, 0, 0, 0, 0, 0]
    # Session.resolve_cap: asset-server caps that are not wrappers are not tied to a session / region
    tied = int(not (asset and typ != "WRAPPER"))
    return [code, asset, wrap, TYPES[typ], tied, tied]


def ser_cap_words(ser):
    """initial metadata cap_data of the flow rebuilt by from_state -> [present, code, asset, wrap, type, sess, region]"""
    if ser in ("absent", "none"):
        return [0]
    if ser == "empty":
        return [1, 0, 0, 0, 0, 0, 0]
    key, _, variant = ser.partition("/")
    name, _url, typ = CAPS[key]
    code, asset, wrap = name_code(name)
    sess = int(variant in ("", "noregion", "badregion"))
    reg = int(variant == "")
    return [1, code, asset, wrap, TYPES[typ], sess, reg]


def model_line(c):
    c = full_case(c)
    w = [EVS[c["ev"]]]
    w += request_cap_words(c["cap"])
    asset_cap = bool(request_cap_words(c["cap"])[1])
    w += [FAULTS[c["fault"]], int(c["swallow"]), int(c["asset_hit"] and asset_cap), int(c["orig_present"]),
          int(c["body"] == "ok"), int(c["eq_cached"]), int(c["seed_needed"]), int(REQ_SHAPES[c["req_shape"]]),
          int(REQ_SHAPES[c["req_shape"]] and c["req_shape"] != "login_cgi"),   # sniffed by URL suffix only
          LOGGERS[c["logger"]], BRIDGES[c["bridge"]], int(c["main_region"]), int(c["login_ok"]), 0,
          int(c["fin_gs_ok"]), int(c["proxied"])]
    w += [-1 if c["status"] is None else c["status"], int(c["resp_inj"]), int(c["req_inj"]), int(c["can_stream"])]
    w += ser_cap_words(c["ser"])
    w += hooks_words(c["hooks"]) + hooks_words(c["sess_hooks"]) + hooks_words(c["reg_hooks"])
    w += [len(c["late"])] + [act_code(a) for a in c["late"]]
    return "P " + " ".join(map(str, w))


# --------------------------------------------------------------------------
# implementation side

class _FlowContext:
    def __init__(self, to_proxy):
        self.from_proxy_queue = queue.Queue()
        self.to_proxy_queue = to_proxy
        self.shutdown_signal = threading.Event()
        self.mitmproxy_ready = threading.Event()


class _RecQueue(queue.Queue):
    """to_proxy_queue stand-in: remembers, for every put, what the in-memory flow looked like at that moment"""
    def __init__(self, env):
        super().__init__()
        self.env = env
        self.snaps = []

    def put(self, item, *a, **kw):
        self.snaps.append(self.env.snapshot_flow())
        return super().put(item, *a, **kw)


class _Logger:
    def __init__(self, raises):
        self.raises = raises
        self.calls = 0

    def log_http_response(self, flow):
        self.calls += 1
        if self.raises:
            raise RuntimeError("logger failed")

    def log_eq_event(self, *a):
        pass

    def log_lludp_message(self, *a):
        pass


class _Injected(Exception):
    pass


class Env:
    """One SessionManager with two sessions, reused across cases (per-case state is rebuilt in run_case)."""

    def __init__(self):
        from mitmproxy import http
        from hippolyzer.lib.base.datatypes import UUID
        from hippolyzer.lib.proxy.addons import AddonManager
        from hippolyzer.lib.proxy.http_event_manager import MITMProxyEventManager
        from hippolyzer.lib.proxy.http_flow import HippoHTTPFlow
        from hippolyzer.lib.proxy.sessions import SessionManager
        from hippolyzer.lib.proxy.settings import ProxySettings
        self.http = http
        self.UUID = UUID
        self.AddonManager = AddonManager
        self.HippoHTTPFlow = HippoHTTPFlow
        self.sm = SessionManager(ProxySettings())
        self.to_proxy = _RecQueue(self)
        self.fc = _FlowContext(self.to_proxy)
        self.sm.flow_context = self.fc
        self.sessA = self._mk_session(1, ("127.0.0.1", 3), CAPS["Seed"][1])
        self.sessB = self._mk_session(101, ("127.0.0.1", 4), "https://seed.example.com/other-session")
        self.sm.claim_session(self.sessA.id)          # sessA is not pending, sessB stays pending
        self.region = self.sessA.regions[-1]
        self.sessA.main_region = self.region
        self.region2 = self.sessA.register_region(("127.0.0.1", 5), "https://seed.example.com/region2", handle=7)
        self.base_sessions = list(self.sm.sessions)
        self.em = MITMProxyEventManager(self.sm, self.fc)
        self.cur_flow = None
        self.gs_mode = None
        self.fin_gs_ok = True
        self.canned = {st: http.Response.make(st, b"injected by addon", {"X-From": "addon"})
                       for st in (200, 204, 404, 500, 307)}
        self.orig_url = None
        self.orig_content = None

    def _mk_session(self, n, addr, seed):
        U = self.UUID
        return self.sm.create_session({
            "session_id": U(int=n), "secure_session_id": U(int=n + 1), "agent_id": U(int=n + 2),
            "circuit_code": 1000 + n, "sim_ip": addr[0], "sim_port": addr[1], "region_x": 0, "region_y": 123,
            "seed_capability": seed,
        })

    # -- observation helpers -------------------------------------------------
    def cap_words(self, cap):
        if cap is None:
            return "-"
        code, asset, wrap = name_code(cap.cap_name)
        sess = int(cap.session is not None and cap.session() is not None)
        reg = int(cap.region is not None and cap.region() is not None)
        return "%d.%d.%d.%d.%d.%d" % (code, asset, wrap, TYPES[cap.type.name], sess, reg)

    def sercap_words(self, ser):
        if ser is None:
            return "-"
        code, asset, wrap = name_code(ser.cap_name)
        return "%d.%d.%d.%d.%d.%d" % (code, asset, wrap, TYPES[ser.type], int(ser.session_id is not None),
                                      int(ser.region_addr is not None))

    def data_words(self, mitm_flow, cap_words):
        md = mitm_flow.metadata
        resp = mitm_flow.response
        return "%d %d %d %d %d %d %s" % (
            -1 if resp is None else resp.status_code, int(md["response_injected"]), int(md["request_injected"]),
            int(md["can_stream"]), int(mitm_flow.request.url != self.orig_url),
            int(mitm_flow.request.content != self.orig_content), cap_words)

    def snapshot_flow(self):
        """full picture of the in-memory flow (for the state-intact oracle) + the model-level words"""
        hf = self.cur_flow
        if hf is None:
            return None
        f = hf.flow
        cap = f.metadata.get("cap_data")
        return {
            "words": self.data_words(f, self.cap_words(cap)),
            "id": f.id,
            "url": f.request.url, "req_content": f.request.content, "req_headers": tuple(f.request.headers.fields),
            "method": f.request.method,
            "resp": None if f.response is None else (f.response.status_code, f.response.content,
                                                     tuple(f.response.headers.fields)),
            "flags": {k: f.metadata.get(k) for k in ("can_stream", "response_injected", "request_injected",
                                                     "from_browser", "needed_proxy_caps", "marker")},
            "cap": None if cap is None else (cap.cap_name, cap.type, cap.base_url,
                                             cap.session() if cap.session else None,
                                             cap.region() if cap.region else None),
        }

    # -- per-case world --------------------------------------------------------
    def reset(self, c):
        from hippolyzer.lib.proxy.caps import CapType
        sm, region = self.sm, self.region
        sm.sessions[:] = self.base_sessions
        region.caps.clear()
        region.caps["Seed"] = (CapType.NORMAL, CAPS["Seed"][1])
        for key, (name, url, typ) in CAPS.items():
            if key in ("Seed", "AssetWrapper", "NoCap", "Login", "Bridge") or name is None:
                continue
            if key == "SeedProxyOnly":
                continue
            region.caps.add(name, (CapType[typ], url))
        if c["orig_present"]:
            region.caps.add("Foo", (CapType.NORMAL, "http://foo-orig.example.com/orig"))
        region._recalc_caps()
        self.wrapper_url = region.register_wrapper_cap("ViewerAsset")
        if not c["orig_present"] and c["cap"] == "AssetWrapper":
            # the wrapped cap disappears after the wrapper was registered
            region.caps.popall("ViewerAsset")
            region._recalc_caps()
        region.eq_manager.clear()
        if c["eq_cached"]:
            region.eq_manager.cache_last_poll_response(5, {"events": [{"message": "X", "body": {}}], "id": 6})
        sm.asset_repo.data.clear()
        self.asset_id = sm.asset_repo.create_asset(b"asset-bytes", one_shot=False) if c["asset_hit"] else None
        self.em._asset_server_proxied = bool(c["proxied"])
        sm.message_logger = None if c["logger"] == "none" else _Logger(c["logger"] == "raise")
        if c["main_region"]:
            self.sessA.main_region = region
        else:
            self.sessA._main_region = None
        self.sessA.http_message_handler.handlers.pop("*", None)
        region.http_message_handler.handlers.pop("*", None)
        while not self.to_proxy.empty():
            self.to_proxy.get()
        self.to_proxy.snaps.clear()
        while not self.fc.from_proxy_queue.empty():
            self.fc.from_proxy_queue.get()
        self.cur_flow = None
        self.gs_mode = None
        self.fin_gs_ok = bool(c["fin_gs_ok"])
        self.held = False
        self.events = []
        self.addon_puts = 0

    def cap_url(self, key):
        if key == "AssetWrapper":
            return self.wrapper_url
        return CAPS[key][1]

    def build_flow(self, c):
        from mitmproxy.test import tflow, tutils
        from mitmproxy.http import Headers
        from hippolyzer.lib.proxy.caps import SerializedCapData
        key = c["cap"]
        ev = c["ev"]
        url = self.cap_url(key) if ev == "request" else CAPS.get(c["ser"].partition("/")[0], CAPS["FakeCap"])[1] or "http://x.example.com/"
        name = CAPS[key][0] if ev == "request" else None
        path_q = "/sub/path?x=1"
        if c["asset_hit"] and self.asset_id is not None:
            path_q = "/sub/path?texture_id=%s" % self.asset_id
        method, headers, content = "GET", [(b"header", b"qvalue")], b"content"
        if ev == "request":
            if name == "EventQueueGet":
                method = "POST"
                content = {"ok": b"<llsd><map><key>ack</key><integer>5</integer><key>done</key><boolean>0</boolean></map></llsd>",
                           "garbage": b"garbage", "noack": b"<llsd><map><key>done</key><boolean>0</boolean></map></llsd>"}[c["body"]]
            elif name == "Seed":
                method = "POST"
                names = ["EventQueueGet", "FakeCap"] + (["ProxyThing"] if c["seed_needed"] else [])
                ok = ("<llsd><array>" + "".join("<string>%s</string>" % n for n in names) + "</array></llsd>").encode()
                content = {"ok": ok, "garbage": b"garbage", "noack": b""}[c["body"]]
            elif name is None:
                shape = c["req_shape"]
                login_body = b'<?xml version="1.0"?><methodCall><methodName>login_to_simulator</methodName></methodCall>'
                if shape == "login_cgi":
                    method, headers, content, path_q = "POST", [(b"Content-Type", b"text/xml")], b"<x/>", "/cgi-bin/login.cgi"
                elif shape == "login_xml":
                    method, headers, content = "POST", [(b"Content-Type", b"application/xml")], login_body
                elif shape == "get_xml":
                    method, headers, content, path_q = "GET", [(b"Content-Type", b"text/xml")], login_body, "/cgi-bin/login.cgi"
                elif shape == "browser":
                    method, headers, content, path_q = "POST", [(b"Content-Type", b"text/xml")], login_body, "/cgi-bin/login.cgi"
                elif shape == "other_post":
                    method, headers, content = "POST", [(b"Content-Type", b"text/xml")], b"<methodCall/>"
                elif shape == "empty_post":
                    method, headers, content, path_q = "POST", [(b"Content-Type", b"text/xml")], b"", "/cgi-bin/login.cgi"
        req = tutils.treq(method=method.encode(), content=content, headers=Headers(headers))
        req.url = url.rstrip("/") + path_q
        resp = None
        if c["status"] is not None:
            rh = [(b"header-response", b"svalue")]
            if c["bridge"] == "bad":
                rh.append((b"X-SecondLife-Owner-Key", b"not-a-uuid"))
            elif c["bridge"] == "match":
                rh.append((b"X-SecondLife-Owner-Key", str(self.sessA.agent_id).encode()))
            elif c["bridge"] == "nomatch":
                rh.append((b"X-SecondLife-Owner-Key", str(self.UUID(int=999)).encode()))
            rcontent = b"response-content"
            ser_key = c["ser"].partition("/")[0]
            if ser_key == "Login":
                if c["login_ok"]:
                    U = self.UUID
                    login = {"session_id": str(U(int=501)), "secure_session_id": str(U(int=502)),
                             "agent_id": str(U(int=503)), "circuit_code": 77, "sim_ip": "127.0.0.9", "sim_port": 9,
                             "region_x": 1, "region_y": 2, "seed_capability": "https://seed.example.com/login-sess"}
                    rcontent = xmlrpc.client.dumps((login,), methodresponse=True).encode()
                else:
                    rcontent = b"garbage"
            elif ser_key == "Seed":
                rcontent = (b"<llsd><map><key>FakeCap</key><string>http://fakecap2.example.com/</string>"
                            b"<key>ViewerAsset</key><string>http://assets.example.com/va</string></map></llsd>"
                            if c["body"] == "ok" else b"garbage")
            elif ser_key == "EQ":
                rcontent = (b"<llsd><map><key>events</key><array></array><key>id</key><integer>3</integer></map></llsd>"
                            if c["body"] == "ok" else b"garbage")
            elif ser_key == "Upload":
                rcontent = (b"<llsd><map><key>uploader</key><string>http://upload.example.com/up1</string></map></llsd>"
                            if c["body"] == "ok" else b"garbage")
            resp = tutils.tresp(status_code=c["status"], content=rcontent, headers=Headers(rh))
        fl = tflow.tflow(req=req, resp=resp) if resp is not None else tflow.tflow(req=req)
        md = fl.metadata
        md["marker"] = "carried-along"
        if c["resp_inj"]:
            md["response_injected"] = True
        if c["req_inj"]:
            md["request_injected"] = True
        if not c["can_stream"]:
            md["can_stream"] = False
        if ev == "request" and name is None and c["req_shape"] == "browser":
            md["from_browser"] = True
        ser = c["ser"]
        if ser == "none":
            md["cap_data_ser"] = None
        elif ser == "empty":
            md["cap_data_ser"] = SerializedCapData()
        elif ser != "absent":
            skey, _, variant = ser.partition("/")
            sname, surl, styp = CAPS[skey]
            sid = str(self.sessA.id)
            addr = str(self.region.circuit_addr)
            if variant == "nosess":
                sid, addr = None, None
            elif variant == "unknown":
                sid = str(self.UUID(int=424242))
            elif variant == "noregion":
                addr = None
            elif variant == "badregion":
                addr = "('10.9.8.7', 1)"
            md["cap_data_ser"] = SerializedCapData(cap_name=sname, region_addr=addr, session_id=sid,
                                                   base_url=surl, type=styp)
        return fl

    # -- addon statements ------------------------------------------------------
    def do_act(self, flow, a):
        """one addon statement; self.held / self.events track ownership independently of the flow's own flags:
        an addon owns the flow from a take() that returned until its own resume() gets past the assertion"""
        if a == "take":
            flow.take()
            self.held = True
            self.events.append("take")
        elif a in ("resume", "resume_fail"):
            self.gs_mode = (a == "resume")
            before = self.to_proxy.qsize()
            try:
                flow.resume()
                self.held = False
                self.events.append("addon-resume")
            except _Injected:
                self.held = False
                self.events.append("addon-resume-gs-failed")
                raise
            finally:
                self.gs_mode = None
                self.addon_puts += self.to_proxy.qsize() - before
        elif a == "preempt":
            self.gs_mode = True
            try:
                flow.preempt()
            finally:
                self.gs_mode = None
        elif a == "rewrite":
            flow.request.url = REWRITTEN_URL
        elif a == "stream0":
            flow.can_stream = False
        elif a == "stream1":
            flow.can_stream = True
        elif a.startswith("inject:"):
            flow.response = self.canned[int(a.split(":")[1])].copy()
        else:
            raise ValueError(a)

    def mk_hook(self, h):
        env = self

        def run(flow):
            for a in h["acts"]:
                env.do_act(flow, a)
            if h["ret"] == "raise":
                raise RuntimeError("addon hook failed")
            return True if h["ret"] == "truthy" else None
        return run

    def mk_addon(self, h):
        from hippolyzer.lib.proxy.addon_utils import BaseAddon
        run = self.mk_hook(h)

        class HookAddon(BaseAddon):
            def handle_http_request(self, session_manager, flow):
                return run(flow)

            def handle_http_response(self, session_manager, flow):
                return run(flow)
        return HookAddon()

    # -- one case --------------------------------------------------------------
    def run_case(self, c):
        """-> observation dict: 'line' (same format as the model's output), 'oracle' (list of violated clauses)"""
        c = full_case(c)
        HF = self.HippoHTTPFlow
        AM = self.AddonManager
        http = self.http
        self.reset(c)
        fl = self.build_flow(c)
        self.orig_url = fl.request.url
        self.orig_content = fl.request.content
        AM.init([], self.sm, [self.mk_addon(h) for h in c["hooks"]], swallow_addon_exceptions=bool(c["swallow"]))
        for h in c["sess_hooks"]:
            self.sessA.http_message_handler.subscribe("*", self.mk_hook(h))
        for h in c["reg_hooks"]:
            self.region.http_message_handler.subscribe("*", self.mk_hook(h))
        env = self
        orig_from_state = HF.__dict__["from_state"]
        orig_get_state = HF.__dict__["get_state"]
        orig_make = http.Response.__dict__["make"]
        orig_reload = AM.__dict__["_reload_addons"]

        def from_state(cls, state, session_manager):
            hf = orig_from_state.__func__(cls, state, session_manager)
            if env.cur_flow is None:
                env.cur_flow = hf
            return hf

        def get_state(hf):
            ok = env.fin_gs_ok if env.gs_mode is None else env.gs_mode
            if not ok:
                raise _Injected("get_state failed")
            return orig_get_state(hf)

        def raising(*a, **kw):
            raise _Injected("injected fault")

        fault = c["fault"]
        exc = None
        try:
            HF.from_state = classmethod(from_state)
            HF.get_state = get_state
            if fault == "resolve":
                self.sm.resolve_cap = raising
            elif fault == "asset":
                self.sm.asset_repo.try_serve_asset = raising
            elif fault == "reload":
                AM._reload_addons = classmethod(raising)
            elif fault == "make":
                http.Response.make = classmethod(raising)
            elif fault == "sniff":
                self.em._is_login_request = raising
            ev_name = {"request": "request", "response": "response", "bogus": "no-such-event"}[c["ev"]]
            self.fc.from_proxy_queue.put((ev_name, fl.get_state()))
            coro = self.em.pump_proxy_event()
            try:
                with contextlib.redirect_stdout(io.StringIO()):
                    coro.send(None)
                exc = "YIELDED"
                coro.close()
            except StopIteration:
                exc = None
            except Exception as e:  # noqa
                exc = type(e).__name__
        finally:
            HF.from_state = orig_from_state
            self.sm.__dict__.pop("resolve_cap", None)
            self.sm.asset_repo.__dict__.pop("try_serve_asset", None)
            AM._reload_addons = orig_reload
            http.Response.make = orig_make
            self.em.__dict__.pop("_is_login_request", None)
        oracle = []
        hf = self.cur_flow
        try:
            if hf is None:
                return {"line": "NOFLOW exc=%s" % exc, "oracle": [{"clause": "from_state failed, flow never handed back"}]}
            taken1, resumed1 = bool(hf.taken), bool(hf.resumed)
            nput1 = self.to_proxy.qsize()
            held1 = self.held
            addon_puts1 = self.addon_puts
            proxied = bool(self.em._asset_server_proxied)
            # later statements of the addon that may hold the flow
            oks = []
            for a in c["late"]:
                before = self.to_proxy.qsize()
                try:
                    self.do_act(hf, a)
                    oks.append(True)
                except AssertionError:
                    oks.append(False)
                    if self.to_proxy.qsize() != before:
                        oracle.append({"clause": "a rejected take/resume/preempt puts nothing", "late_op": a})
                except _Injected:
                    oks.append(False)
                except Exception as e:  # noqa
                    oks.append(False)
                    oracle.append({"clause": "late statement raised unexpectedly", "late_op": a, "exc": type(e).__name__})
        finally:
            HF.get_state = orig_get_state
        items = []
        while not self.to_proxy.empty():
            items.append(self.to_proxy.get())
        snaps = list(self.to_proxy.snaps)
        put_words = []
        n_cb = 0
        for (kind, fid, state), snap in zip(items, snaps):
            mf = http.HTTPFlow.from_state(copy.deepcopy(state))
            tag = {"callback": "cb", "preempt": "pre"}.get(kind, kind)
            n_cb += kind == "callback"
            put_words.append(tag + " " + self.data_words(mf, self.sercap_words(mf.metadata.get("cap_data_ser"))))
            oracle += self.check_intact(kind, fid, state, snap)
        final = self.data_words(hf.flow, self.cap_words(hf.flow.metadata.get("cap_data")))
        line = "%d %d %d %d %d %d | %s | %s | %d %d %d %d | %s" % (
            int(exc is not None), int(taken1), int(resumed1), int(proxied), nput1, int(held1),
            " ; ".join(put_words), final, int(hf.taken), int(hf.resumed), n_cb, int(self.held),
            "".join("1" if o else "0" for o in oks))
        # ---- the property's own clauses, evaluated on the implementation ----
        gs_faults = (not c["fin_gs_ok"]) or any("resume_fail" in h["acts"] for k in ("hooks", "sess_hooks", "reg_hooks")
                                                for h in c[k]) or "resume_fail" in c["late"]
        n_cb_pump = sum(1 for it in items[:nput1] if it[0] == "callback")
        if n_cb > 1:
            oracle.append({"clause": "handed back at most once", "callbacks": n_cb})
        proxy_cb = n_cb_pump - addon_puts1      # callbacks not put from inside an addon's own resume()
        if held1 and proxy_cb > 0:
            oracle.append({"clause": "the proxy does not hand back a flow an addon holds",
                           "callbacks_by_proxy": proxy_cb, "exc": exc})
        if not gs_faults:
            want = 0 if held1 else 1
            if n_cb_pump != want:
                oracle.append({"clause": "during the pump: exactly one callback unless an addon holds the flow, then none",
                               "callbacks": n_cb_pump, "held_by_addon": held1, "exc": exc})
            want2 = 0 if self.held else 1
            if n_cb != want2:
                oracle.append({"clause": "over the whole history: exactly one callback once no addon holds the flow",
                               "callbacks": n_cb, "held_by_addon": self.held})
        return {"line": line, "oracle": oracle, "exc": exc}

    def check_intact(self, kind, fid, state, snap):
        """state intact: what arrives through get_state -> from_state equals the flow as it was at the put"""
        out = []
        if snap is None:
            return out
        if fid != snap["id"]:
            out.append({"clause": "put carries the flow id", "got": fid})
        try:
            hf2 = self.HippoHTTPFlow.from_state(copy.deepcopy(state), self.sm)
        except Exception as e:  # noqa
            return out + [{"clause": "state can be rebuilt by from_state", "exc": type(e).__name__}]
        f2 = hf2.flow
        if (f2.request.url, f2.request.content, tuple(f2.request.headers.fields), f2.request.method) != \
                (snap["url"], snap["req_content"], snap["req_headers"], snap["method"]):
            out.append({"clause": "request survives the state transfer"})
        r2 = None if f2.response is None else (f2.response.status_code, f2.response.content, tuple(f2.response.headers.fields))
        if r2 != snap["resp"]:
            out.append({"clause": "response survives the state transfer"})
        for k, v in snap["flags"].items():
            if f2.metadata.get(k) != v:
                out.append({"clause": "metadata flag survives the state transfer", "flag": k})
        cap2 = f2.metadata.get("cap_data")
        c2 = None if cap2 is None else (cap2.cap_name, cap2.type, cap2.base_url,
                                        cap2.session() if cap2.session else None,
                                        cap2.region() if cap2.region else None)
        want = snap["cap"]
        if want is not None and want[3] is None and want[4] is not None:
            # region without a session cannot be found again (CapData.deserialize looks regions up per session):
            # outside the hypothesis of C15_capdata_roundtrip, not produced by resolve_cap
            want = want[:4] + (None,)
        if (c2 is None) != (want is None) or (c2 is not None and (c2[:3] != want[:3] or c2[3] is not want[3] or c2[4] is not want[4])):
            out.append({"clause": "cap data (name, type, base_url, session, region) survives the state transfer",
                        "got": repr(c2)[:200], "want": repr(want)[:200]})
        return out


# --------------------------------------------------------------------------
# case generators

ACT_POOL = ["take", "resume", "preempt", "rewrite", "stream0", "inject:200", "inject:404"]
BEHAVIOURS = [  # the design's addon behaviours
    {"acts": [], "ret": "falsy"},                              # ignore
    {"acts": [], "ret": "raise"},                              # raise
    {"acts": ["take"], "ret": "falsy"},                        # take (resume later / never)
    {"acts": ["take", "resume"], "ret": "falsy"},              # take + resume now
    {"acts": ["inject:200"], "ret": "truthy"},                 # inject response
    {"acts": ["rewrite"], "ret": "falsy"},                     # rewrite url
    {"acts": ["take"], "ret": "raise"},                        # take, then blow up
    {"acts": ["stream0"], "ret": "falsy"},
    {"acts": ["resume"], "ret": "falsy"},                      # resume without take
    {"acts": ["take", "inject:404"], "ret": "truthy"},
]
LATES = [[], ["resume"], ["resume", "resume"], ["take"], ["resume", "take"], ["preempt"], ["resume", "preempt"],
         ["inject:204", "resume"], ["rewrite", "resume", "preempt", "resume"]]


def corpus_cases():
    d = os.path.join(os.path.dirname(os.path.dirname(os.path.dirname(os.path.abspath(__file__)))), "corpus", "C15")
    out = []
    if os.path.isdir(d):
        for fn in sorted(os.listdir(d)):
            if fn.endswith(".json"):
                try:
                    data = json.load(open(os.path.join(d, fn)))
                except Exception:  # noqa
                    continue
                for c in (data if isinstance(data, list) else [data]):
                    if c.get("kind", "pump") == "pump":
                        out.append(("corpus", c))
    return out


def gen_structured():
    """exhaustive small scope: every event/cap x fault x single-hook behaviour x swallow, and the data-dependent raises"""
    for cap in REQUEST_CAPS:
        for fault in FAULTS:
            for bi, beh in enumerate(BEHAVIOURS):
                for swallow in (True, False):
                    if not swallow and beh["ret"] != "raise":
                        continue
                    yield "req-fault-x-behaviour", {"ev": "request", "cap": cap, "fault": fault, "swallow": swallow,
                                                     "hooks": [beh], "late": LATES[bi % len(LATES)]}
    for cap in ("FakeCap", "ProxyOnly", "AssetWrapper"):
        for b1, b2 in itertools.product(BEHAVIOURS, repeat=2):
            yield "req-two-addons", {"ev": "request", "cap": cap, "hooks": [b1, b2], "late": ["resume", "take", "resume"]}
    for ser in ("FakeCap", "empty"):
        for b1, b2 in itertools.product(BEHAVIOURS, repeat=2):
            yield "resp-two-addons", {"ev": "response", "ser": ser, "hooks": [b1, b2], "sess_hooks": [b2],
                                      "late": ["resume", "preempt"]}
    # data-dependent outcomes of the request branches
    for cap in ("AssetWrapper", "FooWrapper", "TexWrapperPlain"):
        for orig, cs, prox, fault in itertools.product((True, False), (True, False), (True, False), ("none", "make")):
            yield "req-wrapper", {"ev": "request", "cap": cap, "orig_present": orig, "can_stream": cs, "proxied": prox,
                                  "fault": fault, "hooks": [{"acts": ["stream0"] if not cs else [], "ret": "falsy"}]}
    for cap in ("Asset", "AssetWrapper", "MeshProxyOnly"):
        for hit, fault, inj, lg in itertools.product((True, False), ("none", "asset", "make"), (False, True),
                                                      ("none", "ok", "raise")):
            yield "req-asset", {"ev": "request", "cap": cap, "asset_hit": hit, "fault": fault, "req_inj": inj, "logger": lg}
    for body, cached, fault, lg in itertools.product(("ok", "garbage", "noack"), (True, False), ("none", "make"),
                                                     ("none", "raise")):
        yield "req-eq", {"ev": "request", "cap": "EQ", "body": body, "eq_cached": cached, "fault": fault, "logger": lg}
    for body, needed in itertools.product(("ok", "garbage", "noack"), (True, False)):
        yield "req-seed", {"ev": "request", "cap": "Seed", "body": body, "seed_needed": needed}
    for shape, fault in itertools.product(REQ_SHAPES, ("none", "sniff")):
        yield "req-login-sniff", {"ev": "request", "cap": "NoCap", "req_shape": shape, "fault": fault}
    for cap in ("ProxyOnly", "MeshProxyOnly"):
        for bi, beh in enumerate(BEHAVIOURS):
            for fault, lg, inj in itertools.product(("none", "make"), ("none", "ok", "raise"), (False, True)):
                yield "req-proxy-only", {"ev": "request", "cap": cap, "hooks": [beh], "fault": fault, "logger": lg,
                                         "req_inj": inj, "late": LATES[(bi + 1) % len(LATES)]}
    for cap in REQUEST_CAPS:
        for ser in ("absent", "none", "empty"):
            yield "req-injected", {"ev": "request", "cap": cap, "req_inj": True, "ser": ser,
                                   "hooks": [{"acts": ["take"], "ret": "falsy"}]}
    # responses
    sers = ["absent", "none", "empty"] + RESPONSE_CAPS + [k + "/" + v for k in ("FakeCap", "Seed", "EQ")
                                                          for v in ("nosess", "unknown", "noregion", "badregion")]
    for ser in sers:
        for status in (200, 404, None):
            for bi, beh in enumerate(BEHAVIOURS):
                for swallow in (True, False):
                    if not swallow and beh["ret"] != "raise":
                        continue
                    yield "resp-ser-x-behaviour", {"ev": "response", "ser": ser, "status": status, "hooks": [beh],
                                                   "swallow": swallow, "late": LATES[(bi + 2) % len(LATES)],
                                                   "body": "ok" if bi % 2 else "garbage"}
    for ser in ("FakeCap", "Seed", "EQ", "Upload", "FakeCap/noregion", "FakeCap/unknown"):
        for b1 in BEHAVIOURS:
            for where in ("sess_hooks", "reg_hooks"):
                yield "resp-subscribers", {"ev": "response", "ser": ser, where: [b1, BEHAVIOURS[2]],
                                           "late": ["resume", "resume"]}
    for bridge, mr, status, fault in itertools.product(BRIDGES, (True, False), (200, 500), ("none", "reload")):
        yield "resp-bridge", {"ev": "response", "ser": "Bridge/nosess", "bridge": bridge, "main_region": mr,
                              "status": status, "fault": fault, "hooks": [BEHAVIOURS[2]], "late": ["resume"]}
    for ok, status, beh in itertools.product((True, False), (200, 403), BEHAVIOURS[:5]):
        yield "resp-login", {"ev": "response", "ser": "Login/nosess", "login_ok": ok, "status": status, "hooks": [beh]}
    for inj_r, inj_q, lg in itertools.product((True, False), (True, False), ("none", "ok", "raise")):
        yield "resp-injected", {"ev": "response", "ser": "FakeCap", "resp_inj": inj_r, "req_inj": inj_q, "logger": lg,
                                "hooks": [BEHAVIOURS[2]]}
    for beh in BEHAVIOURS:
        yield "bogus-event", {"ev": "bogus", "hooks": [beh]}
    # get_state failing inside resume (outside the property's quantifier; model/impl agreement only)
    for ev in ("request", "response"):
        yield "gs-fault", {"ev": ev, "fin_gs_ok": False, "ser": "FakeCap", "late": ["resume", "take"]}
        yield "gs-fault", {"ev": ev, "hooks": [{"acts": ["take", "resume_fail"], "ret": "falsy"}], "ser": "FakeCap",
                           "late": ["resume"]}
        yield "gs-fault", {"ev": ev, "hooks": [{"acts": ["take"], "ret": "falsy"}], "ser": "FakeCap",
                           "late": ["resume_fail", "resume", "take"]}


def rand_hook(rng):
    n = rng.choice((0, 1, 1, 2, 2, 3, 4))
    return {"acts": [rng.choice(ACT_POOL) for _ in range(n)], "ret": rng.choice(("falsy", "falsy", "truthy", "raise"))}


def gen_random(ctx, n):
    rng = ctx.rng
    sers = ["absent", "none", "empty"] + RESPONSE_CAPS + [k + "/" + v for k in RESPONSE_CAPS
                                                          for v in ("nosess", "unknown", "noregion", "badregion")]
    for _ in range(n):
        ev = rng.choice(("request", "request", "response", "response", "bogus") if rng.random() < 0.2
                        else ("request", "response"))
        c = {
            "ev": ev, "cap": rng.choice(REQUEST_CAPS), "fault": rng.choice(list(FAULTS) + ["none"] * 4),
            "swallow": rng.random() < 0.7,
            "hooks": [rand_hook(rng) for _ in range(rng.choice((0, 1, 1, 2, 3)))],
            "sess_hooks": [rand_hook(rng) for _ in range(rng.choice((0, 0, 1, 2)))],
            "reg_hooks": [rand_hook(rng) for _ in range(rng.choice((0, 0, 1)))],
            "asset_hit": rng.random() < 0.4, "orig_present": rng.random() < 0.7,
            "body": rng.choice(("ok", "ok", "garbage", "noack")), "eq_cached": rng.random() < 0.5,
            "seed_needed": rng.random() < 0.5, "req_shape": rng.choice(list(REQ_SHAPES)),
            "logger": rng.choice(("none", "ok", "raise")), "bridge": rng.choice(list(BRIDGES)),
            "main_region": rng.random() < 0.7, "login_ok": rng.random() < 0.6,
            "fin_gs_ok": rng.random() < 0.95, "proxied": rng.random() < 0.3,
            "status": rng.choice((200, 200, 200, 404, 500, None)) if ev != "request" else rng.choice((None, None, 200)),
            "resp_inj": rng.random() < 0.1, "req_inj": rng.random() < 0.2, "can_stream": rng.random() < 0.8,
            "ser": rng.choice(sers),
            "late": [rng.choice(["take", "resume", "resume", "preempt", "rewrite", "inject:204", "resume_fail"]
                                if rng.random() < 0.1 else ["take", "resume", "resume", "preempt", "rewrite", "inject:204"])
                     for _ in range(rng.choice((0, 1, 2, 3)))],
        }
        if c["status"] is not None and ev == "request":
            c["resp_inj"] = False
        yield "random", c


def gen_cases(ctx):
    for k, c in corpus_cases():
        yield k, c
    for k, c in gen_structured():
        yield k, c
    for k, c in gen_random(ctx, ctx.pick(2500, 60000)):
        yield k, c


def nontrivial(c):
    c = full_case(c)
    return (c["fault"] != "none" or any(h["acts"] or h["ret"] != "falsy" for k in ("hooks", "sess_hooks", "reg_hooks")
                                        for h in c[k]) or bool(c["late"]) or c["body"] != "ok" or not c["orig_present"])


@contextlib.contextmanager
def quiet():
    prev = logging.root.manager.disable
    logging.disable(logging.CRITICAL)
    try:
        yield
    finally:
        logging.disable(prev)


# --------------------------------------------------------------------------
# suites

def suite_pump(ctx):
    res = CorrResult(suite="pump_proxy_event + handlers + addon hooks: impl vs extracted model",
                     rule="corpus, then an exhaustive small scope (every request cap x every fault point x 10 single-addon "
                          "behaviours x swallow on/off; every response cap-data variant x status x behaviour; every data-"
                          "dependent raise of the wrapper / asset / EventQueueGet / Seed / login-sniff / proxy-only / bridge / "
                          "login branches), then seeded random cases with up to 3 addons, 2+1 message-handler subscribers "
                          "(0-4 statements each) and 0-3 later statements; each case runs one real pump_proxy_event and "
                          "the later statements, and is compared with the model on: raised?, taken/resumed after the pump, "
                          "_asset_server_proxied, number of puts, kind + decoded state of every put, final in-memory data, "
                          "which later statements were rejected; plus the impl-level clauses of C15; "
                          "non-trivial = a fault, a non-ignoring hook, later statements or a data-dependent raise")
    env = Env()
    cases, lines, seen, dist = [], [], set(), {}
    for kind, c in gen_cases(ctx):
        key = json.dumps(full_case(c), sort_keys=True)
        if key in seen:
            continue
        seen.add(key)
        cases.append((kind, c))
        lines.append(model_line(c))
        dist[kind] = dist.get(kind, 0) + 1
    model = ctx.run_driver(lines)
    nontriv = 0
    outcome = {"exc": 0, "held_by_addon": 0, "released_later": 0, "rejected_late_ops": 0}
    with quiet():
        for i, ((kind, c), m) in enumerate(zip(cases, model)):
            if i % 2000 == 1999:
                env = Env()
                gc.collect()
            try:
                obs = env.run_case(c)
            except Exception as e:  # noqa - harness must not crash
                import traceback
                obs = {"line": "HARNESS-EXC:%s" % type(e).__name__, "oracle": [], "tb": traceback.format_exc()[-600:]}
                env = Env()
            if obs["line"].strip() != m.strip():
                res.disagreements.append({"case": c, "impl": obs["line"], "model": m, "tb": obs.get("tb", "")})
            for v in obs["oracle"]:
                v = dict(v)
                v["class"] = v["clause"]
                v["case"] = c
                res.impl_violations.append(v)
            nontriv += nontrivial(c)
            w = obs["line"].split()
            if len(w) > 3 and w[0] in "01":
                outcome["exc"] += w[0] == "1"
                outcome["held_by_addon"] += w[1] == "1"
                tail = obs["line"].split("|")
                if len(tail) == 5:
                    outcome["released_later"] += (w[1] == "1" and tail[3].split()[1] == "1")
                    outcome["rejected_late_ops"] += tail[4].count("0")
    res.evaluations = len(cases)
    res.distinct_nontrivial = nontriv
    dist.update({"outcome:" + k: v for k, v in outcome.items()})
    res.distribution = dist
    res.samples = [{"kind": k, "case": c, "model": model[i]} for i, (k, c) in
                   list(enumerate(cases))[5:8] + list(enumerate(cases))[-2:]]
    return res


# ---- cap data round trip ----------------------------------------------------

class _Obj:
    __slots__ = ("__weakref__", "__dict__")

    def __init__(self, **kw):
        self.__dict__.update(kw)


def capdata_cases(ctx):
    """(sessions spec, capdata spec): sessions = [(sid, [addr...])...]; refs: None | 'dead' | index / (si, ri)"""
    small = []
    for ns in range(0, 3):
        for sids in itertools.product((100, 101), repeat=ns):
            for regs in itertools.product(((), (10,), (10, 11), (10, 10)), repeat=ns):
                small.append([(sids[i], list(regs[i])) for i in range(ns)])
    for sessions in small:
        srefs = [None, "dead"] + list(range(len(sessions)))
        for sref in srefs:
            rrefs = [None, "dead"] + [(si, ri) for si in range(len(sessions)) for ri in range(len(sessions[si][1]))]
            for rref in rrefs:
                yield "exh", True, sessions, {"name": 7, "url": 9, "type": 2, "sref": sref, "rref": rref}
    rng = ctx.rng
    for _ in range(ctx.pick(1500, 30000)):
        ns = rng.randrange(0, 5)
        sessions = [(rng.choice((100, 101, 102, 103, 104)), [rng.choice((10, 11, 12, 13)) for _ in range(rng.randrange(0, 4))])
                    for _ in range(ns)]
        sref = rng.choice([None, "dead"] + list(range(ns)) * 3)
        allr = [(si, ri) for si in range(ns) for ri in range(len(sessions[si][1]))]
        rref = rng.choice([None, "dead"] + allr * 3)
        yield "rand", rng.random() < 0.9, sessions, {
            "name": rng.choice((None, 7, 8)), "url": rng.choice((None, 9)), "type": rng.randrange(4),
            "sref": sref, "rref": rref}


def capdata_line(mgr, sessions, cd):
    w = [int(mgr), len(sessions)]
    oid = 1
    roid = 1000
    for sid, regs in sessions:
        w += [oid, sid, len(regs)]
        oid += 1
        for a in regs:
            w += [roid, a]
            roid += 1
    w += [-1 if cd["name"] is None else cd["name"], -1 if cd["url"] is None else cd["url"], cd["type"]]
    w += [cd["sref"] if isinstance(cd["sref"], int) else {None: -1, "dead": -2}[cd["sref"]]]
    if isinstance(cd["rref"], tuple):
        w += list(cd["rref"])
    else:
        w += [{None: -1, "dead": -2}[cd["rref"]]]
    return "D " + " ".join(map(str, w))


def run_capdata_case(mgr, sessions, cd):
    """real CapData.serialize/deserialize on stand-in objects -> (line in the model's format, violated clause or None)"""
    from hippolyzer.lib.proxy.caps import CapData, CapType
    types = [CapType.NORMAL, CapType.TEMPORARY, CapType.WRAPPER, CapType.PROXY_ONLY]
    oid, roid = 1, 1000
    sobjs = []
    for sid, regs in sessions:
        robjs = []
        for a in regs:
            robjs.append(_Obj(oid=roid, circuit_addr=("10.0.0.%d" % a, a)))
            roid += 1
        sobjs.append(_Obj(oid=oid, id="00000000-0000-0000-0000-%012d" % sid, regions=robjs))
        oid += 1
    mgr_obj = _Obj(sessions=sobjs) if mgr else None
    keep = []

    def mkref(spec, getter):
        if spec is None:
            return None
        if spec == "dead":
            o = _Obj(oid=-1, id="dead", circuit_addr=("dead", 0), regions=[])
            r = weakref.ref(o)
            del o
            return r
        o = getter(spec)
        keep.append(o)
        return weakref.ref(o)
    sspec = cd["sref"]
    rspec = tuple(cd["rref"]) if isinstance(cd["rref"], list) else cd["rref"]
    sref = mkref(sspec, lambda k: sobjs[k])
    rref = mkref(rspec, lambda t: sobjs[t[0]].regions[t[1]])
    name = None if cd["name"] is None else "Cap%d" % cd["name"]
    url = None if cd["url"] is None else "http://u%d.example.com/" % cd["url"]
    c = CapData(name, rref, sref, url, types[cd["type"]])
    try:
        s = c.serialize()
        c2 = CapData.deserialize(s, mgr_obj)
    except Exception as e:  # noqa
        return "EXC:" + type(e).__name__, None
    addr_tok = {str(("10.0.0.%d" % a, a)): a for a in (10, 11, 12, 13)}
    sid_tok = {"00000000-0000-0000-0000-%012d" % k: k for k in range(100, 105)}
    ser_s = "ser %s %s %s %s %d" % (
        "-" if s.cap_name is None else s.cap_name[3:],
        "-" if s.region_addr is None else addr_tok.get(s.region_addr, "?" + s.region_addr),
        "-" if s.session_id is None else sid_tok.get(s.session_id, "?" + s.session_id),
        "-" if s.base_url is None else s.base_url[8:].split(".")[0], TYPES.get(s.type, -1))
    rr = "-" if c2.region is None else ("dead" if c2.region() is None else str(c2.region().oid))
    sr = "-" if c2.session is None else ("dead" if c2.session() is None else str(c2.session().oid))
    de_s = "de %s %s %s %s %d" % ("-" if c2.cap_name is None else c2.cap_name[3:], rr, sr,
                                  "-" if c2.base_url is None else c2.base_url[8:].split(".")[0],
                                  TYPES[c2.type.name])
    # property clause (hypotheses of C15_capdata_roundtrip)
    hyp = bool(mgr) and len({x[0] for x in sessions}) == len(sessions)
    if hyp:
        if sspec is None:
            hyp = rspec is None
        elif sspec == "dead" or rspec == "dead":
            hyp = False
        elif isinstance(rspec, tuple):
            regs = sessions[sspec][1]
            hyp = rspec[0] == sspec and len(set(regs)) == len(regs)
    viol = None
    if hyp:
        same = (c2.cap_name == c.cap_name and c2.base_url == c.base_url and c2.type == c.type
                and (c2.session is None) == (c.session is None) and (c2.region is None) == (c.region is None)
                and (c.session is None or c2.session() is c.session())
                and (c.region is None or c2.region() is c.region()))
        if not same:
            viol = {"clause": "CapData round trip under unique ids / live references", "class": "capdata round trip",
                    "case": {"kind": "capdata", "mgr": bool(mgr), "sessions": sessions, "cd": cd},
                    "got": ser_s + " | " + de_s}
    return ser_s + " | " + de_s, viol


def suite_capdata(ctx):
    res = CorrResult(suite="CapData.serialize/deserialize: impl vs extracted model",
                     rule="exhaustive: every session list of up to 2 sessions over 2 ids with region lists from "
                          "{[],[a],[a,b],[a,a]} x every session/region reference (None, dead weakref, each object); then "
                          "seeded random lists of up to 4 sessions / 3 regions with colliding ids and addresses; the real "
                          "CapData.serialize/deserialize run on stand-in session/region objects (only .id, .regions, "
                          ".circuit_addr, .sessions are read); compared on all five serialized fields and on the identity "
                          "of the objects found; the round-trip clause is checked whenever the hypotheses of "
                          "C15_capdata_roundtrip hold; non-trivial = at least one reference is set")
    lines, impl, meta = [], [], []
    dist = {}
    for kind, mgr, sessions, cd in capdata_cases(ctx):
        lines.append(capdata_line(mgr, sessions, cd))
        dist[kind] = dist.get(kind, 0) + 1
        i_line, viol = run_capdata_case(mgr, sessions, cd)
        impl.append(i_line)
        if viol:
            res.impl_violations.append(viol)
        meta.append((mgr, sessions, cd))
    model = ctx.run_driver(lines)
    nontriv = 0
    for (mgr, sessions, cd), i_line, m_line in zip(meta, impl, model):
        if i_line.strip() != m_line.strip():
            res.disagreements.append({"case": {"kind": "capdata", "mgr": mgr, "sessions": sessions, "cd": cd},
                                      "impl": i_line, "model": m_line})
        nontriv += (cd["sref"] is not None or cd["rref"] is not None)
    res.evaluations = len(lines)
    res.distinct_nontrivial = nontriv
    res.distribution = dist
    res.samples = [{"line": lines[i], "model": model[i]} for i in (0, len(lines) // 2, len(lines) - 1)]
    return res


# ---- get_state / from_state on real flows (premise of C15_flags_preserved) ----------------

def run_transfer_case(env, tc):
    """tc: {cap, flags[4], seed} -> list of violated clauses"""
    import pickle
    import random
    from mitmproxy.test import tflow, tutils
    from mitmproxy.http import Headers
    from hippolyzer.lib.proxy.caps import CapData
    rng = random.Random(tc["seed"])
    key = tc["cap"]
    cs, ri, qi, br = tc["flags"]
    content = bytes(rng.randrange(256) for _ in range(rng.randrange(0, 40)))
    req = tutils.treq(content=content, headers=Headers([(b"h%d" % i, b"v") for i in range(rng.randrange(0, 4))]))
    url = env.cap_url(key) if key in CAPS else "http://other.example.com/"
    req.url = url.rstrip("/") + "/p%d?q=%d" % (rng.randrange(100), rng.randrange(100))
    with_resp = rng.random() < 0.6
    fl = tflow.tflow(req=req, resp=tutils.tresp(status_code=rng.choice((200, 404, 307)), content=content[::-1])) \
        if with_resp else tflow.tflow(req=req)
    fl.metadata.update({"can_stream": cs, "response_injected": ri, "request_injected": qi, "from_browser": br,
                        "needed_proxy_caps": ["A", "B"][:rng.randrange(3)], "marker": rng.randrange(1000)})
    hf = env.HippoHTTPFlow(fl, env.to_proxy)
    if key == "none":
        hf.cap_data = None
    elif key == "emptycap":
        hf.cap_data = CapData()
    else:
        hf.cap_data = env.sm.resolve_cap(fl.request.url)
    if rng.random() < 0.3:
        hf.response = env.canned[rng.choice((200, 404))].copy()
    if rng.random() < 0.3:
        hf.request.url = REWRITTEN_URL
    env.cur_flow = hf
    env.orig_url, env.orig_content = fl.request.url, fl.request.content
    snap = env.snapshot_flow()
    try:
        state = pickle.loads(pickle.dumps(hf.get_state()))
        after = env.snapshot_flow()
        bad = env.check_intact("callback", fl.id, state, snap)
        if after != snap:
            bad.append({"clause": "get_state leaves the sender's flow unchanged"})
    except Exception as e:  # noqa
        bad = [{"clause": "get_state/from_state raised", "exc": type(e).__name__}]
    return bad, bool(snap["cap"] and snap["cap"][3] is not None)


def suite_transfer(ctx):
    res = CorrResult(suite="HippoHTTPFlow.get_state -> from_state on real flows (conclusion of C15_state_intact)",
                     rule="real HippoHTTPFlow objects over mitmproxy tflow()s with generated urls/bodies/headers/status, every "
                          "combination of the four metadata booleans, cap data resolved by the real resolve_cap for every "
                          "registered cap kind (or None / CapData()), optional injected response and rewritten url; the state "
                          "is also pickled and unpickled (what multiprocessing.Queue does); checks that request, response, the "
                          "booleans, extra metadata and cap name/type/base_url/session/region (by identity) are unchanged, "
                          "and that the sender's flow keeps its cap data; non-trivial = cap data refers to a session")
    env = Env()
    rng = ctx.rng
    n = 0
    nontriv = 0
    with quiet():
        env.reset(full_case({}))
        keys = [k for k in REQUEST_CAPS if k != "Temp"]
        combos = list(itertools.product(keys + ["none", "emptycap"], (False, True), (False, True), (False, True), (False, True)))
        extra = [rng.choice(combos) for _ in range(ctx.pick(300, 5000))]
        for key, cs, ri, qi, br in combos + extra:
            tc = {"kind": "transfer", "cap": key, "flags": [cs, ri, qi, br], "seed": rng.randrange(1 << 30)}
            bad, nt = run_transfer_case(env, tc)
            n += 1
            nontriv += nt
            for v in bad:
                v = dict(v)
                v["class"] = v["clause"]
                v["case"] = tc
                res.impl_violations.append(v)
    res.evaluations = n
    res.distinct_nontrivial = nontriv
    res.distribution = {"combos": len(combos), "random": len(extra)}
    res.samples = [{"cap": k, "flags": [a, b, c, d]} for k, a, b, c, d in combos[:3]]
    return res


# ---- proxy side ---------------------------------------------------------------

class _FakeMitmFlow:
    def __init__(self, fid, set_ok):
        self.id = fid
        self.set_ok = set_ok
        self.resumes = 0
        self.intercepts = 0
        self.states = 0

    def set_state(self, st):
        if not self.set_ok:
            raise ValueError("bad state")
        self.states += 1

    def intercept(self):
        self.intercepts += 1

    def resume(self):
        self.resumes += 1


def run_proxy_pump(ev, present, set_ok):
    """one iteration of the real IPCInterceptionAddon._pump_callbacks with a fake master / watcher"""
    import mitmproxy.ctx
    from mitmproxy.test import tflow
    import hippolyzer.lib.proxy.http_proxy as hp
    to_proxy = queue.Queue()
    fc = _FlowContext(to_proxy)
    addon = hp.IPCInterceptionAddon(fc)
    fake = _FakeMitmFlow("flow-1", set_ok)
    if present:
        addon.flows["flow-1"] = fake
    state = tflow.tflow().get_state()
    to_proxy.put(({0: "callback", 1: "preempt", 2: "replay", 3: "no-such-event"}[ev], "flow-1", state))

    class Watcher:
        def __init__(self, sig):
            self.n = 0

        def check_shutdown_needed(self):
            self.n += 1
            return self.n > 1

    class Master:
        shutdowns = 0

        class commands:
            calls = []

            @classmethod
            def call(cls, *a):
                cls.calls.append(a)

        def shutdown(self):
            Master.shutdowns += 1
    old_w = hp.ParentProcessWatcher
    had = hasattr(mitmproxy.ctx, "master")
    old_m = getattr(mitmproxy.ctx, "master", None)
    exc = None
    try:
        hp.ParentProcessWatcher = Watcher
        mitmproxy.ctx.master = Master()
        coro = addon._pump_callbacks()
        try:
            coro.send(None)
            exc = "YIELDED"
            coro.close()
        except StopIteration:
            pass
        except Exception as e:  # noqa
            exc = type(e).__name__
    finally:
        hp.ParentProcessWatcher = old_w
        if had:
            mitmproxy.ctx.master = old_m
        else:
            try:
                del mitmproxy.ctx.master
            except Exception:  # noqa
                pass
    if exc:
        return "EXC:" + exc
    return "%d %d %d" % (fake.resumes, int(fake.states > 0), fake.intercepts)


def suite_proxy(ctx):
    res = CorrResult(suite="IPCInterceptionAddon._pump_callbacks (one iteration, fake master): impl vs model",
                     rule="exhaustive: event kind {callback, preempt, replay, unknown} x flow still known x set_state raises; "
                          "the real coroutine is driven for exactly one queue item with a stand-in flow object counting "
                          "resume()/intercept()/set_state(); compared with proxy_pump; clause: a known flow is resumed exactly "
                          "once even when set_state raises; non-trivial = all", exhaustive=True)
    lines, cases = [], []
    for ev in range(4):
        for present in (1, 0):
            for set_ok in (1, 0):
                cases.append((ev, present, set_ok))
                lines.append("X %d %d %d" % (ev, present, set_ok))
    model = ctx.run_driver(lines)
    with quiet():
        for (ev, present, set_ok), m in zip(cases, model):
            got = run_proxy_pump(ev, bool(present), bool(set_ok))
            if got.strip() != m.strip():
                res.disagreements.append({"case": {"kind": "proxy", "ev": ev, "present": present, "set_ok": set_ok},
                                          "impl": got, "model": m})
            if ev in (0, 1) and present and not got.startswith("1 "):
                res.impl_violations.append({"clause": "proxy side resumes the original flow exactly once even on error",
                                            "class": "proxy-side resume",
                                            "case": {"kind": "proxy", "ev": ev, "present": present, "set_ok": set_ok}, "got": got})
    res.evaluations = len(cases)
    res.distinct_nontrivial = len(cases)
    res.samples = [{"line": lines[i], "model": model[i]} for i in (0, 1, 5)]
    return res


def suite_burst(ctx):
    """several events are pending when the main process gets to pump: each of them is handed back exactly once, also when the
    handling of an EARLIER one raises.  Impl-level oracle on the real MITMProxyEventManager (no model: the model's pump handles one
    event; this is the clause that pumps are independent of each other)."""
    import queue
    from mitmproxy.test import tflow, tutils
    from hippolyzer.lib.proxy.addons import AddonManager
    from hippolyzer.lib.proxy.http_event_manager import MITMProxyEventManager
    from hippolyzer.lib.proxy.sessions import SessionManager
    from hippolyzer.lib.proxy.settings import ProxySettings
    res = CorrResult(suite="bursts: several pending events, one of them raising - every flow handed back exactly once (impl-level oracle)",
                     rule="2..5 request/response events queued before the pump runs, the handling of none / the first / a middle / the last "
                          "one raising (cap resolution fault for that flow only); pump_proxy_event is driven until the queue is empty; "
                          "callbacks per flow id")
    n_cases = 0
    seen = set()
    for n in (2, 3, 5):
        for bad in [None] + list(range(n)):
            for ev in ("request", "response"):
                n_cases += 1
                sm = SessionManager(ProxySettings())
                AddonManager.init([], sm, [])
                fc = _FlowContext(queue.Queue())
                sm.flow_context = fc            # flows put their callbacks on the session manager's flow context
                em = MITMProxyEventManager(sm, fc)
                orig = sm.resolve_cap

                def resolve(url, _orig=orig):
                    if "boom" in url:
                        raise _Injected("injected fault")
                    return _orig(url)
                sm.resolve_cap = resolve
                ids = []
                for i in range(n):
                    req = tutils.treq(host="h%d.test" % i, path=b"/boom" if i == bad else b"/ok")
                    fl = tflow.tflow(req=req, resp=tutils.tresp()) if ev == "response" else tflow.tflow(req=req)
                    ids.append(fl.id)
                    fc.from_proxy_queue.put((ev, fl.get_state()))
                pumps = 0
                while not fc.from_proxy_queue.empty() and pumps < 4 * n:
                    pumps += 1
                    coro = em.pump_proxy_event()
                    try:
                        with contextlib.redirect_stdout(io.StringIO()):
                            coro.send(None)
                        coro.close()
                    except StopIteration:
                        pass
                    except Exception:   # noqa
                        pass
                counts = {i: 0 for i in ids}
                while not fc.to_proxy_queue.empty():
                    item = fc.to_proxy_queue.get()
                    if item[0] == "callback" and item[1] in counts:
                        counts[item[1]] += 1
                got = [counts[i] for i in ids]
                if got != [1] * n and "burst" not in seen:
                    seen.add("burst")
                    res.impl_violations.append({"clause": "every event handed to the main process is handed back exactly once, regardless of "
                                                          "which handler raises (also for the events queued behind the raising one)",
                                                "class": "burst-not-handed-back-once", "events": n, "event": ev, "raising_index": bad,
                                                "callbacks_per_flow": got, "kind": "burst"})
    res.evaluations = n_cases
    res.distinct_nontrivial = n_cases
    return res


def correspond(ctx):
    return [suite_pump(ctx), suite_capdata(ctx), suite_transfer(ctx), suite_proxy(ctx), suite_burst(ctx)]


# --------------------------------------------------------------------------
# impl-level oracle

def _violation(env, c):
    obs = env.run_case(c)
    if obs["oracle"]:
        v = dict(obs["oracle"][0])
        v["class"] = v["clause"]
        v["case"] = full_case(c)
        return v
    return None


def shrink(env, v):
    c = dict(v["case"])
    changed = True
    while changed:
        changed = False
        cands = []
        for k in ("hooks", "sess_hooks", "reg_hooks", "late"):
            for i in range(len(c[k])):
                cands.append({k: c[k][:i] + c[k][i + 1:]})
            if k != "late":
                for i, h in enumerate(c[k]):
                    for j in range(len(h["acts"])):
                        h2 = {"acts": h["acts"][:j] + h["acts"][j + 1:], "ret": h["ret"]}
                        cands.append({k: c[k][:i] + [h2] + c[k][i + 1:]})
                    if h["ret"] != "falsy":
                        cands.append({k: c[k][:i] + [{"acts": h["acts"], "ret": "falsy"}] + c[k][i + 1:]})
        for k, dv in DEFAULT_CASE.items():
            if k not in ("hooks", "sess_hooks", "reg_hooks", "late", "kind", "ev") and c.get(k) != dv:
                cands.append({k: dv})
        for cand in cands:
            t = dict(c)
            t.update(cand)
            try:
                w = _violation(env, t)
            except Exception:  # noqa
                w = None
            if w:
                c, v, changed = t, w, True
                break
    return v


def search(ctx, hints):
    with quiet():
        env = Env()
        for h in hints:
            d = h.get("disagreement") or h.get("impl_violation")
            if d and isinstance(d.get("case"), dict) and d["case"].get("kind", "pump") == "pump":
                try:
                    v = _violation(env, d["case"])
                except Exception:  # noqa
                    v = None
                if v:
                    return shrink(env, v)
        for kind, c in gen_cases(ctx):
            try:
                v = _violation(env, c)
            except Exception:  # noqa
                env = Env()
                continue
            if v:
                return shrink(env, v)
    return None


def replay(ctx, case):
    c = case.get("case", case)
    kind = c.get("kind", "pump")
    with quiet():
        if kind == "pump":
            env = Env()
            obs = env.run_case(c)
            return bool(obs["oracle"]), (obs["oracle"][0] if obs["oracle"] else "holds: " + obs["line"])
        if kind == "burst":
            r = suite_burst(ctx)
            return (True, r.impl_violations[0]) if r.impl_violations else (False, "holds")
        if kind == "proxy":
            got = run_proxy_pump(c["ev"], bool(c["present"]), bool(c["set_ok"]))
            bad = c["ev"] in (0, 1) and c["present"] and not got.startswith("1 ")
            return bool(bad), got
        if kind == "capdata":
            line, viol = run_capdata_case(c["mgr"], c["sessions"], c["cd"])
            return viol is not None, (viol or line)
        if kind == "transfer":
            env = Env()
            env.reset(full_case({}))
            bad, _ = run_transfer_case(env, c)
            return bool(bad), (bad[0] if bad else "holds")
    return False, "unknown case kind %s" % kind
