"""C20 - inventory, asset and transfer codecs round-trip.

(A) chunked transfer: PROOF (coq/theories/Asset/Xfer.v, XferProofs.v, Props/C20.v) + extracted-model
    vs real Xfer / XferManager / TransferManager correspondence + impl-level oracle.
(B) legacy schema: PROOF of the line framing (Asset/Schema.v), of the typed field kinds with concrete digit
    conversions (Asset/Digits.v) and of the generic record round-trip (Asset/Record.v), instantiated at the live
    dataclass schemas (gen/C20_records.v, harness/translate/c20_records.py); lookup-name enums: generated
    exhaustive theorems; LLSD flavours: SchemaBase.to_llsd/from_llsd per-node dict round-trip (Asset/Llsd.v,
    gen/C20_llsd.v).
(B8) whole InventoryModels (node store, add(), to_writer/from_reader, to_llsd/from_llsd of both flavours incl. the AIS
    overrides, __eq__): PROOF (Asset/InvModel.v, InvModelProofs.v) at the live class table (gen/C20_invmodel.v) +
    extracted model vs the real InventoryModel (harness/translate/c20_invmodel.py).
(C) wearables and the object-level view of inventory models: IMPL-LEVEL ORACLE on the real
    code only (harness/translate/c20_codecs.py), no theorem is claimed for them.
(D) animations: PROOF at the raw level (Asset/Anim.v, AnimProofs.v: parse(write a) = a for every well-formed a, both
    versions, exact consumption, every wf clause refuted when dropped) + extracted parse_anim/write_anim vs the real
    llanim.Animation (harness/translate/c20_anim.py); the float/quantiser layer stays with C10 and with oracle (C).
(E) mesh container: PROOF of the segment layout (Asset/MeshLayout.v, MeshLayoutProofs.v: sort order, running-sum
    offset table, slices, parse(serialize m) under the header-codec and zlib oracle laws) + extracted
    write_layout/parse_segments vs the real LLMeshSerializer at container level (harness/translate/c20_mesh.py);
    segment contents (numpy/quantised arrays, LLSD trees, zlib) stay with oracle (C).
"""
from __future__ import annotations

import asyncio
import itertools
import json
import os

from harness.common.framework import CorrResult, VERIF

PROP_ID = "C20"
COQ_PROPS = "theories/Props/C20.v"
COQ_EXTRA = ["gen/C20_gen.v", "gen/C20_schema.v", "gen/C20_records.v", "gen/C20_llsd.v", "gen/C20_mesh.v", "gen/C20_invmodel.v"]
EXTRACT = ("theories/Extract/ExC20.v", "c20_driver.ml")
EXTRACT_Z = True
TRUSTED = [
    "(A) modelled by hand: Xfer.__init__(data=...) chunking + XferManager.serve_inbound_xfer_request numbering/EOF, "
    "XferManager._handle_send_xfer_packet, TransferManager._handle_transfer_packet, reassemble_chunks. A Python dict keyed by "
    "packet id is modelled as its key-sorted association list (len = length, sorted(items()) = the list); asyncio futures as a "
    "sticky boolean; struct.error on a packet 0 shorter than 4 bytes as None; MAX_CHUNK_SIZE is a parameter m (theorems need "
    "4 <= m, gen/C20_gen.v instantiates them at the value read from the code); payloads of 2^31 bytes or more (struct.pack "
    "'<i' raises) are outside the model",
    "(A) assumption stated in the theorems: arrivals are drawn from the sender's own packets (so no id beyond the end-marked "
    "one arrives); C20_beyond_eof_refuted shows the receivers declare done with a hole otherwise; the pump loops, timeouts, "
    "AbortXfer/TransferAbort/TransferInfo handling and cancellation are not modelled",
    "(B) modelled by hand: the token regex _SCHEMA_LINE_TOKENS_RE as an explicit scanner, valid for the stripped non-empty "
    "lines _yield_schema_tokens passes to it (Wearable's direct calls on unstripped lines are not modelled), str.strip()/"
    "str.isspace()/regex \\s as one 29-code-point predicate (compared with CPython over all 0x110000 code points on every run), "
    "StringIO.readline as a list of lines split at LF; InventoryBase.to_writer / from_reader (token loop, nested from_reader of "
    "block fields, obj_dict, cls(**obj_dict) with defaults / TypeError) as a state machine over lines; the field kinds SchemaStr, "
    "SchemaMultilineStr, SchemaInt, SchemaHexInt, SchemaFlagField, SchemaDate, SchemaUUID, SchemaEnumField with concrete digit "
    "conversions. PROVED: framing, every kind's text round-trip, the generic record round-trip for any well-formed schema "
    "(nesting depth <= 2 is built into the schema type; the translator fails closed on deeper schemas), instantiated at the live "
    "dataclass schemas regenerated every run (gen/C20_records.v)",
    "(B) oracles inside the record model (assumed, exercised by the correspondence, not proved): int()/int(.,16)/uuid.UUID() are "
    "modelled on the canonical spellings the serialisers write (CPython accepts more: whitespace, '+', '_', '0x', braces/urn:, "
    "upper case); SchemaDate is modelled on POSIX seconds (calendar.timegm/utcfromtimestamp inverse on naive whole-second "
    "datetimes in range is assumed); embedded LLSD (SchemaLLSD) is carried as its XML text (llsd.format_xml/parse_xml inverse "
    "assumed); InventoryNodeBase._obj_from_dict's `type == \"-1\"` skip (never true after deserialisation) is not modelled; "
    "whole InventoryModels: see (B8)",
    "(2) lookup-name enums: the to/from tables in gen/C20_records.v are obtained by CALLING to_lookup_name on every member and "
    "from_lookup_name on every name produced; the theorem is exhaustive over the members with the exception list "
    "(FolderType 26, known finding) explicit and itself proved to fail; from_lookup_name accepts further spellings (raw member "
    "names, any case) that are not in the tables",
    "(3) LLSD flavours: SchemaBase.to_llsd/from_llsd with generated per-class/per-flavour key tables and per-kind value "
    "conversions is modelled and its per-node dict round-trip proved (obj_dict keyed by LLSD key instead of field.name: a "
    "bijection checked by the translator); the AIS overrides and InventoryModel.from_llsd/to_llsd: see (B8); "
    "LLSD wire serialisation (XML/binary/notation) is out of scope (C12)",
    "(B8) whole InventoryModels, modelled by hand (Asset/InvModel.v) on top of the per-node layers: the node store as the "
    "insertion-ordered list of (dict key, node) with add() (KeyError on a key already present, root = last added container whose "
    "parent_id == UUID.ZERO), ordered_nodes (containers first, each group in dict order), to_writer/from_reader (outer "
    "_yield_schema_tokens loop: blank/unparsable/'{'/unknown-key lines skipped, a '}' at block level ENDS the loop, a known header "
    "hands the reader to Cls.from_reader; explicit fuel = number of lines + 1, proved irrelevant), to_llsd/from_llsd for BOTH flavours "
    "as the code has them (a flat list of per-node dicts, class chosen by the first of INVENTORY_TYPES whose id key - cat_id / "
    "category_id, obj_id, item_id - is in the dict; dicts without one only warn), the hand-written AIS overrides "
    "(InventoryCategory: 'type' popped / re-added as CATEGORY; InventoryItem: agent_id = permissions.owner_id, links: linked_id <- "
    "asset_id with permissions/sale_info dropped on write and re-created on read) as dict operations on insertion-ordered "
    "association lists, and __eq__ as equality of the SETS of nodes (dataclass equality = same class and structurally equal "
    "fields; on embedded metadata the model compares the XML text, which is finer than Python's dict equality). A node is (class "
    "index, field values in dataclasses.fields order); each format's field order is a generated permutation. The class table "
    "(names, container-ness, field orders, id keys, AssetType.LINK/CATEGORY, the permissions/sale_info a link gets back) is "
    "regenerated from the live classes on every run (gen/C20_invmodel.v, wf_table = true by vm_compute, theorems instantiated). "
    "PROVED for every well-formed table and every model: C20_model_text_roundtrip, C20_model_llsd_roundtrip (legacy), "
    "C20_model_ais_roundtrip, each with the resulting node order, dict keys and root; the only model-level hypothesis is "
    "pairwise distinct node ids (automatic for models built with add(): C20_model_built_by_add; refuted without it: KeyError), "
    "per node the per-record domain of the flavour, and for AIS: categories of type CATEGORY, link items with a target and exactly the "
    "permissions/sale_info that from_llsd re-creates (each refuted when dropped and replayed on the real code by the suite's "
    "explicit cases); C20_model_text_blocks (any sequence of well-formed blocks in any order with skippable lines in between is "
    "read as add() of the nodes in text order), C20_model_text_stop (nothing after a block-level '}' is read), model_eq is an "
    "equivalence and decided by model_eqb. TIED: 'whole InventoryModels' suite. NOT in InventoryModel and therefore not "
    "modelled: a nested categories/items/links AIS document and '_embedded' - they exist only in client/inventory_manager.py's "
    "reader (process_aisv3_response, upsert), which has no writer to round-trip with; update()/upsert()/unlink(), the "
    "model back-reference (weakref) and children/parent lookups are not modelled",
    "(C) NOT PROVED, implementation-level oracle only: Wearables, the object-level view of whole InventoryModels (datetime / "
    "metadata objects rather than their POSIX seconds / XML text: the (B8) theorems are about the typed record level), and - at the level of the Python objects, i.e. including the float/quantiser layer and the "
    "segment contents - llanim Animations (both versions) and mesh LLMeshSerializer round-trips are checked by running the real "
    "code on generated values (harness/translate/c20_codecs.py); zlib, numpy, llsd (binary/XML) are exercised, not modelled",
    "(D) animations, modelled by hand (Asset/Anim.v): the spec tree of llanim.Animation/Joint/RotKeyframe/PosKeyframe/Constraint as "
    "evaluated by serialization.py (Dataclass/Template field order, U16/S32/U32/U8/F32 primitives little-endian, CStr = "
    "BytesTerminated with eof_terminates, StrFixed(16) = NUL padding + rstrip, Collection(U32|S32) incl. range(negative) = empty, "
    "Tuple, MultiDictAdapter as the ordered item list, ContextSwitch on ctx._root version with KeyError for unknown versions, "
    "IntEnum non-strict = identity on the wire integer). RAW LEVEL: floats are their 32-bit patterns, quantised keyframe numbers "
    "their wire integers, a str is its UTF-8 bytes (utf8_valid models the strict decoder; str <-> valid UTF-8 being a bijection is "
    "assumed of CPython's codec). PROVED: C20_anim_roundtrip for all wf_anim values with exact consumption, wf_anim decidable, every "
    "clause refuted when dropped (C20_anim_wf_refuted, C20_anim_too_long_refused) and none excludes a parseable value "
    "(C20_anim_parse_wf: every parse result of a byte string < 2^31 bytes is in wf_anim; C20_anim_reparse: parse-serialise-parse "
    "is the identity on values), the byte-count shortcut of the count loops is faithful (C20_anim_count_guard). TIED: 'animation' suite (both directions, accept/reject alike on truncated/mutated input). "
    "NOT covered at this level (C10 / oracle (C)): struct 'f' float<->double conversion incl. signalling NaNs, QuantizedTime for "
    "durations outside (0,inf) (duration 0: every time collapses to 0), Vector3U16 quantisation, PackedQuat's recomputed W, values "
    "off the quantisation grid",
    "(E) mesh container, modelled by hand (Asset/MeshLayout.v): LLMeshSerializer.serialize (missing-header check, sorted(keys, "
    "key=_segment_sort) as a stable insertion sort with the KNOWN_SEGMENTS ranks - gen/C20_mesh.v checks the constant against the "
    "live class -, _is_segment_header, segments.get(key, raw_segments.get(key)), bytes written as they are, offset/size rewritten "
    "in place, allow_invalid_segments) and deserialize (pass-EOF test, seek incl. IOError, Python slice for a negative size, padding "
    "skip, zlib.error vs other exceptions, dict assignment, include_raw_segments). ORACLES = premises of the theorems, answered by "
    "the real functions in the 'mesh container' suite: binary LLSD header codec (law dec(enc h ++ rest) = (h, rest); C12 proves it "
    "for its LLSD model), zip_llsd/unzip_llsd + SEGMENT_TEMPLATES (law inflate k (deflate k s) = s), dict keys distinct. PROVED: "
    "C20_mesh_order, C20_mesh_slices, C20_mesh_roundtrip(_general), C20_mesh_fixed_point (default flags; with "
    "allow_invalid_segments only the layout theorems apply). parse_segment_contents=False is the same model with a "
    "different inflate oracle; the contents of the segments are not modelled",
]

CORPUS = os.path.join(VERIF, "corpus", "C20")


# ======================================================================================
# (A) chunked transfer: adapters around the real code

class _Circuit:
    def __init__(self):
        self.sent = []

    def send(self, msg):
        self.sent.append(msg)

    def send_reliable(self, msg):
        self.sent.append(msg)
        return None


class _FixedHandler:
    """message_handler whose wait_for returns a prepared message at once (no timers)"""
    def __init__(self, msg):
        self.msg = msg

    async def wait_for(self, names, predicate=None, timeout=None):
        if predicate is not None and not predicate(self.msg):
            raise asyncio.TimeoutError()
        return self.msg


class _Holder:
    def __init__(self, mh=None):
        self.circuit = _Circuit()
        self.message_handler = mh


class Env:
    """one private event loop for the futures the code creates; never run with timers"""
    def __enter__(self):
        self.loop = asyncio.new_event_loop()
        asyncio.set_event_loop(self.loop)
        return self

    def __exit__(self, *a):
        try:
            self.loop.close()
        finally:
            asyncio.set_event_loop(None)


def live_max_chunk():
    import hippolyzer.lib.base.xfer_manager as xm
    return int(xm.MAX_CHUNK_SIZE)


def impl_sender_packets(env, payload: bytes, m=None):
    """real Xfer(data=payload) + real serve_inbound_xfer_request -> [(id, eof, data)] as put on the wire"""
    import hippolyzer.lib.base.xfer_manager as xm
    from hippolyzer.lib.base.message.message import Block, Message
    from hippolyzer.lib.base.network.transport import Direction
    old = xm.MAX_CHUNK_SIZE
    try:
        if m is not None:
            xm.MAX_CHUNK_SIZE = m
        x = xm.Xfer(data=payload)
        req = Message('RequestXfer', Block('XferID', ID=77, Filename=b'', FilePath=0, DeleteOnCompletion=False,
                                           UseBigPackets=False, VFileID=None, VFileType=0), direction=Direction.OUT)
        h = _Holder(_FixedHandler(req))
        env.loop.run_until_complete(xm.XferManager(h).serve_inbound_xfer_request(x, lambda _m: True, wait_for_confirm=False))
    finally:
        xm.MAX_CHUNK_SIZE = old
    out = []
    for msg in h.circuit.sent:
        pk = msg["XferID"][0].deserialize_var("Packet")
        out.append((int(pk.PacketID), bool(pk.IsEOF), bytes(msg["DataPacket"]["Data"])))
    return out, h.circuit.sent


def xfer_message(pid, eof, data):
    from hippolyzer.lib.base.message.message import Block, Message
    from hippolyzer.lib.base.templates import XferPacket
    return Message("SendXferPacket", Block("XferID", ID=77, Packet_=XferPacket(PacketID=pid, IsEOF=eof)),
                   Block("DataPacket", Data=data))


def transfer_message(tid, pid, eof, data, status=None):
    from hippolyzer.lib.base.message.message import Block, Message
    from hippolyzer.lib.base.templates import TransferStatus, TransferChannelType
    if status is None:
        status = TransferStatus.DONE if eof else TransferStatus.OK
    return Message('TransferPacket', Block('TransferData', TransferID=tid, ChannelType=TransferChannelType.MISC,
                                           Packet=pid, Status=status, Data=data))


def _fmt_core(obj):
    ch = ",".join("%d:%s" % (k, bytes(v).hex()) for k, v in sorted(obj.chunks.items()))
    ec = "-" if obj.expected_chunks is None else str(obj.expected_chunks)
    return "ec=%s chunks=%s reasm=%s" % (ec, ch, bytes(obj.reassemble_chunks()).hex())


def impl_xfer_recv(env, packets, turbo=False, msgs=None):
    """drive the real _handle_send_xfer_packet; returns the observation line and the per-arrival done trace"""
    import hippolyzer.lib.base.xfer_manager as xm
    h = _Holder()
    mgr = xm.XferManager(h)
    x = xm.Xfer(77, turbo=turbo)
    trace = []
    snaps = []
    for i, (pid, eof, data) in enumerate(packets):
        msg = msgs[i] if msgs is not None else xfer_message(pid, eof, data)
        try:
            mgr._handle_send_xfer_packet(msg, x)
            trace.append("1" if x.done() else "0")
        except Exception as e:  # struct.error for a short packet 0
            trace.append("E" if type(e).__name__ == "error" else "EXC:" + type(e).__name__)
        snaps.append(bytes(x.reassemble_chunks()) if x.done() else None)
    acks = []
    for msg in h.circuit.sent:
        if msg.name == "ConfirmXferPacket":
            acks.append(str(int(msg["XferID"]["Packet"])))
        else:
            acks.append("?" + msg.name)
    size = "-" if x.expected_size is None else str(x.expected_size)
    line = "trace=%s size=%s na=%d acks=%s %s" % ("".join(trace), size, x.next_ackable, ",".join(acks), _fmt_core(x))
    return line, trace, snaps


def impl_transfer_recv(env, packets, info_size=None):
    """info_size: the TransferInfo announcing the total size is handled first (as on a real transfer); the completion logic must
    not depend on it"""
    import hippolyzer.lib.base.transfer_manager as tm
    from hippolyzer.lib.base.datatypes import UUID
    tid = UUID(int=0x20)
    mgr = tm.TransferManager(_Holder())
    t = tm.Transfer(tid)
    trace, snaps = [], []
    if info_size is not None:
        from hippolyzer.lib.base.message.message import Block, Message
        from hippolyzer.lib.base.templates import TransferStatus, TransferChannelType, TransferTargetType
        try:
            mgr._handle_transfer_info(Message("TransferInfo", Block("TransferInfo", TransferID=tid, ChannelType=TransferChannelType.MISC,
                                                                     TargetType=TransferTargetType.UNKNOWN, Status=TransferStatus.OK,
                                                                     Size=info_size, Params=b"")), t)
        except Exception:
            pass
    for pid, eof, data in packets:
        try:
            mgr._handle_transfer_packet(transfer_message(tid, pid, eof, data), t)
            trace.append("1" if t.done() else "0")
        except Exception as e:
            trace.append("EXC:" + type(e).__name__)
        snaps.append(bytes(t.reassemble_chunks()) if t.done() else None)
    return "trace=%s %s" % ("".join(trace), _fmt_core(t)), trace, snaps


def _pk(p):
    return "%d:%d:%s" % (p[0], 1 if p[1] else 0, p[2].hex())


def check_transfer_statement(kind, n, order, trace, snaps, want: bytes):
    """the transfer clauses of C20 on one observed run: arrivals `order` (ids drawn from 0..n-1)."""
    seen = set()
    was_done = False
    for i, pid in enumerate(order):
        seen.add(pid)
        complete = seen == set(range(n))
        done = trace[i] == "1"
        if trace[i] not in ("0", "1"):
            return {"clause": "receiver raised on a packet drawn from the sender", "class": "transfer-raises", "at": i}
        if done and not complete:
            return {"clause": "done before every chunk up to the end-marked one arrived", "class": "transfer-done-early", "at": i}
        if complete and not done:
            return {"clause": "all chunks arrived but the transfer is not done", "class": "transfer-not-done", "at": i}
        if was_done and not done:
            return {"clause": "done is stable", "class": "transfer-done-unstable", "at": i}
        if done and snaps[i] != want:
            return {"clause": "reassembled payload equals the payload sent", "class": "transfer-reassembly", "at": i,
                    "got_len": len(snaps[i]), "want_len": len(want)}
        was_done = done
    return None


def orders_with_dups(n, dups):
    """all arrival sequences containing every id 0..n-1 once plus `dups` extra ids (multiset permutations)"""
    out = set()
    for extra in itertools.combinations_with_replacement(range(n), dups):
        base = tuple(sorted(list(range(n)) + list(extra)))
        out.update(set(itertools.permutations(base)))
    return sorted(out)


def payload_bytes(rng, n):
    return bytes(rng.randrange(256) for _ in range(n))


def gen_transfer_cases(ctx):
    """yields dict cases: kind xfer|transfer|xraw|traw"""
    rng = ctx.rng
    M = live_max_chunk()
    # payload sizes around chunk boundaries with the live MAX_CHUNK_SIZE (prefix is 4 bytes)
    sizes = [0, 1, 2, 5, M - 5, M - 4, M - 3, M - 1, M, M + 1, 2 * M - 5, 2 * M - 4, 2 * M - 3, 2 * M,
             3 * M - 5, 3 * M - 4, 3 * M - 3]
    for sz in sizes:
        yield {"kind": "xfer", "m": None, "size": sz, "dups": 1, "turbo": False}
    yield {"kind": "xfer", "m": None, "size": 4 * M - 4, "dups": ctx.pick(0, 1), "turbo": False}
    yield {"kind": "xfer", "m": None, "size": 4 * M - 3, "dups": ctx.pick(0, 1), "turbo": True}
    # small chunk sizes: up to 5 chunks (6 thorough), every permutation with one duplicate
    for m in (4, 5, 7):
        for nchunks in range(1, ctx.pick(5, 6) + 1):
            for delta in (0, 1):        # exactly full last chunk / one byte into the next
                sz = nchunks * m - 4 - delta
                if sz < 0:
                    continue
                yield {"kind": "xfer", "m": m, "size": sz, "dups": 1, "turbo": (m == 7)}
    if ctx.thorough:
        for nchunks in range(1, 5):
            yield {"kind": "xfer", "m": 5, "size": nchunks * 5 - 4, "dups": 2, "turbo": False}
    # Transfer: chunking chosen by the peer
    for nchunks in range(1, ctx.pick(5, 6) + 1):
        for _ in range(2):
            cs = [payload_bytes(rng, rng.choice((0, 1, 2, 3, 1000))) for _ in range(nchunks)]
            yield {"kind": "transfer", "chunks": [c.hex() for c in cs], "dups": 1}
    # raw streams: arbitrary packets (ids beyond the end mark, several end marks, short packet 0, empty data)
    for _ in range(ctx.pick(400, 6000)):
        k = rng.randrange(1, 8)
        pk = []
        for _ in range(k):
            pid = rng.choice((0, 0, 1, 2, 3, 4, 9))
            pk.append((pid, rng.random() < 0.3, payload_bytes(rng, rng.choice((0, 1, 3, 4, 5, 9)))))
        yield {"kind": rng.choice(("xraw", "traw")), "packets": [_pk(p) for p in pk], "turbo": rng.random() < 0.3}


def _parse_pk(s):
    a, b, c = s.split(":")
    return int(a), b == "1", bytes.fromhex(c)


def run_transfer_case(ctx, env, case, lines, checks, res):
    """expands one generator case into driver lines + pending comparisons"""
    kind = case["kind"]
    if kind == "xfer":
        payload = payload_bytes(ctx.rng, case["size"]) if "payload" not in case else bytes.fromhex(case["payload"])
        m = case["m"]
        mm = m if m is not None else live_max_chunk()
        try:
            sent, msgs = impl_sender_packets(env, payload, m)
            sent_line = " ".join(_pk(p) for p in sent)
        except Exception as e:
            sent, msgs, sent_line = [], [], "EXC:" + type(e).__name__
        lines.append("P %d %s" % (mm, payload.hex()))
        checks.append(("sender", {"kind": "xfer-sender", "m": mm, "payload": payload.hex()}, sent_line))
        n = len(sent)
        if n == 0:
            return
        # structural clauses about the sender itself
        if b"".join(p[2] for p in sent)[4:] != payload or [p[0] for p in sent] != list(range(n)) \
                or [p[1] for p in sent] != [False] * (n - 1) + [True] or any(len(p[2]) > mm for p in sent):
            res.impl_violations.append({"clause": "sender chunks concatenate to prefix+payload, numbered 0..n-1, EOF on the last",
                                        "class": "xfer-sender-chunking", "m": mm, "payload": payload.hex()})
        orders = case.get("orders") or orders_with_dups(n, case["dups"])
        for order in orders:
            pk = [sent[i] for i in order]
            line, trace, snaps = impl_xfer_recv(env, pk, case["turbo"], [msgs[i] for i in order])
            lines.append("X %d %s" % (1 if case["turbo"] else 0, " ".join(_pk(p) for p in pk)))
            c = {"kind": "xfer", "m": mm, "payload": payload.hex(), "order": list(order), "turbo": case["turbo"]}
            checks.append(("recv", c, line))
            v = check_transfer_statement("xfer", n, order, trace, snaps, payload)
            if v:
                v.update(c)
                res.impl_violations.append(v)
    elif kind == "transfer":
        cs = [bytes.fromhex(h) for h in case["chunks"]]
        n = len(cs)
        sent = [(i, i == n - 1, c) for i, c in enumerate(cs)]
        orders = case.get("orders") or orders_with_dups(n, case["dups"])
        for order in orders:
            pk = [sent[i] for i in order]
            for info in (None, sum(len(c_) for c_ in cs)):
                line, trace, snaps = impl_transfer_recv(env, pk, info_size=info)
                lines.append("T " + " ".join(_pk(p) for p in pk))
                c = {"kind": "transfer", "chunks": case["chunks"], "order": list(order)}
                if info is not None:
                    c["transfer_info_size"] = info
                checks.append(("recv", c, line))
                v = check_transfer_statement("transfer", n, order, trace, snaps, b"".join(cs))
                if v:
                    v.update(c)
                    res.impl_violations.append(v)
    elif kind in ("xraw", "traw"):
        pk = [_parse_pk(s) for s in case["packets"]]
        if kind == "xraw":
            line, _, _ = impl_xfer_recv(env, pk, case["turbo"])
            lines.append("X %d %s" % (1 if case["turbo"] else 0, " ".join(case["packets"])))
        else:
            line, _, _ = impl_transfer_recv(env, pk)
            lines.append("T " + " ".join(case["packets"]))
        checks.append(("raw", dict(case), line))


def correspond_transfer(ctx, cases=None):
    res = CorrResult(suite="chunked transfer: real Xfer/XferManager/TransferManager vs extracted model",
                     rule="payload sizes around chunk boundaries with the live MAX_CHUNK_SIZE and with MAX_CHUNK_SIZE patched to "
                          "4,5,7 (up to 5 chunks; 6 thorough): real Xfer(data=..) + serve_inbound_xfer_request produce the packets, "
                          "every arrival order containing each packet once plus one duplicate (two in thorough for <=4 chunks) is fed "
                          "as real Messages to _handle_send_xfer_packet / _handle_transfer_packet; done() after every arrival, "
                          "chunks, expected_chunks, expected_size, next_ackable, acks sent and reassemble_chunks() are compared with "
                          "the extracted model, and the transfer clauses of C20 are evaluated on the run; plus random raw packet "
                          "streams (ids beyond the end mark, several end marks, short packet 0). non-trivial = distinct line with "
                          ">= 2 arrivals")
    lines, checks = [], []
    dist = {}
    with Env() as env:
        for case in (cases if cases is not None else gen_transfer_cases(ctx)):
            before = len(lines)
            run_transfer_case(ctx, env, case, lines, checks, res)
            dist[case["kind"]] = dist.get(case["kind"], 0) + (len(lines) - before)
    model = ctx.run_driver(lines) if lines else []
    seen = set()
    for (what, case, impl_line), ln, ml in zip(checks, lines, model):
        if ml.strip() != impl_line.strip():
            d = dict(case)
            d.update({"what": what, "impl": impl_line[:300], "model": ml[:300]})
            res.disagreements.append(d)
        if ln not in seen and ln.count(":") >= 4:
            seen.add(ln)
    res.evaluations = len(lines)
    res.distinct_nontrivial = len(seen)
    res.distribution = dist
    res.samples = [{"line": l[:120], "impl": c[2][:160]} for l, c in list(zip(lines, checks))[3:6]]
    return res


# ======================================================================================
# generated Coq: the live MAX_CHUNK_SIZE

def generate(ctx):
    m = live_max_chunk()
    os.makedirs(os.path.join(VERIF, "coq", "gen"), exist_ok=True)
    src = """(* generated by harness/props/c20.py from hippolyzer.lib.base.xfer_manager.MAX_CHUNK_SIZE - do not edit *)
From Coq Require Import NArith List Bool Arith.
From HV Require Import Asset.Xfer Asset.XferProofs.
Import ListNotations.
Local Open Scope nat_scope.

Definition live_max_chunk : nat := %d.

Lemma live_max_chunk_ok : 4 <= live_max_chunk.
Proof. apply Nat.leb_le. vm_compute. reflexivity. Qed.

(* the reassembly and completion theorems at the chunk size the code uses today *)
Theorem live_xfer_reassemble : forall turbo payload l st,
  drawn_from (xfer_packets live_max_chunk payload) l -> xfer_run turbo l xinit = Some st ->
  is_done (xcore st) = true -> reassemble (xcore st) = payload.
Proof. intros turbo payload l st Hl Hr Hd. exact (xfer_reassemble turbo live_max_chunk payload l st live_max_chunk_ok Hl Hr Hd). Qed.

Theorem live_xfer_done_iff : forall turbo payload l st,
  drawn_from (xfer_packets live_max_chunk payload) l -> xfer_run turbo l xinit = Some st ->
  (is_done (xcore st) = true <-> forall k, In k (map pid l) <-> k < length (xfer_chunks live_max_chunk payload)).
Proof. intros turbo payload l st Hl Hr. exact (xfer_done_iff turbo live_max_chunk payload l st live_max_chunk_ok Hl Hr). Qed.
""" % m
    if m > 100000:
        raise RuntimeError("MAX_CHUNK_SIZE too large for a nat literal: %d" % m)
    with open(os.path.join(VERIF, "coq", "gen", "C20_gen.v"), "w") as f:
        f.write(src)
    from harness.translate import c20_schema as cs
    nk, nt = cs.emit(os.path.join(VERIF, "coq", "gen", "C20_schema.v"))
    from harness.translate import c20_records as cr
    info = cr.emit(os.path.join(VERIF, "coq", "gen", "C20_records.v"))
    rec_obls = [{"name": "gen/C20_records.v: wf_schema(live %s) = true and record_roundtrip instantiated at it" % c,
                 "detail": "field order/kinds/defaults/include_none/llsd_only read from dataclasses.fields + metadata"} for c in info["classes"]]
    rec_obls += [{"name": "gen/C20_records.v: %s lookup names round-trip for all %d members except %s (vm_compute on tables obtained by "
                          "calling to_lookup_name/from_lookup_name)" % (en, n, exc or "none"), "detail": "exhaustive"}
                 for en, (n, exc) in info["enums"].items()]
    nl = cr.emit_llsd(os.path.join(VERIF, "coq", "gen", "C20_llsd.v"))
    rec_obls.append({"name": "gen/C20_llsd.v: %d LLSD key tables (5 classes x legacy/ais, from cls._get_fields_dict(llsd_flavor)) satisfy "
                             "wf_keys and llsd_roundtrip is instantiated at each" % nl, "detail": "key renaming read from the live code"})
    from harness.translate import c20_invmodel as ci
    inf = ci.emit(os.path.join(VERIF, "coq", "gen", "C20_invmodel.v"))
    rec_obls.append({"name": "gen/C20_invmodel.v: the live class table (%s; field orders of text/legacy/ais, id keys, AIS override "
                             "constants LINK=%d CATEGORY=%d) satisfies wf_table and the whole-model theorems are instantiated at it"
                             % ("/".join(inf["classes"]), inf["link"], inf["cat"]),
                     "detail": "INVENTORY_TYPES order, dataclasses.fields, _get_fields_dict(llsd_flavor), ID_ATTR(_AIS); override constants "
                               "obtained by running InventoryItem/InventoryCategory.from_llsd(.., 'ais') on probes"})
    from harness.translate import c20_mesh as cm
    nk_mesh = cm.emit(os.path.join(VERIF, "coq", "gen", "C20_mesh.v"))
    rec_obls.append({"name": "gen/C20_mesh.v: the model's known_segments equals the live LLMeshSerializer.KNOWN_SEGMENTS (%d names)" % nk_mesh,
                     "detail": "serialization order constant read from the live class"})
    return rec_obls + [{"name": "gen/C20_gen.v: 4 <= MAX_CHUNK_SIZE (=%d) and the xfer theorems instantiated at it" % m, "detail": "live value"},
            {"name": "gen/C20_schema.v: %d live schema keys satisfy key_ok, %d live lookup-name tokens satisfy val_ok" % (nk, nt),
             "detail": "dataclasses.fields of InventoryItem/Category/Object/Permissions/SaleInfo + lookup tables"}]


# ======================================================================================
# framework entry points

def _corpus_cases():
    out = []
    if os.path.isdir(CORPUS):
        for fn in sorted(os.listdir(CORPUS)):
            if fn.endswith(".json"):
                out.append(json.load(open(os.path.join(CORPUS, fn))))
    return out


def correspond_codecs(ctx, corpus):
    """(C) implementation-level oracle only - no model, no theorem behind this suite"""
    from harness.translate import c20_codecs as cc
    res = CorrResult(suite="codec round-trips on the real code (impl-level oracle, NOT a proof)",
                     rule="generated InventoryModels (categories/objects/items; a sweep using every AssetType/InventoryType/FolderType/"
                          "SaleType member with all and with no optional fields, then random field subsets) through legacy text, "
                          "to_bytes, legacy LLSD and AIS LLSD at model level and node level; every member of the four lookup-name "
                          "enums; generated Wearables; animations generated as raw bytes per layout in both format versions + the "
                          "test-suite fixture; meshes (test fixture, make_triangle, generated segment trees incl. weights, convex, "
                          "skin, havok) decoded once and then re-serialised; each evaluates parse(serialise(x)) == x with the "
                          "value's own equality (mesh: header offset/size ignored). One violation is reported per defect class, "
                          "shrunk. non-trivial = every generated value (each is a full object)")
    stats, viol = {}, []
    seen = set()
    for c in corpus:
        try:
            fails, detail = cc.replay_case(c)
        except Exception as e:
            fails, detail = True, {"clause": "oracle adapter raised", "class": "corpus:adapter:EXC:" + type(e).__name__}
        stats["corpus"] = stats.get("corpus", 0) + 1
        if fails:
            v = dict(detail)
            v.update(c)
            viol.append(v)
            seen.add(v.get("class"))
    fresh = []
    cc.check_enums(ctx, fresh, stats)
    cc.check_inventory(ctx, fresh, stats)
    cc.check_wearables(ctx, fresh, stats)
    cc.check_anims(ctx, fresh, stats, ctx.notes)
    cc.check_meshes(ctx, fresh, stats, ctx.notes, ctx.repo)
    for v in fresh:
        if v.get("class") not in seen:
            seen.add(v.get("class"))
            viol.append(v)
    res.impl_violations = viol
    res.evaluations = sum(v for k, v in stats.items() if k != "nodes" and not k.endswith("failed"))
    res.distinct_nontrivial = res.evaluations
    res.distribution = stats
    res.samples = [{"kind": v.get("kind"), "class": v.get("class")} for v in viol[:4]] or [{"note": "no violation", "stats": dict(list(stats.items())[:6])}]
    return res


def correspond_schema(ctx):
    """(B) extracted framing model vs parse_schema_line / _yield_schema_tokens / SchemaMultilineStr / str.isspace"""
    from harness.translate import c20_schema as cs
    rng = ctx.rng
    res = CorrResult(suite="legacy schema line framing: real parse_schema_line/_yield_schema_tokens vs extracted model",
                     rule="whitespace classification of every code point 0..0x10FFFF (exhaustive; isspace, regex \\s and strip() must "
                          "agree with each other and with the model); random lines over an alphabet of whitespace kinds, braces, '|', "
                          "ASCII and non-ASCII through strip+token regex; random blocks of lines (valid fields, junk, blank lines, "
                          "stray braces) through _yield_schema_tokens incl. the number of lines left in the reader; rendered fields "
                          "under key_ok/val_ok must come back exactly (impl-level statement of the framing theorem); multi-line "
                          "strings. non-trivial = distinct line/block")
    lines, impl, cases = [], [], []
    step = 0x8000
    for lo in range(0, 0x110000, step):
        lines.append("W %d %d" % (lo, lo + step))
        impl.append(cs.impl_spaces(lo, lo + step))
        cases.append({"kind": "spaces", "lo": lo})
    cp = lambda s: " ".join(str(ord(c)) for c in s)
    for _ in range(ctx.pick(3000, 60000)):
        l = cs.gen_line(rng, 10)
        lines.append("L " + cp(l))
        impl.append(cs.impl_line(l))
        cases.append({"kind": "line", "line": [ord(c) for c in l]})
    for _ in range(ctx.pick(1500, 30000)):
        blk = []
        for _ in range(rng.randrange(0, 7)):
            r = rng.random()
            if r < 0.45:
                k, v = cs.gen_field(rng)
                blk.append("\t\t%s\t%s" % (k, v))
            elif r < 0.6:
                blk.append(rng.choice(("\t{", "\t}", "{", "}", " } x", "{ y")))
            elif r < 0.75:
                blk.append(rng.choice(("", " ", "\t", "\x0b \x1c")))
            else:
                blk.append(cs.gen_line(rng))
        lines.append("B " + " / ".join(cp(l) for l in blk))
        impl.append(cs.impl_block(blk))
        cases.append({"kind": "block", "lines": [[ord(c) for c in l] for l in blk]})
    # impl-level statement of the framing theorem: rendered fields inside the domain come back exactly
    nfield = 0
    for _ in range(ctx.pick(1500, 30000)):
        fields = [cs.gen_field(rng) for _ in range(rng.randrange(0, 5))]
        if rng.random() < 0.8:      # push most cases inside the domain
            fields = [(k if k not in ("{", "}") else k + "a",
                       "a" + v.replace("\t", " ").replace("\r", "\x0b") + rng.choice(("|", "z", "\u00e9")))
                      for k, v in fields]
        ok = all(k not in ("{", "}") and not any(c.isspace() for c in k)
                 and v and not v[0].isspace() and not v[-1].isspace() and not any(c in v for c in "\t\r\n") for k, v in fields)
        if not ok:
            continue
        nfield += 1
        blk = ["\t{"] + ["\t\t%s\t%s" % kv for kv in fields] + ["\t}", "tail"]
        got = cs.impl_block(blk)
        want = "%s # 1" % " ; ".join(cs._tok(k, v) for k, v in fields)
        lines.append("B " + " / ".join(cp(l) for l in blk))
        impl.append(got)
        cases.append({"kind": "block", "lines": [[ord(c) for c in l] for l in blk]})
        if got != want:
            res.impl_violations.append({"clause": "a block written with keys/values inside the domain is read back exactly",
                                        "class": "schema-framing", "kind": "schema-block", "fields": [[k, v] for k, v in fields], "got": got})
    for _ in range(ctx.pick(500, 10000)):
        s_ = cs.gen_line(rng, 8)
        lines.append("M " + cp(s_))
        impl.append(cs.impl_mstr(s_))
        cases.append({"kind": "mstr", "s": [ord(c) for c in s_]})
    model = ctx.run_driver(lines)
    for ln, ml, il, c in zip(lines, model, impl, cases):
        if ml.strip() != il.strip():
            d = dict(c)
            d.update({"model": ml[:200], "impl": il[:200]})
            res.disagreements.append(d)
    res.evaluations = len(lines)
    res.distinct_nontrivial = len(set(lines))
    res.distribution = {"space-ranges": 0x110000 // step, "in-domain-blocks": nfield, "lines": ctx.pick(3000, 60000)}
    res.samples = [{"line": lines[40][:100], "impl": impl[40][:100]}, {"line": lines[-600][:100], "impl": impl[-600][:100]}]
    return res


def correspond_records(ctx):
    """(B) typed records: real to_str / from_reader of the live dataclasses vs the extracted model at the generated schemas"""
    from harness.translate import c20_records as cr
    from harness.translate import c20_codecs as cc
    from hippolyzer.lib.base.datatypes import UUID
    import io
    rng = ctx.rng
    res = CorrResult(suite="typed schema records: real to_str/from_reader vs extracted model at the live schemas",
                     rule="generated InventoryItem/Category/Object nodes (enum sweep with all/no optional fields + random subsets; 20%% "
                          "pushed outside the text domain: leading blanks, '|' in strings) and stand-alone permissions/sale_info "
                          "blocks: model to_lines (schema generated from the live dataclass) must equal the lines of the real "
                          "to_str(); the lines after the header, as written and perturbed (a line dropped/duplicated/moved, blank and "
                          "unknown-key lines inserted), go through the real Cls.from_reader and the model from_lines (record, lines "
                          "left in the reader, or exception); whenever the model says dom=true the real round trip must give an equal "
                          "object; str(int)/'%%08x'/str(UUID) and int() on digit strings against the digit-conversion model. "
                          "non-trivial = distinct driver line")
    classes = cr._classes()
    schemas = [cr.live_schema(c) for c in classes]
    idx = {c.__name__: i for i, c in enumerate(classes)}
    lines, impl, cases = [], [], []
    pending_dom = []
    stats = {"objects": 0, "reader-cases": 0, "in-dom": 0}

    def add(line, want, case):
        lines.append(line)
        impl.append(want)
        cases.append(case)

    objs = []
    last_body = {}
    root = "00000000-0000-0000-0000-000000000000"
    for nodes in cc.gen_models(rng, "text", ctx.pick(60, 1500)):
        for n in nodes:
            if rng.random() < 0.2:
                n = dict(n)
                n["name"] = rng.choice((" lead", "a|b", "\x0btab", "")) + (n.get("name") or "")
            try:
                objs.append(cc.node_from_spec(n))
            except Exception:
                pass
    for o in list(objs):
        if getattr(o, "permissions", None) is not None and rng.random() < 0.2:
            objs.append(o.permissions)
        if getattr(o, "sale_info", None) is not None and rng.random() < 0.2:
            objs.append(o.sale_info)
    for o in objs:
        w = idx[type(o).__name__]
        fields = schemas[w]
        try:
            rec = cr.enc_record(o, fields)
            real_lines = cr.impl_to_lines(o)
        except Exception as e:
            ctx.notes.append("record generator value not encodable: %s" % type(e).__name__)
            continue
        stats["objects"] += 1
        add("RW %d %s" % (w, rec), cr.enc_lines(real_lines), {"kind": "record-write", "cls": type(o).__name__, "rec": rec})
        pending_dom.append((len(lines) - 1, o, real_lines))
        body = real_lines[1:]
        variants = [body + ["x"]]
        if rng.random() < 0.5 or w not in last_body:
            last_body[w] = body
        for _ in range(2):
            b = list(body)
            r = rng.random()
            if r < 0.3 and len(b) > 1:
                del b[rng.randrange(len(b))]
            elif r < 0.4:
                i = rng.randrange(len(b))
                b.insert(rng.randrange(len(b) + 1), b[i])
            elif r < 0.55 and last_body.get(w):
                # the same key twice with different values (a line of another object of the class): last one wins
                other = [l for l in last_body[w] if l.startswith("\t\t")]
                if other:
                    b.insert(rng.randrange(len(b) + 1), rng.choice(other))
            elif r < 0.7 and len(b) > 2:
                i = rng.randrange(1, len(b) - 1)
                l = b.pop(i)
                b.insert(rng.randrange(1, len(b)), l)
            else:
                b.insert(rng.randrange(len(b) + 1), rng.choice(("", "  ", "\t\tbogus\t1", "\t\tbogus", "|", "\t\tname")))
            variants.append(b + ["tail"] * rng.randrange(0, 3))
        for b in variants:
            if any("/" in l for l in b):
                pass
            got, _ = cr.impl_from_lines(type(o), b, fields)
            stats["reader-cases"] += 1
            add("RR %d %s" % (w, cr.enc_lines(b)), got, {"kind": "record-read", "cls": type(o).__name__, "lines": b})
    # digit conversions
    for _ in range(ctx.pick(400, 8000)):
        z = rng.choice((0, 1, -1, 9, 10, -10, 2147483647, -2147483648, rng.randrange(-10**12, 10**12)))
        add("I %d" % z, "%s %d" % (",".join(str(ord(c)) for c in str(z)), int(str(z))), {"kind": "int", "z": z})
        u = rng.choice((0, 1, 2**128 - 1, 2**127, rng.getrandbits(128), rng.getrandbits(40)))
        add("U %x" % u, "%s %x" % (",".join(str(ord(c)) for c in str(UUID(int=u))), UUID(str(UUID(int=u))).int), {"kind": "uuid", "u": "%x" % u})
        h = rng.choice((0, 1, 0xffffffff, 0x8e000, rng.getrandbits(32), rng.getrandbits(40)))
        add("X8 %x" % h, "%s %x" % (",".join(str(ord(c)) for c in "%08x" % h), int("%08x" % h, 16)), {"kind": "hex", "h": "%x" % h})
        t = "".join(rng.choice("0123456789-") for _ in range(rng.randrange(0, 6)))
        try:
            want = str(int(t))
        except ValueError:
            want = "ERR"
        add("PI " + ",".join(str(ord(c)) for c in t), want, {"kind": "parse-int", "text": t})
    model = ctx.run_driver(lines)
    for i, (ml, il, c) in enumerate(zip(model, impl, cases)):
        m = ml.strip()
        if c["kind"] == "record-write":
            m = m.split(" ", 1)[1] if " " in m else ""
        if m != il.strip():
            d = {k: (v if not isinstance(v, list) else v[:12]) for k, v in c.items()}
            d.update({"model": ml[:300], "impl": il[:300]})
            res.disagreements.append(d)
    # impl-level statement of the record theorem: inside the model's domain the real code round-trips
    seen = set()
    for i, o, real_lines in pending_dom:
        if not model[i].startswith("dom=true"):
            continue
        stats["in-dom"] += 1
        try:
            back = type(o).from_reader(io.StringIO("".join(l + "\n" for l in real_lines[1:])))
            ok = back == o
            why = "differs"
        except Exception as e:
            ok, why = False, "EXC:" + type(e).__name__
        if not ok and (type(o).__name__, why) not in seen:
            seen.add((type(o).__name__, why))
            res.impl_violations.append({"clause": "a record inside dom is read back equal from its own text",
                                        "class": "record-text-roundtrip:%s:%s" % (type(o).__name__, why), "kind": "record-text",
                                        "cls": type(o).__name__, "lines": real_lines})
    res.evaluations = len(lines)
    res.distinct_nontrivial = len(set(lines))
    res.distribution = stats
    res.samples = [{"line": lines[0][:160], "impl": impl[0][:160]}, {"line": lines[1][:160], "impl": impl[1][:160]}]
    return res


def correspond_llsd(ctx):
    """(3) SchemaBase.to_llsd / from_llsd of the live classes in both flavours vs the extracted model at the generated key tables"""
    from harness.translate import c20_records as cr
    from harness.translate import c20_codecs as cc
    import hippolyzer.lib.base.llsd as llsd
    rng = ctx.rng
    res = CorrResult(suite="LLSD flavours: real SchemaBase.to_llsd/from_llsd vs extracted model at the live key tables",
                     rule="generated nodes and their permissions/sale_info blocks, flavours legacy and ais: the dict of the real "
                          "SchemaBase.to_llsd (keys, order, per-kind value and LLSD type) must equal the model's; that dict, as is and "
                          "with an entry dropped or unknown keys added, goes through the real SchemaBase.from_llsd and the model's; "
                          "where the model says dom=true the real round trip must return an equal object. The AIS overrides of "
                          "InventoryCategory/InventoryItem are not part of this suite (impl-level oracle). non-trivial = distinct line")
    classes = cr._classes()
    lines, impl, cases, pend = [], [], [], []
    stats = {"objects": 0, "in-dom": 0}
    objs = []
    for nodes in cc.gen_models(rng, "legacy", ctx.pick(40, 1000)):
        for n in nodes:
            try:
                objs.append(cc.node_from_spec(n))
            except Exception:
                pass
    for o in list(objs):
        if getattr(o, "permissions", None) is not None and rng.random() < 0.2:
            objs.append(o.permissions)
        if getattr(o, "sale_info", None) is not None and rng.random() < 0.2:
            objs.append(o.sale_info)
    schemas = {(c.__name__, fl): cr.live_llsd_schema(c, fl) for c in classes for fl in cr.FLAVOURS}
    idx = {(c.__name__, fl): 2 * i + j for i, c in enumerate(classes) for j, fl in enumerate(cr.FLAVOURS)}
    for o in objs:
        for fl in cr.FLAVOURS:
            key = (type(o).__name__, fl)
            fields = schemas[key]
            try:
                rec = cr.enc_record(o, fields)
                d = cr.impl_to_llsd(o, fl)
                enc = cr.enc_ldict(d, fields, fl)
            except Exception as e:
                enc, d, rec = "EXC:" + type(e).__name__, None, None
            if rec is None:
                continue
            stats["objects"] += 1
            lines.append("LW %d %s %s" % (idx[key], fl, rec))
            impl.append(enc)
            cases.append({"kind": "llsd-write", "cls": key[0], "flavour": fl, "rec": rec})
            pend.append((len(lines) - 1, o, fl, d))
            if d is None:
                continue
            for variant in range(2):
                d2 = dict(d)
                if variant == 1:
                    r = rng.random()
                    if r < 0.5 and d2:
                        d2.pop(rng.choice(list(d2.keys())))
                    else:
                        d2["zz_unknown"] = 5
                enc2 = cr.enc_ldict({k: v for k, v in d2.items() if k != "zz_unknown"}, fields, fl)
                if "zz_unknown" in d2:
                    enc2 = (enc2 + " ; " if enc2 else "") + cr._cps("zz_unknown") + "=i5"
                lines.append("LR %d %s %s" % (idx[key], fl, enc2))
                impl.append(cr.impl_from_llsd(type(o), d2, fl, fields))
                cases.append({"kind": "llsd-read", "cls": key[0], "flavour": fl, "dict": enc2[:400]})
    model = ctx.run_driver(lines)
    for ml, il, c in zip(model, impl, cases):
        m = ml.strip()
        if c["kind"] == "llsd-write":
            m = m.split(" ", 1)[1] if " " in m else ""
        if m != il.strip():
            dd = dict(c)
            dd.update({"model": ml[:300], "impl": il[:300]})
            res.disagreements.append(dd)
    seen = set()
    for i, o, fl, d in pend:
        if not model[i].startswith("dom=true") or d is None:
            continue
        stats["in-dom"] += 1
        from hippolyzer.lib.base.legacy_schema import SchemaBase
        try:
            back = SchemaBase.from_llsd.__func__(type(o), d, fl)
            ok, why = back == o, "differs"
        except Exception as e:
            ok, why = False, "EXC:" + type(e).__name__
        if not ok and (type(o).__name__, fl, why) not in seen:
            seen.add((type(o).__name__, fl, why))
            res.impl_violations.append({"clause": "a node inside dom_llsd is read back equal from its own LLSD dict",
                                        "class": "llsd-dict-roundtrip:%s:%s:%s" % (type(o).__name__, fl, why), "kind": "llsd-node",
                                        "cls": type(o).__name__, "flavour": fl, "rec": cr.enc_record(o, schemas[(type(o).__name__, fl)])})
    res.evaluations = len(lines)
    res.distinct_nontrivial = len(set(lines))
    res.distribution = stats
    res.samples = [{"line": lines[0][:160], "impl": impl[0][:160]}] if lines else []
    return res


CODEC_KINDS = ("inventory", "enum", "wearable", "anim", "mesh")
# cases of the raw-level animation / mesh container suites: the real code's observation is compared with the model's
# observation stored in the case (so a replay needs no driver)
INV_MODEL_KINDS = ("inv-text-write", "inv-text-read", "inv-llsd-write", "inv-llsd-read", "inv-eq", "inv-add")
MODEL_VS_CODE_KINDS = ("anim-parse", "anim-write", "utf8", "mesh-layout", "mesh-parse", "mesh-sort") + INV_MODEL_KINDS


def correspond(ctx):
    results = []
    corpus = _corpus_cases()
    tcases = [c for c in corpus if c.get("kind") in ("xfer", "transfer", "xraw", "traw")]
    results.append(correspond_transfer(ctx, list(tcases) + list(gen_transfer_cases(ctx))))
    results.append(correspond_schema(ctx))
    results.append(correspond_records(ctx))
    results.append(correspond_llsd(ctx))
    results.append(correspond_codecs(ctx, [c for c in corpus if c.get("kind") in CODEC_KINDS]))
    from harness.translate import c20_anim as ca
    from harness.translate import c20_mesh as cm
    results.append(ca.correspond(ctx, CorrResult))
    results.append(cm.correspond(ctx, CorrResult))
    from harness.translate import c20_invmodel as ci
    results.append(ci.correspond(ctx, CorrResult))
    ctx.notes.append("whole InventoryModels: proved at the typed record level for all three flavours (C20_model_text_roundtrip / "
                     "_llsd_roundtrip / _ais_roundtrip with node order, keys and root; _text_blocks, _text_stop, _built_by_add, "
                     "model_eq equivalence; every hypothesis refuted when dropped) and tied to the real InventoryModel by the 'whole "
                     "InventoryModels' suite (serialisations compared exactly, parsed-back node lists, mutated inputs accept/reject "
                     "alike, __eq__, add()); InventoryModel has no nested AIS document - that reader lives in "
                     "client/inventory_manager.py and has no writer")
    ctx.notes.append("animations: proved at the raw level (C20_anim_roundtrip/_parse_wf/_reparse/_wf_refuted/_count_guard) and tied both "
                     "ways to llanim.Animation; the float/quantiser layer (struct 'f', QuantizedTime for the root duration, Vector3U16, "
                     "PackedQuat W) is compared only where C10 proves it exact and otherwise stays with the object-level oracle suite")
    ctx.notes.append("mesh: the container (segment order, offset/size table, slicing, parse of the written file, second generation) is "
                     "proved under the header-codec and zlib/template oracle laws and tied to LLMeshSerializer with the real functions as "
                     "oracles; segment contents (LOD arrays, weights, skin, convex hulls) stay with the object-level oracle suite")
    return results


def search(ctx, hints):
    for h in hints:
        v = h.get("impl_violation")
        if v:
            return v
    for h in hints:
        d = h.get("disagreement")
        if d and d.get("kind") in MODEL_VS_CODE_KINDS and "model_line" in d:
            return d
    r = correspond_transfer(ctx)
    if r.impl_violations:
        return r.impl_violations[0]
    r = correspond_codecs(ctx, [])
    if r.impl_violations:
        return r.impl_violations[0]
    return None


def replay(ctx, case):
    kind = case.get("kind")
    if kind in ("xfer", "transfer"):
        res = CorrResult(suite="replay")
        lines, checks = [], []
        c = dict(case)
        c.setdefault("dups", 0)
        c.setdefault("turbo", False)
        if "order" in c:
            c["orders"] = [tuple(c["order"])]
        if kind == "xfer":
            c.setdefault("size", len(c.get("payload", "")) // 2)
            if c.get("m") == live_max_chunk():
                c["m"] = None
        with Env() as env:
            run_transfer_case(ctx, env, c, lines, checks, res)
        if res.impl_violations:
            return True, res.impl_violations[0]
        return False, "holds"
    if kind in CODEC_KINDS:
        from harness.translate import c20_codecs as cc
        return cc.replay_case(case)
    if kind in ("anim-parse", "anim-write", "utf8"):
        from harness.translate import c20_anim as ca
        return ca.replay_case(case)
    if kind in ("mesh-layout", "mesh-parse", "mesh-sort"):
        from harness.translate import c20_mesh as cm
        return cm.replay_case(case)
    if kind in INV_MODEL_KINDS:
        from harness.translate import c20_invmodel as ci
        return ci.replay_case(case)
    if kind == "record-text":
        import io
        from harness.translate import c20_records as cr
        cls = {c.__name__: c for c in cr._classes()}[case["cls"]]
        body = "".join(l + "\n" for l in case["lines"])
        try:
            a = cls.from_reader(io.StringIO("".join(l + "\n" for l in case["lines"][1:])))
            b = cls.from_reader(io.StringIO(a.to_str().split("\n", 1)[1]))
            return (a != b or a.to_str() != body), {"reparsed_equal": a == b}
        except Exception as e:
            return True, {"exc": type(e).__name__}
    if kind == "schema-block":
        from harness.translate import c20_schema as cs
        fields = [tuple(f) for f in case["fields"]]
        blk = ["\t{"] + ["\t\t%s\t%s" % kv for kv in fields] + ["\t}", "tail"]
        got = cs.impl_block(blk)
        want = "%s # 1" % " ; ".join(cs._tok(k, v) for k, v in fields)
        return got != want, {"got": got, "want": want}
    return False, "unknown case kind %r" % kind
