"""C13 - the hand-optimised compressed-object decoder agrees with the declarative template.

Model: coq/theories/Compressed/Model.v (hand transcription of FastObjectUpdateCompressedDataDeserializer.read and
an interpreter of the declarative field list), coq/gen/C13_gen.v (field list + fast decoder constants regenerated
from the live objects on every run).
"""
import contextlib
import dataclasses
import enum
import json
import os
import struct

from harness.common.framework import CorrResult, COQ, VERIF
from harness.translate import c13_gen

PROP_ID = "C13"
COQ_PROPS = "theories/Props/C13.v"
COQ_EXTRA = ["gen/C13_gen.v", "theories/Compressed/Instance.v"]
EXTRACT = ("theories/Extract/ExC13.v", "c13_driver.ml")
EXTRACT_Z = True
TRUSTED = [
    "modelled by hand: FastObjectUpdateCompressedDataDeserializer.read (fast_read: order of sections, which local variable "
    "gets which struct item, the returned dict literal), se.Template.deserialize/serialize with OptionalFlagged, ContextAdapter, "
    "TupleCoord, Color4, CStr/BytesTerminated, ByteArray, TypedBytes* framing (decl_fields/decl_write), SimpleStructReader "
    "(read_struct: one length check for the whole struct; read_bytes_null_term fails at the end of the buffer)",
    "generated, not hand-written: the declarative field list (names, order, primitive kinds and widths, gate flag field and mask, "
    "framing of every window), the fast decoder's struct formats, CompressedFlags/PCode constants, Color4/AttachmentState "
    "parameters; anything the translator has no constructor for makes the generated obligation fail (fail closed)",
    "ASSUMED (not modelled): the embedded sub-templates - EXTRA_PARAM_COLLECTION, PSBLOCK_TEMPLATE, NameValuesSerializer, "
    "TE_SERIALIZER, TA_TEMPLATE and utf8 decoding - are opaque section-local functions sub/inner/utf8; the single assumption "
    "for fast_agrees is that both decoders call the same function on the same bytes (the translator checks that both sides pass "
    "the *same spec object* to reader.read, by object identity, and that the value does not depend on the ParseContext handed in: "
    "checked by the correspondence on every case) and that a reader returns a suffix of its input (sub_suffix); for reencode "
    "additionally that each of them round-trips on what it accepted (sub_rt/inner_rt/utf8_rt; that is C08/C10 territory, here "
    "checked on every generated payload)",
    "F32/UUID/Vector3/Quaternion values are modelled as their raw bytes: struct.unpack('<f')/pack is assumed to be a bijection on "
    "the bit patterns that occur; CPython on this platform quiets signalling NaNs (0x7f800001 re-encodes as 0x7fc00001), such "
    "patterns cannot be produced by serialising through the template and are excluded from the re-encode clause",
    "enum/flag wrappers (PCode, MCode, CompressedFlags, SoundFlags, AgentState) are modelled as the underlying int; the "
    "correspondence compares the real objects with == field by field",
]

NAMED_PCODES = (9, 47, 95, 111, 143, 255)
UNNAMED_PCODES = (0, 1, 200)
ALL_FLAGS = 2048


# --------------------------------------------------------------------------
# implementation access

class Impl:
    def __init__(self):
        import hippolyzer.lib.base.templates as tmpls
        import hippolyzer.lib.base.serialization as se
        import hippolyzer.lib.base.objects as objects
        import hippolyzer.lib.base.datatypes as dtypes
        import hippolyzer.lib.base.namevalue as namevalue
        import logging
        logging.disable(logging.CRITICAL)
        self.tmpls, self.se, self.objects, self.dtypes, self.namevalue = tmpls, se, objects, dtypes, namevalue
        self.S = tmpls.ObjectUpdateCompressedDataSerializer
        self.F = objects.FastObjectUpdateCompressedDataDeserializer
        self.T = self.S.TEMPLATE
        self.specs = {}
        for name, spec in self.T._template_spec.items():
            self.specs[name] = spec._ser_spec if isinstance(spec, se.OptionalFlagged) else spec

    # the last payload's observations are memoised: the property oracle and the model comparison look at the same ones
    _memo = (None, None)

    def _obs(self, p: bytes):
        if self._memo[0] != p:
            self._memo = (p, {})
        return self._memo[1]

    def fast(self, p: bytes):
        o = self._obs(p)
        if "fast" not in o:
            try:
                o["fast"] = (True, self.F.read(p))
            except Exception as e:
                o["fast"] = (False, "EXC:" + type(e).__name__)
        return o["fast"]

    def decl(self, p: bytes):
        """(ok, dict, trailing) at template level: reader.read(TEMPLATE), then what SimpleSubfieldSerializer checks"""
        o = self._obs(p)
        if "decl" not in o:
            try:
                r = self.se.BufferReader("<", p)
                v = r.read(self.T)
                o["decl"] = (True, v, len(r))
            except Exception as e:
                o["decl"] = (False, "EXC:" + type(e).__name__, 0)
        return o["decl"]

    def reencode(self, p: bytes):
        """serialize(decl(p)) through the template"""
        o = self._obs(p)
        if "enc" not in o:
            ok, vd, _ = self.decl(p)
            o["enc"] = self.encode(vd) if ok else (False, "EXC:decode")
        return o["enc"]

    def decl_api(self, p: bytes):
        try:
            return True, self.S.deserialize(None, p)
        except Exception as e:
            return False, "EXC:" + type(e).__name__

    def encode(self, v):
        try:
            return True, bytes(self.S.serialize(None, v))
        except Exception as e:
            return False, "EXC:" + type(e).__name__

    def normalize(self, p: bytes, via_decl=None):
        """normalize_object_update_compressed_data as the object tracker calls it; with via_decl the fast reader is
        swapped for a shim returning the declarative result so the same normaliser code runs on both"""
        objects = self.objects
        try:
            if via_decl is None:
                return True, objects.normalize_object_update_compressed_data(p)

            class Shim:
                @staticmethod
                def read(data):
                    return dict(via_decl)
            orig = objects.FastObjectUpdateCompressedDataDeserializer
            objects.FastObjectUpdateCompressedDataDeserializer = Shim
            try:
                return True, objects.normalize_object_update_compressed_data(p)
            finally:
                objects.FastObjectUpdateCompressedDataDeserializer = orig
        except Exception as e:
            return False, "EXC:" + type(e).__name__


_IMPL = None


def impl() -> Impl:
    global _IMPL
    if _IMPL is None:
        _IMPL = Impl()
    return _IMPL


# --------------------------------------------------------------------------
# canonical form of decoded values (NaN-safe, forces lazy proxies)

try:
    import lazy_object_proxy
    _PROXY = lazy_object_proxy.Proxy
except ImportError:     # pragma: no cover
    _PROXY = ()


def canon(v):
    t = type(v)
    if t is int or t is str or v is None or t is bool:
        return v
    if t is float:
        return "nan" if v != v else v.hex()
    if t is bytes:
        return "b:" + v.hex()
    if _PROXY and isinstance(v, _PROXY):
        try:
            v = v.__wrapped__
        except Exception as e:
            return "EXC:" + type(e).__name__
    if isinstance(v, enum.Enum):
        return int(v) if isinstance(v, int) else ("enum", str(v.value))
    if isinstance(v, int):
        return int(v)
    if isinstance(v, float):
        return "nan" if v != v else float(v).hex()
    if isinstance(v, (bytes, bytearray, memoryview)):
        return "b:" + bytes(v).hex()
    if type(v).__name__ == "UUID":
        return "u:" + str(v)
    if type(v).__name__ == "TaggedUnion":
        return ("TU", canon(v.tag), canon(v.value))
    if hasattr(v, "data") and type(v).__name__ in ("Vector3", "Vector4", "Vector2", "Quaternion"):
        return (type(v).__name__,) + tuple(canon(float(x)) for x in tuple(v))
    if dataclasses.is_dataclass(v) and not isinstance(v, type):
        return (type(v).__name__,) + tuple((f.name, canon(getattr(v, f.name))) for f in dataclasses.fields(v))
    if isinstance(v, dict):
        return ("dict",) + tuple(sorted(((repr(canon(k)), canon(x)) for k, x in v.items())))
    if isinstance(v, (list, tuple)):
        return ("seq",) + tuple(canon(x) for x in v)
    return "obj:" + repr(v)


def same(a, b) -> bool:
    """== when it says True (cheap), otherwise the NaN-safe canonical comparison"""
    try:
        if a == b and type(a) is not float:
            return True
    except Exception:
        pass
    return canon(a) == canon(b)


def unforceable(v) -> bool:
    """a lazy window (TextureEntry) whose deferred parse raises"""
    if _PROXY and isinstance(v, _PROXY):
        try:
            v.__wrapped__
        except Exception:
            return True
    return False


def py_equal(a, b):
    """Python's ==, the comparison the statement talks about; an exception is an observation"""
    try:
        return bool(a == b)
    except Exception as e:
        return "EXC:" + type(e).__name__


# --------------------------------------------------------------------------
# generation of payloads from the template's domain

def f32(rng):
    k = rng.random()
    if k < 0.2:
        x = rng.choice((0.0, 1.0, -1.0, 0.5, 256.0, -0.0))
    elif k < 0.8:
        x = rng.uniform(-300.0, 300.0)
    else:
        x = rng.uniform(-1.0, 1.0)
    return struct.unpack("<f", struct.pack("<f", x))[0]


def rbytes(rng, n):
    return bytes(rng.randrange(256) for _ in range(n))


def finite_f32_bytes(rng):
    return struct.pack("<f", f32(rng))


class Gen:
    """builds values for every section and serialises them through the real TEMPLATE"""

    def __init__(self, rng, im: Impl, pool_size=48):
        self.rng, self.im = rng, im
        self.skipped = {}
        self.pools = {}
        self.pool_size = pool_size
        se, tmpls = im.se, im.tmpls
        self.te_pool = [None]
        # the TextureEntry of the captured blob in the corpus (63 bytes)
        blob = corpus_cases()[0][1] if corpus_cases() else b""
        i = blob.find(bytes.fromhex("3f000000"))
        for raw in ((blob[i + 4:i + 4 + 63],) if i > 0 else ()):
            v = self.stable(tmpls.TE_SERIALIZER, raw, "TextureEntry")
            if v is not None:
                self.te_pool.append(v)
        try:
            w = se.BufferWriter("<")
            w.write(tmpls.TE_SERIALIZER, tmpls.TextureEntryCollection())
            v = self.stable(tmpls.TE_SERIALIZER, bytes(w.buffer), "TextureEntry")
            if v is not None:
                self.te_pool.append(v)
        except Exception:
            self.skip("TextureEntry default")

    def skip(self, what):
        self.skipped[what] = self.skipped.get(what, 0) + 1

    def stable(self, spec, raw: bytes, what):
        """parse raw with spec; keep the value only when the sub-template is idempotent on it and == is reflexive
        on it (no NaN) - otherwise a re-encode failure would be the sub-template's (C08/C10), not C13's"""
        se = self.im.se
        try:
            r = se.BufferReader("<", raw)
            v0 = r.read(spec)
            if len(r):
                raise ValueError("trailing")
            w = se.BufferWriter("<")
            w.write(spec, v0)
            s1 = bytes(w.buffer)
            r = se.BufferReader("<", s1)
            v1 = r.read(spec)
            if len(r):
                raise ValueError("trailing")
            w = se.BufferWriter("<")
            w.write(spec, v1)
            s2 = bytes(w.buffer)
            if s1 != s2 or canon(v0) != canon(v1) or "nan" in repr(canon(v1)) or py_equal(v0, v1) is not True:
                self.skip(what + " not stable")
                return None
            return v1
        except Exception:
            self.skip(what + " rejected")
            return None

    def psys(self):
        rng = self.rng
        return (rbytes(rng, 4) + struct.pack("<I", rng.randrange(4)) + bytes([rng.choice((0, 1, 2, 4, 8, 16))])
                + rbytes(rng, 2 + 2 + 1 + 1 + 2 + 2 + 2 + 2 + 1 + 6 + 6) + rbytes(rng, 16) + rbytes(rng, 16))

    def pdata(self, glow=False, blend=False):
        rng = self.rng
        fl = rng.randrange(0x800) | (0x10000 if glow else 0) | (0x20000 if blend else 0)
        out = struct.pack("<I", fl) + rbytes(rng, 2 + 4 + 4 + 4)
        if glow:
            out += rbytes(rng, 2)
        if blend:
            out += bytes([rng.randrange(10), rng.randrange(10)])
        return out

    def pooled(self, what, make, size):
        pool = self.pools.setdefault(what, [])
        if len(pool) < size:
            v = make()
            if v is not None:
                pool.append(v)
            return v
        return self.rng.choice(pool)

    def psblock_old(self):
        return self.pooled("psold", self._psblock_old, self.pool_size)

    def psblock_new(self):
        return self.pooled("psnew", self._psblock_new, self.pool_size)

    def extra_params(self):
        return self.pooled("extra", self._extra_params, 4 * self.pool_size)

    def texture_anim(self):
        return self.pooled("ta", self._texture_anim, self.pool_size)

    def _psblock_old(self):
        for _ in range(8):
            v = self.stable(self.im.tmpls.PSBLOCK_TEMPLATE, self.psys() + self.pdata(), "PSBlock")
            if v is not None:
                return v
        return None

    def _psblock_new(self):
        rng = self.rng
        for _ in range(8):
            k = rng.random()
            if k < 0.15:
                raw = b""
            elif k < 0.4:
                raw = self.psys() + self.pdata()
            else:
                ps, pd = self.psys(), self.pdata(rng.random() < 0.6, rng.random() < 0.6)
                raw = struct.pack("<i", len(ps)) + ps + struct.pack("<i", len(pd)) + pd
            v = self.stable(self.im.tmpls.PSBLOCK_TEMPLATE, raw, "PSBlockNew")
            if v is not None:
                return v
        return None

    def _extra_params(self):
        rng = self.rng
        sizes = {0x10: (4, 16), 0x20: (16,), 0x30: (17,), 0x40: (28,), 0x60: (17,), 0x70: (4,), 0x90: (9,)}
        for _ in range(8):
            kinds = rng.sample(sorted(sizes) + [0x80], rng.choice((0, 0, 1, 1, 2, 3)))
            raw = bytes([len(kinds)])
            for k in kinds:
                if k == 0x80:
                    n = rng.randrange(0, 3)
                    body = bytes([n]) + b"".join(bytes([rng.randrange(8)]) + rbytes(rng, 16) for _ in range(n))
                elif k == 0x20:
                    body = rbytes(rng, 4) + finite_f32_bytes(rng) + finite_f32_bytes(rng) + finite_f32_bytes(rng)
                elif k == 0x40:
                    body = rbytes(rng, 16) + finite_f32_bytes(rng) + finite_f32_bytes(rng) + finite_f32_bytes(rng)
                elif k == 0x90:
                    body = finite_f32_bytes(rng) + finite_f32_bytes(rng) + bytes([rng.randrange(4)])
                elif k == 0x10:
                    body = rbytes(rng, 4)
                    if rng.random() < 0.5:
                        body += finite_f32_bytes(rng) + finite_f32_bytes(rng) + finite_f32_bytes(rng)
                elif k in (0x30, 0x60):
                    body = rbytes(rng, 16) + bytes([rng.randrange(6) | rng.choice((0, 64, 128, 192))])
                else:
                    body = struct.pack("<I", rng.randrange(2))
                raw += struct.pack("<HI", k, len(body)) + body
            v = self.stable(self.im.tmpls.EXTRA_PARAM_COLLECTION, raw, "ExtraParams")
            if v is not None:
                return v
        return {}

    def name_values(self):
        rng = self.rng
        nv = self.im.namevalue
        coll = nv.NameValueCollection()
        for i in range(rng.randrange(1, 4)):
            coll.append(nv.NameValue(name=rng.choice(("AttachItemID", "FirstName", "Title", "x%d" % i)),
                                     type=rng.choice(("STRING", "U32", "ASSET")), rw=rng.choice(("R", "RW")),
                                     sendto=rng.choice(("S", "DS", "SV", "DSV")),
                                     value=rng.choice(("abc", "12", "5c3f0e4e-0000-0000-0000-00000000000%d" % i, "Resident é"))))
        return coll

    def text(self):
        rng = self.rng
        return rng.choice(("", "a", "Hello world", "café ☃", "x" * rng.randrange(0, 40), "\U0001f600 hi"))

    def _texture_anim(self):
        rng = self.rng
        raw = bytes([rng.randrange(128), rng.randrange(256), rng.randrange(256), rng.randrange(256)]) + \
            finite_f32_bytes(rng) + finite_f32_bytes(rng) + finite_f32_bytes(rng)
        return self.stable(self.im.tmpls.TA_TEMPLATE, raw, "TextureAnim")

    def values(self, flags: int, pcode: int, minimal=False, force=None):
        rng, im = self.rng, self.im
        UUID, Vector3, Quaternion = im.dtypes.UUID, im.dtypes.Vector3, im.dtypes.Quaternion
        CF = im.tmpls.CompressedFlags
        v = {
            "FullID": UUID(bytes=rbytes(rng, 16)),
            "ID": rng.choice((0, 1, 1234, 0xFFFFFFFF, rng.randrange(1 << 32))),
            "PCode": pcode,
            "State": rng.choice((0, 1, 0x10, 0x2f, 0xf0, 0xff, rng.randrange(256))),
            "CRC": rng.randrange(1 << 32),
            "Material": rng.choice((0, 1, 3, 4, 5, 6, 7, 2, 200)),
            "ClickAction": rng.randrange(256),
            "Scale": Vector3(f32(rng), f32(rng), f32(rng)),
            "Position": Vector3(f32(rng), f32(rng), f32(rng)),
            "Rotation": Quaternion(*(struct.unpack("<f", struct.pack("<f", rng.uniform(-1, 1)))[0] for _ in range(3))),
            "Flags": flags,
            "OwnerID": UUID(bytes=bytes(16)) if rng.random() < 0.5 else UUID(bytes=rbytes(rng, 16)),
            "ExtraParams": {} if minimal else self.extra_params(),
            "TextureEntry": None if minimal else rng.choice(self.te_pool),
        }
        for name, fmt in (("PathCurve", "B"), ("ProfileCurve", "B"), ("PathBegin", "H"), ("PathEnd", "H"), ("PathScaleX", "B"),
                          ("PathScaleY", "B"), ("PathShearX", "B"), ("PathShearY", "B"), ("PathTwist", "b"),
                          ("PathTwistBegin", "b"), ("PathRadiusOffset", "b"), ("PathTaperX", "b"), ("PathTaperY", "b"),
                          ("PathRevolutions", "B"), ("PathSkew", "b"), ("ProfileBegin", "H"), ("ProfileEnd", "H"),
                          ("ProfileHollow", "H")):
            lo, hi = {"B": (0, 255), "H": (0, 65535), "b": (-128, 127)}[fmt]
            v[name] = rng.choice((lo, hi, 0, rng.randint(lo, hi)))
        if flags & CF.ANGULAR_VELOCITY:
            v["AngularVelocity"] = Vector3(f32(rng), f32(rng), f32(rng))
        if flags & CF.PARENT_ID:
            v["ParentID"] = rng.choice((0, 1, rng.randrange(1 << 32)))
        if flags & CF.TREE:
            v["TreeSpecies"] = rng.randrange(256)
        if flags & CF.SCRATCHPAD:
            v["ScratchPad"] = b"" if minimal else rbytes(rng, rng.choice((0, 1, 4, rng.randrange(0, 24))))
        if flags & CF.TEXT:
            v["Text"] = "" if minimal else self.text()
            v["TextColor"] = rbytes(rng, 4)
        if flags & CF.MEDIA_URL:
            v["MediaURL"] = "" if minimal else rng.choice(("", "http://example.com/a?b=c", self.text()))
        if flags & CF.PARTICLES:
            ps = self.psblock_old()
            if ps is None:
                return None
            v["PSBlock"] = ps
        if flags & CF.SOUND:
            v["Sound"] = UUID(bytes=rbytes(rng, 16))
            v["SoundGain"] = f32(rng)
            v["SoundFlags"] = rng.choice((0, 1, 0x20, 0x3f, 0x80, rng.randrange(256)))
            v["SoundRadius"] = f32(rng)
        if flags & CF.NAME_VALUES:
            v["NameValue"] = self.name_values()
            # None / an empty collection is the finding's territory (the serializer writes nothing at all for None):
            # covered by the wire-level cases and the corpus, not by the template-domain generator
        if flags & CF.TEXTURE_ANIM:
            ta = self.texture_anim()
            if ta is None:
                return None
            v["TextureAnim"] = ta
        if flags & CF.PARTICLES_NEW:
            ps = im.dtypes.TaggedUnion(0, None) if minimal else self.psblock_new()
            if ps is None:
                return None
            v["PSBlockNew"] = ps
        for k, x in (force or {}).items():
            if k in v:          # only fields/sections that are present
                v[k] = x
        return v

    def payload(self, flags, pcode, minimal=False, force=None):
        for _ in range(4):
            v = self.values(flags, pcode, minimal, force)
            if v is None:
                continue
            ok, p = self.im.encode(v)
            if ok:
                return p
            self.skip("serialize " + p)
        return None


def wire_segments(flags: int, pcode=9, state=0, sections=None):
    """an independent wire-level encoder for hand-made well-formed payloads: [(section name, bytes)] in wire order"""
    s = sections or {}
    hdr = struct.pack("<16sIBBIBB3f3f3fI16s", bytes(range(1, 17)), 7, pcode, state, 5, 3, 0, 1.0, 2.0, 3.0, 4.0, 5.0, 6.0,
                      0.0, 0.0, 0.0, flags, s.get("owner", bytes(16)))
    out = [("Header", hdr)]
    if flags & 128:
        out.append(("AngularVelocity", struct.pack("<3f", 0.0, 0.0, 1.0)))
    if flags & 32:
        out.append(("ParentID", struct.pack("<I", s.get("parent", 77))))
    if flags & 2:
        out.append(("TreeSpecies", bytes([s.get("tree", 3)])))
    if flags & 1:
        sp = s.get("scratch", b"")
        out.append(("ScratchPad", struct.pack("<I", len(sp)) + sp))
    if flags & 4:
        out.append(("Text", s.get("text", b"") + b"\x00"))
        out.append(("TextColor", s.get("color", b"\x01\x02\x03\x04")))
    if flags & 512:
        out.append(("MediaURL", s.get("media", b"") + b"\x00"))
    if flags & 8:
        out.append(("PSBlock", s["psblock"]))
    out.append(("ExtraParams", s.get("extra", b"\x00")))
    if flags & 16:
        out.append(("Sound", struct.pack("<16sfBf", bytes(range(16)), 1.0, 1, 20.0)))
    if flags & 256:
        out.append(("NameValue", s.get("nv", b"") + b"\x00"))
    out.append(("PrimParams", s.get("prim", bytes(range(1, 24)))))
    te = s.get("te", b"")
    out.append(("TextureEntry", struct.pack("<I", len(te)) + te))
    if flags & 64:
        ta = s.get("ta", bytes([1, 0, 1, 1]) + struct.pack("<3f", 0.0, 1.0, 2.0))
        out.append(("TextureAnim", struct.pack("<I", len(ta)) + ta))
    if flags & 1024:
        out.append(("PSBlockNew", s.get("psnew", b"")))
    return out


def wire_payload(flags: int, pcode=9, state=0, sections=None) -> bytes:
    return b"".join(seg for _, seg in wire_segments(flags, pcode, state, sections))


# --------------------------------------------------------------------------
# byte-level boundary sweep inside every section of hand-built payloads

SWEEP_VALUES = (0x00, 0x01, 0x7F, 0x80, 0xFB, 0xFC, 0xFD, 0xFE, 0xFF)
_PSYS = struct.Struct("<IIBHHBBHHHHB3H3H16s16s")
_PDATA = struct.Struct("<IH4s4sBBBB")


def _psys(max_age=0x0A00, inner=0x10, vel_x=0x8000) -> bytes:
    return _PSYS.pack(0x11223344, 1, 2, max_age, 0x0100, inner, 0x10, 0x0080, 0x0100, 0x0100, 0x0200, 4,
                      vel_x, 0x8000, 0x8000, 0x8000, 0x8000, 0x7F80, b"\x11" * 16, b"\x22" * 16)


def _pdata(flags=0x101, glow=b"", blend=b"") -> bytes:
    return _PDATA.pack(flags, 0x0A00, b"\xff\x00\x00\xff", b"\x00\x00\xff\x00", 0x20, 0x20, 0x08, 0x08) + glow + blend


def sweep_bases():
    """deterministic (seed independent) rich payloads, as segment lists; every optional section occurs in one of them"""
    def ep(kind, body):
        return struct.pack("<HI", kind, len(body)) + body
    f = struct.pack
    extra = bytes([8]) + ep(0x10, bytes([0x42, 0x81, 10, 20]) + f("<3f", 0.5, -1.0, 2.0)) \
        + ep(0x20, b"\x10\x20\x30\x40" + f("<3f", 10.0, 0.5, 0.75)) \
        + ep(0x30, bytes(range(0x30, 0x40)) + bytes([0x45])) \
        + ep(0x40, bytes(range(0x40, 0x50)) + f("<3f", 1.0, 2.0, 0.25)) \
        + ep(0x60, bytes(range(0x60, 0x70)) + bytes([0x05])) \
        + ep(0x70, f("<I", 1)) \
        + ep(0x80, bytes([2]) + bytes([0]) + bytes(range(0x80, 0x90)) + bytes([3]) + bytes(range(0x90, 0xA0))) \
        + ep(0x90, f("<2f", 0.5, 64.0) + bytes([3]))
    te = bytes.fromhex("8955674724cb43ed920b47caed15465f") + bytes.fromhex("00" "00000000" "00" "0000803f" "00" "0000803f" "00"
                                                                        "0000" "00" "0000" "00" "0000" "00" "00" "00" "00" "00" "00" "00")
    blob = corpus_cases()[0][1] if corpus_cases() else b""
    i = blob.find(bytes.fromhex("3f000000"))
    if i > 0:
        te = blob[i + 4:i + 4 + 63]
    ta = bytes([0x33, 0xFF, 2, 2]) + f("<3f", 0.0, 6.25, 0.5)
    pd_new = _pdata(0x30101, glow=b"\x40\x80", blend=b"\x07\x09")
    ps_new = f("<i", _PSYS.size) + _psys() + f("<i", len(pd_new)) + pd_new
    common = {"scratch": bytes(range(0xA0, 0xA8)), "text": "Hello \u00e9".encode(), "color": b"\xff\x80\x00\x7f",
              "media": b"http://x/y", "psblock": _psys() + _pdata(), "extra": extra,
              "nv": b"AttachItemID STRING RW SV abc\nfoo U32 R S 5", "te": te, "ta": ta,
              "owner": bytes(range(0x51, 0x61))}
    return {
        "all": wire_segments(2047, 9, 0x2f, dict(common, psnew=ps_new)),
        "psnew86": wire_segments(1024 | 128, 47, 0x14, {"psnew": _psys(0x0100, 0x20, 0x8100) + _pdata(), "te": te}),
        "psnew-min": wire_segments(1024 | 64, 95, 7, {"psnew": f("<i", _PSYS.size) + _psys() + f("<i", _PDATA.size) + _pdata(), "ta": ta}),
    }


def sweep_cases(ctx):
    """(kind, payload, ("sweep", base, offset, value)).  Every byte position of the particle blocks with each boundary
    value; other sections strided in the quick tier (all positions in thorough); all-ones / all-zero section contents."""
    stride = ctx.pick(4, 1)
    for bname, segs in sweep_bases().items():
        payload = b"".join(x for _, x in segs)
        yield "sweep-base", payload, ("sweep", bname, -1, 0)
        off = 0
        for name, seg in segs:
            dense = name in ("PSBlock", "PSBlockNew") or len(seg) <= 8
            for i in range(len(seg)):
                if not dense and (i + off) % stride:
                    continue
                for val in SWEEP_VALUES:
                    if seg[i] == val:
                        continue
                    b = bytearray(payload)
                    b[off + i] = val
                    yield "sweep-" + name, bytes(b), ("sweep", bname, off + i, val)
            if name != "Header":
                for fill, tag in ((0xFF, -2), (0x00, -3)):
                    b = bytearray(payload)
                    b[off:off + len(seg)] = bytes([fill]) * len(seg)
                    yield "sweep-fill-" + name, bytes(b), ("sweep", bname, off, tag)
                    # keep the framing (length prefix / terminator), fill the contents only
                    if name in ("ScratchPad", "TextureEntry", "TextureAnim") and len(seg) > 4:
                        b = bytearray(payload)
                        b[off + 4:off + len(seg)] = bytes([fill]) * (len(seg) - 4)
                        yield "sweep-fill-" + name, bytes(b), ("sweep", bname, off + 4, tag)
                    if name in ("Text", "MediaURL", "NameValue") and len(seg) > 1:
                        b = bytearray(payload)
                        b[off:off + len(seg) - 1] = bytes([fill]) * (len(seg) - 1)
                        yield "sweep-fill-" + name, bytes(b), ("sweep", bname, off, tag - 2)
            off += len(seg)


_BASELINE = None


def sweep_baseline():
    """sweep points whose re-encoding does not reproduce the payload on the UNCHANGED tree, with the reason class;
    recorded in corpus/C13/sweep_baseline.json (pre-existing behaviour of the embedded sub-templates / of CPython floats,
    outside C13); everything else must re-encode exactly"""
    global _BASELINE
    if _BASELINE is None:
        path = os.path.join(VERIF, "corpus", "C13", "sweep_baseline.json")
        _BASELINE = {}
        if os.path.exists(path):
            for base, entries in json.load(open(path)).get("points", {}).items():
                for key, reason in entries.items():
                    off, val = key.split(":")
                    _BASELINE[(base, int(off), int(val))] = reason
    return _BASELINE


# --------------------------------------------------------------------------
# the statement of C13 evaluated on the implementation

def nan_free(p: bytes, im: Impl) -> bool:
    ok, v, _ = im.decl(p)
    return ok and "nan" not in repr(canon(v))


def _scribble(v, depth=0):
    """modify a decoded result in place as an addon editing it would: clear/overwrite every mutable container reachable from it"""
    if depth > 3:
        return
    if _PROXY and isinstance(v, _PROXY):
        try:
            v = v.__wrapped__
        except Exception:
            return
    if isinstance(v, dict):
        for x in list(v.values()):
            _scribble(x, depth + 1)
        for k in list(v.keys()):
            try:
                v[k] = "scribbled"
            except Exception:
                pass
    elif isinstance(v, list):
        for x in v:
            _scribble(x, depth + 1)
        del v[:]
    elif isinstance(v, bytearray):
        v[:] = b""
    elif dataclasses.is_dataclass(v) and not isinstance(v, type):
        for f in dataclasses.fields(v):
            x = getattr(v, f.name, None)
            if isinstance(x, (dict, list, bytearray)) or (dataclasses.is_dataclass(x) and not isinstance(x, type)):
                _scribble(x, depth + 1)
            else:
                try:
                    setattr(v, f.name, None)
                except Exception:
                    pass


def check_repeatable(im: Impl, p: bytes):
    """the hand-optimised decoder is a function of the payload: decoding p, editing the returned values in place, and decoding p
    again must give what the template gives (no decoded object is shared between calls)"""
    F = im.objects.FastObjectUpdateCompressedDataDeserializer
    okd, vd, trailing = im.decl(p)
    if not okd or trailing:
        return None
    try:
        r1 = F.read(p)
        want = {k: canon(x) for k, x in dict(vd).items()}
        got1 = {k: canon(x) for k, x in dict(r1).items()}
        _scribble(r1)
        r2 = F.read(p)
        got2 = {k: canon(x) for k, x in dict(r2).items()}
    except Exception as e:   # noqa
        return None
    if got1 != got2:
        bad = sorted(k for k in set(got1) | set(got2) if got1.get(k) != got2.get(k))
        return {"payload": p.hex(), "domain": True, "clause": "the two decoders produce equal field values - on every call: the hand-optimised "
                "decoder returns fresh values (editing one result does not change the next decode of the same payload)",
                "class": "fast-decode-not-repeatable", "field": bad[0] if bad else "?",
                "agrees_with_template_first_time": all(want.get(k) == got1.get(k) for k in want if k in got1)}
    return None


def check_property(im: Impl, p: bytes, domain):
    """None, or a dict describing which clause fails on payload p.
    domain=("sweep", base, offset, value): a byte-built payload: as a mutation, plus the re-encode clause (see below).
    domain=True: p is a well-formed payload: both decoders must accept it, agree field by field (Python ==), agree
    after normalisation, and re-encoding must reproduce p.
    domain=False: p is a mutation: both must fail, or agree (NaN-safe comparison)."""
    okf, vf = im.fast(p)
    okd, vd, trailing = im.decl(p)
    sweep = None
    if not isinstance(domain, bool):
        sweep = tuple(domain)
        domain = False
    base = {"payload": p.hex(), "domain": list(sweep) if sweep else domain}
    if domain:
        if not okd or trailing:
            return dict(base, clause="template accepts every well-formed payload", **{"class": "decl-rejects-wellformed"},
                        got=str(vd) if not okd else "%d trailing bytes" % trailing)
        if not okf:
            return dict(base, clause="fast decoder accepts what the template accepts", **{"class": "fast-rejects"}, got=vf)
    else:
        if okd != okf:
            return dict(base, clause="both decoders fail or both succeed", **{"class": "accept-mismatch"},
                        fast=vf if not okf else "ok", decl=vd if not okd else "ok")
        if not okd:
            return None
    if set(vf.keys()) != set(vd.keys()):
        return dict(base, clause="same field names", **{"class": "field-names"},
                    only_fast=sorted(set(vf) - set(vd)), only_decl=sorted(set(vd) - set(vf)))
    for k in vd:
        if domain:
            eq = py_equal(vf[k], vd[k])
            if eq is not True:
                return dict(base, clause="equal field values (==)", **{"class": "field-value"}, field=k, got=str(eq),
                            fast=repr(canon(vf[k]))[:200], decl=repr(canon(vd[k]))[:200])
        elif not same(vf[k], vd[k]):
            return dict(base, clause="equal field values", **{"class": "field-value"}, field=k,
                        fast=repr(canon(vf[k]))[:200], decl=repr(canon(vd[k]))[:200])
    # through the normaliser the object tracker and the VOCache path use
    okn, nf = im.normalize(p)
    okm, nd = im.normalize(p, via_decl=vd)
    if okn != okm or (okn and not (set(nf) == set(nd) and all(same(nf[k], nd[k]) for k in nf))):
        return dict(base, clause="equal after normalize_object_update_compressed_data", **{"class": "normalised-value"},
                    fast=repr(canon(nf))[:200] if okn else nf, decl=repr(canon(nd))[:200] if okm else nd)
    if domain and not okn:
        return dict(base, clause="normaliser accepts every well-formed payload", **{"class": "normaliser-rejects"}, got=nf)
    if sweep and not trailing and sweep[1:] not in sweep_baseline() \
            and not any(unforceable(x) for x in vd.values()):
        # byte-built payload the template accepts completely (lazy windows parse): re-encoding must reproduce it,
        # unless this sweep point is recorded as not round-tripping on the unchanged tree
        oke, q = im.reencode(p)
        if not oke or q != p:
            i = next((j for j, (a, c) in enumerate(zip(p, q)) if a != c), min(len(p), len(q))) if oke else -1
            return dict(base, clause="re-encoding through the template reproduces the payload", **{"class": "reencode-bytes"},
                        first_difference_at=i, got=q.hex() if oke else q)
    if domain:
        oke, q = im.reencode(p)
        if not oke or q != p:
            cls = "reencode"
            # recognise the defect class: a flagged NUL-terminated typed section that decoded to None
            spec = im.T._template_spec.get("NameValue")
            if oke and vd.get("NameValue") is None and spec is not None and int(vd["Flags"]) & getattr(spec, "_flag_val", 0):
                cls = "empty-terminated-section-reencode"
            return dict(base, clause="re-encoding through the template reproduces the payload", **{"class": cls},
                        got=q.hex() if oke else q)
    return None


# --------------------------------------------------------------------------
# model (extracted) vs implementation

def parse_tok(t: str):
    if t == "N":
        return ("N",)
    if t[0] == "I":
        return ("I", int(t[1:]))
    if t[0] == "B":
        return ("B", bytes.fromhex(t[1:]))
    if t[0] == "X":
        return ("X", bytes.fromhex(t[1:]))
    if t[0] == "L":
        i, h = t[1:].split(":")
        return ("L", int(i), bytes.fromhex(h))
    if t[0] == "T":
        inner = t[2:-1]
        return ("T", [parse_tok(x) for x in inner.split(",")] if inner else [])
    raise ValueError(t)


def parse_model_line(line: str, with_rest: bool):
    """-> None (ERR) or (rest_len or None, {name: tok})"""
    ws = line.split()
    if not ws or ws[0] != "OK":
        return None
    rest = None
    if with_rest:
        rest = int(ws[1])
        ws = ws[2:]
    else:
        ws = ws[1:]
    d = {}
    for w in ws:
        k, t = w.split("=", 1)
        d[k] = parse_tok(t)
    return rest, d


def opaque_parse(im: Impl, name: str, window: bytes):
    """what the real sub-reader makes of the window the model cut out; ('EXC', ..) when it rejects it"""
    se, tmpls = im.se, im.tmpls
    spec = im.specs[name]
    try:
        if isinstance(spec, se.CStr):
            return ("OK", window.decode("utf8"))
        if isinstance(spec, se.TypedBytesBase):
            r = se.BufferReader("<", window)
            v = r.read(spec._spec)
            if len(r):
                return ("EXC", "trailing")
            return ("OK", v)
        r = se.BufferReader("<", window)
        v = r.read(spec)
        if len(r) and not isinstance(spec, se.LengthSwitch):     # the particle block at the end may leave bytes unread
            return ("EXC", "trailing")
        return ("OK", v)
    except Exception as e:
        return ("EXC", type(e).__name__)


def f32_roundtrips(tok) -> bool:
    """False for F32 bit patterns CPython does not reproduce (signalling NaNs are quieted on unpack; see TRUSTED)"""
    if tok[0] == "T":
        return all(f32_roundtrips(t) for t in tok[1])
    if tok[0] == "B" and len(tok[1]) == 4:
        return struct.pack("<f", struct.unpack("<f", tok[1])[0]) == tok[1]
    return True


def opaque_roundtrips(im: Impl, name: str, window: bytes) -> bool:
    """does the real sub-reader re-serialise what it parsed from this window to the same bytes?"""
    se = im.se
    spec = im.specs[name]
    st, v = opaque_parse(im, name, window)
    if st != "OK":
        return False
    try:
        if isinstance(spec, se.CStr):
            return v.encode("utf8") == window
        w = se.BufferWriter("<")
        w.write(spec._spec if isinstance(spec, se.TypedBytesBase) else spec, v)
        return bytes(w.buffer) == window
    except Exception:
        return False


def tok_matches(im: Impl, name: str, tok, real):
    """does the model's value for field `name` denote the implementation's value `real`?  -> (bool, attributable)"""
    kind = tok[0]
    if kind == "N":
        return real is None, False
    if real is None:
        return False, False
    if kind == "I":
        try:
            return int(real) == tok[1], False
        except Exception:
            return False, False
    if kind == "B":
        raw = tok[1]
        if type(real).__name__ == "UUID":
            return real.bytes == raw, False
        if isinstance(real, float):
            return len(raw) == 4 and canon(struct.unpack("<f", raw)[0]) == canon(real), False
        if isinstance(real, (bytes, bytearray, memoryview)):
            return bytes(real) == raw, False
        return False, False
    if kind == "T":
        try:
            comps = tuple(real)[:len(tok[1])]
        except Exception:
            return False, False
        if len(comps) != len(tok[1]) or len(tok[1]) != 3:
            return False, False
        return all(t[0] == "B" and len(t[1]) == 4 and canon(struct.unpack("<f", t[1])[0]) == canon(float(c))
                   for t, c in zip(tok[1], comps)), False
    if kind in ("X", "L"):
        window = tok[-1]
        st, v = opaque_parse(im, name, window)
        if st == "EXC":
            creal = canon(real)
            # a lazy value that cannot be forced on either side
            return isinstance(creal, str) and creal.startswith("EXC:"), True
        return same(v, real), False
    return False, False


def model_vs_impl(im: Impl, p: bytes, mf: str, mdw: str):
    """-> list of disagreement dicts for payload p given the model's output lines (fast; declarative read + write)"""
    out = []
    md, _, mw = mdw.partition(" | ")
    mw = mw.strip()
    okf, vf = im.fast(p)
    okd, vd, trailing = im.decl(p)
    for side, line, ok, val, with_rest in (("fast", mf, okf, vf, False), ("decl", md, okd, vd, True)):
        try:
            parsed = parse_model_line(line, with_rest)
        except Exception as e:
            out.append({"op": side, "payload": p.hex(), "model": line[:200], "impl": "unparsable model line: %r" % e})
            continue
        if parsed is None:
            if ok:
                out.append({"op": side, "payload": p.hex(), "model": "ERR", "impl": "ok"})
            continue
        rest, d = parsed
        if not ok:
            # the model's concrete instance accepts every window; the implementation may reject one of them
            if not any(t[0] in ("X", "L") and opaque_parse(im, k, t[-1])[0] == "EXC" for k, t in d.items()):
                out.append({"op": side, "payload": p.hex(), "model": "ok", "impl": val})
            continue
        if set(d) != set(val):
            out.append({"op": side, "payload": p.hex(), "model": sorted(d), "impl": sorted(val)})
            continue
        for k, t in d.items():
            good, _ = tok_matches(im, k, t, val[k])
            if not good:
                out.append({"op": side, "payload": p.hex(), "field": k, "model": repr(t)[:160], "impl": repr(canon(val[k]))[:160]})
                break
        if with_rest and rest != trailing:
            # ShRest (the particle block at the end) always consumes everything in the concrete instance
            if not (int(val["Flags"]) & 1024):
                out.append({"op": side + "-rest", "payload": p.hex(), "model": rest, "impl": trailing})
    # re-encoding
    if okd:
        oke, q = im.reencode(p)
        if mw.startswith("W"):
            mq = bytes(int(x) for x in mw.split()[1:])
            if not oke:
                parsed = parse_model_line(md, True)
                d = parsed[1] if parsed else {}
                if not any(t[0] in ("X", "L") and opaque_parse(im, k, t[-1])[0] == "EXC" for k, t in d.items()):
                    out.append({"op": "reencode", "payload": p.hex(), "model": mq.hex(), "impl": q})
            elif mq != q:
                # the model writes windows back verbatim; the implementation re-serialises the parsed value, which
                # is the same bytes exactly when the sub-template round-trips on that window (assumed, not C13's)
                parsed = parse_model_line(md, True)
                d = parsed[1] if parsed else {}
                if all(opaque_roundtrips(im, k, t[-1]) for k, t in d.items() if t[0] in ("X", "L")) and \
                        all(f32_roundtrips(t) for t in d.values()):
                    out.append({"op": "reencode", "payload": p.hex(), "model": mq.hex(), "impl": q.hex()})
        elif mw.strip() == "WERR" and oke:
            out.append({"op": "reencode", "payload": p.hex(), "model": "WERR", "impl": q.hex()})
    return out


# --------------------------------------------------------------------------
# case generation

def mutate(rng, p: bytes):
    k = rng.random()
    b = bytearray(p)
    if k < 0.25 and len(b) > 1:
        return "truncate", bytes(b[:rng.randrange(0, len(b))])
    if k < 0.45:
        # flip one bit of the Flags field: sections appear/disappear without the body following
        i = 80 + rng.randrange(2)
        if len(b) > i:
            b[i] ^= 1 << rng.randrange(8)
        return "flagbit", bytes(b)
    if k < 0.6:
        return "append", bytes(b) + rbytes(rng, rng.choice((1, 1, 2, 4, 86)))
    if k < 0.75 and len(b) > 100:
        i = rng.randrange(100, len(b))
        del b[i:i + rng.choice((1, 1, 2, 4))]
        return "delete", bytes(b)
    n = rng.choice((1, 1, 1, 2, 3))
    for _ in range(n):
        i = rng.randrange(len(b))
        b[i] = rng.choice((0, 0xFF, b[i] ^ (1 << rng.randrange(8)), rng.randrange(256)))
    return "bytes", bytes(b)


def corpus_cases():
    d = os.path.join(VERIF, "corpus", "C13")
    out = []
    if os.path.isdir(d):
        for fn in sorted(os.listdir(d)):
            if fn.endswith(".json"):
                data = json.load(open(os.path.join(d, fn)))
                for c in (data if isinstance(data, list) else ()):      # (sweep_baseline.json is a table, not a case list)
                    dm = c.get("domain", True)
                    out.append((c.get("kind", "corpus"), bytes.fromhex(c["payload"]), tuple(dm) if isinstance(dm, list) else bool(dm)))
    return out


def gen_cases(ctx, im: Impl, gen: Gen):
    """yields (kind, payload, domain?)"""
    rng = ctx.rng
    yield from corpus_cases()
    pcodes = NAMED_PCODES + UNNAMED_PCODES
    # exhaustive small scope: every flag combination x every object kind, minimal section contents
    for flags in range(ALL_FLAGS):
        for pc in pcodes:
            p = gen.payload(flags, pc, minimal=True) if flags & 8 else \
                wire_payload(flags, pc, state=(flags * 7 + pc) & 0xFF, sections={"nv": b"a STRING R S v"})
            if p is not None:
                yield "exh-minimal", p, True
    # hand-made wire-level payloads with empty sections
    for flags in (1, 4, 512, 256, 1024, 4 | 512 | 256 | 1, 2047 & ~8):
        yield "wire-empty", wire_payload(flags), True
    yield "wire-nv", wire_payload(256, sections={"nv": b"AttachItemID STRING RW SV abc"}), True
    yield from boundary_cases(ctx, im, gen)
    yield from sweep_cases(ctx)
    # every flag combination x object kind with generated contents
    per = ctx.pick(1, 4)
    quick_pcodes = ctx.pick(3, 9)
    domain = []
    for flags in range(ALL_FLAGS):
        pcs = pcodes if quick_pcodes == 9 else [pcodes[(flags + i * 3) % 9] for i in range(3)]
        for pc in pcs:
            for _ in range(per):
                p = gen.payload(flags, pc)
                if p is not None:
                    domain.append(p)
                    yield "domain", p, True
    # mutations of well-formed payloads
    nmut = ctx.pick(4000, 50000)
    for _ in range(nmut):
        kind, q = mutate(rng, rng.choice(domain))
        yield "mut-" + kind, q, False
    # every truncation of a few rich payloads
    for p in [wire_payload(2047 & ~8, sections={"text": b"hi", "media": b"u", "nv": b"a STRING R S v"})] + domain[-3:]:
        for n in range(len(p)):
            yield "mut-prefix", p[:n], False


STR_LENGTHS = (0, 1, 2, 127, 128, 254, 255, 256, 257, 300, 1000, 4096)
INT_FIELDS = {"ID": "I", "PCode": "B", "State": "B", "CRC": "I", "Material": "B", "ClickAction": "B", "ParentID": "I",
              "TreeSpecies": "B", "SoundFlags": "B", "PathCurve": "B", "ProfileCurve": "B", "PathBegin": "H", "PathEnd": "H",
              "PathScaleX": "B", "PathScaleY": "B", "PathShearX": "B", "PathShearY": "B", "PathTwist": "b",
              "PathTwistBegin": "b", "PathRadiusOffset": "b", "PathTaperX": "b", "PathTaperY": "b", "PathRevolutions": "B",
              "PathSkew": "b", "ProfileBegin": "H", "ProfileEnd": "H", "ProfileHollow": "H"}
INT_RANGE = {"B": (0, 255), "H": (0, 65535), "I": (0, 0xFFFFFFFF), "b": (-128, 127)}


def utf8_of_len(n: int, multibyte: bool) -> str:
    """a string without NUL whose UTF-8 encoding is exactly n bytes"""
    if not multibyte or n < 2:
        return "a" * n
    s = "\u00e9" * ((n - n % 2 - (3 if n >= 5 and n % 2 else 0)) // 2)      # 2-byte characters
    rest = n - len(s.encode())
    if rest >= 3:
        s += "\u2603"                                                          # one 3-byte character
        rest -= 3
    s += "z" * rest
    assert len(s.encode()) == n, (n, len(s.encode()))
    return s


def boundary_cases(ctx, im: Impl, gen: "Gen"):
    """section contents at the size boundaries of every framing, and every fixed-width integer at its ends;
    all serialised through the real TEMPLATE (template domain) unless marked wire"""
    T, MU, SP, NV, PAR, TREE, SND = 4, 512, 1, 256, 32, 2, 16
    # C strings: the declarative CStr has no length limit, so neither may the fast reader
    for n in STR_LENGTHS:
        for mb in (False, True):
            t = utf8_of_len(n, mb)
            for flags, force in ((T, {"Text": t}), (MU, {"MediaURL": t}), (T | MU, {"Text": t, "MediaURL": t}),
                                 (2047 & ~8, {"Text": t, "MediaURL": t[::-1] if not mb else t})):
                p = gen.payload(flags, 9, force=force)
                if p is not None:
                    yield "bound-cstr", p, True
        # the same lengths straight on the wire (independent encoder)
        yield "bound-cstr-wire", wire_payload(T | MU, sections={"text": b"t" * n, "media": b"m" * n}), True
    # length-prefixed byte arrays
    for n in (0, 1, 254, 255, 256, 257, 65535, 65536, 70000):
        p = gen.payload(SP | PAR, 9, force={"ScratchPad": bytes((i * 7 + 1) & 0xFF for i in range(n))})
        if p is not None:
            yield "bound-scratchpad", p, True
    # name-value strings (NUL terminated window, "\n" separated entries)
    nv = im.namevalue
    for n in (1, 200, 254, 255, 256, 257, 1000, 65535, 65536):
        coll = nv.NameValueCollection([nv.NameValue(name="AttachItemID", type="STRING", rw="RW", sendto="SV", value="v" * n)])
        p = gen.payload(NV, 9, force={"NameValue": coll})
        if p is not None:
            yield "bound-namevalue", p, True
    coll = nv.NameValueCollection([nv.NameValue(name="n%d" % i, type="U32", rw="R", sendto="S", value=str(i)) for i in range(300)])
    p = gen.payload(NV | T, 47, force={"NameValue": coll, "Text": "x" * 255})
    if p is not None:
        yield "bound-namevalue", p, True
    # extra params: a U32-prefixed window of 256 / 4336 bytes (render material, 15 / 255 entries), and all 8 kinds at once
    for cnt in (0, 14, 15, 16, 255):
        body = bytes([cnt]) + b"".join(bytes([i % 45]) + bytes([(i * 3 + j) & 0xFF for j in range(16)]) for i in range(cnt))
        raw = bytes([1]) + struct.pack("<HI", 0x80, len(body)) + body
        v = gen.stable(im.tmpls.EXTRA_PARAM_COLLECTION, raw, "ExtraParams boundary")
        if v is not None:
            p = gen.payload(PAR, 9, force={"ExtraParams": v})
            if p is not None:
                yield "bound-extraparams", p, True
    # texture animation is a fixed 16-byte record inside a U32 window: other window sizes must be rejected by both
    for n in (0, 15, 17, 255, 256):
        yield "bound-textureanim-wire", wire_payload(64, sections={"ta": bytes(n)}), False
    # every fixed-width integer at both ends (all together, and one at a time against random others)
    allflags = PAR | TREE | SND
    for pc in (0, 9, 47, 255):
        for end in (0, 1):
            force = {k: INT_RANGE[f][end] for k, f in INT_FIELDS.items() if k != "PCode"}
            p = gen.payload(allflags, pc, force=force)
            if p is not None:
                yield "bound-ints", p, True
    for k, f in INT_FIELDS.items():
        for end in (0, 1):
            x = INT_RANGE[f][end]
            p = gen.payload(allflags, x if k == "PCode" else 9, force={k: x})
            if p is not None:
                yield "bound-ints", p, True


def vocache_check(ctx, im: Impl, payloads):
    """write an object cache region file holding the payloads, read it back through proxy/vocache.py and push the
    entries through the same normaliser"""
    from hippolyzer.lib.proxy.vocache import RegionViewerObjectCache
    res = CorrResult(suite="vocache entries through the shared normaliser",
                     rule="a region cache file (.slc) is written with generated payloads as entries, read back by "
                          "RegionViewerObjectCache.from_file, looked up by (local id, crc) and normalised; must equal normalising the "
                          "payload directly and the normalised declarative decode; non-trivial = entry with at least one optional section")
    path = os.path.join(ctx.scratch, "objects_1000_1000.slc")
    payloads = [p for p in payloads if 0 < len(p) <= 10000]
    with open(path, "wb") as f:
        f.write(bytes(range(16)))
        f.write(struct.pack("<i", len(payloads)))
        for i, p in enumerate(payloads):
            f.write(struct.pack("<IIiiiI", 1000 + i, (i * 2654435761) & 0xFFFFFFFF, 1, 0, 0, len(p)))
            f.write(p)
    try:
        cache = RegionViewerObjectCache.from_file(path)
    except Exception as e:
        res.disagreements.append({"op": "vocache", "impl": "EXC:" + type(e).__name__})
        return res
    for i, p in enumerate(payloads):
        res.evaluations += 1
        data = cache.lookup_object_data(1000 + i, (i * 2654435761) & 0xFFFFFFFF)
        if data != p:
            res.impl_violations.append({"clause": "cache entry bytes", "class": "vocache-entry", "payload": p.hex(), "domain": True})
            continue
        okn, nf = im.normalize(data)
        okd, vd, _ = im.decl(p)
        okm, nd = im.normalize(p, via_decl=vd) if okd else (False, vd)
        if not (okn and okm and set(nf) == set(nd) and all(same(nf[k], nd[k]) for k in nf)):
            res.impl_violations.append({"clause": "equal after normalize_object_update_compressed_data", "class": "normalised-value",
                                        "payload": p.hex(), "domain": True})
        if okd and int(vd["Flags"]):
            res.distinct_nontrivial += 1
    res.samples = [{"entry": 1000, "len": len(payloads[0])}] if payloads else []
    res.distribution = {"entries": len(payloads)}
    return res


def correspond(ctx):
    im = impl()
    gen = Gen(ctx.rng, im, ctx.pick(48, 1000))
    res = CorrResult(
        suite="fast decoder vs template vs extracted model",
        rule="corpus first; every one of the 2048 section-flag combinations x 9 object kinds (6 named PCodes, 3 without a name) "
             "with minimal contents (exhaustive); hand-made wire-level payloads with empty sections; size boundaries of every framing "
             "(Text/MediaURL of 0,1,2,127,128,254,255,256,257,300,1000,4096 bytes ASCII and multibyte; ScratchPad, NameValue, "
             "ExtraParams windows around 255/256/65535/65536) and every fixed-width integer field at its min and max; a byte-level sweep "
             "inside every section of three hand-built rich payloads (each byte of the particle blocks, every 4th byte elsewhere in "
             "quick / all in thorough, set to 00,01,7F,80,FB..FF; all-ones and all-zero section contents), where re-encoding must "
             "reproduce the bytes unless the point is listed in corpus/C13/sweep_baseline.json (18 points that do not round-trip on "
             "the unchanged tree: signalling-NaN floats, TextureEntry rotation 0x8000); every flag combination x "
             "%d object kinds x %d generated section contents serialised through the real TEMPLATE; seeded mutations (truncate, "
             "flag-bit flip, append, delete, byte edits) and every prefix of rich payloads.  Each case: real fast read vs real "
             "template read field by field (== and NaN-safe canonical form), both through normalize_object_update_compressed_data, "
             "re-encoding through the template; and the extracted Coq fast_read/decl_read/decl_write on the generated template vs "
             "the real decoders (accept/reject, every field value or window, unread rest, re-encoded bytes).  Non-trivial = "
             "distinct payload accepted by the template with at least one optional section present"
             % (ctx.pick(3, 9), ctx.pick(1, 4)))
    seen = set()
    cases = []
    dist = {}
    for kind, p, domain in gen_cases(ctx, im, gen):
        key = (p, domain)
        if key in seen:
            continue
        seen.add(key)
        dist[kind] = dist.get(kind, 0) + 1
        cases.append((kind, p, domain))
    # the extracted model runs on every case except, in the quick tier, two thirds of the minimal-contents scope
    # (every flag combination still runs with three object kinds)
    lines, slot = [], {}
    for i, (kind, p, _) in enumerate(cases):
        if kind == "exh-minimal" and not ctx.thorough and (i % 3):
            continue
        if kind.startswith("sweep-") and not ctx.thorough and (i % 2):
            continue
        body = " ".join(map(str, p))
        slot[i] = len(lines)
        lines += ["f " + body, "w " + body]
    model = []
    for k in range(0, len(lines), 40000):      # bounded batches: the thorough tier has several hundred thousand lines
        model += ctx.run_driver(lines[k:k + 40000])
    nontriv = 0
    viol_seen = set()
    for i, (kind, p, domain) in enumerate(cases):
        v = check_property(im, p, domain)
        if not v and domain is True and i % 7 == 0:
            v = check_repeatable(im, p)
        if v:
            v["kind"] = kind
            key = (v["class"], v.get("field"))
            if key not in viol_seen or len(res.impl_violations) < 5:
                viol_seen.add(key)
                res.impl_violations.append(v)
        for d in (model_vs_impl(im, p, model[slot[i]], model[slot[i] + 1]) if i in slot else ()):
            d["kind"] = kind
            if len(res.disagreements) < 50:
                res.disagreements.append(d)
        okd, vd, _ = im.decl(p)
        if okd and int(vd["Flags"]) & 2047:
            nontriv += 1
    res.evaluations = len(cases)
    dist["cases-run-through-extracted-model"] = len(slot)
    res.distinct_nontrivial = nontriv
    dist["skipped-by-generator"] = dict(gen.skipped)
    res.distribution = dist
    res.exhaustive = False
    res.samples = [{"kind": k, "domain": dm, "len": len(p), "payload_hex": p.hex()[:96]} for k, p, dm in cases[:2] + cases[-3:]]
    dom = [p for k, p, dm in cases if k == "domain"]
    step = max(1, len(dom) // ctx.pick(300, 3000))
    voc = vocache_check(ctx, im, dom[::step])
    return [res, voc]


# --------------------------------------------------------------------------
# generated obligations

_GEN_INFO = {}


class TranscriptionOutOfDate(Exception):
    pass


def generate(ctx):
    info = c13_gen.generate(COQ)
    _GEN_INFO.clear()
    _GEN_INFO.update(info)
    if not info["read_sha1_matches_transcription"]:
        # fail closed: fast_read is a hand transcription of exactly the recorded text.  The generated files above are
        # written all the same, so the correspondence still runs and can produce a concrete failing payload.
        raise TranscriptionOutOfDate(
            "the source of FastObjectUpdateCompressedDataDeserializer / SimpleStructReader (read_struct, read_bytes_null_term) "
            "has changed: sha1 %s is not the text coq/theories/Compressed/Model.v:fast_read was transcribed from (%s). "
            "Re-transcribe fast_read/read_term/read_struct and record the new hash in harness/translate/c13_gen.py."
            % (info["read_sha1"], ", ".join(c13_gen.TRANSCRIBED_SOURCES_SHA1)))
    return [
        {"name": "C13_gen.current_template: %d fields (%d gated) walked from the live TEMPLATE" % (info["n_fields"], info["n_gated"]),
         "detail": "opaque readers by identity: %s" % info["opaque"]},
        {"name": "C13_gen.current_cfg: struct formats, flag and PCode constants, reader.read spec kinds of the live fast decoder",
         "detail": "sources of the fast decoder and SimpleStructReader: sha1 %s = the transcribed text" % info["read_sha1"]},
    ]


# --------------------------------------------------------------------------
# search / replay

def shrink(im: Impl, v):
    """shrink a failing mutation by dropping trailing bytes / zeroing bytes while the same class keeps failing"""
    if v.get("domain"):
        return v
    p = bytes.fromhex(v["payload"])
    changed = True
    while changed and len(p) > 1:
        changed = False
        for q in (p[:-1], p[:len(p) // 2]):
            w = check_property(im, q, False)
            if w and w["class"] == v["class"]:
                p, v, changed = q, w, True
                break
    return v


def search(ctx, hints):
    """a concrete payload on which the implementation violates C13 and that is not an already recorded finding"""
    from harness.common import framework
    im = impl()
    known = framework.load_findings(PROP_ID)

    def fresh(v):
        return v is not None and framework._matching_known(v, known) is None

    for h in hints:
        d = h.get("disagreement") or h.get("impl_violation")
        if d and "payload" in d:
            p = bytes.fromhex(d["payload"])
            dm = d.get("domain")
            for domain in ((tuple(dm),) if isinstance(dm, (list, tuple)) else (True, False)):
                v = check_property(im, p, domain)
                if fresh(v):
                    return shrink(im, v)
    gen = Gen(ctx.rng, im)
    n_rep = 0
    for kind, p, domain in gen_cases(ctx, im, gen):
        v = check_property(im, p, domain)
        if not v and domain is True and n_rep < 400:
            n_rep += 1
            v = check_repeatable(im, p)
            if v:
                v["kind"] = kind
                return v
        if fresh(v):
            v["kind"] = kind
            return shrink(im, v)
    return None


def replay(ctx, case):
    im = impl()
    if case.get("class") == "fast-decode-not-repeatable":
        v = check_repeatable(im, bytes.fromhex(case["payload"]))
        return (v is not None), (v or "holds")
    dm = case.get("domain", True)
    v = check_property(im, bytes.fromhex(case["payload"]), tuple(dm) if isinstance(dm, (list, tuple)) else bool(dm))
    return (v is not None), (v or "holds")
