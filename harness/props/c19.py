"""C19 - client endpoint: always ack, dispatch once, reliable sends complete on ack only.

Model: coq/theories/Circuit/ClientCircuit.v (proofs ClientProofs.v, theorems Props/C19.v).

The correspondence drives the real HippoClientProtocol.datagram_received with a real
HippoClientSession / HippoClientRegion / Circuit (MockTransport, fake clock, no timers) and
the extracted model with the same event sequences and compares, after every event, the
datagrams emitted (decoded with the real UDPMessageDeserializer), the subscriber invocations
at session and region level, the futures that completed, and the circuit state.
"""
import asyncio
import collections
import contextlib
import datetime
import itertools
import json
import logging
import os

from harness.common.framework import CorrResult, VERIF

PROP_ID = "C19"
COQ_PROPS = "theories/Props/C19.v"
EXTRACT = ("theories/Extract/ExC19.v", "c19_driver.ml")
TRUSTED = [
    "modelled by hand: Circuit.prepare_message/send/send_reliable/collect_acks/resend_unacked/send_acks/"
    "track_reliable/disconnect and HippoClientProtocol.datagram_received (region lookup, UDP-ban raise, "
    "collect_acks, ack-then-dedupe, session- then region-level handle) - tied by the step-by-step correspondence",
    "wall clock abstracted: dt.datetime.now() is a logical millisecond clock advanced only by explicit tick events; "
    "the asyncio resend task is the explicit event 'call resend_unacked()' (timer scheduling itself is not modelled)",
    "datagrams enter the model already decoded (UDPMessageDeserializer is C02's subject); packet ids < 2**32 "
    "(Python ints are unbounded, the wire field is U32)",
    "MessageHandler.handle / Event.notify are abstracted to 'handle was called once at this level'; the harness checks on the "
    "real objects that this means every matching subscriber (two by-name + one wildcard per level) runs exactly once; "
    "subscribers are observers (do not call back into the circuit, cancel futures or disconnect); between the two by-name observers of "
    "every level sits a pending non-taking MessageHandler.wait_for whose handler unsubscribes itself on the first matching packet",
    "the client only sends Direction.OUT messages and receives Direction.IN ones, so the direction component of the "
    "unacked_reliable key is constant and omitted from the model (the harness checks every key is (OUT, id))",
    "scope of 'received': a datagram counts as received by the endpoint when its source address maps to a region with a circuit "
    "and its message name is not UDP-banned by message.xml; the code drops the former silently and raises PermissionError for the "
    "latter BEFORE collect_acks/send_acks, so such reliable packets are not acked and their acks do not count (modelled as coded, "
    "Example C19_ex_rejected; reported as an observation, not asserted as a violation)",
    "futures pending at Circuit.disconnect() are dropped from the table without being completed: they stay pending forever "
    "(neither Done nor Failed - consistent with both iff statements; modelled as coded)",
    "theorems on futures assume cfg_ok (retry budget >= 1; the code's is 10) and that nobody but the circuit completes or cancels "
    "the futures; coroutine subscribers (scheduled as tasks by Event.notify) are outside the model",
    "small dedupe windows / retry budgets are reached in the fixture by replacing circuit.seen_reliable with "
    "deque(maxlen=W) and wrapping ReliableResendInfo to start at tries_left=T; the real values (1000, 10) are used unpatched "
    "in the 'real' configuration cases, including eviction after 1000 distinct ids",
]

W_REAL, T_REAL, E_REAL = 1000, 10, 3000
ADDR = ("127.0.0.1", 2)
OTHER_ADDR = ("127.0.0.1", 77)
SUB_TAGS = ("n1", "n2", "w")


# --------------------------------------------------------------------------
# events <-> text (the driver's line format)

def ev_text(e):
    k = e[0]
    if k == "R":
        _, known, banned, rel, pid, acks, pa = e
        return "R %d %d %d %d %d %s%d %s" % (known, banned, rel, pid, len(acks), "".join("%d " % a for a in acks),
                                             len(pa), " ".join(map(str, pa)))
    return " ".join(map(str, e))


def case_text(cfg, events):
    return ";".join(["%d %d %d" % tuple(cfg)] + [ev_text(e).strip() for e in events])


def parse_case(text):
    parts = text.split(";")
    cfg = tuple(int(x) for x in parts[0].split())
    events = []
    for p in parts[1:]:
        ws = p.split()
        if ws[0] == "R":
            n = [int(x) for x in ws[1:]]
            known, banned, rel, pid, na = n[:5]
            acks = tuple(n[5:5 + na])
            np_ = n[5 + na]
            pa = tuple(n[6 + na:6 + na + np_])
            events.append(("R", known, banned, rel, pid, acks, pa))
        elif ws[0] in ("S", "Q", "T"):
            events.append((ws[0],) + tuple(int(x) for x in ws[1:]))
        else:
            events.append((ws[0],))
    return cfg, events


# --------------------------------------------------------------------------
# the real implementation under a fake clock

class _FakeClock:
    """stands in for the `dt` module inside hippolyzer.lib.base.message.circuit"""
    timedelta = datetime.timedelta
    BASE = datetime.datetime(2020, 1, 1)

    def __init__(self):
        self.ms = 0
        outer = self

        class _DT(datetime.datetime):
            @classmethod
            def now(cls, tz=None):
                return outer.BASE + datetime.timedelta(milliseconds=outer.ms)
        self.datetime = _DT

    def to_ms(self, d):
        return int(round((d - self.BASE).total_seconds() * 1000))


class Impl:
    """One real HippoClient / HippoClientSession / HippoClientRegion; a fresh Circuit per case."""

    def __init__(self):
        logging.disable(logging.CRITICAL)
        self.loop = asyncio.new_event_loop()
        asyncio.set_event_loop(self.loop)
        import hippolyzer.lib.base.message.circuit as circ
        from hippolyzer.lib.base.datatypes import UUID
        from hippolyzer.lib.base.message.message import Message, Block
        from hippolyzer.lib.base.message.msgtypes import PacketFlags
        from hippolyzer.lib.base.message.udpserializer import UDPMessageSerializer
        from hippolyzer.lib.base.message.udpdeserializer import UDPMessageDeserializer
        from hippolyzer.lib.base.network.transport import Direction
        from hippolyzer.lib.base.test_utils import MockTransport
        from hippolyzer.lib.client.hippo_client import HippoClient, HippoClientProtocol, HippoClientSession
        self.circ, self.Message, self.Block, self.PacketFlags, self.Direction = circ, Message, Block, PacketFlags, Direction
        self.clock = _FakeClock()
        self._orig_dt = circ.dt
        self._orig_rri = circ.ReliableResendInfo
        circ.dt = self.clock
        self.ser = UDPMessageSerializer()
        self.de = UDPMessageDeserializer()
        self.log = []
        impl = self

        class LogTransport(MockTransport):
            def send_packet(self, packet):
                impl.log.append(("pkt", packet.data, packet.dst_addr))

        async def mk():
            return HippoClient()
        self.client = self.loop.run_until_complete(mk())
        self.session = HippoClientSession(UUID(int=1), UUID(int=2), UUID(int=3), 123, self.client)
        self.transport = LogTransport()
        self.session.transport = self.transport
        self.region = self.session.register_region(ADDR, None, 5)
        assert self.session.open_circuit(ADDR)
        self.proto = HippoClientProtocol(self.session)
        self.waits = []
        for lvl, handler in (("S", self.session.message_handler), ("R", self.region.message_handler)):
            for name in ("ChatFromSimulator", "PacketAck", "AgentDropGroup"):
                handler.subscribe(name, self._sub(lvl, "n1"))
                # a pending wait_for (non-taking) sits BETWEEN the two observers: its handler unsubscribes itself from inside
                # its own body when the first such packet arrives - the observers around it must still be notified
                self.waits.append(handler.wait_for((name,), take=False, timeout=None))
                handler.subscribe(name, self._sub(lvl, "n2"))
            handler.subscribe("*", self._sub(lvl, "w"))
        self._cache = {}

    def _sub(self, lvl, tag):
        def f(msg):
            self.log.append(("dsp", lvl, tag, msg.packet_id, 1 if msg.reliable else 0))
        return f

    def close(self):
        self.circ.dt = self._orig_dt
        self.circ.ReliableResendInfo = self._orig_rri
        try:
            self.loop.run_until_complete(self.client.http_session.close())
        except Exception:
            pass
        asyncio.set_event_loop(None)
        self.loop.close()
        logging.disable(logging.NOTSET)

    # ---- one case

    def new_circuit(self, cfg):
        w, t, e = cfg
        circ = self.circ
        self.clock.ms = 0
        self.region.circuit = circ.Circuit(("127.0.0.1", 0), ADDR, self.transport)   # as HippoClientSession.open_circuit does
        c = self.region.circuit
        if w != W_REAL:
            c.seen_reliable = collections.deque(maxlen=w)
        if e != E_REAL:
            c.resend_every = e / 1000.0
        orig = self._orig_rri
        if t != T_REAL:
            def factory(**kw):
                return orig(tries_left=t, **kw)
            circ.ReliableResendInfo = factory
        else:
            circ.ReliableResendInfo = orig
        return c

    def datagram(self, e):
        key = e
        d = self._cache.get(key)
        if d is None:
            _, known, banned, rel, pid, acks, pa = e
            M, B = self.Message, self.Block
            if banned:
                msg = M("AgentDropGroup", B("AgentData", fill_missing=True))
            elif pa:
                msg = M("PacketAck", *[B("Packets", ID=x) for x in pa])
            else:
                msg = M("ChatFromSimulator", B("ChatData", fill_missing=True))
            msg.packet_id = pid
            if rel:
                msg.send_flags |= self.PacketFlags.RELIABLE
            if acks:
                msg.acks = tuple(acks)
                msg.send_flags |= self.PacketFlags.ACK
            d = self.ser.serialize(msg)
            if len(self._cache) < 20000:
                self._cache[key] = d
        return d

    def out_message(self, rel, syn):
        M, B = self.Message, self.Block
        msg = M("ChatFromViewer", B("AgentData", fill_missing=True), B("ChatData", fill_missing=True))
        if rel:
            msg.send_flags |= self.PacketFlags.RELIABLE
        msg.synthetic = bool(syn)
        return msg

    def run(self, cfg, events):
        """returns the list of per-step observations (dicts)"""
        c = self.new_circuit(cfg)
        PF = self.PacketFlags
        futs = []          # h -> future
        fut_ids = {}       # id(info) -> h
        completions = []
        epoch = 0
        steps = []
        for e in events:
            self.log = []
            del completions[:]
            exc = None
            try:
                k = e[0]
                if k == "R":
                    self.proto.datagram_received(self.datagram(e), ADDR if e[1] else OTHER_ADDR)
                elif k == "S":
                    c.send(self.out_message(e[1], e[2]))
                elif k == "Q":
                    c.send_reliable(self.out_message(0, e[1]))
                elif k == "T":
                    self.clock.ms += e[1]
                elif k == "X":
                    c.resend_unacked()
                elif k == "D":
                    c.disconnect()
                    epoch += 1
            except Exception as ex:   # noqa
                exc = type(ex).__name__
            # new futures
            tracked = []
            for key, info in list(c.unacked_reliable.items()):
                if id(info) not in fut_ids:
                    h = len(futs)
                    fut_ids[id(info)] = h
                    futs.append((info, info.completed))   # keep info alive so id() stays unique
                    info.completed.add_done_callback(lambda f, h=h: completions.append(self._completion(f, h)))
                    tracked.append((h, key[1], epoch, self.clock.to_ms(info.last_resent)))
            self.loop.run_until_complete(asyncio.sleep(0))
            # decode what was emitted
            outs = []
            for item in self.log:
                if item[0] == "pkt":
                    _, data, dst = item
                    try:
                        m = self.de.deserialize(data)
                        rec = {"k": "pkt", "name": m.name, "id": m.packet_id, "flags": int(m.send_flags),
                               "acks": list(m.acks), "dst_ok": dst == ADDR}
                        if m.name == "PacketAck":
                            rec["ids"] = [b["ID"] for b in m["Packets"]]
                    except Exception as ex:   # noqa
                        rec = {"k": "pkt", "name": "UNDECODABLE:" + type(ex).__name__, "id": -1, "flags": 0, "acks": [], "dst_ok": False}
                    outs.append(rec)
                else:
                    outs.append({"k": "dsp", "lvl": item[1], "tag": item[2], "id": item[3], "rel": item[4]})
            state = {
                "next": c.packet_id_base, "now": self.clock.ms,
                "u": [((k[0] == self.Direction.OUT), k[1], i.tries_left, self.clock.to_ms(i.last_resent), fut_ids.get(id(i), -1))
                      for k, i in c.unacked_reliable.items()],
                "seen": list(c.seen_reliable),
                "futs": [self._fstate(f) for _, f in futs],
            }
            steps.append({"outs": outs, "exc": exc, "tracked": tracked, "completions": list(completions), "state": state,
                          "epoch": epoch})
        return steps

    @staticmethod
    def _completion(f, h):
        if f.cancelled():
            return "cancelled:%d" % h
        ex = f.exception()
        if ex is None:
            return "done:%d" % h
        if isinstance(ex, TimeoutError):
            return "fail:%d" % h
        return "exc%s:%d" % (type(ex).__name__, h)

    @staticmethod
    def _fstate(f):
        if not f.done():
            return "P"
        if f.cancelled():
            return "C"
        return "D" if f.exception() is None else ("F" if isinstance(f.exception(), TimeoutError) else "E")


# --------------------------------------------------------------------------
# rendering in the driver's output format

RELIABLE, RESENT, ACKF, ZEROC = 0x40, 0x20, 0x10, 0x80


def render(events, steps):
    out = []
    h_of = {}   # (epoch, id) -> h of the tracked future
    for e, st in zip(events, steps):
        for (h, pid, ep, t) in st["tracked"]:
            h_of[(ep, pid)] = h
        toks = []
        outs = st["outs"]
        i = 0
        while i < len(outs):
            o = outs[i]
            if o["k"] == "pkt":
                if not o["dst_ok"] or o["acks"]:
                    toks.append("pkt?%r" % (o,))
                elif o["name"] == "PacketAck":
                    if o["flags"] == 0 and len(o.get("ids", ())) == 1:
                        toks.append("ack:%d:%d" % (o["id"], o["ids"][0]))
                    else:
                        toks.append("ack?%r" % (o,))
                elif o["name"] == "ChatFromViewer" and o["flags"] == (RELIABLE | RESENT):
                    toks.append("rsd:%d:%d:%d" % (h_of.get((st["epoch"], o["id"]), -1), o["id"], st["state"]["now"]))
                elif o["name"] == "ChatFromViewer" and o["flags"] in (0, RELIABLE):
                    toks.append("snd:%d:%d" % (o["id"], 1 if o["flags"] else 0))
                else:
                    toks.append("pkt?%r" % (o,))
                i += 1
            else:
                grp = outs[i:i + 3]
                if (len(grp) == 3 and all(g["k"] == "dsp" and g["lvl"] == o["lvl"] and g["id"] == o["id"] and g["rel"] == o["rel"]
                                          for g in grp) and tuple(g["tag"] for g in grp) == SUB_TAGS):
                    toks.append("dsp:%s:%d:%d" % (o["lvl"], o["id"], o["rel"]))
                    i += 3
                else:
                    toks.append("dsp?%s:%s:%d:%d" % (o["lvl"], o["tag"], o["id"], o["rel"]))
                    i += 1
        if st["exc"]:
            want = {"R": "PermissionError", "Q": "ValueError"}.get(e[0])
            toks.append("raise" if st["exc"] == want else "EXC:" + st["exc"])
        if e[0] == "D":
            toks.append("disc")
        s = st["state"]
        u = " ".join(("%d:%d:%d:%d" % x[1:]) if x[0] else "dir?%r" % (x,) for x in s["u"])
        out.append("%s / %s / %s / next=%d now=%d u=[%s] seen=[%s]" % (
            " ".join(toks), " ".join("trk:%d:%d:%d:%d" % t for t in st["tracked"]), " ".join(st["completions"]),
            s["next"], s["now"], u, " ".join(map(str, s["seen"]))))
    return out


# --------------------------------------------------------------------------
# the property itself, evaluated on the implementation's observations (no model involved)

def oracle(cfg, events, steps):
    """returns None or a dict describing the first clause of C19 that fails"""
    w, tries0, every = cfg

    def fail(clause, cls, step, **kw):
        d = {"clause": clause, "class": cls, "case": case_text(cfg, events), "step": step}
        d.update(kw)
        return d

    # -- always_ack / dispatch
    subs = [(l, t) for l in ("S", "R") for t in SUB_TAGS]
    disp = {s: [] for s in subs}        # reliable ids delivered to each subscriber, in order
    arrived = set()
    for i, (e, st) in enumerate(zip(events, steps)):
        pkts = [o for o in st["outs"] if o["k"] == "pkt"]
        acks = [o for o in pkts if o["name"] == "PacketAck"]
        dsp = [o for o in st["outs"] if o["k"] == "dsp"]
        acc = e[0] == "R" and e[1] and not e[2]
        if acc and e[3]:
            if len(acks) != 1 or acks[0].get("ids") != [e[4]] or not acks[0]["dst_ok"]:
                return fail("every received reliable packet is acknowledged by exactly one PacketAck carrying its id",
                            "reliable packet not acked exactly once", i, got=[a.get("ids") for a in acks])
        elif acks:
            return fail("PacketAcks are only sent for received reliable packets", "spurious PacketAck", i,
                        got=[a.get("ids") for a in acks])
        cnt = collections.Counter((o["lvl"], o["tag"]) for o in dsp)
        if not acc:
            if dsp:
                return fail("only accepted packets are dispatched", "dispatch of a rejected packet", i)
            continue
        pid, rel = e[4], e[3]
        if any(o["id"] != pid or o["rel"] != rel for o in dsp):
            return fail("the dispatched message is the received one", "wrong message dispatched", i)
        for s in subs:
            if not rel:
                if cnt[s] != 1:
                    return fail("unreliable packets are always delivered, once per subscriber", "unreliable packet not delivered exactly once",
                                i, subscriber="%s/%s" % s, count=cnt[s])
            else:
                if cnt[s] > 1:
                    return fail("a reliable packet is delivered to each subscriber at most once", "reliable packet delivered twice in one reception",
                                i, subscriber="%s/%s" % s, count=cnt[s])
                if cnt[s] == 1:
                    d = disp[s]
                    lo = max(0, len(d) - w)
                    if pid in d[lo:]:
                        return fail("within the dedupe window a reliable id is delivered to each subscriber at most once",
                                    "retransmitted reliable packet delivered again", i, subscriber="%s/%s" % s, id=pid,
                                    window=w)
                    d.append(pid)
                elif pid not in arrived:
                    return fail("the first arrival of a reliable id is delivered to every subscriber", "reliable packet never delivered",
                                i, subscriber="%s/%s" % s, id=pid)
        if rel:
            arrived.add(pid)

    # -- ids_increase
    nxt = 0
    for i, (e, st) in enumerate(zip(events, steps)):
        if e[0] == "D":
            nxt = 0
        for o in st["outs"]:
            if o["k"] == "pkt" and not (o["flags"] & RESENT):
                if o["id"] != nxt:
                    return fail("packet ids issued between two disconnects increase by exactly 1 from 0", "packet id sequence broken",
                                i, got=o["id"], want=nxt)
                nxt += 1

    # -- completes_iff: a reference monitor per future
    mon = {}      # h -> dict(id, last, tries, status, epoch)
    now = 0
    epoch = 0
    for i, (e, st) in enumerate(zip(events, steps)):
        exp_resent = []
        k = e[0]
        if k == "T":
            now += e[1]
        elif k == "D":
            epoch += 1
            for m in mon.values():
                if m["status"] == "P":
                    m["live"] = False
        elif k == "R" and e[1] and not e[2]:
            eff = set(e[5]) | set(e[6])
            for h in sorted(mon):
                m = mon[h]
                if m["status"] == "P" and m["live"] and m["id"] in eff:
                    m["status"] = "D"
        elif k == "X":
            for h in sorted(mon):
                m = mon[h]
                if m["status"] == "P" and m["live"] and now - m["last"] >= every:
                    m["tries"] -= 1
                    if m["tries"] == 0:
                        m["status"] = "F"
                    else:
                        m["last"] = now
                        exp_resent.append(m["id"])
        for (h, pid, ep, t) in st["tracked"]:
            mon[h] = {"id": pid, "last": now, "tries": tries0, "status": "P", "live": True}
        want_track = (k == "S" and e[1] and e[2]) or (k == "Q" and e[1])
        if bool(st["tracked"]) != bool(want_track):
            return fail("exactly the reliable sends we originate get a completion future", "future not created / created wrongly", i)
        got_resent = [o["id"] for o in st["outs"] if o["k"] == "pkt" and (o["flags"] & RESENT)]
        if got_resent != exp_resent:
            return fail("a pending reliable send is retransmitted (RESENT) on each due resend while budget remains, and never "
                        "after it completed, failed or the circuit was disconnected", "retransmission schedule wrong", i,
                        got=got_resent, want=exp_resent)
        fs = st["state"]["futs"]
        for h, m in mon.items():
            got = fs[h] if h < len(fs) else "?"
            if got != m["status"]:
                return fail("a reliable send completes exactly when an ack with its id arrives (appended or PacketAck) and "
                            "fails exactly when its retry budget is spent", "future state wrong", i, future=h, id=m["id"],
                            got=got, want=m["status"])
    return None


# --------------------------------------------------------------------------
# case generation

def R(rel, pid, acks=(), pa=(), known=1, banned=0):
    return ("R", known, banned, rel, pid, tuple(acks), tuple(pa))


def corpus_cases():
    d = os.path.join(VERIF, "corpus", "C19")
    if not os.path.isdir(d):
        return
    for f in sorted(os.listdir(d)):
        if f.endswith(".json"):
            j = json.load(open(os.path.join(d, f)))
            cfg, ev = parse_case(j["case"])
            yield "corpus", cfg, ev


def structured_cases():
    real = (W_REAL, T_REAL, E_REAL)
    # retry budget on the real configuration: 9 retransmissions, then TimeoutError; late ack ignored
    ev = [("Q", 1)]
    for _ in range(11):
        ev += [("T", 3000), ("X",)]
    ev += [R(0, 1, acks=(0,))]
    yield "budget", real, ev
    # cadence: not due at 2999 ms, due at 3000
    yield "budget", real, [("Q", 1), ("T", 2999), ("X",), ("T", 1), ("X",), ("T", 2999), ("X",), R(0, 9, pa=(0,)), ("T", 5000), ("X",)]
    # ack forms
    yield "acks", real, [("Q", 1), ("Q", 1), ("S", 1, 1), R(0, 5, acks=(1,)), R(0, 6, pa=(0, 2)), R(1, 7, acks=(0, 1, 2)), ("T", 3000), ("X",)]
    # PacketAck whose tail carries further appended acks: ids only in the tail / only in the body / in both
    yield "acks", real, [("Q", 1), ("Q", 1), ("Q", 1), R(0, 5, acks=(1,), pa=(0,)), ("T", 3000), ("X",), R(1, 6, acks=(2,), pa=(2, 9)), ("T", 3000), ("X",)]
    yield "acks", real, [("Q", 1), R(0, 5, acks=(0,), pa=(4,)), ("T", 3000), ("X",)]
    # eviction with the real, unpatched deque(maxlen=1000)
    ev = [R(1, i) for i in range(1, 1002)] + [R(1, 2), R(1, 1), R(1, 1), R(1, 3)]
    yield "window1000", real, ev
    ev = [R(1, i) for i in range(1, 1001)] + [R(1, 1), R(1, 1000), R(1, 1001), R(1, 1), R(1, 2)]
    yield "window1000", real, ev
    # disconnect: ids restart, pending futures stay pending, no retransmission
    yield "disc", real, [("Q", 1), ("S", 0, 1), ("D",), ("T", 3000), ("X",), ("Q", 1), R(0, 1, acks=(0,)), ("S", 1, 0), ("D",), ("S", 0, 0)]
    # rejected packets
    yield "reject", real, [("Q", 1), R(1, 4, acks=(0,), known=0), R(1, 4, acks=(0,), banned=1), ("Q", 0), R(1, 4, acks=(0,))]


ARRIVAL_ALPHABET = [R(1, 1), R(1, 2), R(1, 3), R(0, 1)]
MIXED_ALPHABET = [
    ("Q", 1), ("S", 1, 0), R(0, 5, acks=(0,)), R(0, 5, pa=(1,)), R(0, 5, pa=(0, 1)), R(1, 1, acks=(1,)), R(1, 1),
    ("X",), ("T", 3000), ("T", 1500), ("D",),
    # a PacketAck datagram that ALSO carries appended acks: both lists count (body-only id, tail-only id)
    R(0, 5, acks=(0,), pa=(1,)), R(1, 2, acks=(1,), pa=(7,)),
]


def exhaustive_cases(ctx):
    da = ctx.pick(6, 7)
    for n in range(1, da + 1):
        for t in itertools.product(ARRIVAL_ALPHABET, repeat=n):
            yield "exh-arrivals", (2, 2, 3000), list(t)
    dm = ctx.pick(4, 5)
    for n in range(1, dm + 1):
        for t in itertools.product(MIXED_ALPHABET, repeat=n):
            yield "exh-mixed", (2, 2, 3000), list(t)


def random_case(rng):
    real = rng.random() < 0.25
    cfg = (W_REAL, T_REAL, E_REAL) if real else (rng.choice((0, 1, 2, 3, 5)), rng.choice((1, 2, 3)), rng.choice((3000, 3000, 1000)))
    n = rng.randrange(5, 60)
    ids = rng.choice((3, 5, 8))
    ev = []
    sent = 0     # rough guess of ids we issued, to aim acks
    for _ in range(n):
        r = rng.random()
        if r < 0.30:
            rel = 1 if rng.random() < 0.75 else 0
            acks = tuple(rng.randrange(0, max(1, sent + 1)) for _ in range(rng.choice((0, 0, 1, 2))))
            ev.append(R(rel, rng.randrange(1, ids + 1), acks=acks))
        elif r < 0.40:
            pa = tuple(rng.randrange(0, max(1, sent + 1)) for _ in range(rng.choice((1, 1, 2, 3))))
            tail = tuple(rng.randrange(0, max(1, sent + 1)) for _ in range(rng.choice((0, 0, 1, 2))))
            ev.append(R(1 if rng.random() < 0.2 else 0, rng.randrange(1, ids + 1), acks=tail, pa=pa))
        elif r < 0.45:
            ev.append(R(rng.randrange(2), rng.randrange(1, ids + 1), acks=(rng.randrange(0, sent + 1),),
                        known=rng.randrange(2), banned=rng.randrange(2)))
        elif r < 0.60:
            ev.append(("Q", 1 if rng.random() < 0.9 else 0))
            sent += 1
        elif r < 0.68:
            ev.append(("S", rng.randrange(2), rng.randrange(2)))
            sent += 1
        elif r < 0.82:
            ev.append(("T", rng.choice((3000, 3000, 1000, 2999, 1, 6000, cfg[2]))))
        elif r < 0.97:
            ev.append(("X",))
        else:
            ev.append(("D",))
            sent = 0
        if ev[-1][0] == "R" and ev[-1][3]:
            sent += 1
    return "random-real" if real else "random-small", cfg, ev


def gen_cases(ctx):
    yield from corpus_cases()
    yield from structured_cases()
    yield from exhaustive_cases(ctx)
    for _ in range(ctx.pick(1500, 25000)):
        yield random_case(ctx.rng)


# --------------------------------------------------------------------------

@contextlib.contextmanager
def impl():
    im = Impl()
    try:
        yield im
    finally:
        im.close()


def suite_pings(ctx):
    """the endpoint's own housekeeping traffic must not disturb the clauses: StartPingCheck packets (answered by the region's
    coroutine handler with a CompletePingCheck) with any OldestUnacked, interleaved with reliable arrivals and their duplicates.
    Impl-level oracle (no model): every reliable reception is acked exactly once, every reliable id is delivered to each observer
    exactly once (the real window of 1000 is never reached), however pings fall in between."""
    res = CorrResult(suite="reliable arrivals interleaved with StartPingCheck housekeeping (impl-level oracle)",
                     rule="EVERY sequence up to length %d over {reliable ChatFromSimulator id 1,2,3; StartPingCheck with OldestUnacked "
                          "0, 2, 9} on the real configuration (window 1000), the event loop run after every datagram so that coroutine "
                          "handlers execute: one PacketAck per reliable reception, each reliable id delivered to each of the six observers "
                          "exactly once" % ctx.pick(4, 5))
    n = nt = 0
    seen = set()
    letters = [("R", 1), ("R", 2), ("R", 3), ("P", 0), ("P", 2), ("P", 9)]
    with impl() as im:
        M, B = im.Message, im.Block
        for k in range(1, ctx.pick(4, 5) + 1):
            for seq in itertools.product(letters, repeat=k):
                if not any(x[0] == "R" for x in seq):
                    continue
                n += 1
                if any(x[0] == "P" for x in seq):
                    nt += 1
                im.new_circuit((W_REAL, T_REAL, E_REAL))
                delivered = collections.Counter()
                ping_id = 0
                bad = None
                for i, (kind, arg) in enumerate(seq):
                    im.log = []
                    if kind == "R":
                        msg = M("ChatFromSimulator", B("ChatData", fill_missing=True))
                        msg.packet_id = arg
                        msg.send_flags |= im.PacketFlags.RELIABLE
                    else:
                        ping_id += 1
                        msg = M("StartPingCheck", B("PingID", PingID=ping_id % 256, OldestUnacked=arg))
                        msg.packet_id = 5000 + ping_id
                    try:
                        data = im.ser.serialize(msg)

                        async def go():
                            # inside a running loop, as in production: coroutine handlers are scheduled as tasks
                            im.proto.datagram_received(data, ADDR)
                            for _ in range(4):
                                await asyncio.sleep(0)
                        im.loop.run_until_complete(go())
                    except Exception as ex:   # noqa
                        bad = ("no exception escapes datagram_received", "raised-" + type(ex).__name__, i)
                        break
                    if kind != "R":
                        continue
                    acks = 0
                    for item in im.log:
                        if item[0] == "pkt":
                            try:
                                m = im.de.deserialize(item[1])
                                if m.name == "PacketAck":
                                    acks += [b["ID"] for b in m["Packets"]].count(arg)
                            except Exception:
                                pass
                        elif item[0] == "dsp" and item[3] == arg:
                            delivered[(item[1], item[2], arg)] += 1
                    if acks != 1:
                        bad = ("every received reliable packet is acknowledged by exactly one PacketAck carrying its id",
                               "reliable packet not acked exactly once", i)
                        break
                    for lvl in ("S", "R"):
                        for tag in SUB_TAGS:
                            if delivered[(lvl, tag, arg)] != 1:
                                bad = ("a reliable packet's message is delivered to each subscriber exactly once however many times it is "
                                       "retransmitted (within the dedupe window)",
                                       "retransmitted reliable packet delivered again" if delivered[(lvl, tag, arg)] > 1 else "reliable packet never delivered", i)
                                break
                        if bad:
                            break
                    if bad:
                        break
                if bad and bad[1] not in seen:
                    seen.add(bad[1])
                    res.impl_violations.append({"clause": bad[0], "class": bad[1], "step": bad[2],
                                                "sequence": ["%s%d" % x for x in seq], "kind": "pings"})
    res.evaluations = n
    res.distinct_nontrivial = nt
    return res


def suite_inline_acks(ctx):
    """the peer's acknowledgement may arrive while send() for that very packet is still on the stack (a loopback or in-process
    transport answers synchronously): it counts like any other ack - the send is complete, nothing is retransmitted."""
    res = CorrResult(suite="acks delivered synchronously from inside the transport's send (impl-level oracle)",
                     rule="a transport that answers every RELIABLE datagram at once, from inside send_packet, with the peer's ack (as a "
                          "PacketAck or appended to another packet); 1..3 reliable sends through Circuit.send, then resend ticks past the "
                          "interval: no entry stays unacked, nothing is retransmitted")
    n = 0
    seen = set()
    with impl() as im:
        M, B = im.Message, im.Block
        for form in ("packetack", "appended"):
            for k in (1, 2, 3):
                n += 1
                c = im.new_circuit((W_REAL, T_REAL, E_REAL))
                sent_rel, resent = [], []
                orig_send = im.transport.send_packet
                state = {"busy": False, "pid": 9000}

                def send_packet(packet, _orig=orig_send):
                    _orig(packet)
                    try:
                        m = im.de.deserialize(packet.data)
                    except Exception:
                        return
                    if int(m.send_flags) & int(im.PacketFlags.RESENT):
                        resent.append(m.packet_id)
                    if m.reliable and not state["busy"]:
                        sent_rel.append(m.packet_id)
                        state["busy"] = True
                        try:
                            state["pid"] += 1
                            if form == "packetack":
                                a = M("PacketAck", B("Packets", ID=m.packet_id))
                            else:
                                a = M("ChatFromSimulator", B("ChatData", fill_missing=True))
                                a.acks = (m.packet_id,)
                                a.send_flags |= im.PacketFlags.ACK
                            a.packet_id = state["pid"]
                            im.proto.datagram_received(im.ser.serialize(a), ADDR)
                        finally:
                            state["busy"] = False
                im.transport.send_packet = send_packet
                bad = None
                try:
                    for _ in range(k):
                        c.send(im.out_message(1, 1))
                    left = [key[1] for key in c.unacked_reliable]
                    if left:
                        bad = ("a reliable send completes exactly when an acknowledgement carrying its packet ID arrives - also when it "
                               "arrives before send() has returned", "inline-ack-not-counted", left)
                    for _ in range(3):
                        im.clock.ms += 3000
                        c.resend_unacked()
                    if not bad and resent:
                        bad = ("an acknowledged reliable send is never retransmitted", "inline-ack-then-retransmitted", resent)
                except Exception as ex:   # noqa
                    bad = ("no exception escapes send/datagram_received", "inline-ack-raised-" + type(ex).__name__, [])
                finally:
                    im.transport.send_packet = orig_send
                if bad and bad[1] not in seen:
                    seen.add(bad[1])
                    res.impl_violations.append({"clause": bad[0], "class": bad[1], "ack_form": form, "sends": k, "ids": bad[2], "kind": "inline-acks"})
    res.evaluations = n
    res.distinct_nontrivial = n
    return res


def correspond(ctx):
    return [_correspond(ctx), suite_pings(ctx), suite_inline_acks(ctx)]


def _correspond(ctx):
    res = CorrResult(
        suite="client circuit: real HippoClientProtocol/Session/Region/Circuit vs extracted model, step by step",
        rule="corpus + structured cases (retry budget and 3.0 s cadence on the real configuration, both ack forms, eviction of the real "
             "unpatched deque(maxlen=1000) after 1001 distinct ids, disconnect, rejected datagrams) + EVERY sequence up to length %d over "
             "4 arrivals {reliable id 1,2,3, unreliable} and EVERY sequence up to length %d over a 13-letter alphabet (incl. PacketAck datagrams that also carry appended acks) of sends, acks in "
             "both forms, duplicates, ticks, resend calls and disconnect (window 2, budget 2 via patched deque/ReliableResendInfo) + seeded "
             "random sequences of 5-60 events (25%% on the real configuration). After every event the datagrams emitted (decoded by the "
             "real deserializer), subscriber invocations (3 subscribers at each of session and region level), completed futures and "
             "circuit state (packet_id_base, unacked_reliable, seen_reliable) are compared with the model, and the clauses of C19 are "
             "evaluated on the implementation's observations alone. non-trivial = case with at least one accepted reliable arrival or "
             "tracked send" % (ctx.pick(6, 7), ctx.pick(4, 5)))
    ctx.notes.append("small windows/budgets: circuit.seen_reliable replaced by deque(maxlen=W), ReliableResendInfo wrapped to start at "
                     "tries_left=T; clock: circuit.dt replaced by a fake module; futures on asyncio.new_event_loop(), callbacks fired with "
                     "run_until_complete(sleep(0)); no timers, no sockets")
    cases, lines, seen = [], [], set()
    dist = collections.Counter()
    for kind, cfg, ev in gen_cases(ctx):
        txt = case_text(cfg, ev)
        if txt in seen:
            continue
        seen.add(txt)
        cases.append((kind, cfg, ev))
        lines.append(txt)
        dist[kind] += 1
    model = ctx.run_driver(lines)
    nontriv = 0
    steps_total = 0
    viol_count, viol_classes = 0, set()
    with impl() as im:
        for (kind, cfg, ev), mline, txt in zip(cases, model, lines):
            steps = im.run(cfg, ev)
            steps_total += len(ev)
            got = render(ev, steps)
            want = mline.split(" ;; ")
            if got != want:
                k = next((i for i in range(min(len(got), len(want))) if got[i] != want[i]), min(len(got), len(want)))
                if len(res.disagreements) < 20:
                    res.disagreements.append({"case": txt, "kind": kind, "step": k,
                                              "impl": got[k] if k < len(got) else None,
                                              "model": want[k] if k < len(want) else None})
            v = oracle(cfg, ev, steps)
            if v:
                viol_count += 1
                if v["class"] not in viol_classes and len(viol_classes) < 6:
                    viol_classes.add(v["class"])
                    res.impl_violations.append(shrink(im, v))     # one shrunk witness per defect class
            if any(st["tracked"] for st in steps) or any(e[0] == "R" and e[1] and not e[2] and e[3] for e in ev):
                nontriv += 1
    res.evaluations = len(cases)
    res.distinct_nontrivial = nontriv
    res.distribution = dict(dist, steps=steps_total, cases_failing_the_property=viol_count)
    res.exhaustive = False
    res.samples = [{"kind": k, "case": case_text(c, e)[:300]} for k, c, e in cases[:3] + cases[len(cases) // 2:len(cases) // 2 + 2] + cases[-2:]]
    return res


def shrink(im, v):
    cfg, ev = parse_case(v["case"])
    changed = True
    while changed and len(ev) > 1:
        changed = False
        for i in range(len(ev)):
            t = ev[:i] + ev[i + 1:]
            w = oracle(cfg, t, im.run(cfg, t))
            if w and w["class"] == v["class"]:
                ev, v, changed = t, w, True
                break
    return v


def search(ctx, hints):
    with impl() as im:
        for h in hints:
            d = h.get("disagreement")
            if d and "case" in d:
                cfg, ev = parse_case(d["case"])
                v = oracle(cfg, ev, im.run(cfg, ev))
                if v:
                    return shrink(im, v)
        for kind, cfg, ev in gen_cases(ctx):
            v = oracle(cfg, ev, im.run(cfg, ev))
            if v:
                return shrink(im, v)
    return None


def replay(ctx, case):
    if case.get("kind") == "inline-acks":
        r = suite_inline_acks(ctx)
        return (True, r.impl_violations[0]) if r.impl_violations else (False, "holds")
    if case.get("kind") == "pings" or "case" not in case:
        r = suite_pings(ctx)
        for v in r.impl_violations:
            if v.get("class") == case.get("class"):
                return True, v
        return (True, r.impl_violations[0]) if r.impl_violations else (False, "holds")
    cfg, ev = parse_case(case["case"])
    with impl() as im:
        v = oracle(cfg, ev, im.run(cfg, ev))
    return (v is not None), (v or "holds")
