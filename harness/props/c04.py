"""C04 - packet-ID translation around injected packets (InjectionTracker).

Model: coq/theories/Inj/InjTracker.v.  A history is a list of ops
  "f<o>"  the endpoint's packet with its own ID o is forwarded
          (get_effective_id + track_seen, as ProxiedCircuit.prepare_message does)
  "i"     the proxy injects (gen_injectable_id)
  "d<o>"  the proxy drops the endpoint's packet o (mark_dropped)
run from InjectionTracker(p0, maxlen).
"""
import glob
import json
import logging
import os
from collections import deque

from harness.common.framework import CorrResult, VERIF

PROP_ID = "C04"
COQ_PROPS = "theories/Props/C04.v"
EXTRACT = ("theories/Extract/ExC04.v", "c04_driver.ml")
EXTRACT_Z = True
TRUSTED = [
    "modelled by hand: hippolyzer/lib/proxy/circuit.py InjectionTracker (gen_injectable_id, get_effective_id, "
    "get_original_id, track_seen, was_injected, mark_dropped/was_dropped); Python ints as Z (the class does not "
    "handle packet-ID wrap-around, neither does the model), deque(maxlen) as a list with explicit left eviction, "
    "ValueError as None, logging omitted",
    "a forwarded packet is the pair of calls get_effective_id + track_seen exactly as in "
    "ProxiedCircuit.prepare_message (the full prepare_message path is driven in C05)",
    "ghost components evicted/seen of the theorems are not in the code; the harness oracle recomputes them from the "
    "values returned by gen_injectable_id and the current deque contents",
    "new-packet theorems (Inj/InjFresh.v: C04_new_packet_fresh, C04_new_packet_refines, "
    "C04_pbase_is_newest_plus_injections) are about the model function eff, which is compared with get_effective_id for "
    "every ID in 0..base+2 (this range always contains hmax+1 and hmax+2, hmax <= base) at every distinct transition; their "
    "ghosts hmax (highest endpoint ID forwarded, last_seen_id when none) and |jall| (injections ever made) are not in the "
    "code and are not extracted: the harness recomputes them from the history and the values returned by "
    "gen_injectable_id and checks the theorems' closed forms on the real tracker (theorem_gap)",
]

NEG_INF = -10 ** 9


def _cls():
    from hippolyzer.lib.proxy.circuit import InjectionTracker
    return InjectionTracker


def _clone(t):
    n = object.__new__(type(t))
    for k, v in t.__dict__.items():
        n.__dict__[k] = deque(v, maxlen=v.maxlen) if isinstance(v, deque) else v
    return n


def _call(f, *a):
    try:
        return f(*a)
    except ValueError:
        return "X"
    except Exception as e:  # anything else is an observation, never a crash
        return "EXC:" + type(e).__name__


class Run:
    """the real tracker + the ghost history the property talks about"""
    __slots__ = ("t", "jall", "log", "wires", "outs", "hi")

    def __init__(self, maxlen, p0, _t=None):
        self.t = _t if _t is not None else _cls()(p0, maxlen)
        self.hi = p0         # highest endpoint ID forwarded so far, last_seen_id when none (hmax of Inj/InjFresh.v)
        self.jall = []       # every ID returned by gen_injectable_id
        self.log = []        # distinct (o, w) forwarded pairs
        self.wires = set()   # every wire ID emitted
        self.outs = []

    def copy(self):
        r = Run.__new__(Run)
        r.t = _clone(self.t)
        r.jall = list(self.jall)
        r.log = list(self.log)
        r.wires = set(self.wires)
        r.outs = list(self.outs)
        r.hi = self.hi
        return r

    def state(self):
        t = self.t
        return (t._packet_id_base, t._injection_base, repr(list(t.injections)), repr(list(t.dropped)))

    def max_evicted(self):
        # through the public query only (the tracker's own containers may change representation): an injected ID is still
        # in the window iff was_injected() says so
        ev = [j for j in self.jall if _call(self.t.was_injected, j) is not True]
        return max(ev) if ev else NEG_INF

    def apply(self, op):
        """apply one op on the real tracker; returns an impl-level violation dict or None.
        Checks exactly the clauses of C04 (forward clauses only for wire IDs above every
        injection that aged out of the window, like the reverse clause of the statement)."""
        t = self.t
        if op[0] == "i":
            w = _call(t.gen_injectable_id)
            self.outs.append(w)
            if not isinstance(w, int):
                return {"clause": "gen_injectable_id raised", "got": w}
            if w in self.wires:
                return {"clause": "injected ID was already used on the wire", "class": "injected-id-not-fresh", "id": w}
            self.jall.append(w)
            self.wires.add(w)
        elif op[0] == "d":
            _call(t.mark_dropped, int(op[1:]))
            self.outs.append(0)
        else:
            o = int(op[1:])
            w = _call(t.get_effective_id, o)
            self.outs.append(w)
            if not isinstance(w, int):
                return {"clause": "get_effective_id raised", "got": w}
            # a NEW packet (endpoint ID above last_seen_id and above every ID forwarded so far - the in-order case) must get a
            # wire ID that was never used before: not by any injected packet, aged out of the window or not, and above every
            # wire ID already emitted for a forwarded packet (the forward clauses of the statement carry no aged-out
            # qualifier).  Exactly the hypotheses and clauses of theorem C04_new_packet_fresh.
            if o > self.hi:
                if w in self.jall:
                    return {"clause": "translation of a new packet yields an ID the proxy used for an injected packet",
                            "class": "new-id-hits-injected", "o": o, "w": w}
                if w in self.wires or any(w <= w1 for (_o1, w1) in self.log):
                    return {"clause": "translation of a new packet is order-preserving / injective w.r.t. every packet forwarded before",
                            "class": "new-id-not-fresh", "o": o, "w": w}
            _call(t.track_seen, w)
            self.wires.add(w)
            self.hi = max(self.hi, o)
            mev = self.max_evicted()
            if w > mev:
                if w in self.jall:
                    return {"clause": "translation yields an ID the proxy used for an injected packet",
                            "class": "effective-id-hits-injected", "o": o, "w": w}
                for (o1, w1) in self.log:
                    if w1 <= mev:
                        continue
                    if (o1 < o) != (w1 < w) or (o1 == o) != (w1 == w):
                        cl = "stable" if o1 == o else ("injective" if w1 == w else "strictly order-preserving")
                        return {"clause": "translation is %s across time" % cl, "class": "forward-translation-" + cl.split()[-1],
                                "first": [o1, w1], "second": [o, w]}
            if (o, w) not in self.log:
                self.log.append((o, w))
        # reverse clause, for every forwarded wire ID newer than any aged-out injection
        mev = self.max_evicted()
        for (o1, w1) in self.log:
            if w1 <= mev or w1 in self.jall:
                continue
            back = _call(t.get_original_id, w1)
            if back != o1:
                return {"clause": "translating a wire ID back yields the endpoint's original ID",
                        "class": "reverse-translation-wrong", "o": o1, "w": w1, "got": back}
        return None

    def theorem_gap(self):
        """theorems C04_pbase_is_newest_plus_injections and C04_new_packet_fresh (closed form) evaluated on the REAL tracker
        with the ghosts recomputed here: base = hmax + |injections ever made| and the next new IDs translate to
        ID + |injections ever made| (> base).  Not a clause of the property: reported as model-vs-implementation
        disagreement, never as an impl violation."""
        t = self.t
        b, n = t._packet_id_base, len(self.jall)
        if not isinstance(b, int):
            return None
        if b != self.hi + n:
            return {"kind": "theorem-vs-impl", "theorem": "C04_pbase_is_newest_plus_injections", "base": b, "hmax": self.hi,
                    "injections_ever": n}
        for k in (1, 2):
            w = _call(t.get_effective_id, self.hi + k)
            if w != self.hi + k + n:
                return {"kind": "theorem-vs-impl", "theorem": "C04_new_packet_fresh (closed form)", "o": self.hi + k, "got": w,
                        "expected": self.hi + k + n}
        return None

    def check_state(self, qlo, qhi):
        """same-time clauses for every ID of the query range (above the aged-out injections)"""
        t = self.t
        mev = self.max_evicted()
        prev = None
        for q in range(qlo, qhi + 1):
            w = _call(t.get_effective_id, q)
            if not isinstance(w, int):
                return {"clause": "get_effective_id raised", "got": w, "o": q}
            if prev is not None and not prev < w:
                return {"clause": "translation is strictly order-preserving (same time)",
                        "class": "forward-translation-order-preserving", "o": q, "w": w, "w_prev": prev}
            prev = w
            if w > mev:
                if w in self.jall:
                    return {"clause": "translation yields an ID the proxy used for an injected packet (same time)",
                            "class": "effective-id-hits-injected", "o": q, "w": w}
                back = _call(t.get_original_id, w)
                if back != q:
                    return {"clause": "translating a wire ID back yields the endpoint's original ID (same time)",
                            "class": "reverse-translation-wrong", "o": q, "w": w, "got": back}
        return None

    def observe(self, qlo, qhi):
        """the line the model driver prints for this history"""
        t = self.t
        s = " ".join(str(x) for x in self.outs)
        s += " | %s %s | %s | %s |" % (t._packet_id_base, t._injection_base,
                                        " ".join(map(str, t.injections)), " ".join(map(str, t.dropped)))
        for q in range(qlo, qhi + 1):
            s += " %d:%s:%s:%d:%d" % (q, _call(t.get_effective_id, q), _call(t.get_original_id, q),
                                      1 if _call(t.was_injected, q) is True else 0,
                                      1 if _call(t.was_dropped, q) is True else 0)
        return " ".join(s.split())


def check_history(maxlen, p0, ops, qrange=True):
    r = Run(maxlen, p0)
    for i, op in enumerate(ops):
        v = r.apply(op)
        if v is None and qrange:
            v = r.check_state(0, r.t._packet_id_base + 2 if isinstance(r.t._packet_id_base, int) else 8)
        if v is not None:
            v = dict(v)
            v.update({"maxlen": maxlen, "p0": p0, "ops": list(ops[:i + 1])})
            return v
    return None


def shrink(v):
    ops = list(v["ops"])
    changed = True
    while changed:
        changed = False
        for i in range(len(ops)):
            t = ops[:i] + ops[i + 1:]
            w = check_history(v["maxlen"], v["p0"], t)
            if w is not None:
                ops, v, changed = list(w["ops"]), w, True
                break
    return v


ALPHABET = ("next", "skip", "old0", "old1", "old2", "inject")


def child_ops(hi, with_drop=False):
    out = ["f%d" % (hi + 1), "f%d" % (hi + 2)]
    for k in (0, 1, 2):
        if hi - k >= 1:
            out.append("f%d" % (hi - k))
    out.append("i")
    if with_drop and hi >= 1:
        out.append("d%d" % hi)
    return out


def walk(maxlen, depth, drop_depth, visit):
    """DFS over all histories up to `depth`; visit(run_before, op, run_after, ops) -> stop?"""
    root = Run(maxlen, 0)
    stack = [(root, 0, [])]
    while stack:
        r, hi, ops = stack.pop()
        if len(ops) >= depth:
            continue
        for op in child_ops(hi, with_drop=len(ops) < drop_depth):
            r2 = r.copy()
            v = r2.apply(op)
            ops2 = ops + [op]
            if visit(r, op, r2, ops2, v):
                return
            if v is None:
                hi2 = max(hi, int(op[1:])) if op[0] == "f" else hi
                stack.append((r2, hi2, ops2))


def corpus_cases():
    out = []
    for p in sorted(glob.glob(os.path.join(VERIF, "corpus", "C04", "*.json"))):
        try:
            c = json.load(open(p))
            out.append((os.path.basename(p), c))
        except Exception:
            pass
    return out


def random_history(rng, n):
    hi = 0
    ops = []
    p_inj = rng.choice((0.1, 0.3, 0.6))
    for _ in range(n):
        r = rng.random()
        if r < p_inj:
            ops.append("i")
        elif r < p_inj + 0.05 and hi >= 1:
            ops.append("d%d" % rng.randrange(max(1, hi - 3), hi + 1))
        else:
            k = rng.random()
            if k < 0.6:
                o = hi + 1
            elif k < 0.7:
                o = hi + rng.randrange(2, 5)
            else:
                o = max(1, hi - rng.choice((0, 1, 2, 3, 5, 8, 13)))
            hi = max(hi, o)
            ops.append("f%d" % o)
    return ops


def correspond(ctx):
    logging.disable(logging.CRITICAL)
    try:
        return _correspond(ctx)
    finally:
        logging.disable(logging.NOTSET)


def _correspond(ctx):
    depth = ctx.pick(7, 8)
    maxlens = (0, 1, 2, 3)
    res = CorrResult(
        suite="InjectionTracker impl vs extracted model + impl-level C04 oracle",
        rule="corpus first; then EVERY history over {fwd next, fwd next+1 (gap), fwd newest-k (k=0,1,2: resend/out-of-order), "
             "inject, drop newest (first 3 steps)} up to length %d from InjectionTracker(0, maxlen) for maxlen in {0,1,2,3} "
             "(window eviction reached), the C04 clauses evaluated on the real tracker after every step of every history; "
             "every distinct (tracker state, op) transition met is also run on the extracted model and the whole observable "
             "(outputs of every op, base/injection-base/both deques, and get_effective_id/get_original_id/was_injected/"
             "was_dropped for every ID in 0..base+2) is compared; plus seeded random histories (length %d, maxlen in "
             "{1..6,10000}); after every step of every history (exhaustive and random) the closed forms of the new-packet "
             "theorems are evaluated on the real tracker with recomputed ghosts: base = hmax + |injections ever made|, "
             "get_effective_id(hmax+k) = hmax+k+|injections ever made| for k=1,2 (a failure is reported as a "
             "model-vs-implementation disagreement); non-trivial = distinct transition whose history contains an injection"
             % (depth, ctx.pick(120, 300)))
    lines, impl_obs, keys = [], [], []
    dist = {"corpus": 0, "exhaustive_histories": 0, "distinct_transitions": 0, "random_histories": 0,
            "theorem_checks": 0, "theorem_checks_after_eviction": 0}
    nontriv = 0

    def add_case(maxlen, p0, ops, r):
        qhi = (r.t._packet_id_base if isinstance(r.t._packet_id_base, int) else 8) + 2
        lines.append("%d %d 0 %d %s" % (maxlen, p0, qhi, " ".join(ops)))
        impl_obs.append(r.observe(0, qhi))
        keys.append({"maxlen": maxlen, "p0": p0, "ops": list(ops)})

    def tgap(r, maxlen, ops, n=None):
        # the new-packet theorems (Inj/InjFresh.v) evaluated on the real tracker at this state
        dist["theorem_checks"] += 1
        if len(r.jall) > len(r.t.injections):
            dist["theorem_checks_after_eviction"] += 1
        g = r.theorem_gap()
        if g is not None and len(res.disagreements) < 20:
            res.disagreements.append(dict(g, maxlen=maxlen, p0=0, ops=list(ops if n is None else ops[:n])))

    # corpus
    for name, c in corpus_cases():
        v = check_history(c["maxlen"], c.get("p0", 0), c["ops"])
        if v:
            res.impl_violations.append(v)
        r = Run(c["maxlen"], c.get("p0", 0))
        for op in c["ops"]:
            r.apply(op)
        add_case(c["maxlen"], c.get("p0", 0), c["ops"], r)
        dist["corpus"] += 1
        nontriv += 1

    # exhaustive histories
    for m in maxlens:
        seen_tr = set()

        def visit(r, op, r2, ops2, v, m=m, seen_tr=seen_tr):
            nonlocal nontriv
            dist["exhaustive_histories"] += 1
            if v is None:
                tgap(r2, m, ops2)
                key = (r.state(), op)
                if key not in seen_tr:
                    seen_tr.add(key)
                    v = r2.check_state(0, r2.t._packet_id_base + 2)
                    add_case(m, 0, ops2, r2)
                    dist["distinct_transitions"] += 1
                    if "i" in ops2:
                        nontriv += 1
            if v is not None:
                v = dict(v)
                v.update({"maxlen": m, "p0": 0, "ops": list(ops2)})
                if len(res.impl_violations) < 20:
                    res.impl_violations.append(v)
                return len(res.impl_violations) >= 20
            return False
        walk(m, depth, 3, visit)

    # random long histories
    rng = ctx.rng
    for i in range(ctx.pick(150, 5000)):
        m = rng.choice((1, 2, 3, 4, 5, 6, 10000))
        ops = random_history(rng, ctx.pick(120, 300))
        r = Run(m, 0)
        bad = None
        for j, op in enumerate(ops):
            bad = r.apply(op)
            if bad is not None:
                bad = dict(bad)
                bad.update({"maxlen": m, "p0": 0, "ops": ops[:j + 1]})
                break
            tgap(r, m, ops, j + 1)
        if bad is None:
            bad = r.check_state(0, r.t._packet_id_base + 2)
            if bad is not None:
                bad = dict(bad)
                bad.update({"maxlen": m, "p0": 0, "ops": ops})
        if bad is not None and len(res.impl_violations) < 20:
            res.impl_violations.append(bad)
        if i < ctx.pick(150, 2000):
            add_case(m, 0, ops, r)
            nontriv += 1
        dist["random_histories"] += 1

    model = ctx.run_driver(lines)
    for ln, mo, io, k in zip(lines, model, impl_obs, keys):
        if " ".join(mo.split()) != io:
            if len(res.disagreements) < 20:
                res.disagreements.append(dict(k, model=mo[:300], impl=io[:300]))
    # shrink what the oracle found (and de-duplicate by class)
    shrunk, classes = [], set()
    for v in res.impl_violations:
        w = shrink(v)
        c = (w.get("class"), w["maxlen"], tuple(w["ops"]))
        if c not in classes:
            classes.add(c)
            shrunk.append(w)
    res.impl_violations = shrunk
    res.evaluations = len(lines) + dist["exhaustive_histories"] + dist["random_histories"]
    ctx.notes.append(
        "proved (Qed, closed, all histories, every window size incl. 0): invariant, same-time strict monotonicity/injectivity, "
        "inverse laws, gen freshness; for a NEW packet (ID above last_seen_id and above every ID forwarded so far) with NO aged-out "
        "qualifier: wire ID = ID + number of injections ever made > base, never an injected ID (aged out or not), never on the "
        "wire before, strictly above the wire ID of every earlier forwarded packet, equals the specification E over ALL injections "
        "and translates back (C04_new_packet_fresh, C04_new_packet_refines, C04_pbase_is_newest_plus_injections); the start-value "
        "hypothesis is necessary (C04_new_packet_below_start_refuted)")
    ctx.notes.append(
        "still qualified by above_evicted (necessarily: C04_unqualified_stability_refuted): stability / avoidance / reversal for an "
        "OLD ID re-translated after an injection aged out (resend or out-of-order packet)")
    ctx.notes.append(
        "tied: model vs real tracker on outputs, all four state fields and eff/orig/was_injected/was_dropped for 0..base+2 at %d "
        "distinct transitions + %d random histories; new-packet closed forms evaluated on the real tracker at %d states (%d after "
        "at least one injection aged out); oracle-only: no clause of the statement (each oracle clause has a theorem: unqualified "
        "for new packets, under the aged-out qualifier for old IDs)"
        % (dist["distinct_transitions"], min(dist["random_histories"], ctx.pick(150, 2000)), dist["theorem_checks"],
           dist["theorem_checks_after_eviction"]))
    res.distinct_nontrivial = nontriv
    res.distribution = dist
    res.exhaustive = False
    pairs = list(zip(lines, impl_obs))
    inter = [p for p in pairs if p[0].count(" i") >= 2 and " f" in p[0] and not p[0].startswith("0 ")]
    res.samples = [{"case": l, "impl": o[:200]} for l, o in pairs[:2] + inter[len(inter) // 3:len(inter) // 3 + 2] + inter[-2:]]
    return res


def search(ctx, hints):
    logging.disable(logging.CRITICAL)
    try:
        for h in hints:
            d = h.get("disagreement")
            if d and "ops" in d:
                v = check_history(d["maxlen"], d.get("p0", 0), d["ops"])
                if v:
                    return shrink(v)
        for name, c in corpus_cases():
            v = check_history(c["maxlen"], c.get("p0", 0), c["ops"])
            if v:
                return shrink(v)
        found = []
        for m in (1, 2, 3, 0):
            def visit(r, op, r2, ops2, v, m=m):
                if v is None:
                    v = r2.check_state(0, r2.t._packet_id_base + 2)
                if v is not None:
                    v = dict(v)
                    v.update({"maxlen": m, "p0": 0, "ops": list(ops2)})
                    found.append(v)
                    return True
                return False
            walk(m, ctx.pick(7, 8), 0, visit)
            if found:
                return shrink(found[0])
        rng = ctx.rng
        for i in range(2000):
            m = rng.choice((1, 2, 3, 4, 5, 6, 10000))
            v = check_history(m, 0, random_history(rng, 150), qrange=False)
            if v:
                return shrink(v)
        return None
    finally:
        logging.disable(logging.NOTSET)


def replay(ctx, case):
    logging.disable(logging.CRITICAL)
    try:
        v = check_history(case["maxlen"], case.get("p0", 0), case["ops"])
        return (v is not None), (v or "all C04 clauses hold on this history")
    finally:
        logging.disable(logging.NOTSET)
